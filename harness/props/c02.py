"""
C02 — Independent components never perturb each other's random streams (partial: which components a function reads and
writes is validated dynamically, not proved from Python).

correspond(): (1) the registry of distributions (sim.dists.dists: ordered path -> dist) of a perturbed sim must be the
                  base registry with the new component's entries inserted under fresh prefixes (Model/Footprint.lean
                  addComponent via Drivers/C02.lean), every base dist keeping its path and its seed = sha224(path)+rand_seed;
              (2) with Dist.rvs wrapped, every base dist must be called with the same (jump index, size) sequence in the
                  base and the perturbed run;
              (3) each module's start_step advances only the dists it owns.
search():     differential on the real code: results, agent states and edge tables of every base module, base vs
              perturbed, exactly — for sampling-only interventions / analyzers with arbitrary own dists at any list
              position, ghost diseases (beta 0 or independent), zero-coverage / zero-efficacy vaccination, reordered diseases.
"""
import json
import numpy as np
from harness import impl, snap
from harness.props import c04, c02_graph

PROP = 'C02'
GENERATED = ['SeedFacts', 'GlobalReads']
DRIVER = 'Drivers/C02.lean'
DRIVER_MODULES = ['StarsimModel.Model.Footprint', 'StarsimModel.Model.Proto', 'StarsimModel.Model.Search']
SEARCH_DRIVER = 'Drivers/C02Search.lean'
RULE = ('generated base configurations x null perturbations {sampling-only intervention / analyzer with 0-5 own dists of random families at any '
        'list position, ghost disease (beta=0 or independent, no deaths), zero-coverage or zero-efficacy vaccination, permutation of diseases}; '
        'distinct = distinct (base, perturbation); non-trivial = the perturbation adds at least one distribution or module')
TRUSTED = ["sciris' classification of Python objects (IterObj.check_iter_type / iteritems: which objects are iterable, their keyed children) is used as is by the graph exporter; the traversal (order, memo, skips, traces, flattening) is modelled in Model/Search.lean and compared with sc.search on every real object graph"]
ASSUMPTIONS = ['Owns / Ignores (which components a function writes / reads) are hypotheses of the frame theorems; the correspondence and the differential oracle test them on the perturbation families']

FAMS = ['random', 'normal', 'expon', 'bernoulli', 'poisson', 'uniform', 'lognorm_ex', 'randint', 'weibull', 'gamma', 'histogram']


def make_ghost(kind, fams, name, hold_ref=False, reset_pars=False, in_pars=False, own_dt=None):
    """ A sampling-only intervention / analyzer / connector: reads state, draws from its own dists, writes nothing shared.
        With hold_ref it keeps references to the modules it reads (a common way to write a read-only component). """
    import starsim as ss
    base = dict(intervention=ss.Intervention, analyzer=ss.Analyzer, connector=ss.Connector)[kind]

    class Ghost(base):
        def __init__(self, fams, **kw):
            super().__init__(**kw)
            self.fams = fams
            self.mine = [getattr(ss, f)(**impl.DIST_PARS[f]) for f in fams]
            self.seen = 0
            self.hold_ref = hold_ref
            self.reset_pars = reset_pars
            if in_pars:      # a component that declares a distribution among its parameters
                self.define_pars(p_sample=ss.bernoulli(p=0.3), dur_mine=ss.dur(3))
        def init_pre(self, sim):
            super().init_pre(sim)
            if self.hold_ref:
                self.watched_diseases = [d for d in sim.diseases()]
                self.watched_network = sim.networks[0] if len(sim.networks) else None
                self.watched_people = sim.people
        def step(self):
            ppl = self.sim.people
            au = ppl.auids
            for i, d in enumerate(self.mine):
                if self.reset_pars and self.fams[i] not in ('histogram', 'choice', 'random', 'rand_raw'):
                    d.set(**impl.DIST_PARS[self.fams[i]])      # time-varying parameters: set before every draw (here: same values)
                d.rvs(au if i % 2 == 0 else au[: max(1, len(au) // 3)])
            if 'p_sample' in self.pars:
                self.pars.p_sample.rvs(au)
            for dis in self.sim.diseases():
                if hasattr(dis, 'infected'):
                    self.seen += int(np.count_nonzero(dis.infected))   # only reads
            # a reader that post-processes WHAT IT WAS HANDED, in place (sorting for a median, masking, normalising): the arrays the
            # read API returns (`Arr.values`, `arr[uids]`) are the reader's own copies; the simulation's state must not move
            arrs = [ppl.age, ppl.female, ppl.alive] + [st for dis in self.sim.diseases() for st in getattr(dis, 'states', [])][:12]
            for arr in arrs:
                try:
                    v = arr.values
                    w = arr[au[: max(1, len(au) // 2)]]
                except Exception:
                    continue
                for x in (v, w):
                    if not isinstance(x, np.ndarray) or not x.flags.writeable or x.size == 0: continue
                    if x.dtype == bool: x[:] = ~x
                    else:
                        x.sort()
                        np.multiply(x, 0, out=x, casting='unsafe')
                self.seen += int(v.size)
    kw = dict(name=name)
    if own_dt is not None: kw['dt'] = own_dt
    return Ghost(fams, **kw)


BASE_VX = dict(type='sir_vx', prob=0.4, efficacy=0.6, leaky=True, name='vxmain')


def gen_base(rng):
    # (bases may contain modules that read the global NumPy generator: a null component must not touch that stream either)
    cfg = impl.gen_sim_config(rng, small=True, allow_global_readers=rng.random() < 0.5)
    if rng.random() < 0.35 and cfg.get('unit') == 'year' and cfg.get('dt') in (1.0, 0.5, 0.25) and float(cfg['start']).is_integer():
        # a base with a real vaccination programme against `sir`
        cfg['diseases'] = [dict(type='sir', beta=0.3, init_prev=0.1, dur_inf=5, p_death=0)] + [d for d in cfg['diseases'] if d['type'] != 'sir']
        cfg['interventions'] = [dict(BASE_VX)]
    return cfg


def gen_pert(rng, cfg):
    kinds = ['ghost_intervention', 'ghost_analyzer', 'ghost_connector', 'extra_disease', 'extra_disease']
    if cfg.get('unit') == 'year' and cfg.get('dt') in (1.0, 0.5, 0.25) and float(cfg['start']).is_integer():
        kinds.append('zero_vx')   # routine delivery windows are given in years and must lie on the time grid
    if len(cfg['diseases']) >= 2: kinds.append('permute_diseases')
    free_nets = [t for t in ('static', 'mf', 'erdosrenyi') if t not in {n['type'] for n in cfg['networks']}]
    if free_nets: kinds += ['ghost_network', 'ghost_network']
    kind = rng.choice(kinds)
    p = dict(kind=kind)
    if kind == 'ghost_network':
        # a contact network over which nothing is transmitted (beta 0 for every disease), anywhere in the list
        p['net'] = rng.choice(free_nets); p['first'] = rng.random() < 0.6
    if kind.startswith('ghost') and kind != 'ghost_network':
        p['fams'] = [rng.choice(FAMS) for _ in range(rng.randint(0, 5))]
        p['name'] = rng.choice(['ghost', 'zz_probe', 'a_probe'])
        p['second'] = rng.random() < 0.3      # add two of them
        p['hold_ref'] = rng.random() < 0.6    # keeps references to the modules it reads
        p['reset_pars'] = rng.random() < 0.5  # calls dist.set(...) before every draw
        p['in_pars'] = rng.random() < 0.5     # declares a distribution / a duration among its own parameters
        p['own_dt'] = rng.choice([None, None, 2.0, 0.5]) if cfg.get('unit') == 'year' else None   # its own timestep (multiple of the sim's)
        if p['own_dt']: p['own_dt'] = p['own_dt'] * cfg['dt']
    elif kind == 'extra_disease':
        p['type'] = rng.choice(['sis', 'sir'])
        p['name'] = rng.choice(['ghostdis', 'aaa', 'zzz'])
        p['beta'] = rng.choice([0, 0, 0.2])
        p['first'] = rng.random() < 0.5
    elif kind == 'zero_vx':
        p['mode'] = rng.choice(['zero_prob', 'zero_efficacy'])
        p['before'] = rng.random() < 0.6     # listed before / after an existing vaccination programme of the base
    return p


def build(cfg, pert=None):
    import starsim as ss
    cfg = json.loads(json.dumps(cfg))
    for n in cfg.get('networks', []):      # mixing pools serve the base's first disease, whatever is added to the list later
        if n['type'] == 'agepools' and 'diseases' not in n and cfg.get('diseases'):
            n['diseases'] = cfg['diseases'][0].get('name', cfg['diseases'][0]['type'])
    ei, ea, ec = [], [], []
    if cfg.get('interventions'):   # routine delivery windows must lie on the time grid
        cfg['interventions'] = [dict(i, start_year=cfg['start'], end_year=cfg['start'] + cfg['dur']) for i in cfg['interventions']]
    if pert:
        k = pert['kind']
        if k == 'ghost_intervention':
            ei.append(make_ghost('intervention', pert['fams'], pert['name'], pert.get('hold_ref'), pert.get('reset_pars'), pert.get('in_pars'), pert.get('own_dt')))
            if pert.get('second'): ei.append(make_ghost('intervention', pert['fams'][::-1], pert['name'] + '2', pert.get('hold_ref'), pert.get('reset_pars'), pert.get('in_pars'), pert.get('own_dt')))
        elif k == 'ghost_analyzer':
            ea.append(make_ghost('analyzer', pert['fams'], pert['name'], pert.get('hold_ref'), pert.get('reset_pars'), pert.get('in_pars'), pert.get('own_dt')))
        elif k == 'ghost_connector':
            ec.append(make_ghost('connector', pert['fams'], pert['name'], pert.get('hold_ref'), pert.get('reset_pars'), pert.get('in_pars'), pert.get('own_dt')))
        elif k == 'extra_disease':
            d = dict(type=pert['type'], name=pert['name'], beta=pert['beta'], init_prev=0.1)
            if pert['type'] == 'sir': d['p_death'] = 0
            if pert.get('beta_unit'):      # the same nominal number per another unit of time: another per-step value
                import starsim as ss
                d['beta'] = ss.beta(pert['beta'], unit=pert['beta_unit'])
            cfg['diseases'] = ([d] + cfg['diseases']) if pert['first'] else (cfg['diseases'] + [d])
        elif k == 'zero_vx':
            if not any(d['type'] == 'sir' for d in cfg['diseases']):
                cfg['diseases'] = cfg['diseases'] + []   # vaccination needs `sir`; handled by caller
            win = dict(start_year=cfg['start'], end_year=cfg['start'] + cfg['dur'])
            z = dict(type='sir_vx', name='vxnull', leaky=True, **win)
            z.update(dict(prob=0.0, efficacy=0.9) if pert['mode'] == 'zero_prob' else dict(prob=0.7, efficacy=0.0))
            have = list(cfg.get('interventions', []))
            cfg['interventions'] = ([z] + have) if pert.get('before', True) else (have + [z])
        elif k == 'permute_diseases':
            cfg['diseases'] = cfg['diseases'][::-1]
        elif k == 'ghost_network':
            g = dict(static=dict(type='static', n_contacts=4), mf=dict(type='mf', duration=3), erdosrenyi=dict(type='erdosrenyi', p=0.05))[pert['net']]
            for d in cfg['diseases']:
                b = d.get('beta', 0.1)
                d['beta'] = {n['type']: b for n in cfg['networks']}
                d['beta'][pert['net']] = 0
            if pert.get('base_only'):       # the base of the comparison: the same per-network spelling of beta, without the ghost
                for d in cfg['diseases']: d['beta'].pop(pert['net'])
            else:
                cfg['networks'] = ([g] + cfg['networks']) if pert['first'] else (cfg['networks'] + [g])
    over = dict(connectors=ec) if ec else {}
    return impl.build_sim(cfg, extra_interventions=ei, extra_analyzers=ea, **over)


def base_modules(sim):
    return [m.name for m in sim.modules]


def run_recorded(cfg, pert):
    """ run with Dist.rvs wrapped; returns (sim, {trace: [(ind, size)…]}, own-jump violations) """
    import starsim as ss
    D = ss.Dist
    orig_rvs, orig_jump_dt, orig_init = D.rvs, ss.Dists.jump_dt, ss.Dists.init
    calls = {}
    foreign = []
    graph = {}
    def wi(self, obj=None, base_seed=None, sim=None, force=False):
        # the object graph handed to sc.search by the simulation's own Dists.init (the first call: Sim.init_dists)
        o = obj if obj is not None else self.obj
        if 'G' not in graph and isinstance(o, ss.Sim):
            try: graph['G'] = c02_graph.export(o)
            except Exception as e: graph['G'] = None; graph['err'] = f'{type(e).__name__}: {e}'
        return orig_init(self, obj=obj, base_seed=base_seed, sim=sim, force=force)
    def w(self, n=1, reset=False):
        ind = int(self.ind)
        out = orig_rvs(self, n, reset=reset)
        sz = self._size
        try: sz = int(np.prod(sz))
        except Exception: sz = -1
        if sz: calls.setdefault(self.trace, []).append((ind, sz))
        return out
    def wj(self, ti=None, force=False):
        # Dists.jump_dt called from Module.start_step: every dist jumped must be owned by that module
        owner = self.obj
        for d in self.dists.values():
            if isinstance(owner, ss.Module) and d.module is not owner:
                foreign.append((getattr(owner, 'name', '?'), d.trace))
        return orig_jump_dt(self, ti=ti, force=force)
    D.rvs = w; ss.Dists.jump_dt = wj; ss.Dists.init = wi
    try:
        sim = build(cfg, pert); sim.init()
        sim._c02_graph = graph.get('G'); sim._c02_registry_at_init = list(sim.dists.dists.keys())
        sim.run()
    finally:
        D.rvs = orig_rvs; ss.Dists.jump_dt = orig_jump_dt; ss.Dists.init = orig_init
    return sim, calls, foreign


def applicable(cfg, pert):
    if pert['kind'] == 'zero_vx' and not any(d['type'] == 'sir' and d.get('name', 'sir') == 'sir' for d in cfg['diseases']):
        return False
    return True


def fresh_prefix(key, base_parts):
    """ the shortest token prefix of `key` that is a prefix of no base key (None if the whole key is one) """
    parts = key.split('_')
    for n in range(1, len(parts)):
        pre = parts[:n]
        if not any(bp[:n] == pre for bp in base_parts):
            return pre
    return None


def blocks(base_keys, pert_keys):
    """ maximal runs of consecutive new entries of the perturbed registry that live under ONE fresh prefix:
        [(position in the growing registry, prefix tokens, [keys])] """
    bset = set(base_keys)
    base_parts = [k.split('_') for k in base_keys]
    out = []; cur = None
    for i, k in enumerate(pert_keys):
        if k in bset:
            cur = None; continue
        pre = fresh_prefix(k, base_parts)
        if pre is None:
            pre = k.split('_')[:-1]       # (no fresh prefix: reported as a clash by the model)
        if cur is None or cur[1] != pre:
            cur = [i, pre, []]; out.append(cur)
        cur[2].append(k)
    return out


def correspond(ctx):
    modulo = 10**9
    lines = []; plan = []; searches = []
    n = ctx.budget(12, 80)
    for _ in range(n):
        cfg = gen_base(ctx.rng)
        pert = gen_pert(ctx.rng, cfg)
        if not applicable(cfg, pert):
            cfg['diseases'] = [dict(type='sir', beta=0.3, init_prev=0.1, dur_inf=5, p_death=0)] + [d for d in cfg['diseases'] if d['type'] != 'sir']
        try:
            sa, ca, fa = run_recorded(cfg, dict(pert, base_only=True) if pert['kind'] == 'ghost_network' else None)
            sb, cb, fb = run_recorded(cfg, pert)
        except Exception as e:
            ctx.broke('correspondence', 'C02.run', f'{type(e).__name__}: {e}', data=dict(cfg=cfg, pert=pert)); continue
        ka = list(sa.dists.dists.keys()); kb = list(sb.dists.dists.keys())
        ctx.case(('pert', json.dumps(cfg, sort_keys=True), json.dumps(pert, sort_keys=True)), len(kb) != len(ka) or pert['kind'] in ('permute_diseases', 'zero_vx', 'extra_disease'),
                 sample=dict(kind='registry+calls', perturbation=pert, base_dists=len(ka), perturbed_dists=len(kb)))
        ctx.count('pert:' + pert['kind'])
        searches.append(dict(cfg=cfg, pert=pert, base=sa, perturbed=sb))
        # (3) ownership of jumps
        for who, tr in fa + fb:
            ctx.broke('correspondence', 'C02.jump_own', f'start_step of `{who}` advanced `{tr}`, a distribution it does not own', data=dict(cfg=cfg, pert=pert)); break
        # seeds from paths
        for k in kb:
            exp = c04.str2int_ref(k, modulo) + sb.pars.rand_seed
            if sb.dists.dists[k].seed != exp:
                ctx.broke('correspondence', 'C02.seed', f'`{k}`: seed {sb.dists.dists[k].seed} is not sha224(path) mod 1e9 + rand_seed = {exp}', data=dict(cfg=cfg, pert=pert)); break
        if pert['kind'] == 'permute_diseases':
            if sorted(ka) != sorted(kb):
                ctx.broke('correspondence', 'C02.registry', f'reordering diseases renamed distributions: {sorted(set(ka) ^ set(kb))[:4]}', data=dict(cfg=cfg, pert=pert))
        else:
            # (1) registry = base + inserted blocks under fresh prefixes (model)
            bl = blocks(ka, kb)
            seq = ['reg ' + ' '.join(ka)] if ka else ['reg']
            for pos, pre, keys in bl:
                subs = ['_'.join(k.split('_')[len(pre):]) or '.' for k in keys]
                seq.append(f"add {pos} {'_'.join(pre)} " + ' '.join(subs))
            plan.append(dict(cfg=cfg, pert=pert, off=len(lines), n=len(seq), kb=kb, ka=ka))
            lines += seq
        # (2) per-dist call sequences of the base dists
        for tr in ka:
            if ca.get(tr, []) != cb.get(tr, []):
                x, y = ca.get(tr, []), cb.get(tr, [])
                i = next((i for i, (p, q) in enumerate(zip(x, y)) if p != q), min(len(x), len(y)))
                ctx.broke('correspondence', 'C02.calls', f'`{tr}` is called with a different (jump index, size) sequence once `{pert["kind"]}` is added: call {i}: {x[i] if i < len(x) else None} vs {y[i] if i < len(y) else None}',
                          data=dict(cfg=cfg, pert=pert, trace=tr))
                break
        ctx.count('base_dists_compared', len(ka))
    correspond_search(ctx, searches)
    out = ctx.drive(DRIVER, lines) if lines else []
    for p in plan:
        res = out[p['off']:p['off'] + p['n']]
        if 'bad-op' in res:
            ctx.broke('correspondence', 'C02.registry', 'driver rejected the registry operations', data=dict(cfg=p['cfg'], pert=p['pert'])); continue
        last = res[-1]
        if p['n'] > 1:
            status, reg = last.split(' ', 1) if ' ' in last else (last, '')
            got = [] if reg in ('', '-') else reg.split(',')
            if any(r.startswith('clash') for r in res[1:]):
                ctx.broke('correspondence', 'C02.registry', f'a new component reuses the path prefix of an existing distribution: {res[1:]}', data=dict(cfg=p['cfg'], pert=p['pert']))
        else:
            got = [] if last in ('', '-') else last.split(',')
        if got != p['kb']:
            ctx.broke('correspondence', 'C02.registry', f"the perturbed registry is not the base registry with the new component's entries inserted: first difference at {next((i for i,(a,b) in enumerate(zip(got,p['kb'])) if a!=b), min(len(got),len(p['kb'])))}",
                      data=dict(cfg=p['cfg'], pert=p['pert'], model=got[:40], real=p['kb'][:40]))


def added_objects(G, sim_b, sim_a):
    """ the objects of the perturbed graph that the base simulation does not have: what is no longer reachable from the
        root once the edges INTO the added modules are cut — edges whose target is an added module instance and edges keyed
        by an added module's name (sim.pars[name] is module.pars, sim.results[name] is module.results).  That the rest IS
        the base simulation is not assumed: check (d) compares it with the base simulation's own registry. """
    base_names = {m.name for m in sim_a.modules}
    added = [m for m in sim_b.modules if m.name not in base_names and id(m) in G['ids']]
    roots = {G['ids'][id(m)] for m in added}; names = {m.name for m in added}
    nodes = G['nodes']
    old = set(); st = [G['root']]
    while st:
        x = st.pop()
        if x in old: continue
        old.add(x); st.extend(c for k, c in nodes[x][2] if c not in roots and k not in names)
    # objects from which no distribution can be reached (library singletons such as scipy's `lognorm_gen`, dtypes, plain
    # containers) are irrelevant to the names of distributions and may be met first from either side: they are counted
    # with the added objects, i.e. the theorem is applied with `old` = base objects that lead to a distribution
    rev = {}
    for x, (_, _, kids) in enumerate(nodes):
        for _, c in kids: rev.setdefault(c, []).append(x)
    bearing = set(); st = [i for i, n in enumerate(nodes) if n[1]]
    while st:
        x = st.pop()
        if x in bearing: continue
        bearing.add(x); st.extend(rev.get(x, []))
    old = (old & bearing) | {G['root']}
    return sorted(set(range(len(nodes))) - old), roots


def correspond_search(ctx, searches):
    """ Model/Search.lean against sciris on the REAL object graphs, and the hypotheses / instances of C02_search_frame:
        (a) the model's search of the perturbed graph names the distributions exactly as sc.search did (order included);
        (b) the search is safe (every reference from an added object back to an old iterable one is already memoised);
        (c) the search of the graph without the added objects finds the old distributions under the same names;
        (d) and those are the names in the base simulation's own registry. """
    lines = []; plan = []
    for c in searches:
        sb, sa = c['perturbed'], c['base']
        G = getattr(sb, '_c02_graph', None)
        data = dict(cfg=c['cfg'], pert=c['pert'])
        if G is None:
            ctx.broke('correspondence', 'C02.search', 'the object graph of the simulation could not be exported', data=data); continue
        new, roots = added_objects(G, sb, sa)
        fuel = 4 * sum(len(n[2]) for n in G['nodes']) + 10
        seq = c02_graph.to_lines(G) + ['new ' + ' '.join(map(str, new)), f'search 0 {fuel}', f'safe 0 {fuel}', f'sub 0 {fuel}', f'registry 0 {fuel}']
        plan.append(dict(c=c, off=len(lines), n=len(seq), new=set(new), n_roots=len(roots), nodes=len(G['nodes'])))
        lines += seq
    out = ctx.drive(SEARCH_DRIVER, lines) if lines else []
    def esc(s): return ''.join(ch if (ch.isalnum() or ch in '_.-') else '%%%04x' % ord(ch) for ch in s)
    def parse(l):
        head, _, rest = l.partition(' | ')
        return head, [(x.rsplit(':', 1)[0], int(x.rsplit(':', 1)[1])) for x in rest.split()]
    for p in plan:
        c = p['c']; data = dict(cfg=c['cfg'], pert=c['pert'])
        res = out[p['off']:p['off'] + p['n']]
        if len(res) < p['n'] or 'bad-op' in res:
            ctx.broke('correspondence', 'C02.search', 'driver rejected the object graph', data=data); continue
        h1, found = parse(res[-4]); safe = res[-3]; h2, sub = parse(res[-2])
        reg = [x.rsplit(':', 1)[0] for x in res[-1].split()]
        real_b = [esc(k) for k in c['perturbed']._c02_registry_at_init]; real_a = [esc(k) for k in c['base']._c02_registry_at_init]
        ctx.count('search_graphs'); ctx.count('search_nodes', p['nodes']); ctx.count('search_added_objects', len(p['new']))
        if 'final=1' not in h1 or 'final=1' not in h2:
            ctx.broke('correspondence', 'C02.search', f'the model search did not finish within its fuel ({h1} / {h2})', data=data); continue
        if reg != real_b:
            i = next((i for i, (a, b) in enumerate(zip(reg, real_b)) if a != b), min(len(reg), len(real_b)))
            ctx.broke('correspondence', 'C02.search', f'the model of sc.search names the distributions differently from the code: entry {i}: model {reg[i:i+2]} vs code {real_b[i:i+2]} ({len(reg)} vs {len(real_b)} entries)', data=data); continue
        if [n for n, _ in found] != reg: ctx.count('search_flatten_collisions')
        if c['pert']['kind'] == 'permute_diseases' or not p['new']: continue
        ctx.count('search_frames')
        if safe != '1':
            ctx.broke('correspondence', 'C02.search-safe', 'the search follows a reference from an added object to an old object that has not been processed yet: '
                      'the old object (and the distributions in it) is found under the added component\'s path (hypothesis of C02_search_frame fails)', data=data)
        if sub != [(n, i) for n, i in found if i not in p['new']]:
            ctx.broke('correspondence', 'C02.search-frame', 'the search without the added objects does not find the old distributions under the same names in the same order', data=data)
        if [n for n, _ in sub] != real_a:
            i = next((i for i, (a, b) in enumerate(zip([n for n, _ in sub], real_a)) if a != b), min(len(sub), len(real_a)))
            ctx.broke('correspondence', 'C02.search-base', f'the perturbed simulation without its added objects is not the base simulation: old distribution {i} is named {[n for n, _ in sub][i:i+1]} there and {real_a[i:i+1]} in the base', data=data)


def oracle(cfg, pert):
    """ real code only: base modules' results / states / edges identical with and without the perturbation """
    a = build(cfg, dict(pert, base_only=True) if pert['kind'] == 'ghost_network' else None); a.init(); a.run()
    b = build(cfg, pert); b.init(); b.run()
    mods = base_modules(a) + ['__people__', '__sim__']
    sa = snap.everything(a, mods); sb = snap.everything(b, mods)
    if pert['kind'] == 'zero_vx':
        pass
    d = snap.diff(sa, sb, keys=sorted(sa))
    if d:
        return f"adding `{pert['kind']}` ({ {k: v for k, v in pert.items() if k != 'kind'} }) changed a base component: {d}"
    return None


def search(ctx):
    for it in range(ctx.budget(12, 100)):
        cfg = gen_base(ctx.rng)
        pert = gen_pert(ctx.rng, cfg)
        if it < 2:
            # always exercise: a base WITH a vaccination programme, a null programme listed before / after it
            cfg = dict(cfg, unit='year', dt=1.0, start=2000, dur=6 + it)
            cfg['diseases'] = [dict(type='sir', beta=0.3, init_prev=0.1, dur_inf=5, p_death=0)] + [d for d in cfg['diseases'] if d['type'] != 'sir']
            cfg['interventions'] = [dict(BASE_VX)]
            pert = dict(kind='zero_vx', mode=['zero_prob', 'zero_efficacy'][it], before=True)
        if it in (2, 3):
            # always exercised: a base that consumes the process-global NumPy stream (crude births, odd contact counts) and a
            # sampling-only component whose SciPy-sampled distributions get their parameters re-set before every draw
            cfg = dict(n_agents=150, rand_seed=100 + it, unit='year', dt=1.0, start=2000, dur=6,
                       diseases=[dict(type='sis', beta=0.3, init_prev=0.1, dur_inf=5, waning=0.05)],
                       networks=[dict(type='random', n_contacts=5, dur=0)],
                       demographics=[dict(type='births', birth_rate=40), dict(type='deaths', death_rate=20)])
            pert = dict(kind=['ghost_intervention', 'ghost_analyzer'][it - 2], fams=['weibull', 'gamma', 'histogram', 'normal', 'expon'], name='ghost',
                        second=False, hold_ref=False, reset_pars=True, in_pars=(it == 3), own_dt=None)
        if it == 4:
            # always exercised: a network with zero transmissibility listed before two transmitting ones
            cfg = dict(n_agents=150, rand_seed=200 + ctx.rng.randint(0, 50), unit='year', dt=1.0, start=2000, dur=8,
                       diseases=[dict(type='sis', beta=0.3, init_prev=0.1, dur_inf=5, waning=0.05), dict(type='sir', beta=0.2, init_prev=0.1, dur_inf=4, p_death=0)],
                       networks=[dict(type='random', n_contacts=4, dur=0), dict(type='mf', duration=3)], demographics=[])
            pert = dict(kind='ghost_network', net='static', first=True)
        if not applicable(cfg, pert):
            cfg['diseases'] = [dict(type='sir', beta=0.3, init_prev=0.1, dur_inf=5, p_death=0)] + [d for d in cfg['diseases'] if d['type'] != 'sir']
        try:
            msg = oracle(cfg, pert)
        except Exception as e:
            ctx.count('oracle_exceptions'); ctx.notes['last_oracle_exception'] = f'{type(e).__name__}: {e}'; continue
        ctx.count('oracle_runs'); ctx.count('oracle:' + pert['kind'])
        if msg:
            ctx.fail(dict(oracle='perturbation', kind=pert['kind']), msg, dict(kind='pert', cfg=cfg, pert=pert))
    search_zoo(ctx)


def search_zoo(ctx):
    """ every zoo configuration as a base, with one null perturbation each (rotating through the kinds that apply) """
    from harness import zoo
    kinds = ['ghost_intervention', 'ghost_analyzer', 'ghost_connector', 'ghost_network', 'extra_disease']
    for i, (name, cfg) in enumerate(zoo.configs()):
        kind = kinds[(i + ctx.seed) % len(kinds)]
        pert = dict(kind=kind)
        if kind == 'ghost_network':
            free = [t for t in ('static', 'mf', 'erdosrenyi') if t not in {n['type'] for n in cfg['networks']}]
            if not free or not cfg['diseases'] or any(isinstance(d.get('beta'), dict) or d['type'] not in ('sir', 'sis') for d in cfg['diseases']) or any(n['type'] == 'agepools' for n in cfg['networks']):
                kind = 'ghost_analyzer'; pert = dict(kind=kind)
            else:
                pert.update(net=free[0], first=(i % 2 == 0))
        if kind.startswith('ghost') and kind != 'ghost_network':
            pert.update(fams=[FAMS[(i + j) % len(FAMS)] for j in range(3)], name=['ghost', 'zz_probe', 'a_probe'][i % 3], second=False, hold_ref=(i % 2 == 0),
                        reset_pars=(i % 3 == 0), in_pars=(i % 4 == 0), own_dt=None)
        if kind == 'extra_disease':
            pert.update(type=['sis', 'sir'][i % 2], name=['ghostdis', 'aaa', 'zzz'][i % 3], beta=0, first=(i % 2 == 0))
            if not cfg['networks'] or any(isinstance(d.get('beta'), dict) for d in cfg['diseases']):
                pert = dict(kind='ghost_analyzer', fams=['normal', 'expon'], name='ghost', second=False, hold_ref=True, reset_pars=False, in_pars=False, own_dt=None)
        try:
            msg = oracle(cfg, pert)
        except Exception as e:
            ctx.count('zoo_exceptions'); ctx.notes['last_zoo_exception'] = f'{name} + {pert["kind"]}: {type(e).__name__}: {e}'; continue
        ctx.count('zoo_runs')
        if msg:
            ctx.fail(dict(oracle='perturbation', kind=pert['kind']), f'[zoo:{name}] ' + msg, dict(kind='pert', cfg=cfg, pert=pert))
    # always exercised, whatever the rotation gives: every base with mixing pools gets an unlisted zero-beta disease, first and last in the list
    # (the rotation alone made this depend on the seed and on the number of zoo entries: seeded change C024a was missed after the zoo grew)
    for name, cfg in zoo.configs(tags={'pools'}):
        if any(isinstance(d.get('beta'), dict) for d in cfg['diseases']): continue
        for first in (False, True):
            pert = dict(kind='extra_disease', type='sir', name='ghostdis', beta=0, first=first)
            try:
                msg = oracle(cfg, pert)
            except Exception as e:
                ctx.count('zoo_exceptions'); ctx.notes['last_zoo_exception'] = f'{name} + extra_disease: {type(e).__name__}: {e}'; continue
            ctx.count('zoo_runs'); ctx.count('zoo_pool_extra_disease')
            if msg:
                ctx.fail(dict(oracle='perturbation', kind=pert['kind']), f'[zoo:{name}] ' + msg, dict(kind='pert', cfg=cfg, pert=pert))

    # always exercised: for every network CLASS of the zoo, the first base on that class (sir / sis diseases only) gets an independent
    # extra disease listed FIRST, once inert (beta 0) and once transmitting with another beta than the base's: anything a route keeps
    # per disease (a cache of per-edge betas, a shared buffer) must be keyed by the disease, whatever the order
    seen = set()
    for name, cfg in zoo.configs():
        if not cfg.get('diseases') or any(isinstance(d.get('beta'), dict) or d['type'] not in ('sir', 'sis') for d in cfg['diseases']): continue
        types = tuple(sorted(n['type'] for n in cfg.get('networks', [])))
        if not types or types in seen or 'agepools' in types: continue
        seen.add(types)
        base_beta = cfg['diseases'][0].get('beta', 0.1)
        for beta in (0, 0.45, 'same-nominal'):
            pert = dict(kind='extra_disease', type='sis', name='aaa_first', beta=beta, first=True)
            if beta == 'same-nominal':
                # the SAME nominal beta as the base's first disease, but per month instead of per year (another per-step value):
                # anything a route keeps per disease must be keyed by the disease, not by a number that two diseases can share
                if not isinstance(base_beta, (int, float)) or cfg.get('unit', 'year') != 'year': continue
                pert.update(beta=base_beta, beta_unit='month')
            try:
                msg = oracle(cfg, pert)
            except Exception as e:
                ctx.count('zoo_exceptions'); ctx.notes['last_zoo_exception'] = f'{name} + extra_disease first: {type(e).__name__}: {e}'; continue
            ctx.count('zoo_runs'); ctx.count('zoo_netclass_extra_disease_first')
            if msg:
                ctx.fail(dict(oracle='perturbation', kind=pert['kind']), f'[zoo:{name}] ' + msg, dict(kind='pert', cfg=cfg, pert=pert))
    ctx.notes['zoo_network_classes_with_extra_disease_first'] = sorted('+'.join(t) for t in seen)


def replay(ctx, data):
    return oracle(data['cfg'], data['pert']) is not None
