"""
C07 — Every accepted time specification yields a consistent timeline.

correspond(): generated (unit, start, stop|dur, dt) specifications — numeric and date starts, integer / fractional /
              non-dividing dt, leap years, month ends, defaults, rejections — and module overrides (unit, dt, start,
              stop) are given to the REAL ss.Sim (sim.init()) and to the Lean model (Drivers/C07.lean); npts, timevec,
              yearvec, datevec (ISO), tvec, abstvec and the length of every Result of every module, or the error
              class, must agree.  The library contracts the model relies on (datetime ordinals, dateutil month
              stepping, sc.yeartodate / sc.datetoyear, float64 rounding) are validated by direct calls first.
search():     the property itself on the real code against the independent reference harness/props/c07_ref.py
              (fractions + datetime): first point, spacing, monotonicity, last point, grid length, agreement of the
              year / date / elapsed representations, result lengths, and the placement of module timelines on the
              sim's elapsed-time axis.  The stored witnesses of the known findings are replayed first.
zoo:          every entry of harness/zoo.py (whole runs of unusual-but-valid configurations) goes through both: the timeline
              of the sim and of every module (also nested ones) is observed after sim.init() and after sim.run(), compared
              with the Lean model (correspond_zoo) and judged by the reference (search_zoo); probes ride along on their own
              dt / start / stop (zoo_probes).
"""
import datetime as dtm, math
from fractions import Fraction as F
import json
from harness.props import c07_ref as ref, c07_scen as scen

PROP = 'C07'
GENERATED = ['TimeUnits', 'TimeDefaults']
DRIVER = 'Drivers/C07.lean'
DRIVER_MODULES = ['StarsimModel.Model.Timeline', 'StarsimModel.Model.Proto']
RULE = ('time specifications generated from VERIF_SEED in 9 families (numeric year / numeric day-week-month / unitless / '
        'date+year / date+calendar integer dt / date+calendar fractional dt / defaults / rejections / module overrides of '
        'unit, dt, start, stop in each kind of sim); distinct = distinct canonical specification; non-trivial = more than '
        'one time point or a rejection')
TRUSTED = ['datetime / dateutil.relativedelta / pandas.Timestamp calendar arithmetic and sc.yeartodate / sc.datetoyear / '
           'sc.inclusiverange / np.linspace / np.round as used by starsim: modelled in Model/Calendar.lean, Model/F64.lean and '
           'compared on every run, not verified',
           'IEEE-754 binary64: +, -, *, / are correctly rounded (Model/F64.lean assumes it; cross-checked against Lean Float and CPython floats on every run)']
ASSUMPTIONS = ['numbers are given to starsim as Python floats parsed from the decimal strings of the specification (dt always a float: '
               'an int dt makes tvec an integer array and make_abstvec then raises a NumPy casting error, which is a crash, not a wrong timeline)',
               'start and stop of one specification are of the same kind (both numbers or both dates); years between 1 and 9999',
               'dt > 0 on date timelines (sc.daterange does not terminate otherwise)',
               'values are compared after round_tvec in units of time_eps; a difference of one unit is counted as tolerance use, not as a divergence']

MICRO = 10**6
N_AGENTS = 12


# ---------------------------------------------------------------------------
# specification <-> Python values / protocol tokens

def is_date(s):
    return isinstance(s, str) and s.startswith('D')


def pyval(s, force_float=False):
    """ decimal string / D-date -> the Python value handed to starsim """
    if s is None: return None
    if is_date(s): return s[1:]
    if not force_float and s.lstrip('-').isdigit(): return int(s)
    return float(s)


def tok(s):
    """ protocol token: exact rational of the decimal string, D-date or none """
    if s is None: return 'none'
    if is_date(s): return s
    if s.lstrip('-').isdigit(): return s + 'i'          # handed to starsim as a Python int
    f = F(s)
    return f'{f.numerator}/{f.denominator}' if f.denominator != 1 else str(f.numerator)


def unit_tok(u):
    if u is None: return 'none'
    return '~' if u == '' else u


def sim_line(op, spec, variant=None):
    return ' '.join([op, unit_tok(spec.get('unit', '')), tok(spec.get('start')), tok(spec.get('stop')), tok(spec.get('dur')), tok(spec.get('dt', '1.0'))])


def mod_line(spec, mod):
    return sim_line('mod', spec) + ' ' + ' '.join(['_' if mod.get('unit') is None else unit_tok(mod.get('unit')), tok(mod.get('start')), tok(mod.get('stop')), tok(mod.get('dt'))])


class Hang(BaseException):
    """ the call did not return within the time limit """


def with_timeout(seconds, fn, *a, **kw):
    """ run fn; raise Hang if it does not return (SIGALRM; the check runs in the main thread) """
    import signal
    def handler(signum, frame): raise Hang(f'no result after {seconds} s')
    old = signal.signal(signal.SIGALRM, handler)
    signal.alarm(seconds)
    try:
        return fn(*a, **kw)
    finally:
        signal.alarm(0)
        signal.signal(signal.SIGALRM, old)


def err_kind(e):
    if isinstance(e, Hang): return 'E:Hang'
    if isinstance(e, KeyError): return 'E:Key'
    if isinstance(e, ValueError): return 'E:Value'
    if isinstance(e, TypeError): return 'E:Type'
    return 'E:Other'


def micro(x):
    return int(round(float(x) * MICRO))


def iso(d):
    return f'{d.year:04d}-{d.month:02d}-{d.day:02d}'


# ---------------------------------------------------------------------------
# the implementation side

def observe_time(t, results=None):
    import numpy as np
    tv = list(t.timevec)
    numeric = len(tv) > 0 and isinstance(tv[0], (int, float, np.integer, np.floating)) and not hasattr(tv[0], 'year')
    o = dict(npts=int(t.npts), numeric=numeric, unit=t.unit,
             timevec=[float(x) for x in tv] if numeric else None,
             yearvec=[float(x) for x in t.yearvec],
             datevec=[iso(d) for d in t.datevec],
             tvec=[float(x) for x in t.tvec],
             abstvec=None if t.abstvec is None else [float(x) for x in t.abstvec],
             start=t.start, stop=t.stop, dt=t.dt, reslens={})
    o['now'] = observe_now(t)
    o['copies'] = observe_copies(t, o)
    return o


def observe_plan(sim):
    """ where the integration loop places every function of every module on the sim's elapsed-time axis:
        {module name: {function name: [elapsed sim time of each scheduled call, in plan order]}} ('sim' and 'people' are the
        sim's own entries).  Read from the plan the loop will execute (sim.loop.plan), not from any Time object """
    plan = getattr(getattr(sim, 'loop', None), 'plan', None)
    out = {}
    if plan is None: return out
    for t, mod, fn in zip(list(plan['time']), list(plan['module']), list(plan['func_name'])):
        out.setdefault(str(mod), {}).setdefault(str(fn), []).append(float(t))
    return out


def attach_plan(out, sim, names=None):
    """ put each owner's part of the plan next to its observed timeline (o['plan']); a module of sim.modules that the plan does
        not mention at all gets an empty dict (judged), a nested module that is not scheduled by itself gets None (not judged) """
    plan = observe_plan(sim)
    top = {m.name for m in sim.modules}
    simplan = {}
    for key in ('sim', 'people'):
        for fn, ts in plan.get(key, {}).items(): simplan[f'{key}.{fn}'] = ts
    out['sim']['plan'] = simplan
    for name, o in out['mods'].items():
        o['plan'] = plan.get(name, {}) if name in top else None
    return out


def canon_point(x):
    """ a time point as a comparable plain value: ISO date or float """
    if hasattr(x, 'year') and hasattr(x, 'month'): return iso(x)
    return float(x)


def observe_now(t):
    """ Time.now() in every representation at a few values of the step counter (restored afterwards) """
    out = []
    n = int(t.npts)
    if n == 0: return out
    ti0 = t.ti
    try:
        for ti in sorted({0, n // 2, n - 1, n + 2}):
            t.ti = ti
            rec = dict(ti=ti)
            for key in (None, 'time', 'none', 'date', 'year', 'tvec', 'str'):
                try:
                    v = t.now(key)
                    rec[str(key)] = v if key == 'str' else canon_point(v)
                except Exception as e:
                    rec[str(key)] = f'raised {type(e).__name__}'
            try:
                t.now('abs'); rec['badkey'] = 'accepted'
            except ValueError: rec['badkey'] = 'E:Value'
            except Exception as e: rec['badkey'] = type(e).__name__
            out.append(rec)
    finally:
        t.ti = ti0
    return out


def observe_copies(t, o):
    """ pickle round trip and deep copy of an initialised Time: same vectors, dates are ss.date again """
    import pickle, sciris as sc, starsim as ss, numpy as np
    probs = []
    for how, mk in (('pickle', lambda: pickle.loads(pickle.dumps(t))), ('deepcopy', lambda: sc.dcp(t))):
        try:
            c = mk()
        except Exception as e:
            probs.append(f'{how} raised {type(e).__name__}: {str(e)[:80]}'); continue
        if int(c.npts) != o['npts']: probs.append(f'{how}: npts {c.npts} != {o["npts"]}')
        for name in ('timevec', 'yearvec', 'datevec', 'tvec', 'abstvec'):
            a, b = getattr(t, name), getattr(c, name)
            if (a is None) != (b is None) or (a is not None and [canon_point(x) for x in a] != [canon_point(x) for x in b]):
                probs.append(f'{how}: {name} differs')
        for name in ('start', 'stop', 'dt', 'unit', 'ti'):
            a, b = getattr(t, name), getattr(c, name)
            if (canon_point(a) if hasattr(a, 'year') else a) != (canon_point(b) if hasattr(b, 'year') else b): probs.append(f'{how}: {name} {a!r} -> {b!r}')
        for name in ('datevec', 'timevec'):
            vec = getattr(c, name)
            if vec is not None and len(vec) and hasattr(vec[0], 'year') and type(vec[0]) is not ss.date:
                probs.append(f'{how}: {name}[0] is {type(vec[0]).__name__}, not ss.date')
        if hasattr(t.start, 'year') and type(c.start) is not ss.date: probs.append(f'{how}: start is {type(c.start).__name__}, not ss.date')
    return probs


def result_lens(results, owner_t=None):
    """ length of every Result and of its timevec; with owner_t also whether the timevec entries are the owner's """
    import starsim as ss
    out = {}
    own = None if owner_t is None else [canon_point(x) for x in owner_t.timevec]
    for k, r in results.items():
        if isinstance(r, ss.Result):
            out[k] = len(r)
            tv = getattr(r, 'timevec', None)
            if tv is not None:
                out[k + '.timevec'] = len(tv)
                if own is not None and [canon_point(x) for x in tv] != own:
                    out[k + '.timevec-entries'] = -1       # marker: entries differ from the owner's timevec
    tv = getattr(results, 'timevec', None) if not isinstance(results, dict) else results.get('timevec')
    if own is not None and tv is not None and not isinstance(tv, ss.Result):
        try:
            if [canon_point(x) for x in tv] != own: out['<results>.timevec-entries'] = -1
        except Exception:
            pass
    return out


MODKINDS = ('sis', 'randomnet', 'births')


def make_module(kind, mod):
    import starsim as ss
    kw = {}
    if mod:
        if mod.get('unit') is not None: kw['unit'] = mod['unit']
        for k in ('start', 'stop'):
            if mod.get(k) is not None: kw[k] = pyval(mod[k])
        if mod.get('dt') is not None: kw['dt'] = pyval(mod['dt'])
        if mod.get('name') is not None: kw['name'] = mod['name']
    if kind == 'sis': return ss.SIS(**kw)
    if kind == 'randomnet': return ss.RandomNet(**kw)
    if kind == 'births': return ss.Births(**kw)
    raise ValueError(kind)


SHORT_LIMIT = 3     # for dt = 0, where the model predicts that the call never returns
TIME_LIMIT = 20     # seconds for one ss.Sim(...).init(); a constructor that does not return is a finding, not a stall


def run_impl(spec, mod=None, modkind='sis', extra=(), mod2=None):
    """ Build and initialise a real sim; returns dict(err=..) or dict(sim=obs, mods={name: obs}, modpars={name: pars}).
        mod2: a second instance of the same class (name 'second') with its own overrides """
    import starsim as ss
    kw = dict(n_agents=N_AGENTS, verbose=0)
    if spec.get('unit') is not None: kw['unit'] = spec['unit']
    for k in ('start', 'stop', 'dur', 'dt'):
        if spec.get(k) is not None: kw[k] = pyval(spec[k])
    mods = {}
    modpars = {}
    try:
        if mod is not None:
            kinds = [modkind] + [k for k in extra if k != modkind]
            for k in kinds:
                m = make_module(k, mod if k == modkind else None)
                mods[k] = [m]
                t = m.t
                modpars[m.name] = dict(unit=t.unit, start=t.start, stop=t.stop, dt=t.dt)
            if mod2 is not None:
                m = make_module(modkind, dict(mod2, name='second'))
                mods[modkind].append(m)
                modpars[m.name] = dict(unit=m.t.unit, start=m.t.start, stop=m.t.stop, dt=m.t.dt)
            if 'sis' in mods: kw['diseases'] = mods['sis']
            if 'randomnet' in mods: kw['networks'] = mods['randomnet']
            if 'births' in mods: kw['demographics'] = mods['births']
        def build():
            sim = ss.Sim(**kw)
            sim.init()
            return sim
        dt0 = spec.get('dt') is not None and F(spec['dt']) == 0
        sim = with_timeout(SHORT_LIMIT if dt0 else TIME_LIMIT, build)
    except (Exception, Hang) as e:
        return dict(err=err_kind(e), exc=f'{type(e).__name__}: {str(e)[:200]}', modpars=modpars)
    out = dict(sim=observe_time(sim.t), mods={}, modpars=modpars)
    out['sim']['reslens'] = result_lens(sim.results, sim.t)
    for m in sim.modules:
        o = observe_time(m.t)
        o['reslens'] = result_lens(m.results, m.t)
        out['mods'][m.name] = o
    return attach_plan(out, sim)


def parse_model(line):
    if line.startswith('ok '):
        d = dict(kind='ok')
        for p in line.split()[1:]:
            k, v = p.split('=', 1)
            d[k] = v
        def ints(s): return [] if s == '-' else [int(x) for x in s.split(',')]
        d['npts'] = int(d['npts']); d['numeric'] = d['numeric'] == '1'
        d['timevec'] = ints(d['timevec']) if d['numeric'] else None
        d['yearvec'] = ints(d['yearvec']); d['tvec'] = ints(d['tvec'])
        d['datevec'] = [] if d['datevec'] == '-' else d['datevec'].split(',')
        d['abstvec'] = None if d['abstvec'] == 'none' else ints(d['abstvec'])
        d['plan'] = ints(d['plan']) if 'plan' in d else None      # Timeline.loopPlacement: where the loop schedules this owner
        d['reslen'] = int(d['reslen'])
        return d
    if line.startswith('E:'):
        parts = line.split()
        return dict(kind='err', err=parts[0], spec=parts[1].split('=', 1)[1] if len(parts) > 1 else None)
    if line.startswith('unsupported'):
        return dict(kind='unsupported')
    return dict(kind='bad', line=line)


def compare_obs(ctx, o, m, with_abst=True):
    """ observation of one ss.Time vs the model's line; returns None or a description of the first difference """
    if o['npts'] != m['npts']:
        return f"npts: impl={o['npts']} model={m['npts']}"
    if o['numeric'] != m['numeric']:
        return f"timevec kind: impl numeric={o['numeric']} model numeric={m['numeric']}"
    names = ['yearvec', 'tvec'] + (['timevec'] if o['numeric'] else []) + (['abstvec'] if with_abst else [])
    for name in names:
        a, b = o[name], m[name]
        if (a is None) != (b is None):
            return f'{name}: impl={a} model={b}'
        if a is None: continue
        if len(a) != len(b):
            return f'len({name}): impl={len(a)} model={len(b)}'
        for i, (x, y) in enumerate(zip(a, b)):
            xm = micro(x)
            if abs(x * MICRO - xm) > 1e-3 * max(1.0, abs(x)):   # the code rounds to time_eps
                return f'{name}[{i}]: impl value {x!r} is not rounded to time_eps'
            if xm != y:
                if abs(xm - y) <= 1:
                    ctx.count('tolerance_uses')
                    continue
                return f'{name}[{i}]: impl={x!r} model={y / MICRO!r}'
    if o['datevec'] != m['datevec']:
        i = next((i for i, (a, b) in enumerate(zip(o['datevec'], m['datevec'])) if a != b), min(len(o['datevec']), len(m['datevec'])))
        return f"datevec[{i}]: impl={o['datevec'][i:i+1]} model={m['datevec'][i:i+1]}"
    for k, ln in sorted(o['reslens'].items()):
        if ln == -1:
            return f'result {k[:-len(".timevec-entries")]}: its timevec entries are not the owner\'s timevec'
        if ln != m['reslen']:
            return f'len(result {k}): impl={ln} model={m["reslen"]}'
    d = compare_plan(ctx, o, m)
    if d: return d
    d = compare_now(ctx, o, m)
    if d: return d
    if o.get('copies'):
        return 'copy of the Time object differs: ' + '; '.join(o['copies'][:3])
    return None


def compare_plan(ctx, o, m):
    """ the loop's plan against the model: every function of this owner is scheduled once per point of the timeline, at the
        elapsed sim time the model's make_abstvec gives for that point (Timeline.loopPlacement) """
    plan = o.get('plan')
    if plan is None or m.get('plan') is None or m.get('abstvec') is None: return None
    if not plan and m['npts'] > 0:
        return 'the loop plan schedules no function of this module'
    for fn, ts in sorted(plan.items()):
        if len(ts) != len(m['plan']):
            return f"loop plan: {fn} is scheduled {len(ts)} times, model (loopPlacement): {len(m['plan'])} calls"
        for i, (x, y) in enumerate(zip(ts, m['plan'])):
            if abs(micro(x) - y) > 1:
                return f'loop plan: call {i} of {fn} is scheduled at elapsed sim time {x!r}, model loopPlacement[{i}]={y / MICRO!r}'
        ctx.count('plan_functions_compared')
    return None


def date_str(isodate):
    import starsim as ss
    return isodate.replace('-', ss.options.date_sep)


def compare_now(ctx, o, m):
    """ Time.now(key) at step counter ti must be entry min(ti, npts-1) of the representation the key names """
    n = m['npts']
    for rec in o.get('now', []):
        idx = min(rec['ti'], n - 1)        # == Timeline.nowIndex (cross-checked against the driver in check_contracts)
        def close(x, y): return isinstance(x, float) and abs(micro(x) - y) <= 1
        native = (lambda v: close(v, m['timevec'][idx])) if m['numeric'] else (lambda v: v == m['datevec'][idx])
        exp = {'None': native, 'time': native, 'none': native,
               'date': lambda v: v == m['datevec'][idx], 'year': lambda v: close(v, m['yearvec'][idx]),
               'tvec': lambda v: close(v, m['tvec'][idx])}
        for key, ok in exp.items():
            if not ok(rec[key]):
                return f"now({key}) at ti={rec['ti']}: impl={rec[key]!r}, model index {idx}"
        want = f"{m['timevec'][idx] / MICRO:0.1f}" if m['numeric'] else date_str(m['datevec'][idx])
        if rec['str'] != want:
            return f"now('str') at ti={rec['ti']}: impl={rec['str']!r} expected {want!r}"
        if rec['badkey'] != 'E:Value':
            return f"now('abs') (invalid key): {rec['badkey']}"
        ctx.count('now_checks')
    return None


# ---------------------------------------------------------------------------
# generators (all from ctx.rng)

def dec(x, nd=6):
    """ canonical decimal string of a Fraction / number with at most nd decimals """
    f = F(x).limit_denominator(10**nd) if not isinstance(x, str) else F(x)
    s = f'{float(f):.{nd}f}'.rstrip('0')
    if s.endswith('.'): s += '0'
    return s


def rand_date(rng, lo=1950, hi=2060):
    y = rng.randint(lo, hi)
    if rng.random() < 0.3: y = rng.choice([2000, 2020, 2024, 1900, 2100, 1996, 2019, 2023])
    r = rng.random()
    if r < 0.25:
        m = rng.randint(1, 12); d = ref.month_len(y, m)          # month end
    elif r < 0.4:
        m, d = rng.choice([(1, 1), (2, 28), (3, 1), (12, 31), (1, 31), (2, 29) if ref.leap(y) else (2, 28)])
    else:
        m = rng.randint(1, 12); d = rng.randint(1, ref.month_len(y, m))
    return dtm.date(y, m, d)


def D(d):
    return 'D' + iso(d)


YEAR_DT = ['1.0', '0.5', '0.25', '0.2', '0.1', '0.05', '0.3', '0.7', '1.5', '2.0', '0.125', '0.083333', '0.4', '0.6', '0.02']
CAL_INT_DT = ['1.0', '2.0', '3.0', '5.0', '7.0', '14.0', '30.0', '4.0']
CAL_FRAC_DT = ['0.5', '1.5', '2.5', '0.25', '3.7', '0.3', '1.2', '2.4', '0.1', '0.01', '10.5', '1.4']
UNIT_ALIASES = dict(year=['year', 'year', '', 'y', 'yr', 'years'], day=['day', 'day', 'd', 'days'], week=['week', 'w', 'wk', 'weeks'],
                    month=['month', 'm', 'mo', 'months'], unitless=['unitless', 'none'])


def gen_sim_spec(rng, family=None, maxpts=60):
    fam = family or rng.choice(['num-year', 'num-year', 'num-year', 'num-cal', 'unitless', 'date-year', 'date-year', 'date-cal-int',
                                'date-cal-int', 'date-cal-frac', 'date-cal-frac', 'default', 'reject'])
    spec = dict(family=fam)
    if fam in ('num-year', 'unitless', 'num-cal'):
        if fam == 'num-year': unit = 'year'
        elif fam == 'unitless': unit = 'unitless'
        else: unit = rng.choice(['day', 'week', 'month'])
        spec['unit'] = rng.choice(UNIT_ALIASES[unit])
        start = rng.choice(['0', '0', '2000', '1990', '2010.5', '1995.25', '1', '2000.1', '5', '1999.9', '0.0', '2000.0', '1.0', '4.1'])
        dt = rng.choice(YEAR_DT if fam != 'num-cal' else ['1.0', '2.0', '7.0', '0.5', '2.5', '1.5', '0.1', '0.3', '10.0', '30.0'])
        k = rng.randint(0, maxpts)
        r = rng.random()
        if r < 0.55: dur = F(dt) * k if k else F(dt)                  # dividing
        elif r < 0.8: dur = F(dt) * k + F(dt) * F(rng.randint(1, 9), 10)   # non-dividing
        else: dur = F(rng.randint(1, 400), rng.choice([1, 10, 100])) ; dur = min(dur, F(dt) * maxpts)
        if dur <= 0: dur = F(dt)
        spec.update(start=start, dt=dt)
        if rng.random() < 0.5: spec['stop'] = dec(F(start) + dur)
        else: spec['dur'] = dec(dur)
        if rng.random() < 0.1:      # default start
            spec.pop('start'); spec.pop('stop', None); spec['dur'] = dec(dur)
    elif fam == 'date-year':
        spec['unit'] = rng.choice(UNIT_ALIASES['year'])
        d0 = rand_date(rng)
        dt = rng.choice(YEAR_DT)
        dur = F(dt) * rng.randint(1, maxpts) + (F(dt) * F(rng.randint(0, 9), 10) if rng.random() < 0.4 else 0)
        spec.update(start=D(d0), dt=dt)
        r = rng.random()
        if r < 0.35: spec['dur'] = dec(dur)
        elif r < 0.7:
            spec['stop'] = D(d0 + dtm.timedelta(days=int(dur * 365.25) + rng.randint(0, 3)))
        else:   # anniversaries: exact quotients
            yrs = max(1, int(dur))
            try: spec['stop'] = D(dtm.date(d0.year + yrs, d0.month, d0.day))
            except ValueError: spec['stop'] = D(dtm.date(d0.year + yrs, 3, 1))
    elif fam in ('date-cal-int', 'date-cal-frac'):
        unit = rng.choice(['day', 'day', 'week', 'month'])
        spec['unit'] = rng.choice(UNIT_ALIASES[unit])
        d0 = rand_date(rng)
        dt = rng.choice(CAL_INT_DT if fam == 'date-cal-int' else CAL_FRAC_DT)
        steps = rng.randint(1, maxpts)
        dur = F(dt) * steps + (F(dt) * F(rng.randint(0, 9), 10) if rng.random() < 0.4 else 0)
        spec.update(start=D(d0), dt=dt)
        if rng.random() < 0.5: spec['dur'] = dec(dur)
        else: spec['stop'] = D(d0 + dtm.timedelta(days=max(1, int(dur * ref.UNIT_DAYS[unit]) + rng.randint(0, 2))))
    elif fam == 'default':
        unit = rng.choice(['year', 'day', 'week', 'month', 'unitless'])
        spec['unit'] = rng.choice(UNIT_ALIASES[unit])
        if rng.random() < 0.5: spec['dt'] = rng.choice(['1.0', '0.5', '2.0', '5.0', '0.25'])
        if rng.random() < 0.5: spec['dur'] = rng.choice(['10', '7.5', '20', '3', '50.0'])
    else:  # reject
        kind = rng.choice(['stop-and-dur', 'stop-before-start', 'bad-unit', 'too-small', 'stop-eq-start', 'date-stop-before'])
        spec['reject'] = kind
        if kind == 'stop-and-dur':
            if rng.random() < 0.5: spec.update(unit='year', start='2000', stop='2010', dur='10', dt='1.0')
            else: spec.update(unit='day', start='D2020-01-01', stop='D2020-02-01', dur='31', dt='1.0')
        elif kind == 'stop-before-start':
            spec.update(unit=rng.choice(['year', 'day', 'unitless']), start='2000', stop=rng.choice(['1990', '1999.5']), dt=rng.choice(['1.0', '0.5']))
        elif kind == 'stop-eq-start':
            spec.update(unit='year', start='2000', stop='2000', dt='1.0')
        elif kind == 'date-stop-before':
            spec.update(unit=rng.choice(['day', 'week', 'month', 'year']), start='D2020-03-01', stop=rng.choice(['D2020-02-28', 'D2020-03-01', 'D2019-12-31']), dt='1.0')
        elif kind == 'bad-unit':
            spec.update(unit=rng.choice(['fortnight', 'sec', 'Year', 'dayz']), start='2000', dur='5', dt='1.0')
        else:
            spec.update(unit=rng.choice(['day', 'week', 'month']), start='D2020-01-01', dur=rng.choice(['10', '30']), dt=rng.choice(['0.01', '0.001', '0.05', '0.4', '0.49']))
    if 'dt' not in spec and fam != 'default': spec['dt'] = '1.0'
    return spec


def canon_unit(u):
    for k, v in UNIT_ALIASES.items():
        if u in v: return k
    return None


def gen_mod_case(rng):
    """ a sim (small) plus one module override """
    fam = rng.choice(['num-year', 'num-year', 'date-cal-int', 'date-cal-int', 'date-year', 'num-cal', 'unitless', 'date-cal-frac'])
    spec = gen_sim_spec(rng, fam, maxpts=24)
    su = canon_unit(spec['unit'])
    if 'start' not in spec and su not in ('year', 'unitless'): spec['start'] = 'D2000-01-01'   # what the default is
    numeric = not is_date(spec.get('start', '0'))
    mod = {}
    r = rng.random()
    # unit
    if r < 0.35: pass
    elif r < 0.5: mod['unit'] = rng.choice(UNIT_ALIASES[su])
    else:
        others = [u for u in ('day', 'week', 'month', 'year') if u != su] + (['unitless'] if rng.random() < 0.15 else [])
        mod['unit'] = rng.choice(UNIT_ALIASES[rng.choice(others)])
    mu = canon_unit(mod['unit']) if 'unit' in mod else su
    # dt
    if rng.random() < 0.7:
        sdt = F(spec.get('dt', '1.0'))
        if mu == su:
            mod['dt'] = dec(sdt * rng.choice([1, 2, 3, F(1, 2), 5, F(3, 2), F(1, 4)]))
        elif mu in ('day', 'week', 'month'):
            mod['dt'] = rng.choice(['1.0', '2.0', '7.0', '30.0', '0.5', '2.5', '3.0', '14.0'])
        else:
            mod['dt'] = rng.choice(['1.0', '0.5', '0.25', '0.1', '0.2'])
    # start / stop
    r = rng.random()
    if r < 0.3:
        if numeric and mu == su:
            s0 = F(spec['start']) if 'start' in spec else F(2000)
            mod['start'] = dec(s0 + F(spec.get('dt', '1.0')) * rng.choice([1, 2, 3, F(1, 2), F(5, 2)]))
        elif numeric and su in ('year', 'unitless') and rng.random() < 0.5:
            s0 = F(spec['start']) if 'start' in spec else F(2000)
            if s0 == 0: s0 = F(2000)
            mod['start'] = D(dtm.date(max(1, int(s0)), rng.randint(1, 12), rng.randint(1, 28)))
        elif not numeric:
            d0 = ref.to_date(spec['start'])
            mod['start'] = D(d0 + dtm.timedelta(days=rng.choice([1, 7, 10, 31, 45])))
    r = rng.random()
    if r < 0.2 and 'start' not in mod:
        if numeric and mu == su and 'stop' in spec:
            mod['stop'] = dec((F(spec['stop']) + F(spec.get('start', '2000'))) / 2)
        elif not numeric and 'stop' in spec:
            d0, d1 = ref.to_date(spec['start']), ref.to_date(spec['stop'])
            mod['stop'] = D(d0 + (d1 - d0) // 2)
    if rng.random() < 0.08:      # a start just after the sim's stop
        mod.pop('stop', None)
        if numeric and mu == su and 'stop' in spec:
            mod['start'] = dec(F(spec['stop']) + F(mod.get('dt', spec.get('dt', '1.0'))) * rng.choice([F(1, 2), F(1, 4), 1, F(3, 2)]))
        elif not numeric and 'stop' in spec:
            mod['start'] = D(ref.to_date(spec['stop']) + dtm.timedelta(days=rng.choice([1, 3, 20, 200])))
    kind = rng.choice(MODKINDS)
    extra = rng.choice([(), (), ('sis', 'randomnet'), ('births',)])
    return dict(sim=spec, mod=mod, modkind=kind, extra=list(extra))


# ---------------------------------------------------------------------------
# contracts of the libraries the model mirrors (validated by direct calls)

def check_contracts(ctx):
    import sciris as sc, dateutil.relativedelta as rd, numpy as np, starsim as ss
    rng = ctx.rng
    lines = []; expect = []
    for _ in range(60):
        d = rand_date(rng, 1, 9998)
        lines.append('ord ' + D(d)); expect.append(str(d.toordinal()))
        n = rng.randint(1, 3652059)
        lines.append(f'cal {n}'); expect.append(iso(dtm.date.fromordinal(n)))
    for _ in range(40):
        d = rand_date(rng); k = rng.randint(0, 40)
        lines.append(f'addm {D(d)} {k}'); expect.append(iso(d + rd.relativedelta(months=k)))
        lines.append('d2y ' + D(d)); y = sc.datetoyear(d); a, b = float(y).as_integer_ratio()
        expect.append(f'{a}/{b}' if b != 1 else str(a))
    for _ in range(60):
        y = F(rng.randint(1900 * MICRO, 2100 * MICRO), MICRO) if rng.random() < 0.7 else F(rng.randint(19000, 21000), 10)
        lines.append(f'y2d {y.numerator}/{y.denominator}')
        expect.append(iso(sc.yeartodate(float(y))))
    for _ in range(40):
        x = F(rng.randint(-10**9, 10**9), rng.choice([1, 10, 1000, 10**6, 3, 7, 365]))
        lines.append(f'rd {x.numerator}/{x.denominator}')
        a, b = (x.numerator / x.denominator).as_integer_ratio()
        expect.append(f'{a}/{b}' if b != 1 else str(a))
    out = ctx.drive(DRIVER, lines)
    for ln, e, o in zip(lines, expect, out):
        got = o.split()[0] if ln.startswith('y2d') else o
        if got != e:
            ctx.broke('correspondence', 'C07.contract', f'library contract `{ln}`: library gives {e}, model gives {o}', data=dict(line=ln))
            return
    ctx.count('contract_checks', len(lines))
    pairs = [(n, ti) for n in (1, 2, 7, 57) for ti in (0, 1, n - 1, n, n + 3)]
    got = ctx.drive(DRIVER, [f'now {n} {ti}' for n, ti in pairs])
    for (n, ti), g in zip(pairs, got):
        if g != str(min(ti, n - 1)):
            ctx.broke('correspondence', 'C07.contract', f'nowIndex {n} {ti}: model {g}, harness formula {min(ti, n - 1)}')
    # np.round to time_eps = nearest multiple, ties to even, and linspace endpoints
    xs = np.array([0.0000005, 0.0000015, 2000.1234565, 1.5e-6, 2.5e-6])
    if MICRO == 10**6 and list(np.round(xs, 6)) != [0.0, 2e-06, float(np.round(2000.1234565, 6)), 2e-06, 2e-06]:
        ctx.broke('correspondence', 'C07.contract', f'np.round(…, 6) contract: {list(np.round(xs, 6))}')
    # extracted tables vs the live module
    f = (ctx.extracted.get('TimeDefaults') or {}).get('facts') or {}
    tu = (ctx.extracted.get('TimeUnits') or {}).get('facts') or {}
    live = ss.time
    if f:
        probs = []
        if F(f['default_dur']) != F(live.default_dur): probs.append('default_dur')
        if f['default_unit'] != live.default_unit: probs.append('default_unit')
        if f['default_start_year'] != live.default_start_year: probs.append('default_start_year')
        if f['default_start_date'] != live.default_start_date: probs.append('default_start_date')
        if F(f['time_eps']) != F(repr(ss.options.time_eps)): probs.append('time_eps')
        for a, c in f['aliases']:
            if live.unit_mapping.get(a) != c: probs.append(f'alias {a}')
        if sorted(k for k in live.unit_mapping if isinstance(k, str)) != sorted(a for a, _ in f['aliases']): probs.append('alias set')
        if probs:
            ctx.broke('extract', 'TimeDefaults', f'extracted facts differ from the imported module: {probs}')
    for u, v in tu.items():
        if F(v) != F(repr(float(live.time_units[u]))):
            ctx.broke('extract', 'TimeUnits', f'time_units[{u}] extracted {v} but live {live.time_units[u]}')
        if u in ref.UNIT_DAYS and ref.UNIT_DAYS[u] != F(v):
            ctx.notes['reference_unit_days_differs'] = f'{u}: code {v}, reference {ref.UNIT_DAYS[u]}'


# ---------------------------------------------------------------------------

def mod_pars_line(spec, mp):
    """ protocol line for a module whose pre-init Time parameters were read back from the constructed object """
    def val(x, force_float=False):
        if x is None: return None
        if isinstance(x, str):
            return 'D' + x if x[:1].isdigit() and '-' in x else x
        if hasattr(x, 'year'): return 'D' + iso(x)
        import numpy as np
        return repr(float(x)) if isinstance(x, (float, np.floating)) else str(int(x))
    return mod_line(spec, dict(unit=mp['unit'], start=val(mp['start']), stop=val(mp['stop']), dt=val(mp['dt'])))


def grid_line(s):
    """ the float-vs-exact quotient of a numeric specification with an explicit stop (else a dummy) """
    a, b = s.get('start'), s.get('stop')
    if a is not None and b is not None and not is_date(a) and not is_date(b) and F(s.get('dt', '1.0')) != 0:
        return f"grid {tok(a)} {tok(b)} {tok(s.get('dt', '1.0'))}"
    return 'grid 0 1 1'


def set_eps(ctx=None):
    """ vectors are compared in units of time_eps: 10^-decimals, from the regenerated table / the live option """
    global MICRO
    import starsim as ss
    dec_ = int(-math.log10(ss.options.time_eps))
    if ctx is not None:
        f = (ctx.extracted.get('TimeDefaults') or {}).get('facts') or {}
        dec_ = f.get('decimals', dec_)
    MICRO = 10 ** dec_
    ref.EPS = F(1, MICRO); ref.TOL = 2 * ref.EPS
    for u in list(ref.UNIT_DAYS):     # the length of a unit is a definition of the code base, not a behaviour
        ref.UNIT_DAYS[u] = F(repr(float(ss.time.time_units[u])))


def check_consts(ctx):
    """ The driver must have been built from the tables extracted in THIS run (another check running concurrently
        against a different tree rewrites the shared Generated/*.lean): otherwise the run is void, not a violation """
    from harness import framework
    f = (ctx.extracted.get('TimeDefaults') or {}).get('facts')
    tu = (ctx.extracted.get('TimeUnits') or {}).get('facts')
    if not f or not tu: return
    out = ctx.drive(DRIVER, ['consts'])[0]
    d = dict(p.split('=', 1) for p in out.split()[1:])
    units = {k: F(v) for k, v in (x.split(':') for x in d['units'].split(','))}
    y, m, dd = (int(x) for x in f['default_start_date'].split('-'))
    ok = (units == {k: F(v) for k, v in tu.items()} and F(d['dur']) == F(f['default_dur']) and d['unit'] == f['default_unit']
          and int(d['year']) == f['default_start_year'] and d['date'] == f'{y}-{m}-{dd}' and int(d['decimals']) == f['decimals']
          and F(d['dt']) == F(f['sim_dt']))
    if not ok:
        raise framework.Infra(f'the Lean model was built from other Generated/*.lean than this run extracted (concurrent check?): driver {out!r} vs extracted {tu} {f}')


def correspond(ctx):
    set_eps(ctx)
    check_consts(ctx)
    check_contracts(ctx)
    rng = ctx.rng
    # (1) the sim's own timeline
    n1 = ctx.budget(280, 3000)
    specs = scen.fixed_sims() + [gen_sim_spec(rng) for _ in range(n1)]
    specs += corpus_specs()
    lines = []
    for s in specs:
        lines.append(sim_line('sim', s))
        lines.append(grid_line(s))
    out = ctx.drive(DRIVER, lines)
    ndiv = 0
    for i, s in enumerate(specs):
        m = parse_model(out[2 * i]); g = out[2 * i + 1]
        ctx.count('family_' + s['family'])
        if m['kind'] == 'bad':
            ctx.broke('correspondence', 'C07.driver', f'driver rejected `{lines[2*i]}`: {out[2*i]}', data=dict(sim=s)); continue
        if m['kind'] == 'unsupported':
            ctx.count('unsupported_skipped'); continue
        # hardware floats agree with the software float model on the grid quotient
        if g.startswith('steps'):
            gd = dict(p.split('=') for p in g.split()[1:])
            if gd['asis'] != gd['float']:
                ctx.broke('correspondence', 'C07.float', f'software float64 model and Lean Float disagree on `{lines[2*i+1]}`: {g}', data=dict(sim=s))
            if gd['asis'] != gd['spec']: ctx.count('float_vs_exact_grid_differs')
        r = run_case(dict(kind='sim', sim=s))
        ctx.case(('sim', tuple(sorted((k, v) for k, v in s.items() if k not in ('family', 'reject')))),
                 nontrivial=(m['kind'] == 'err' or m.get('npts', 0) > 1),
                 sample=dict(kind='sim', spec=s, impl=('error ' + r['err']) if 'err' in r else dict(npts=r['sim']['npts'], first=r['sim']['datevec'][:2]), model=out[2 * i][:160]))
        div = None
        if 'err' in r:
            ctx.count('impl_' + r['err'])
            if m['kind'] != 'err': div = f"impl raised {r['exc']} but the model accepts (npts={m['npts']})"
            elif m['err'] != r['err']: div = f"error class: impl {r['err']} ({r['exc']}) model {m['err']}"
        elif m['kind'] == 'err':
            div = f"model rejects with {m['err']} but the code accepts (npts={r['sim']['npts']})"
        else:
            div = compare_obs(ctx, r['sim'], m)
            if m.get('spec') not in (None, str(m['npts'])): ctx.count('asis_differs_from_spec')
        if div:
            ndiv += 1
            ctx.broke('correspondence', 'C07.sim', f'sim timeline of {fmt_spec(s)} diverges from Model/Timeline.lean: {div}', data=dict(kind='sim', sim=s))
            if ndiv >= 5: break
    # (2) module overrides
    n2 = ctx.budget(90, 1200)
    cases = scen.fixed_mods() + [gen_mod_case(rng) for _ in range(n2)]
    runs = []; all_lines = []
    for c in cases:
        s = c['sim']
        r = run_case(dict(kind='mod', **c))
        # model lines: the sim, then one per module with the parameters the constructed module really holds
        lines = [sim_line('sim', s)]; names = [None]
        for name, mp in r['modpars'].items():
            lines.append(mod_pars_line(s, mp)); names.append(name)
        if not r['modpars']:     # the module constructor itself refused
            lines.append(mod_line(s, c['mod'])); names.append(c['modkind'])
        runs.append((c, r, lines, names, len(all_lines)))
        all_lines += lines
    all_out = ctx.drive(DRIVER, all_lines)
    ndiv = 0
    for c, r, lines, names, off in runs:
        s = c['sim']
        out = all_out[off:off + len(lines)]
        ms = [parse_model(o) for o in out]
        ctx.count('modcases'); ctx.count('modkind_' + c['modkind']); ctx.count('family_' + s.get('family', '?') + '_mod')
        if any(m['kind'] == 'bad' for m in ms):
            ctx.broke('correspondence', 'C07.driver', f'driver rejected one of {lines}: {out}', data=dict(kind='mod', **c)); continue
        if any(m['kind'] == 'unsupported' for m in ms):
            ctx.count('unsupported_skipped'); continue
        div = None
        if 'err' in r:
            ctx.count('impl_' + r['err'])
            errs = [m['err'] for m in ms if m['kind'] == 'err']
            if not errs:
                div = f"impl raised {r['exc']} but the model accepts the sim and its modules"
            elif r['err'] not in errs:
                div = f"error class: impl {r['err']} ({r['exc']}) model {errs}"
        else:
            for name, m, ln in zip(names, ms, lines):
                if m['kind'] == 'err':
                    div = f"model rejects `{ln}` with {m['err']} but the code accepts"; break
                o = r['sim'] if name is None else r['mods'].get(name)
                if o is None:
                    div = f'module {name} missing from sim.modules'; break
                d = compare_obs(ctx, o, m)
                if d:
                    div = f"{'sim' if name is None else 'module ' + name}: {d}"; break
                if name is not None:
                    if m['npts'] == 0: ctx.count('module_empty_timeline')
                    if m['abstvec'] and m['abstvec'] != m['tvec']: ctx.count('module_placed_off_its_own_tvec')
                    if m['abstvec'] and m['npts'] == ms[0].get('npts') and m['abstvec'] != ms[0].get('abstvec'): ctx.count('module_same_count_as_sim_other_instants')
        nontriv = 'err' in r or any(m.get('npts', 0) > 1 for m in ms)
        ctx.case(('mod', repr(sorted(s.items())), repr(sorted(c['mod'].items())), c['modkind'], repr(c.get('mod2'))), nontrivial=nontriv,
                 sample=dict(kind='module', sim=s, mod=c['mod'], modkind=c['modkind'],
                             impl=('error ' + r['err']) if 'err' in r else {k: dict(npts=v['npts'], abstvec=v['abstvec'][:3]) for k, v in r['mods'].items()}))
        if div:
            ndiv += 1
            ctx.broke('correspondence', 'C07.module', f"{fmt_case(c)} diverges from Model/Timeline.lean: {div}", data=dict(kind='mod', **c))
            if ndiv >= 5: break
    correspond_update(ctx)
    correspond_zoo(ctx)
    check_consts(ctx)


def tpars_tokens(d):
    d = d or {}
    return [tok(d.get('start')), tok(d.get('stop')), tok(d.get('dt')), '_' if d.get('unit') is None else unit_tok(d['unit'])]


def correspond_update(ctx):
    """ Time.update(pars, parent, force, **kwargs) on uninitialised Time objects, and re-initialisation after an update """
    import starsim as ss
    cases = scen.update_cases(ctx.rng, ctx.budget(150, 1500))
    lines = []; obs = []
    def py(d): return {k: (v if k == 'unit' else pyval(v)) for k, v in (d or {}).items() if v is not None}
    def canon(x):
        if x is None: return 'none'
        if isinstance(x, str): return x
        if isinstance(x, bool): return str(x)
        if isinstance(x, int): return f'{x}i'
        f = F(repr(float(x))); return f'{f.numerator}/{f.denominator}' if f.denominator != 1 else str(f.numerator)
    for c in cases:
        force = dict(F=False, N=None, T=True)[c['force']]
        lines.append(' '.join(['update', c['force']] + tpars_tokens(c['self']) + tpars_tokens(c['kw']) + tpars_tokens(c['pars'])
                              + ['1' if c['parent'] is not None else '0'] + tpars_tokens(c['parent'])))
        try:
            t = ss.Time(**py(c['self']), init=False)
            parent = ss.Time(**py(c['parent']), init=False) if c['parent'] is not None else None
            t.update(pars=py(c['pars']) or None, parent=parent, force=force, **py(c['kw']))
            def v(x): return ('D' + x) if isinstance(x, str) else canon(x)
            obs.append(f"upd start={v(t.start)} stop={v(t.stop)} dt={canon(t.dt)} unit={'_' if t.unit is None else unit_tok(t.unit)} ready={int(t.ready)}")
        except Exception as e:
            obs.append(f'raised {type(e).__name__}: {e}')
    out = ctx.drive(DRIVER, lines)
    for c, ln, o, m in zip(cases, lines, obs, out):
        ctx.count('update_cases')
        ctx.case(('update', ln), nontrivial=True, sample=dict(kind='update', line=ln, impl=o) if ctx.cases % 97 == 0 else None)
        if o != m:
            ctx.broke('correspondence', 'C07.update', f'Time.update diverges from Model/Timeline.lean `update`: `{ln}` impl `{o}` model `{m}`', data=dict(kind='update', case=c))
            break
    # an update of an initialised Time re-initialises it: the vectors are those of a fresh Time with the new parameters
    for base, change in ((dict(start=2000, stop=2002, dt=0.5, unit='year'), dict(dt=0.25)),
                         (dict(start='2020-01-01', stop='2020-03-01', dt=1.0, unit='day'), dict(dt=7.0)),
                         (dict(start='2020-01-01', stop='2020-03-01', dt=1.0, unit='day'), dict(unit='week')),
                         (dict(start=0, stop=10, dt=1.0, unit='year'), dict(stop=20)),
                         (dict(start=2000, stop=2002, dt=0.5, unit='year'), dict(start=2001))):
        t = ss.Time(**base); t.update(**change)
        fresh = ss.Time(**dict(base, **change))
        a, b = observe_time(t), observe_time(fresh)
        ctx.count('update_reinit_checks')
        if any(a[k] != b[k] for k in ('npts', 'timevec', 'yearvec', 'datevec', 'tvec')):
            ctx.fail(dict(oracle='update', cause='stale-vectors'), f'ss.Time(**{base}).update(**{change}) leaves vectors that are not those of ss.Time(**{dict(base, **change)}): npts {a["npts"]} vs {b["npts"]}',
                     dict(kind='update-reinit', base=base, change=change))


def fmt_case(case):
    out = 'sim' + fmt_spec(case['sim'])
    if case.get('mod') is not None: out += f" with {case.get('modkind', 'sis')}{fmt_spec(case['mod'])}"
    if case.get('mod2') is not None: out += f" and second{fmt_spec(case['mod2'])}"
    return out


def fmt_spec(s):
    return '(' + ', '.join(f'{k}={(v if k in ("unit", "name") else pyval(v))!r}' for k, v in s.items() if k not in ('family', 'reject') and v is not None) + ')'


def corpus_specs():
    import os, json, glob
    here = os.path.dirname(os.path.dirname(os.path.dirname(os.path.abspath(__file__))))
    out = []
    for p in sorted(glob.glob(os.path.join(here, 'corpus', 'c07', '*.json'))):
        try:
            d = json.load(open(p))
            if d.get('kind', 'sim') == 'sim': out.append(dict(d['sim'], family=d['sim'].get('family', 'corpus')))
        except Exception:
            pass
    return out


# ---------------------------------------------------------------------------
# search: the property on the real code, judged by the independent reference

def to_obs(o):
    return ref.Obs(dict(npts=o['npts'], numeric=o['numeric'],
                        timevec=None if o['timevec'] is None else [F(dec_float(x)) for x in o['timevec']],
                        yearvec=[F(dec_float(x)) for x in o['yearvec']],
                        datevec=[dtm.date(*[int(p) for p in d.split('-')]) for d in o['datevec']],
                        tvec=[F(dec_float(x)) for x in o['tvec']],
                        abstvec=None if o['abstvec'] is None else [F(dec_float(x)) for x in o['abstvec']],
                        reslens=o['reslens'], now=o.get('now', []), copies=o.get('copies', [])))


def dec_float(x):
    """ the shortest decimal that denotes the float (what the user reads) """
    return repr(float(x))


def resolved_spec(o, given_unit, given, sim_o=None):
    """ The specification of one timeline as the code resolved it (unit, start, stop, dt as decimal strings / D-dates) """
    def val(x):
        if hasattr(x, 'year'): return 'D' + iso(x)
        if isinstance(x, str):          # a date the code left as the string it was given
            y, m, d = (int(p) for p in x.replace('.', '-').split('-')[:3])
            return f'D{y:04d}-{m:02d}-{d:02d}'
        return repr(x) if isinstance(x, float) else str(x)
    return dict(unit=o['unit'], start=val(o['start']), stop=val(o['stop']), dt=repr(float(o['dt'])))


_RUNS = {}      # results of run_impl within this process: the oracle judges the runs the correspondence already made


def run_case(case):
    key = json.dumps({k: case.get(k) for k in ('kind', 'sim', 'mod', 'modkind', 'extra', 'mod2')}, sort_keys=True, default=str)
    if key not in _RUNS:
        s = case['sim']
        if case.get('kind') == 'mod' or case.get('mod') is not None:
            _RUNS[key] = run_impl(s, case.get('mod') or {}, case.get('modkind', 'sis'), case.get('extra', ()), case.get('mod2'))
        else:
            _RUNS[key] = run_impl(s)
    return _RUNS[key]


def is_int_str(x):
    return isinstance(x, str) and x.lstrip('-').isdigit()


def float_typed(case):
    """ the same specification with every int-typed dt written as a float (2 -> 2.0), or None if there is none """
    c = json.loads(json.dumps(case, default=str)); changed = False
    for part in ('sim', 'mod', 'mod2'):
        d = c.get(part)
        if d and is_int_str(d.get('dt')):
            d['dt'] = d['dt'] + '.0'; changed = True
    return c if changed else None


def oracle_case(case):
    """ Run one stored case on the real code and judge it with the reference.  Returns (fails, info) """
    s = case['sim']
    r = run_case(case)
    fails = []
    if r.get('err') == 'E:Hang':
        dt0 = s.get('dt') is not None and F(s['dt']) == 0
        cal = is_date(s.get('start', 'D' if canon_unit(s.get('unit', '')) in ('day', 'week', 'month') else '0')) and canon_unit(s.get('unit', '')) in ('day', 'week', 'month')
        fails.append(dict(signature=dict(oracle='termination', cause='dt-zero-date-timeline' if (dt0 and cal) else 'other'),
                          what=f"sim{fmt_spec(s)}: ss.Sim(...).init() did not return within {TIME_LIMIT if not dt0 else SHORT_LIMIT} s"
                               + (' (dt=0 is handed to sc.daterange, whose loop `curr_date += 0 days` never ends)' if dt0 and cal else '')))
        return fails, dict(rejected='E:Hang')
    # an accepted specification gives the same timeline whether dt is written 2 or 2.0
    fc = float_typed(case)
    if fc is not None:
        rf = run_case(fc)
        if ('err' in r) != ('err' in rf) or ('err' in r and r['err'] != rf['err']):
            pass    # acceptance that depends on the Python type of dt (int dt: NumPy casting TypeError in make_abstvec) is a rejection, not a wrong timeline: the property speaks of accepted specifications only
        elif 'err' not in r:
            for name in ['<sim>'] + sorted(r['mods']):
                a = r['sim'] if name == '<sim>' else r['mods'][name]
                b = rf['sim'] if name == '<sim>' else rf['mods'].get(name)
                if b is None or any(a[k] != b[k] for k in ('npts', 'timevec', 'yearvec', 'datevec', 'tvec', 'abstvec')):
                    fails.append(dict(signature=dict(oracle='int-vs-float-dt', cause='timeline-differs'),
                                      what=f'{fmt_case(case)}: the timeline of {name} differs between int and float dt'))
                    break
    if 'err' in r:
        return fails, dict(rejected=r['err'])
    f2, info = judge_run(s, r)
    return fails + f2, info


def req_date(x):
    """ a date as the user wrote it ('D2000-01-01', '2000-01-01', '2000.01.01', a date object) in the notation of the reference """
    if hasattr(x, 'year'): return 'D' + iso(x)
    x = str(x)
    if x.startswith('D'): x = x[1:]
    y, m, d = (int(p) for p in x.replace('.', '-').split('-')[:3])
    return f'D{y:04d}-{m:02d}-{d:02d}'


def judge_run(s, r):
    """ The property on one accepted, observed run: s = the sim's specification as the user wrote it (decimal strings /
        D-dates), r = dict(sim=obs, mods={name: obs}, modpars={name: what the constructed module held before sim.init()}).
        Returns (fails, info) """
    fails = []
    so = r['sim']
    sspec = resolved_spec(so, s.get('unit'), s)
    sspec['stop_resolved'] = sspec['stop']       # the stop the code holds (the reference only uses it to tell the recorded float-truncation defect from other short grids)
    # the user's numbers, where given, are the reference for a numeric sim (stop = start + dur exactly)
    if so['numeric']:
        if s.get('start') is not None and not is_date(s['start']): sspec['start'] = s['start']
        if s.get('stop') is not None and not is_date(s['stop']): sspec['stop'] = s['stop']      # (a date given for a numeric timeline: the code's reading stands)
        elif s.get('dur') is not None: sspec['stop'] = str(F(sspec['start']) + F(s['dur']))
        if s.get('dt') is not None: sspec['dt'] = s['dt']
    else:
        if s.get('dt') is not None: sspec['dt'] = s['dt']
        # a calendar start / stop the user wrote IS the reference (the code's own resolved Time.start / Time.stop may not be what was
        # asked for); a stop given as a number on a date timeline and a duration keep the code's resolved stop (the duration is
        # judged below, `stop-from-dur`)
        for k in ('start', 'stop'):
            if is_date(s.get(k)): sspec[k] = req_date(s[k])
    sobs = to_obs(so)
    fails += ref.check_timeline(sspec, sobs, 'sim' + fmt_spec(s))
    fails += plan_fails(so, 'sim' + fmt_spec(s))
    # a duration on a date timeline: the stop is the start plus dur units, to the calendar day
    if not so['numeric'] and s.get('dur') is not None and so['unit'] in ref.UNIT_DAYS:
        d0, d1 = ref.to_date(sspec['start']), ref.to_date(sspec['stop'])
        want = F(s['dur']) * ref.UNIT_DAYS[so['unit']]
        if abs((d1 - d0).days - want) > 1:
            fails.append(dict(signature=dict(oracle='stop-from-dur', cause='days'),
                              what=f"sim{fmt_spec(s)}: stop={d1} is {(d1 - d0).days} days after start={d0}, but dur={s['dur']} {so['unit']}(s) = {float(want):.2f} days"))
    info = dict(skipped=[])
    for name, mo in r['mods'].items():
        mspec = resolved_spec(mo, None, None)
        mspec['stop_resolved'] = mspec['stop']
        mobs = to_obs(mo)
        # what the constructed module held before sim.init() (its own overrides and its class defaults)
        gp = r['modpars'].get(name)
        if gp is None:      # a module made during sim.init(): nothing is known about what it asked for, so only its own resolved values are used
            gp = dict(unit=mo['unit'], start=mo['start'], stop=mo['stop'], dt=mo['dt']) if r.get('made_at_init') and name in r['made_at_init'] else dict(unit=None, start=None, stop=None, dt=None)
        def gstr(x):
            if x is None: return None
            if hasattr(x, 'year'): return 'D' + iso(x)
            if isinstance(x, str): return 'D' + x
            return repr(x) if isinstance(x, float) else str(x)
        shown = {k: gstr(v) if k != 'unit' else v for k, v in gp.items() if v is not None}
        who = f"module {name}{fmt_spec(shown)} in sim{fmt_spec(s)}"
        same_unit = mo['unit'] == so['unit']
        if gp['dt'] is not None: mspec['dt'] = gstr(gp['dt'])
        elif same_unit: mspec['dt'] = sspec['dt']
        if mo['numeric']:
            if gp['start'] is not None and not hasattr(gp['start'], 'year') and not isinstance(gp['start'], str): mspec['start'] = gstr(gp['start'])
            elif gp['start'] is None and so['numeric'] and same_unit: mspec['start'] = sspec['start']
            if gp['stop'] is not None and not hasattr(gp['stop'], 'year') and not isinstance(gp['stop'], str): mspec['stop'] = gstr(gp['stop'])
            elif gp['stop'] is None and so['numeric'] and same_unit: mspec['stop'] = sspec['stop']
        else:
            for k in ('start', 'stop'):
                if gp[k] is not None and (hasattr(gp[k], 'year') or isinstance(gp[k], str)): mspec[k] = req_date(gp[k])
                elif gp[k] is None and not so['numeric'] and same_unit: mspec[k] = sspec[k]      # inherited from the sim: what the sim was asked for
        fails += ref.check_timeline(mspec, mobs, who)
        fails += check_defaults(r['modpars'].get(name), so, mo, sobs, mobs, who)
        pf, skipped = ref.check_placement(sspec, sobs, mspec, mobs, who)
        fails += pf
        fails += plan_fails(mo, who)
        if skipped: info['skipped'].append(skipped)
    return fails, info


def plan_fails(o, who):
    """ The placement clause on what the loop will really execute: every function the integration plan schedules for this owner
        is scheduled exactly once per point of the owner's timeline, at that point's instant on the sim's elapsed-time axis
        (the owner's abstvec, which check_placement judges against the calendar independently).  o = raw observation """
    fails = []
    plan = o.get('plan')
    if plan is None or o.get('abstvec') is None: return fails
    def fail(cause, what): fails.append(dict(signature=dict(oracle='plan-placement', cause=cause), what=f'{who}: {what}'))
    if not plan:
        if o['npts'] > 0: fail('missing', f"the integration plan schedules no function of it although its timeline has {o['npts']} points")
        return fails
    eps = float(ref.TOL)
    for fn, ts in sorted(plan.items()):
        if len(ts) != o['npts']:
            fail('count', f"the integration plan schedules {fn} {len(ts)} times, but the timeline has {o['npts']} points"); break
        bad = next((i for i, (x, y) in enumerate(zip(ts, o['abstvec'])) if abs(x - y) > eps), None)
        if bad is not None:
            fail('instants', f"the integration plan schedules call {bad} of {fn} at elapsed sim time {ts[bad]}, but point {bad} of its timeline "
                             f"({o['datevec'][bad] if not o['numeric'] else o['timevec'][bad]}) lies at elapsed sim time {o['abstvec'][bad]} (planned: {ts[:4]}..., timeline: {o['abstvec'][:4]}...)")
            break
    return fails


def check_defaults(given, so, mo, sobs, mobs, who):
    """ What a module does not specify comes from its sim: the unit; the dt when the units agree (else 1); the first
        and last instant.  `given` = the time parameters the constructed module held before sim.init() """
    fails = []
    if given is None: return fails
    def fail(cause, what): fails.append(dict(signature=dict(oracle='module-defaults', cause=cause), what=f'{who}: {what}'))
    if given['unit'] is None and mo['unit'] != so['unit']:
        fail('unit', f"no unit given but the module runs in {mo['unit']} while the sim runs in {so['unit']}")
    exp_dt = float(given['dt']) if given['dt'] is not None else (float(so['dt']) if mo['unit'] == so['unit'] else 1.0)
    if float(mo['dt']) != exp_dt:
        fail('dt', f"dt={mo['dt']} but expected {exp_dt} ({'given' if given['dt'] is not None else 'sim dt' if mo['unit'] == so['unit'] else '1.0 since the units differ'})")
    if given['start'] is None and mobs.npts and sobs.npts and abs((mobs.datevec[0] - sobs.datevec[0]).days) > 1:
        fail('start', f'no start given but the module starts on {mobs.datevec[0]} while the sim starts on {sobs.datevec[0]}')
    return fails


def expected_name(case):
    return dict(sis='sis', randomnet='randomnet', births='births').get(case.get('modkind', 'sis'))


def search(ctx):
    rng = ctx.rng
    set_eps(ctx)
    # stored witnesses of the known findings first (they vanish when the code is repaired)
    for k in ctx.known:
        if k.get('kind') == 'finding' and k.get('replay'):
            for case in (k['replay'] if isinstance(k['replay'], list) else [k['replay']]):
                fails, _ = oracle_case(case)
                for f in fails: ctx.fail(f['signature'], f['what'], case)
                ctx.count('known_witness_replays')
    cases = []
    for b in ctx.broken:       # inputs on which a tie diverged come first
        d = b.get('data')
        if isinstance(d, dict) and 'sim' in d:
            cases.append(dict(kind=d.get('kind', 'sim'), sim=d['sim'], mod=d.get('mod'), modkind=d.get('modkind', 'sis'), extra=d.get('extra', []), mod2=d.get('mod2')))
    # the scenario families every run exercises (their runs are shared with the correspondence)
    cases += [dict(kind='sim', sim=sp) for sp in scen.fixed_sims()]
    cases += [dict(kind='mod', **c) for c in scen.fixed_mods()]
    n = ctx.budget(120, 1500)
    for i in range(n):
        if i % 3 == 2:
            c = gen_mod_case(rng); cases.append(dict(kind='mod', **c))
        else:
            cases.append(dict(kind='sim', sim=gen_sim_spec(rng)))
    for simkw, probekw in RUN_SCENARIOS:
        try:
            for f in oracle_scheduled_now(simkw, probekw):
                ctx.fail(f['signature'], f['what'], dict(kind='run', sim=simkw, probe=probekw))
            ctx.count('oracle_run_scenarios')
        except Exception as e:
            ctx.broke('search', 'C07.run', f'run scenario {simkw} {probekw} raised {type(e).__name__}: {e}')
    search_zoo(ctx)
    for case in cases:
        try:
            fails, info = oracle_case(case)
        except Exception as e:
            ctx.broke('search', 'C07.oracle', f'reference raised {type(e).__name__}: {e} on {case}', data=case)
            continue
        ctx.count('oracle_cases')
        if info.get('rejected'): ctx.count('oracle_rejected')
        for sk in info.get('skipped', []): ctx.count('oracle_placement_ambiguous_skipped')
        for f in fails:
            ctx.fail(f['signature'], f['what'], case)


RUN_SCENARIOS = [
    (dict(unit='year', start=2000, stop=2006, dt=1.0), dict(dt=2.0)),
    (dict(unit='year', start=2000, stop=2003, dt=1.0), dict(dt=0.5)),
    (dict(unit='year', start=2000, stop=2001, dt=0.2), dict(unit='day', dt=73.0)),
    (dict(unit='day', start='2020-01-01', dur=30, dt=1.0), dict(unit='week')),
    (dict(unit='year', start='1999-07-01', stop='2001-07-01', dt=0.5), dict(unit='month', dt=3.0)),
    (dict(unit='day', start=0, dur=40, dt=2.0), dict(dt=4.0, start=8.0)),
    (dict(unit='unitless', start=0, dur=6, dt=1.0), dict(dt=2.0)),
]


def make_probe(**kw):
    """ an analyzer that logs, at each of its calls, its own step counter / now() and the sim's """
    import starsim as ss
    class Probe(ss.Analyzer):
        def __init__(self, **kw2):
            super().__init__(**kw2); self.log = []
        def step(self):
            t, st = self.t, self.sim.t
            self.log.append(dict(ti=int(t.ti), year=float(t.now('year')), tvec=float(t.now('tvec')), sim_ti=int(st.ti), sim_year=float(st.now('year')), sim_tvec=float(st.now('tvec'))))
    return Probe(**kw)


def oracle_scheduled_now(simkw, probekw):
    """ Run a small sim with a probe on its own timeline: at the probe's k-th call its step counter is k, now() in every
        representation is its own point k, and that point is the instant the loop is at: after the sim's previous point
        and not after the sim's current one (elapsed axis) """
    import starsim as ss
    sim = ss.Sim(n_agents=N_AGENTS, verbose=0, diseases='sis', networks='random', analyzers=make_probe(**probekw), **simkw)
    sim.run()
    return probe_fails(sim, sim.analyzers[0], f'probe({probekw}) in ss.Sim({simkw})')


def probe_fails(sim, p, who):
    fails = []
    def fail(cause, what): fails.append(dict(signature=dict(oracle='scheduled-now', cause=cause), what=f'{who}: {what}'))
    abst = [float(x) for x in p.t.abstvec]; stv = [float(x) for x in sim.t.tvec]; yv = [float(x) for x in p.t.yearvec]
    eps = float(ref.TOL)
    # Its points up to the sim's last point must each be executed once, in order.  Points of its timeline that lie AFTER the
    # sim's last point (a sim whose dur is not a multiple of its dt, a module stop after the sim's) are within the module's own
    # stop; whether the loop executes them is not part of this property (today it does, after the sim's last step)
    expected_calls = [k for k in range(int(p.t.npts)) if abst[k] <= stv[-1] + eps]
    calls = [r['ti'] for r in p.log]
    if calls[:len(expected_calls)] != expected_calls or calls != list(range(len(calls))) or len(calls) > int(p.t.npts):
        fail('calls', f"called at own steps {calls[:12]} but its timeline has the points {expected_calls[:12]} within the sim")
        return fails
    for r in p.log:
        k = r['ti']
        if abs(r['year'] - yv[k]) > eps or abs(r['tvec'] - float(p.t.tvec[k])) > eps:
            fail('now', f"at its call {k} now('year')={r['year']} / now('tvec')={r['tvec']} but its point {k} is year {yv[k]}, tvec {float(p.t.tvec[k])}"); break
        if r['sim_ti'] >= len(stv):       # after the sim's last step: only a point that lies after the sim's last point may be executed there
            if not abst[k] > stv[-1] + eps:
                fail('instant', f"its point {k} lies at elapsed sim time {abst[k]}, not after the sim's last point {stv[-1]}, but it is called after the sim's last step"); break
            continue
        lo = stv[r['sim_ti'] - 1] if r['sim_ti'] > 0 else float('-inf')
        if not (lo + eps < abst[k] <= stv[r['sim_ti']] + eps) or abs(r['sim_tvec'] - stv[r['sim_ti']]) > eps:
            fail('instant', f"its point {k} lies at elapsed sim time {abst[k]} but it is called while the sim is at {r['sim_tvec']} (previous sim point {lo})"); break
    return fails


# ---------------------------------------------------------------------------
# the shared scenario zoo (harness/zoo.py): whole runs of unusual-but-valid configurations; the timeline of the sim and of
# EVERY module (also nested ones: the product of an intervention, the pools of MixingPools) is observed after sim.init()
# and again after sim.run()

PROBE_NAMES = ('c07probe', 'c07probe2', 'c07probe3', 'c07probe4', 'c07probe5', 'c07probe6', 'c07probe7')
PROBE_LABELS = ('', 'dt=2*sim.dt', 'dt=1.5*sim.dt', 'start=2 steps late', 'stop=2 steps early', 'other unit, start=2 steps late', 'as many points as the sim, other instants')


def zoo_probes(cfg):
    """ probes riding along in a zoo run: on the sim's timeline; at twice the sim's dt; and, in sims with a numeric start, at
        1.5 times the sim's dt (a step that does not divide most durations; on a date-based day/week timeline a fractional
        step would only re-trigger the known constant-day-step defect) """
    dt = F(repr(float(cfg.get('dt', 1.0))))      # multiples are taken of the decimal the user wrote (1.5 * 0.1 is not the float 0.15)
    out = [make_probe(name=PROBE_NAMES[0]), make_probe(name=PROBE_NAMES[1], dt=float(2 * dt))]
    start, unit = cfg.get('start'), cfg.get('unit', 'year')
    if not isinstance(start, str) and unit in ('year', 'unitless'):
        out.append(make_probe(name=PROBE_NAMES[2], dt=float(F(3, 2) * dt)))
    # a probe that starts two sim steps late, one for which ONLY the stop is given (two sim steps early), and one in ANOTHER
    # unit that starts two sim steps late
    if cfg.get('dur') is not None and F(repr(float(cfg['dur']))) >= 5 * dt:
        dur = F(repr(float(cfg['dur'])))
        if isinstance(start, str) and unit in ('day', 'week') and (2 * dt * ref.UNIT_DAYS[unit]).denominator == 1:
            d0 = ref.to_date(cfg_spec(cfg)['start'])
            day = lambda k: iso(d0 + dtm.timedelta(days=int(k * ref.UNIT_DAYS[unit])))
            out.append(make_probe(name=PROBE_NAMES[3], start=day(2 * dt)))
            if (dur * ref.UNIT_DAYS[unit]).denominator == 1: out.append(make_probe(name=PROBE_NAMES[4], stop=day(dur - 2 * dt)))
            out.append(make_probe(name=PROBE_NAMES[5], start=day(2 * dt), unit='week' if unit == 'day' else 'day', dt=1.0 if unit == 'day' else 3.0))
        elif start is not None and not isinstance(start, str):
            s0 = F(repr(float(start)))
            out.append(make_probe(name=PROBE_NAMES[3], start=float(s0 + 2 * dt)))
            out.append(make_probe(name=PROBE_NAMES[4], stop=float(s0 + dur - 2 * dt)))
            # (a NUMBER as the start of a week-unit module in a year sim is refused: its stop is the sim's last DATE; so the probe
            #  gets the date of the year s0 + 2 dt.  Not when the sim's start is the number 0: that is not the calendar year 0 —
            #  the code reads it as the default start year — so a date `0002-01-01` would not be "two steps late" but 1998 years early)
            if unit == 'year' and (s0 + 2 * dt).denominator == 1 and s0 >= 1:
                out.append(make_probe(name=PROBE_NAMES[5], start=f'{int(s0 + 2 * dt):04d}-01-01', unit='week', dt=4.0))
    # a probe with AS MANY POINTS as the sim but other instants: half the step over the second half of the sim (numeric starts),
    # twice the step over twice the span, ending after the sim (day/week date sims); only when dt divides dur (else the counts differ)
    if cfg.get('dur') is not None and dt > 0:
        dur = F(repr(float(cfg['dur']))); n = dur / dt
        if n.denominator == 1 and n >= 2:
            if start is not None and not isinstance(start, str):
                s0 = F(repr(float(start)))
                out.append(make_probe(name=PROBE_NAMES[6], start=float(s0 + dur / 2), stop=float(s0 + dur), dt=float(dt / 2)))
            elif isinstance(start, str) and unit in ('day', 'week') and (dt * ref.UNIT_DAYS[unit]).denominator == 1:
                d0 = ref.to_date(cfg_spec(cfg)['start'])
                out.append(make_probe(name=PROBE_NAMES[6], dt=float(2 * dt), stop=iso(d0 + dtm.timedelta(days=int(2 * dur * ref.UNIT_DAYS[unit])))))
    return out


def cfg_spec(cfg):
    """ the time specification of an impl.py configuration in this module's notation (decimal strings / D-dates; pyval()
        gives back the very Python values impl.build_sim hands to ss.Sim: ints stay ints) """
    def sv(x):
        if x is None: return None
        if isinstance(x, str):
            y, m, d = (int(p) for p in x.replace('.', '-').split('-')[:3]); return f'D{y:04d}-{m:02d}-{d:02d}'
        if isinstance(x, bool): raise ValueError(x)
        if isinstance(x, int): return str(x)
        return repr(float(x))
    s = dict(family='zoo', unit=cfg.get('unit'))
    for k in ('start', 'stop', 'dur', 'dt'):
        if cfg.get(k) is not None: s[k] = sv(cfg[k])
    return s


def nested_modules(roots):
    """ the given modules and the modules held in their attributes (directly, or in a list / dict), each once """
    import starsim as ss
    out, seen = [], set()
    def visit(m, depth):
        if id(m) in seen: return
        seen.add(id(m)); out.append(m)
        if depth >= 2: return
        for v in list(vars(m).values()):
            items = v if isinstance(v, (list, tuple)) else list(v.values()) if isinstance(v, dict) else [v]
            for x in items:
                if isinstance(x, ss.Module): visit(x, depth + 1)
    for m in roots: visit(m, 0)
    return out


def given_modules(sim):
    """ the module objects of a sim that is not initialised yet """
    import starsim as ss
    roots = []
    for v in sim.pars.values():
        items = v if isinstance(v, (list, tuple)) else list(v.values()) if isinstance(v, dict) else [v]
        roots += [x for x in items if isinstance(x, ss.Module)]
    return nested_modules(roots)


def snapshot(sim, pre):
    """ run_impl's format for any sim object: every module's observed timeline and result lengths """
    out = dict(sim=observe_time(sim.t), mods={}, modpars={}, made_at_init=[])
    out['sim']['reslens'] = result_lens(sim.results, sim.t)
    for m in nested_modules(list(sim.modules)):
        name = m.name
        while name in out['mods']: name += '#'
        o = observe_time(m.t)
        o['reslens'] = result_lens(m.results, m.t)
        out['mods'][name] = o
        if id(m) in pre: out['modpars'][name] = pre[id(m)]
        else: out['made_at_init'].append(name)
    return attach_plan(out, sim)


_ZOO_RUNS = {}


def run_zoo(name, cfg):
    """ build -> (parameters the modules hold) -> init -> observe -> run -> observe again; cached per process.
        Probes ride along (zoo_probes) """
    if name in _ZOO_RUNS: return _ZOO_RUNS[name]
    from harness import impl
    out = dict(spec=cfg_spec(cfg))
    try:
        probes = zoo_probes(cfg)
    except Exception as e:      # a configuration shape the probe maker does not understand: run the entry without probes
        probes = []; out['probe_error'] = f'{type(e).__name__}: {e}'
    try:
        def build():
            sim = impl.build_sim(cfg, extra_analyzers=probes)
            pre = {id(m): dict(unit=m.t.unit, start=m.t.start, stop=m.t.stop, dt=m.t.dt) for m in given_modules(sim)}
            sim.init()
            return sim, pre
        try:
            sim, pre = with_timeout(TIME_LIMIT, build)
        except Exception as e:
            if not probes: raise
            # refused WITH the probes (e.g. a probe window that lies outside a sim whose start the code moved): the entry
            # itself must still be judged, so run it as it is
            out['probes_dropped'] = f'{type(e).__name__}: {str(e)[:200]}'
            probes = []
            sim, pre = with_timeout(TIME_LIMIT, build)
    except (Exception, Hang) as e:
        out.update(err=err_kind(e), exc=f'{type(e).__name__}: {str(e)[:200]}')
        _ZOO_RUNS[name] = out
        return out
    out['init'] = snapshot(sim, pre)
    try:
        with_timeout(3 * TIME_LIMIT, sim.run)
        out['run'] = snapshot(sim, pre)
        out['probe_fails'] = [f for pn, lbl in zip(PROBE_NAMES, PROBE_LABELS) if pn in sim.analyzers
                              for f in probe_fails(sim, sim.analyzers[pn], f'probe({lbl}) in sim{fmt_spec(out["spec"])}')]
    except (Exception, Hang) as e:
        out.update(run_err=err_kind(e), run_exc=f'{type(e).__name__}: {str(e)[:200]}')
    _ZOO_RUNS[name] = out
    return out


VEC_KEYS = ('npts', 'numeric', 'timevec', 'yearvec', 'datevec', 'tvec', 'abstvec')


def oracle_zoo(name, cfg):
    """ the timeline-consistency oracle on one zoo entry: after init and after the run.  Returns (fails, info) """
    z = run_zoo(name, cfg)
    s = z['spec']
    if z.get('err') == 'E:Hang':
        return [dict(signature=dict(oracle='termination', cause='other'), what=f'sim{fmt_spec(s)}: ss.Sim(...).init() did not return within {TIME_LIMIT} s')], dict(rejected='E:Hang')
    if 'err' in z:
        return [], dict(rejected=z['err'], exc=z['exc'])       # not accepted: outside the property (the correspondence reports it)
    fails, info = judge_run(s, z['init'])
    if z.get('run_err') == 'E:Hang':
        fails.append(dict(signature=dict(oracle='termination', cause='run'), what=f'sim{fmt_spec(s)}: sim.run() did not return within {3 * TIME_LIMIT} s'))
    if 'run' in z:
        a, b = z['init'], z['run']
        # the timelines are fixed at init: running the sim must not move, extend or shorten them
        for nm in ['<sim>'] + sorted(a['mods']):
            oa = a['sim'] if nm == '<sim>' else a['mods'][nm]
            ob = b['sim'] if nm == '<sim>' else b['mods'].get(nm)
            k = 'module' if ob is None else next((k for k in VEC_KEYS if oa[k] != ob[k]), None)
            if k:
                fails.append(dict(signature=dict(oracle='run', cause='timeline-changed'), what=f'sim{fmt_spec(s)}: {k} of {nm} after sim.run() differs from what sim.init() made'))
                break
        seen = {json.dumps(f['signature'], sort_keys=True) + f['what'] for f in fails}
        f2, _ = judge_run(s, b)
        for f in f2:
            if json.dumps(f['signature'], sort_keys=True) + f['what'] not in seen:
                fails.append(dict(signature=f['signature'], what='after sim.run(): ' + f['what']))
        fails += z.get('probe_fails', [])
    else:
        info['run_raised'] = z.get('run_exc')
    return fails, info


def search_zoo(ctx):
    from harness import zoo
    for name, cfg in zoo.configs():
        try:
            fails, info = oracle_zoo(name, cfg)
        except Exception as e:
            ctx.count('zoo_exceptions'); ctx.notes['last_zoo_exception'] = f'{name}: {type(e).__name__}: {e}'; continue
        if info.get('rejected') or info.get('run_raised'):
            # the entry did not get through the real code (every entry does on the unchanged tree): not a timeline to judge
            ctx.count('zoo_exceptions'); ctx.notes['last_zoo_exception'] = f"{name}: starsim raised {info.get('exc') or info.get('run_raised')}"
            if info.get('rejected') and not fails: continue
        ctx.count('zoo_runs')
        z = _ZOO_RUNS[name]
        if z.get('probe_error') or z.get('probes_dropped'):
            ctx.count('zoo_exceptions'); ctx.notes['last_zoo_exception'] = f"{name}: run without probes: {z.get('probe_error') or z.get('probes_dropped')}"
        ctx.count('zoo_timelines', 1 + len(z.get('init', {}).get('mods', {})))
        for f in fails:
            ctx.fail(f['signature'], f'[zoo:{name}] ' + f['what'], dict(kind='zoo', name=name, cfg=cfg))


def correspond_zoo(ctx):
    """ every zoo entry against Model/Timeline.lean: the sim's timeline and one model line per module with the parameters
        the constructed module really held; compared after init and again after the run """
    from harness import zoo
    runs = []; all_lines = []
    for name, cfg in zoo.configs():
        try:
            z = run_zoo(name, cfg)
            s = z['spec']
            lines = [sim_line('sim', s)]; names = [None]
            for nm, mp in (z.get('init') or {}).get('modpars', {}).items():
                lines.append(mod_pars_line(s, mp)); names.append(nm)
        except Exception as e:
            ctx.count('zoo_exceptions'); ctx.notes['last_zoo_exception'] = f'{name}: {type(e).__name__}: {e}'; continue
        runs.append((name, cfg, z, lines, names, len(all_lines)))
        all_lines += lines
    all_out = ctx.drive(DRIVER, all_lines) if all_lines else []
    ndiv = 0
    for name, cfg, z, lines, names, off in runs:
        s = z['spec']
        out = all_out[off:off + len(lines)]
        ms = [parse_model(o) for o in out]
        data = dict(kind='zoo', name=name, cfg=cfg)
        if any(m['kind'] == 'bad' for m in ms):
            ctx.broke('correspondence', 'C07.driver', f'[zoo:{name}] driver rejected one of {lines}: {out}', data=data); continue
        if any(m['kind'] == 'unsupported' for m in ms):
            ctx.count('unsupported_skipped'); continue
        ctx.count('zoo_correspond_runs')
        div = None
        if 'err' in z:
            errs = [m['err'] for m in ms if m['kind'] == 'err']
            if not errs: div = f"impl raised {z['exc']} but the model accepts the sim and its modules"
        else:
            for phase in ('init', 'run'):
                r = z.get(phase)
                if r is None: continue
                for nm, m, ln in zip(names, ms, lines):
                    if m['kind'] == 'err':
                        div = f"model rejects `{ln}` with {m['err']} but the code accepts"; break
                    o = r['sim'] if nm is None else r['mods'].get(nm)
                    if o is None:
                        div = f'module {nm} missing after {phase}'; break
                    d = compare_obs(ctx, o, m)
                    if d:
                        div = f"after {phase}: {'sim' if nm is None else 'module ' + nm}: {d}"; break
                    ctx.count('zoo_timelines_compared')
                if div: break
        ctx.case(('zoo', name), nontrivial=True, sample=dict(kind='zoo', name=name, spec=s, lines=lines[:4]) if ndiv == 0 and name in ('week-module-in-year-sim', 'deaths-window') else None)
        if div:
            ndiv += 1
            ctx.broke('correspondence', 'C07.zoo', f'[zoo:{name}] sim{fmt_spec(s)} diverges from Model/Timeline.lean: {div}', data=data)
            if ndiv >= 5: break


def replay(ctx, data):
    set_eps(None)
    if data.get('kind') == 'run':
        return bool(oracle_scheduled_now(data['sim'], data['probe']))
    if data.get('kind') == 'update-reinit':
        import starsim as ss
        t = ss.Time(**data['base']); t.update(**data['change'])
        a, b = observe_time(t), observe_time(ss.Time(**dict(data['base'], **data['change'])))
        return any(a[k] != b[k] for k in ('npts', 'timevec', 'yearvec', 'datevec', 'tvec'))
    if data.get('kind') == 'update':
        return False
    if data.get('kind') == 'zoo':
        fails, info = oracle_zoo(data['name'], data['cfg'])
        for f in fails[:5]:
            print('  ' + f['what'][:300], f['signature'])
        return bool(fails)
    fails, info = oracle_case(data)
    for f in fails[:5]:
        print('  ' + f['what'][:300], f['signature'])
    return bool(fails)
