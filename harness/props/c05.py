"""
C05 — Each distribution samples the law its parameters describe  (partial: the law of NumPy's samplers and SciPy's
quantile functions is trusted; everything starsim adds around them is modelled, proved and compared).

correspond(): (1) the Float instance of the formulas regenerated from distributions.py (Drivers/C05.lean) must give the
                  parameters the real Dist computes (lognormal conversions, SciPy kwds, uniform / randint / bernoulli
                  quantile functions, histogram normalisation and bin completion, dur/rate scaling);
              (2) for every family x parameter mode, Dist.rvs(uids) must equal the documented NumPy sampler / SciPy
                  quantile function applied — with the model's arguments — to the reference stream
                  Generator(PCG64(seed).jumped(ind)), indexed by slot; plus dtype, support, emptiness;
              (3) time-wrapped parameters scale the variates by exactly the unit conversion factor; refusals.
search():     on the real code only: support, documented moments (6-sigma, statistical — labelled as such), scalar vs
              per-agent path agreement in law, Bernoulli monotonicity in p under a fixed seed, empty requests.
"""
import struct, math, json
import numpy as np
from fractions import Fraction
from harness import impl
from harness.props import c04, c03

PROP = 'C05'
GENERATED = ['DistFormulasR', 'DistFormulasF', 'TimeUnits']
DRIVER = 'Drivers/C05.lean'
DRIVER_MODULES = ['StarsimModel.Model.DistPars', 'StarsimModel.Model.Proto']
RULE = ('every family of ss.dist_list x {scalar, per-agent array, callable} parameters x random valid parameter values x slot '
        'assignments x uid requests, and (unit, dt) pairs for time-wrapped parameters; distinct = distinct (family, mode, parameters, request); '
        'non-trivial = non-empty request')
TRUSTED = ['the law of NumPy Generator samplers and SciPy ppf/rvs for given arguments (only the arguments starsim passes are checked)',
           'statistical oracle checks (moments at 6 sigma, two-sample comparisons) are supporting evidence, not proof']
ASSUMPTIONS = ['"agree in law" is reduced to: both paths apply the same monotone transform, with the same parameters, to a standard variate']


def bits(x):
    return struct.unpack('<Q', struct.pack('<d', float(x)))[0]


def unbits(s):
    return struct.unpack('<d', struct.pack('<Q', int(s)))[0]


def close(a, b, ulps=8):
    a = np.asarray(a, dtype=float); b = np.asarray(b, dtype=float)
    if a.shape != b.shape: return False
    return bool(np.all((a == b) | (np.abs(a - b) <= ulps * np.spacing(np.maximum(np.abs(a), np.abs(b)))) | (np.isnan(a) & np.isnan(b))))


# ---------------------------------------------------------------------------
# random valid parameters per family; `tab` = per-agent tables for the array/callable modes

def gen_pars(fam, rng, n):
    r = np.random.default_rng(rng.randint(0, 10**9))
    def tab(lo, hi, nd=3): return np.round(lo + (hi - lo) * r.random(n), nd)
    if fam == 'random': return {}, {}
    if fam == 'uniform':
        low = round(rng.uniform(-5, 5), 2); return dict(low=low, high=low + round(rng.uniform(0.5, 6), 2)), dict(low=tab(-5, 0), high=tab(1, 6))
    if fam == 'normal': return dict(loc=round(rng.uniform(-5, 5), 2), scale=round(rng.uniform(0.2, 4), 2)), dict(loc=tab(-5, 5), scale=tab(0.2, 4))
    if fam == 'lognorm_ex': return dict(mean=round(rng.uniform(0.3, 8), 2), std=round(rng.uniform(0.2, 4), 2)), dict(mean=tab(0.3, 8), std=tab(0.2, 4))
    if fam == 'lognorm_im': return dict(mean=round(rng.uniform(-1, 2), 2), sigma=round(rng.uniform(0.1, 1.2), 2)), dict(mean=tab(-1, 2), sigma=tab(0.1, 1.2))
    if fam == 'expon': return dict(scale=round(rng.uniform(0.2, 6), 2)), dict(scale=tab(0.2, 6))
    if fam == 'poisson': return dict(lam=round(rng.uniform(0.3, 12), 2)), dict(lam=tab(0.3, 12))
    if fam == 'nbinom': return dict(n=rng.randint(1, 8), p=round(rng.uniform(0.15, 0.85), 2)), dict(n=np.round(tab(1, 8), 0), p=tab(0.15, 0.85))
    if fam == 'weibull': return dict(c=round(rng.uniform(0.6, 3), 2), loc=round(rng.uniform(0, 2), 1), scale=round(rng.uniform(0.5, 4), 2)), dict(c=tab(0.6, 3), scale=tab(0.5, 4))
    if fam == 'gamma': return dict(a=round(rng.uniform(0.6, 5), 2), loc=round(rng.uniform(0, 2), 1), scale=round(rng.uniform(0.5, 3), 2)), dict(a=tab(0.6, 5), scale=tab(0.5, 3))
    if fam == 'constant': return dict(v=round(rng.uniform(-3, 9), 2)), dict(v=tab(-3, 9))
    if fam == 'randint':
        low = rng.randint(-20, 20); return dict(low=low, high=low + rng.randint(1, 30)), dict(low=np.round(tab(-20, 0), 0).astype(int), high=np.round(tab(1, 25), 0).astype(int))
    if fam == 'rand_raw': return {}, {}
    if fam == 'bernoulli': return dict(p=round(rng.uniform(0, 1), 2)), dict(p=tab(0, 1, 2))
    if fam == 'choice':
        k = rng.randint(2, 6)
        if rng.random() < 0.5: return dict(a=k), {}
        w = r.random(k); w = w / w.sum()
        return dict(a=[int(x) for x in r.integers(0, 100, k)], p=[float(x) for x in w]), {}
    if fam == 'histogram':
        k = rng.randint(2, 6)
        vals = [float(x) for x in np.round(r.random(k) * 5 + 0.1, 1)]
        edges = np.cumsum(np.round(r.random(k + 1) * 3 + 0.5, 1))
        bins = [float(x) for x in (edges if rng.random() < 0.5 else edges[:-1])]
        if rng.random() < 0.4:
            # built from data: the bin weights are the COUNTS of the data in the (possibly unequal) bins
            data = [float(x) for x in np.round(r.gamma(2.0, 3.0, rng.randint(30, 200)), 2)]
            how = rng.random()
            b = [float(x) for x in np.concatenate([[0.0], np.cumsum(np.round(r.random(k + 1) * 6 + 0.3, 1))])] if how < 0.6 else (rng.randint(3, 8) if how < 0.8 else None)
            return dict(data=data, bins=b), {}
        return dict(values=vals, bins=bins), {}
    raise KeyError(fam)


DYN = ['uniform', 'normal', 'lognorm_ex', 'lognorm_im', 'expon', 'poisson', 'nbinom', 'weibull', 'gamma', 'constant', 'randint', 'bernoulli']


def gen_case(rng, families):
    fam = rng.choice(families)
    mode = rng.choice(['scalar', 'array', 'callable']) if fam in DYN else 'scalar'
    n = rng.randint(4, 24)
    slots = [rng.randint(0, 2 * n) for _ in range(n)] if rng.random() < 0.5 else list(range(n))
    req = sorted(rng.sample(range(n), rng.choice([0, 1, 2, 3, n // 2, n])))
    sp, tp = gen_pars(fam, rng, n)
    return dict(family=fam, mode=mode, n=n, slots=slots, req=req, spars=sp, tpars={k: np.asarray(v).tolist() for k, v in tp.items()},
                trace='c5_%d' % rng.randint(0, 10**6), seed=rng.choice([0, 3, 77]), ti=rng.randint(1, 5), k=rng.choice([0, 0, 1, 2]))


def build_dist(c):
    """ the real dist, initialised, positioned at step ti with k earlier calls """
    import starsim as ss
    fam, mode = c['family'], c['mode']
    pars = dict(c['spars'])
    req = np.asarray(c['req'], dtype=int)
    if mode != 'scalar':
        for key, tab in c['tpars'].items():
            tab = np.asarray(tab)
            if mode == 'array':
                pars[key] = tab[req]
            else:
                pars[key] = (lambda t: (lambda module, sim, uids: t if uids is None else t[np.asarray(uids, dtype=int)]))(tab)
    d = getattr(ss, fam)(**pars)
    slots = np.array(c['slots'])
    d.init(trace=c['trace'], seed=c['seed'], sim=c03.Sim0(slots), slots=slots)
    d.jump_dt(ti=c['ti'])
    for _ in range(c['k']):
        if mode == 'scalar': d.rvs(3)
        elif len(req): d.rvs(ss.uids(req))
    return d


def ref_generator(c, modulo, stride, n_earlier):
    seed = c04.str2int_ref(c['trace'], modulo) + c['seed']
    ind = stride * c['ti'] + n_earlier
    g = np.random.PCG64(seed)
    if ind: g = g.jumped(ind)
    return np.random.Generator(g)


def reference(c, G, size, model):
    """ Expected Dist.rvs(uids) from the documented sampler / quantile function.  `model` = parameters translated by the Lean model. """
    import scipy.stats as sps
    fam, mode = c['family'], c['mode']
    slots = np.array(c['slots'])[np.asarray(c['req'], dtype=int)]
    P = dict(c['spars'])
    if mode != 'scalar':
        for key, tab in c['tpars'].items():
            P[key] = np.asarray(tab)[np.asarray(c['req'], dtype=int)]
    f32 = np.float32
    if mode == 'scalar':
        if fam == 'random': full = G.random(size, dtype=f32)
        elif fam == 'uniform': full = G.random(size, dtype=f32) * (P['high'] - P['low']) + P['low']
        elif fam == 'normal': full = G.normal(P['loc'], P['scale'], size)
        elif fam == 'lognorm_ex': full = G.lognormal(model['mean_im'], model['sigma_im'], size)
        elif fam == 'lognorm_im': full = G.lognormal(P['mean'], P['sigma'], size)
        elif fam == 'expon': full = G.exponential(P['scale'], size)
        elif fam == 'poisson': full = G.poisson(P['lam'], size)
        elif fam == 'nbinom': full = G.negative_binomial(P['n'], P['p'], size)
        elif fam == 'weibull': full = sps.weibull_min(c=P['c'], loc=P['loc'], scale=P['scale']).rvs(size, random_state=G)
        elif fam == 'gamma': full = sps.gamma(a=P['a'], loc=P['loc'], scale=P['scale']).rvs(size, random_state=G)
        elif fam == 'constant': full = np.full(size, P['v'])
        elif fam == 'randint': full = G.integers(P['low'], P['high'], size, dtype=np.int32)
        elif fam == 'rand_raw': full = G.bit_generator.random_raw(size)
        elif fam == 'bernoulli': full = G.random(size, dtype=f32) < P['p']
        elif fam == 'choice': full = G.choice(a=P['a'], p=P.get('p'), size=size)
        elif fam == 'histogram':
            full = sps.rv_histogram((np.array(model['values']), np.array(model['bins'])), density=False).rvs(size=size, random_state=G)
        else: raise KeyError(fam)
        return np.asarray(full)[slots]
    u = G.random(size, dtype=f32)[slots]
    if fam == 'uniform': return u * (P['high'] - P['low']) + P['low']
    if fam == 'normal': return sps.norm(loc=P['loc'], scale=P['scale']).ppf(u)
    if fam == 'lognorm_ex': return sps.lognorm(s=np.array(model['s']), scale=np.array(model['scale']), loc=0).ppf(u)
    if fam == 'lognorm_im': return sps.lognorm(s=P['sigma'], scale=np.exp(P['mean']), loc=0).ppf(u)
    if fam == 'expon': return sps.expon(scale=P['scale']).ppf(u)
    if fam == 'poisson': return sps.poisson(mu=P['lam']).ppf(u)
    if fam == 'nbinom': return sps.nbinom(n=P['n'], p=P['p']).ppf(u)
    if fam == 'weibull': return sps.weibull_min(c=P['c'], loc=P['loc'], scale=P['scale']).ppf(u)
    if fam == 'gamma': return sps.gamma(a=P['a'], loc=P['loc'], scale=P['scale']).ppf(u)
    if fam == 'constant': return np.full(u.shape, P['v']) if np.isscalar(P['v']) else np.asarray(P['v'], dtype=float) * np.ones(u.shape)
    if fam == 'randint': return np.floor(u * (P['high'] - P['low']) + P['low']).astype(np.int32)
    if fam == 'bernoulli': return u < P['p']
    raise KeyError(fam)


def support_ok(c, out):
    fam = c['family']; P = dict(c['spars'])
    if c['mode'] != 'scalar':
        for key, tab in c['tpars'].items(): P[key] = np.asarray(tab)[np.asarray(c['req'], dtype=int)]
    out = np.asarray(out)
    if fam in ('random',): return bool(np.all((out >= 0) & (out < 1)))
    if fam == 'uniform': return bool(np.all((out >= P['low']) & (out <= P['high'])))
    if fam == 'randint': return bool(np.all((out >= P['low']) & (out < P['high'])))
    if fam in ('lognorm_ex', 'lognorm_im', 'expon'): return bool(np.all(out >= 0))
    if fam in ('poisson', 'nbinom'): return bool(np.all((out >= 0) & (out == np.round(out))))
    if fam == 'bernoulli': return out.dtype == bool
    return True


# ---------------------------------------------------------------------------

def correspond(ctx):
    import starsim as ss
    facts = (ctx.extracted.get('DistFormulasF') or {}).get('facts') or {}
    rfacts = (ctx.extracted.get('RngConsts') or {}).get('facts') or {}
    modulo, stride = 10**9, ss.random(strict=False).dt_jump_size
    families = list(ss.dist_list)
    cases = [gen_case(ctx.rng, families) for _ in range(ctx.budget(260, 2000))]
    # every family, every mode at least once
    seen = set()
    for fam in families:
        for mode in (['scalar', 'array', 'callable'] if fam in DYN else ['scalar']):
            c = gen_case(ctx.rng, [fam]); c['mode'] = mode
            if not c['req']: c['req'] = [0, 1]
            cases.append(c)
    lines = []; plan = []
    for c in cases:
        fam = c['family']
        # model lines: parameter translation
        ml = []
        P = dict(c['spars'])
        req = np.asarray(c['req'], dtype=int)
        if c['mode'] != 'scalar':
            for key, tab in c['tpars'].items(): P[key] = np.asarray(tab)[req]
        if fam == 'lognorm_ex':
            ms = np.atleast_1d(P['mean']); ss_ = np.atleast_1d(P['std'])
            ms, ss_ = np.broadcast_arrays(ms, ss_)
            ml = [f'lognorm_ex {bits(m)} {bits(s)}' for m, s in zip(ms, ss_)]
        elif fam == 'histogram':
            sp = c['spars']
            if 'data' in sp:   # the documented meaning of data=: counts of the data per bin (np.histogram), then as for values=
                cnt, edg = np.histogram(np.asarray(sp['data']), **({'bins': sp['bins']} if sp.get('bins') is not None else {}))
                ml = [f"hist {c03.lst(cnt.astype(float), c03.fr)} {c03.lst(edg, c03.fr)}"]
            else:
                ml = [f"hist {c03.lst(sp['values'], c03.fr)} {c03.lst(sp['bins'], c03.fr)}"]
        plan.append(dict(c=c, off=len(lines), nml=len(ml)))
        lines += ml
    out = ctx.drive(DRIVER, lines) if lines else []
    cover = {}
    for p in plan:
        c = p['c']; fam = c['family']
        key = f"{fam}/{c['mode']}"
        cover[key] = cover.get(key, 0) + 1
        mo = out[p['off']:p['off'] + p['nml']]
        model = {}
        if 'bad-op' in mo:
            ctx.broke('correspondence', 'C05.model', f'driver rejected an operation for {key}', data=c); return
        if fam == 'lognorm_ex':
            rows = [[unbits(x) for x in l.split()] for l in mo]
            arr = np.array(rows) if rows else np.zeros((0, 5))
            sc_ = c['mode'] == 'scalar'
            model = dict(mean_im=arr[0, 0] if sc_ else arr[:, 0], sigma_im=arr[0, 1] if sc_ else arr[:, 1],
                         s=arr[0, 2] if sc_ else arr[:, 2], scale=arr[0, 3] if sc_ else arr[:, 3], loc=arr[0, 4] if sc_ else arr[:, 4])
        elif fam == 'histogram':
            v, b = mo[0].split()
            if b == 'E:Other':
                model = None
            else:
                model = dict(values=[float(Fraction(x)) for x in v.split(',')], bins=[float(Fraction(x)) for x in b.split(',')])
        try:
            d = build_dist(c)
            real = d.rvs(ss.uids(c['req']))
        except Exception as e:
            ctx.broke('correspondence', 'C05.rvs', f'ss.{fam} ({c["mode"]}) raised {type(e).__name__}: {e}', data=c)
            if len(ctx.broken) > 5: return
            continue
        ctx.case(('rvs', fam, c['mode'], repr(c['spars']), repr(c['tpars']), tuple(c['slots']), tuple(c['req'])), len(c['req']) > 0,
                 sample=dict(kind='family-reference', family=fam, mode=c['mode'], pars=c['spars'] if c['mode'] == 'scalar' else {k: v[:4] for k, v in c['tpars'].items()}, request=c['req'][:6]))
        if not c['req']:
            if np.size(real) != 0:
                ctx.broke('correspondence', 'C05.empty', f'ss.{fam}: empty request returned {np.size(real)} values', data=c); return
            continue
        # (1) the parameters the real dist computed vs the model
        if fam == 'lognorm_ex':
            got = (d._pars['mean'], d._pars['sigma'], d.dist.kwds['s'], d.dist.kwds['scale'], d.dist.kwds['loc'])
            exp = (model['mean_im'], model['sigma_im'], model['s'], model['scale'], model['loc'])
            for nm, g, e in zip(('mean_im', 'sigma_im', 's', 'scale', 'loc'), got, exp):
                if not close(np.broadcast_to(g, np.shape(e)), e):
                    ctx.broke('correspondence', 'C05.params', f'ss.lognorm_ex ({c["mode"]}): {nm} computed by the code {np.asarray(g).ravel()[:3]} differs from the regenerated formula {np.asarray(e).ravel()[:3]}', data=c); return
            ctx.count('param_translations_checked')
        if fam == 'histogram' and model is not None:
            hv, hb = d.dist.kwds.get('histogram', (None, None)) if hasattr(d.dist, 'kwds') and 'histogram' in d.dist.kwds else d.dist._histogram if hasattr(d.dist, '_histogram') else (None, None)
            if hv is not None and (not close(hv, model['values']) or not close(hb, model['bins'])):
                ctx.broke('correspondence', 'C05.params', f'ss.histogram: normalised values / completed bins differ from the model: {list(hv)} {list(hb)} vs {model}', data=c); return
            ctx.count('param_translations_checked')
        # (2) variates vs the documented sampler on the reference stream
        size = int(np.array(c['slots'])[c['req']].max()) + 1
        G = ref_generator(c, modulo, stride, c['k'])
        try:
            exp = reference(c, G, size, model)
        except Exception as e:
            ctx.broke('correspondence', 'C05.reference', f'reference for {key} raised {type(e).__name__}: {e}', data=c); return
        realv = np.asarray(real)
        exact = realv.shape == np.shape(exp) and (np.array_equal(realv, exp, equal_nan=True) if realv.dtype.kind == 'f' else np.array_equal(realv, exp))
        if not exact:
            ok = realv.shape == np.shape(exp) and realv.dtype.kind == 'f' and close(realv, exp, ulps=16)
            ctx.count('inexact_but_within_16ulp', int(ok))
            if not ok:
                ctx.broke('correspondence', 'C05.rvs', f'ss.{fam} ({c["mode"]}): rvs(uids) = {realv.ravel()[:4]} differs from the documented sampler on the reference stream = {np.asarray(exp).ravel()[:4]} (pars {c["spars"] if c["mode"]=="scalar" else "per-agent"})', data=c)
                return
        if not support_ok(c, realv):
            ctx.fail(dict(oracle='support', family=fam, mode=c['mode']), f'ss.{fam} ({c["mode"]}): variates outside the documented support', dict(kind='case', case=c))
    ctx.notes['family_mode_coverage'] = dict(sorted(cover.items()))
    correspond_formulas(ctx)
    correspond_timepars(ctx)
    correspond_bernoulli_timeprob(ctx)
    correspond_rejections(ctx)


def correspond_formulas(ctx):
    """ starsim-defined quantile functions evaluated by the Float model vs the code's ppf on the same numbers """
    import starsim as ss
    rng = ctx.rng
    lines = []; plan = []
    for _ in range(ctx.budget(60, 400)):
        u = np.float64(np.float32(rng.random()))
        low = round(rng.uniform(-9, 9), 2); high = low + round(rng.uniform(0.1, 9), 2)
        lines.append(f'uniform {bits(u)} {bits(low)} {bits(high)}'); plan.append(('uniform', u, low, high))
        li = rng.randint(-30, 30); hi = li + rng.randint(1, 40)
        lines.append(f'randintraw {bits(u)} {bits(li)} {bits(hi)}'); plan.append(('randint', u, li, hi))
        lines.append(f'randint {c03.fr(u)} {li} {hi}'); plan.append(('randint_exact', u, li, hi))
        p = round(rng.random(), 2) if rng.random() < 0.8 else float(u)
        lines.append(f'bern {bits(u)} {bits(p)}'); plan.append(('bern', u, p))
    out = ctx.drive(DRIVER, lines)
    slots = np.arange(1)
    for pl, o in zip(plan, out):
        kind = pl[0]
        if kind == 'uniform':
            _, u, low, high = pl
            d = ss.uniform(low=np.array([low]), high=np.array([high])); d.init(trace='f', seed=0, sim=c03.Sim0(slots), slots=slots); d._pars = d.pars
            got = d.ppf(np.array([u]))[0]
            mk, pp = [unbits(x) for x in o.split()]
            if not close(got, pp, 2) or not close(mk, pp, 2):
                ctx.broke('correspondence', 'C05.uniform', f'uniform.ppf({u}; {low}, {high}) = {got}, regenerated formula gives {pp} (make_rvs form {mk})'); return
        elif kind == 'randint':
            _, u, li, hi = pl
            d = ss.randint(low=np.array([li]), high=np.array([hi])); d.init(trace='f', seed=0, sim=c03.Sim0(slots), slots=slots)
            d._pars = d.pars
            got = int(d.ppf(np.array([u]))[0])
            raw, fl = [unbits(x) for x in o.split()]
            if got != int(fl):
                ctx.broke('correspondence', 'C05.randint', f'randint.ppf({u}; {li}, {hi}) = {got}, regenerated formula gives {fl}'); return
            if not (li <= got < hi):
                ctx.fail(dict(oracle='support', family='randint', mode='array'), f'randint.ppf({u}; low={li}, high={hi}) = {got} outside [low, high)', dict(kind='randint_ppf', u=float(u), low=li, high=hi))
        elif kind == 'randint_exact':
            _, u, li, hi = pl
            ex = int(o)
            if not (li <= ex < hi):
                ctx.broke('correspondence', 'C05.randint', f'model randintSpec({u},{li},{hi}) = {ex} outside [low, high)'); return
        elif kind == 'bern':
            _, u, p = pl
            d = ss.bernoulli(p=np.array([p])); d.init(trace='f', seed=0, sim=c03.Sim0(slots), slots=slots); d._pars = d.pars
            got = bool(d.ppf(np.array([u]))[0])
            a, b = o.split()
            if got != (b == '1') or a != b:
                ctx.broke('correspondence', 'C05.bernoulli', f'bernoulli.ppf({u}; p={p}) = {got}, regenerated formula gives {b}'); return
        ctx.case(('formula',) + tuple(map(str, pl)), True)
    ctx.count('formula_points', len(plan))


def unit_len(ctx):
    f = (ctx.extracted.get('TimeUnits') or {}).get('facts') or dict(day='1', week='7', month='487/16', year='1461/4')
    return {k: Fraction(v) for k, v in f.items()}


TIMEKEYS = dict(normal=['loc', 'scale'], expon=['scale'], uniform=['low', 'high'], lognorm_ex=['mean', 'std'], constant=['v'],
                weibull=['scale', 'loc'], gamma=['scale', 'loc'], randint=['low', 'high'])


def timepar_case(sc, draws=1):
    """ run one time-wrapped scenario on the real code: (scaled variates, raw variates, float32?) """
    import starsim as ss
    fam, kind, u1, u2, dt2 = sc['fam'], sc['kind'], sc['u1'], sc['u2'], sc['dt2']
    hist = sc.get('hist', 'fresh')
    def W(v):
        # how the wrapper reached its final configuration (u1 in steps of dt2 u2): the factor must be that of the FINAL one
        cls = getattr(ss, kind)
        if hist == 'fresh':
            return cls(v, unit=u1, parent_unit=u2, parent_dt=dt2).init()
        o_u, o_dt = sc['other']
        tp = cls(v, unit=u1, parent_unit=o_u, parent_dt=o_dt).init()
        if hist == 'set':
            tp.set(parent_dt=dt2)
            if o_u != u2: tp.set(parent_unit=u2)
        elif hist == 'set-both':
            tp.set(parent_unit=u2, parent_dt=dt2)
        elif hist == 'reinit':
            tp.init(parent_unit=u2, parent_dt=dt2)
        return tp
    sp = {k: (np.asarray(v, dtype=sc.get('sp_dtype', {}).get(k)) if isinstance(v, list) else (v.copy() if isinstance(v, np.ndarray) else v)) for k, v in sc['sp'].items()}
    sp_raw = {k: (v.copy() if isinstance(v, np.ndarray) else v) for k, v in sp.items()}      # the twin gets its own arrays: nothing is shared
    extra = sc.get('extra', {})
    slots = np.arange(sc['n']); req = sc['req']
    wrapped = {k: (W(v) if k in TIMEKEYS[fam] else v) for k, v in sp.items()}
    d = getattr(ss, fam)(**wrapped, **extra); d.init(trace=sc['tr'], seed=1, sim=c03.Sim0(slots), slots=slots); d.jump_dt(ti=1)
    raw = getattr(ss, fam)(**sp_raw, **extra); raw.init(trace=sc['tr'], seed=1, sim=c03.Sim0(slots), slots=slots); raw.jump_dt(ti=1)
    a0 = np.asarray(d.rvs(ss.uids(req))); f32 = a0.dtype == np.float32 or any(isinstance(v, np.ndarray) and v.dtype == np.float32 for v in sp.values())
    b0 = np.asarray(raw.rvs(ss.uids(req)), dtype=float)
    for k in range(2, int(draws) + 1):      # further draws after a jump: the last one is returned
        d.jump_dt(ti=k); raw.jump_dt(ti=k)
        a0 = np.asarray(d.rvs(ss.uids(req))); b0 = np.asarray(raw.rvs(ss.uids(req)), dtype=float)
    return a0.astype(float), b0, bool(f32)


def timepar_oracle(sc, ul=None, draws=1):
    """ the property's clause on the real code alone: variates = raw variates x (or /) exactly the conversion factor """
    ul = ul or dict(day=Fraction(1), week=Fraction(7), month=Fraction(487, 16), year=Fraction(1461, 4))
    a, b, f32 = timepar_case(sc, draws)
    factor = float((Fraction(1) / Fraction(str(sc['dt2']))) * (Fraction(ul[sc['u1']]) / Fraction(ul[sc['u2']])))
    exp = b * factor if sc['kind'] == 'dur' else b / factor
    ok = np.allclose(a, exp, rtol=1e-6 if f32 else 1e-12, atol=0)
    if not ok:
        return (f"ss.{sc['fam']} with ss.{sc['kind']}-wrapped parameters ({sc['u1']} in steps of {sc['dt2']} {sc['u2']}; wrapper history `{sc.get('hist', 'fresh')}`): variates {a[:3]} are not the unwrapped "
                f"variates {b[:3]} {'times' if sc['kind'] == 'dur' else 'divided by'} the conversion factor {factor:.6g} (= {exp[:3]})")
    return None


def timepar_modes(ctx):
    """ always exercised, on the real code alone: a time-wrapped parameter given as a scalar, as a per-agent float64 / float32 / integer
        array, for every family that accepts one, both wrapper classes, two conversion factors != 1, every wrapper history, drawn TWICE
        (a second draw after a jump must scale by the same factor again: nothing may be rescaled in place between draws) """
    import starsim as ss
    rng = ctx.rng
    ul = unit_len(ctx)
    n = 7
    for fam in ['normal', 'expon', 'uniform', 'lognorm_ex', 'constant', 'weibull', 'gamma']:
        sps, tabs = gen_pars(fam, rng, n)
        for mode in ['scalar', 'array64', 'array32', 'arrayint']:
            sp = dict(sps)
            for k in TIMEKEYS[fam]:
                if k not in tabs or mode == 'scalar': continue
                t = np.asarray(tabs[k], dtype=float)
                if mode == 'array32': t = t.astype(np.float32)
                if mode == 'arrayint': t = np.maximum(1, np.round(np.abs(t) * 3)).astype(int) + (3 if k in ('high',) else 0)
                sp[k] = t
            if fam == 'uniform' and mode == 'arrayint': sp['low'] = np.zeros(n, dtype=int)
            if fam == 'lognorm_ex' and mode == 'arrayint': continue     # integer std/mean tables: rejected shapes vary; floats cover the family
            for kind, (u1, u2, dt2) in [('dur', ('week', 'day', 2.0)), ('rate', ('day', 'year', 0.25))]:
                sc = dict(fam=fam, kind=kind, u1=u1, u2=u2, dt2=dt2, sp=sp, extra={}, n=n, req=list(range(n)), tr='tpm_%s_%s' % (fam, mode),
                          hist=['fresh', 'set', 'set-both', 'reinit'][rng.randint(0, 3)], other=('month', 0.5))
                try:
                    msg = timepar_oracle(sc, ul, draws=2)
                except Exception as e:
                    ctx.count('timepar_mode_exceptions'); ctx.notes['last_timepar_mode_exception'] = f'{fam} {mode} {kind}: {type(e).__name__}: {e}'; continue
                ctx.count('timepar_mode_runs')
                if msg:
                    jsc = dict(sc, sp={k: (v.tolist() if isinstance(v, np.ndarray) else v) for k, v in sp.items()},
                               sp_dtype={k: str(v.dtype) for k, v in sp.items() if isinstance(v, np.ndarray)})
                    ctx.fail(dict(oracle='timepar-scaling', family=fam, wrapper=kind), f'[{mode} parameters] ' + msg, dict(kind='timepar', sc=jsc, draws=2))


def correspond_timepars(ctx):
    """ (3) a time-wrapped parameter scales the variates by exactly the unit conversion factor """
    rng = ctx.rng
    ul = unit_len(ctx)
    units = ['day', 'week', 'month', 'year']
    lines = []; plan = []
    for _ in range(ctx.budget(40, 300)):
        fam = rng.choice(['normal', 'expon', 'uniform', 'lognorm_ex', 'constant', 'weibull', 'gamma', 'constant', 'randint'])
        kind = rng.choice(['dur', 'dur', 'rate'])
        u1, u2 = rng.choice(units), rng.choice(units)
        dt2 = rng.choice([1.0, 0.5, 0.25, 2.0, 7.0, 0.1])
        factor = (Fraction(1) / Fraction(str(dt2))) * (ul[u1] / ul[u2])
        sp, _ = gen_pars(fam, rng, 4)
        extra = {}
        if fam == 'constant' and rng.random() < 0.6:
            sp = dict(v=rng.randint(1, 40))             # an integer literal: the raw variates are integer-typed
        if fam == 'randint':
            extra = dict(allow_time=True)                 # integer-typed raw variates, time-wrapped bounds
        n = rng.randint(3, 12)
        sc = dict(fam=fam, kind=kind, u1=u1, u2=u2, dt2=dt2, sp=sp, extra=extra, n=n, req=sorted(rng.sample(range(n), rng.randint(1, n))),
                  tr='tp_%d' % rng.randint(0, 10**6), hist=rng.choice(['fresh', 'fresh', 'set', 'set-both', 'reinit']),
                  other=(rng.choice(units), rng.choice([1.0, 0.5, 2.0, 0.2])))
        try:
            a, b, f32 = timepar_case(sc)
        except Exception as e:
            ctx.broke('correspondence', 'C05.timepar', f'ss.{fam} with ss.{kind} parameters ({u1} in {u2}, dt={dt2}) raised {type(e).__name__}: {e}'); return
        f = float(factor)
        lines += [f'{kind} {bits(x)} {bits(f)}' for x in b]
        plan.append(dict(sc=sc, a=a, b=b, n=len(b), factor=str(factor), f32=f32))
    out = ctx.drive(DRIVER, lines)
    i = 0
    for p in plan:
        sc = p['sc']
        exp = np.array([unbits(x) for x in out[i:i + p['n']]]); i += p['n']
        ctx.case(('timepar', sc['fam'], sc['kind'], sc['u1'], sc['u2'], sc['dt2'], sc['hist']), True,
                 sample=dict(kind='timepar-scaling', family=sc['fam'], wrapper=sc['kind'], unit=sc['u1'], parent_unit=sc['u2'], parent_dt=sc['dt2'], factor=p['factor']))
        # (float32 families are scaled in float32 by the code; the model evaluates in float64)
        ok = np.allclose(p['a'], exp, rtol=1e-6, atol=0) if p['f32'] else close(p['a'], exp, 8)
        if not ok:
            ctx.broke('correspondence', 'C05.timepar', f"ss.{sc['fam']} with ss.{sc['kind']} parameters ({sc['u1']} in {sc['u2']}, dt={sc['dt2']}; wrapper history `{sc['hist']}` from {sc['other']}): variates {p['a'][:3]} are not the raw variates {p['b'][:3]} scaled by the conversion factor {p['factor']} ({exp[:3]})",
                      data=dict(sc=sc))
            msg = timepar_oracle(sc, ul)
            if msg:
                ctx.fail(dict(oracle='timepar-scaling', family=sc['fam'], wrapper=sc['kind']), msg, dict(kind='timepar', sc=sc))
            return


def bern_tp_case(mode, u1, u2, dt2, n, tabseed, ul=None):
    """ One Bernoulli / time_prob scenario on the real code: returns (message or None, signature) """
    import starsim as ss
    ul = ul or dict(day=Fraction(1), week=Fraction(7), month=Fraction(487, 16), year=Fraction(1461, 4))
    factor = float((Fraction(1) / Fraction(dt2)) * (Fraction(ul[u1]) / Fraction(ul[u2])))
    base = np.round(np.random.default_rng(tabseed).random(n) * 0.6 + 0.01, 3)
    user = base.copy()
    slots = np.arange(n); tr = 'btp_%d' % tabseed
    cur = dict(tab=user)      # what the callable reads: it changes between calls (a probability that follows the simulation state)
    if mode == 'callable':
        tp = ss.time_prob(lambda m, s, u: cur['tab'] if u is None else cur['tab'][np.asarray(u, dtype=int)], unit=u1, parent_unit=u2, parent_dt=dt2)
        tp.init(update_values=False)
    else:
        tp = ss.time_prob(user, unit=u1, parent_unit=u2, parent_dt=dt2)
        if mode == 'array-init': tp.init()
        else: tp.init(update_values=False)
    b = ss.bernoulli(p=tp); b.init(trace=tr, seed=2, sim=c03.Sim0(slots), slots=slots)
    r = ss.random(); r.init(trace=tr, seed=2, sim=c03.Sim0(slots), slots=slots)
    sub = np.random.default_rng(tabseed + 1)
    for call in range(1, 5):
        b.jump_dt(ti=call); r.jump_dt(ti=call)
        if mode == 'callable':
            # another group of agents on every call (other sizes too), and other probabilities
            sel = np.sort(sub.choice(n, size=int(sub.integers(1, n + 1)), replace=False)) if call > 2 else np.arange(n)   # call 2: same agents, other probabilities
            tab = np.round(np.clip(base * (1.0 if call == 1 else sub.uniform(0.2, 1.5)), 0.001, 0.95), 4); cur['tab'] = tab
        else:
            sel = np.arange(n); tab = base       # (per-agent arrays are given for exactly the agents requested)
        uids = ss.uids(sel)
        want_p = 1 - np.exp(np.log(1 - tab[sel]) / factor)
        got = np.asarray(b.rvs(uids), dtype=bool)
        u = np.asarray(r.rvs(uids), dtype=float)
        exp = u < want_p
        care = np.abs(u - want_p) > 1e-7
        if len(got) != len(sel):
            return (f'ss.bernoulli(p=ss.time_prob({mode}, unit={u1!r})), call {call}: {len(got)} values for {len(sel)} agents'), dict(oracle='bernoulli-timeprob', mode=mode)
        if np.any((got != exp) & care):
            i = int(np.flatnonzero((got != exp) & care)[0])
            return (f'ss.bernoulli(p=ss.time_prob({mode}, unit={u1!r}) in {u2!r} steps of {dt2}), call {call}: agent {int(sel[i])} with p={tab[sel][i]} '
                    f'(per-step {want_p[i]:.6g}) and uniform draw {u[i]:.6g} was {"selected" if got[i] else "not selected"}'), dict(oracle='bernoulli-timeprob', mode=mode)
    if not np.array_equal(user, base):
        return (f'the probability array passed to ss.time_prob ({mode}) was modified in place by sampling: {user[:4]} vs {base[:4]}',
                dict(oracle='bernoulli-timeprob-mutates-input', mode=mode))
    return None, None


def correspond_bernoulli_timeprob(ctx):
    """ Bernoulli with a time-wrapped probability (per-agent array, or a callable returning a stored array), sampled on
        several consecutive steps: on EVERY call the selection must be `u < 1-(1-p)^(1/factor)` for the user's p — the
        conversion is applied exactly once per call and the user's array is left untouched """
    rng = ctx.rng
    ul = unit_len(ctx)
    units = ['day', 'week', 'month', 'year']
    for _ in range(ctx.budget(12, 80)):
        args = dict(mode=rng.choice(['array', 'callable', 'array-init']), u1=rng.choice(units), u2=rng.choice(units),
                    dt2=rng.choice([1.0, 0.5, 0.25, 2.0, 7.0, 10.0]), n=rng.randint(6, 40), tabseed=rng.randint(0, 10**9))
        try:
            msg, sig = bern_tp_case(ul=ul, **args)
        except Exception as e:
            # a valid request (a documented parameter form, agents that exist) that cannot be sampled at all
            msg = f"ss.bernoulli(p=ss.time_prob({args['mode']})) drawn on consecutive steps for changing groups of agents raised {type(e).__name__}: {e}"
            ctx.broke('correspondence', 'C05.bernoulli-timeprob', msg)
            ctx.fail(dict(oracle='bernoulli-timeprob', mode=args['mode'], raises=True), msg, dict(kind='bern_tp', **args)); return
        ctx.case(('bern-timeprob',) + tuple(args.values()), True, sample=dict(kind='bernoulli-time_prob', **args))
        if msg:
            ctx.broke('correspondence', 'C05.bernoulli-timeprob', msg)
            ctx.fail(sig, msg, dict(kind='bern_tp', **args))
            return


def correspond_rejections(ctx):
    import starsim as ss
    slots = np.arange(5); sim = c03.Sim0(slots)
    facts = (ctx.extracted.get('DistFormulasR') or {}).get('facts') or {}
    ref = facts.get('timepar_refusals', {})
    def attempt(make):
        try:
            d = make(); d.init(trace='r', seed=0, sim=sim, slots=slots); d.rvs(ss.uids([0, 1])); return 'ok'
        except NotImplementedError: return 'NotImplementedError'
        except TypeError: return 'TypeError'
        except ValueError: return 'ValueError'
        except Exception as e: return type(e).__name__
    tp = lambda v: ss.dur(v, unit='year', parent_unit='day', parent_dt=1.0).init()
    checks = [
        ('lognorm_im refuses time parameters', lambda: ss.lognorm_im(mean=tp(1.0), sigma=0.5), 'NotImplementedError', ref.get('lognorm_im') == 'always'),
        ('choice refuses time parameters', lambda: ss.choice(a=tp(3)), 'NotImplementedError', ref.get('choice') == 'always'),
        ('randint refuses time parameters', lambda: ss.randint(low=tp(1), high=tp(9)), 'NotImplementedError', ref.get('randint') == 'unless_allowed'),
        ('bernoulli refuses a duration', lambda: ss.bernoulli(p=tp(0.5)), 'TypeError', True),
        ('lognorm_ex refuses mean <= 0', lambda: ss.lognorm_ex(mean=0.0, std=1.0), 'ValueError', facts.get('lognorm_ex.guard') is not None),
        ('lognorm_ex refuses negative mean', lambda: ss.lognorm_ex(mean=-2.0, std=1.0), 'ValueError', True),
    ]
    for what, mk, exp, table_ok in checks:
        got = attempt(mk)
        ctx.case(('reject', what), True)
        if not table_ok:
            ctx.broke('correspondence', 'C05.reject', f'{what}: the regenerated refusal table does not say so ({ref})')
        if got != exp:
            ctx.broke('correspondence', 'C05.reject', f'{what}: expected {exp}, the code gave {got}')
            ctx.fail(dict(oracle='rejection', what=what), f'{what}: expected {exp}, got {got}', dict(kind='reject', what=what))


# ---------------------------------------------------------------------------
# oracle on the real code (statistical parts labelled as such)

def theo_moments(fam, P):
    import scipy.stats as sps
    if fam == 'random': return 0.5, 1 / 12
    if fam == 'uniform': return (P['low'] + P['high']) / 2, (P['high'] - P['low']) ** 2 / 12
    if fam == 'normal': return P['loc'], P['scale'] ** 2
    if fam == 'lognorm_ex': return P['mean'], P['std'] ** 2
    if fam == 'lognorm_im': return math.exp(P['mean'] + P['sigma'] ** 2 / 2), (math.exp(P['sigma'] ** 2) - 1) * math.exp(2 * P['mean'] + P['sigma'] ** 2)
    if fam == 'expon': return P['scale'], P['scale'] ** 2
    if fam == 'poisson': return P['lam'], P['lam']
    if fam == 'nbinom': return P['n'] * (1 - P['p']) / P['p'], P['n'] * (1 - P['p']) / P['p'] ** 2
    if fam == 'weibull': d = sps.weibull_min(c=P['c'], loc=P['loc'], scale=P['scale']); return d.mean(), d.var()
    if fam == 'gamma': return P['loc'] + P['a'] * P['scale'], P['a'] * P['scale'] ** 2
    if fam == 'constant': return P['v'], 0.0
    if fam == 'randint': k = P['high'] - P['low']; return P['low'] + (k - 1) / 2, (k * k - 1) / 12
    if fam == 'bernoulli': return P['p'], P['p'] * (1 - P['p'])
    return None


def documented_law(fam, P):
    """ The documented law as (cdf, discrete?) — from the documentation of each family, through SciPy's frozen distributions
        (trusted), never through starsim.  None where no closed form is documented here. """
    import scipy.stats as sps
    if fam == 'random': return sps.uniform(0, 1).cdf, False
    if fam == 'uniform': return sps.uniform(P['low'], P['high'] - P['low']).cdf, False
    if fam == 'normal': return sps.norm(P['loc'], P['scale']).cdf, False
    if fam == 'lognorm_im': return sps.lognorm(s=P['sigma'], scale=math.exp(P['mean'])).cdf, False
    if fam == 'lognorm_ex':
        m, sd = P['mean'], P['std']; s2 = math.log(1 + sd * sd / (m * m))
        return sps.lognorm(s=math.sqrt(s2), scale=math.exp(math.log(m) - s2 / 2)).cdf, False
    if fam == 'expon': return sps.expon(scale=P['scale']).cdf, False
    if fam == 'weibull': return sps.weibull_min(c=P['c'], loc=P['loc'], scale=P['scale']).cdf, False
    if fam == 'gamma': return sps.gamma(a=P['a'], loc=P['loc'], scale=P['scale']).cdf, False
    if fam == 'poisson': return sps.poisson(P['lam']).cdf, True
    if fam == 'nbinom': return sps.nbinom(P['n'], P['p']).cdf, True
    if fam == 'randint': return sps.randint(P['low'], P['high']).cdf, True
    if fam == 'bernoulli': return sps.bernoulli(P['p']).cdf, True
    if fam == 'choice':
        a = np.arange(P['a']) if np.isscalar(P['a']) else np.asarray(P['a'], dtype=float)
        w = np.full(len(a), 1 / len(a)) if P.get('p') is None else np.asarray(P['p'], dtype=float)
        o = np.argsort(a); a = a[o]; cw = np.cumsum(w[o])
        return (lambda x: np.where(np.searchsorted(a, x, side='right') > 0, cw[np.maximum(np.searchsorted(a, x, side='right') - 1, 0)], 0.0)), True
    if fam == 'histogram':
        if P.get('data') is not None:
            kw = {} if P.get('bins') is None else dict(bins=P['bins'])
            vals, edges = np.histogram(np.asarray(P['data'], dtype=float), **kw)       # counts per bin: the documented meaning of data=
        else:
            vals = np.asarray(P['values'], dtype=float); edges = np.asarray(P['bins'], dtype=float)
            if len(edges) == len(vals):   # documented completion of a missing right edge: repeat the last width
                edges = np.append(edges, edges[-1] + (edges[-1] - edges[-2]))
        vals = np.asarray(vals, dtype=float); w = vals / vals.sum(); edges = np.asarray(edges, dtype=float)
        cw = np.concatenate([[0.0], np.cumsum(w)])
        return (lambda x: np.interp(x, edges, cw, left=0.0, right=1.0)), False
    return None


def ks_distance(x, cdf, discrete):
    """ sup |F_n - F| (for a discrete law evaluated at the atoms, from both sides) """
    x = np.sort(np.asarray(x, dtype=float)); n = len(x)
    if discrete:
        vals, cnt = np.unique(x, return_counts=True)
        Fn = np.cumsum(cnt) / n
        F = cdf(vals)
        return float(np.max(np.abs(Fn - F))), float(vals[np.argmax(np.abs(Fn - F))])
    F = cdf(x)
    d = np.maximum(np.abs(np.arange(1, n + 1) / n - F), np.abs(np.arange(0, n) / n - F))
    return float(d.max()), float(x[np.argmax(d)])


def law_signature(msg, fam, mode):
    if msg.startswith('NONFINITE'): return dict(oracle='non-finite-variate', family=fam)
    return dict(oracle='family-reference', family=fam, mode=mode)


def oracle_law(fam, mode, P, N, seed):
    """ N variates against the documented law: hard support checks, moments (6-sigma) and the Kolmogorov distance to the
        documented distribution function (threshold 3.5/sqrt(N): false-alarm probability < 1e-10 per check; statistical) """
    import starsim as ss
    slots = np.arange(N); sim = c03.Sim0(slots)
    pars = dict(P)
    if mode == 'array': pars = {k: (np.full(N, v) if k in DYN_KEYS.get(fam, []) else v) for k, v in P.items()}
    if mode == 'callable': pars = {k: ((lambda vv: (lambda m, s, u: np.full(N if u is None else len(u), vv)))(v) if k in DYN_KEYS.get(fam, []) else v) for k, v in P.items()}
    d = getattr(ss, fam)(**pars); d.init(trace='law', seed=seed, sim=sim, slots=slots); d.jump_dt(ti=1)
    x = np.asarray(d.rvs(ss.uids(np.arange(N))), dtype=float)
    if len(x) != N: return f'{len(x)} variates for {N} agents'
    nonfinite = None
    if not np.all(np.isfinite(x)):
        # an infinite or NaN "variate": outside the support of every family (reported under its own signature, after the law
        # has been examined on the remaining values)
        bad = np.flatnonzero(~np.isfinite(x))
        nonfinite = f'NONFINITE: {len(bad)} of {N} variates are not finite (agent {int(bad[0])}: {x[bad[0]]}; a uniform draw of exactly 0 or 1 pushed through the quantile function)'
        x = x[np.isfinite(x)]; N = len(x)
    msg = _law_checks(fam, P, x, N)
    return msg or nonfinite


def _law_checks(fam, P, x, N):
    tm = theo_moments(fam, P)
    if fam == 'randint' and not np.all((x >= P['low']) & (x < P['high'])): return f'values outside [{P["low"]}, {P["high"]}): max {x.max()}, min {x.min()}'
    if fam == 'uniform' and not np.all((x >= P['low']) & (x <= P['high'])): return 'values outside [low, high]'
    if tm is not None:
        m, v = tm
        se = math.sqrt(v / N) if v > 0 else 0
        if abs(x.mean() - m) > 6 * se + 1e-9 * max(1, abs(m)): return f'sample mean {x.mean():.5g} vs documented mean {m:.5g} (6 sigma = {6*se:.3g}, N={N})'
        if v > 0 and fam not in ('lognorm_ex', 'lognorm_im'):   # variance check (fourth moments of lognormals are too heavy for a fixed threshold)
            if abs(x.var() - v) > 0.12 * v + 1e-9: return f'sample variance {x.var():.5g} vs documented variance {v:.5g}'
    law = documented_law(fam, P)
    if law is not None:
        dist, at = ks_distance(x, law[0], law[1])
        if dist > 3.5 / math.sqrt(N) + 2e-7:
            return f'Kolmogorov distance {dist:.4f} to the documented distribution function (largest at {at:.6g}; threshold {3.5/math.sqrt(N):.4f}, N={N})'
    return None


DYN_KEYS = dict(uniform=['low', 'high'], normal=['loc', 'scale'], lognorm_ex=['mean', 'std'], lognorm_im=['mean', 'sigma'], expon=['scale'],
                poisson=['lam'], nbinom=['n', 'p'], weibull=['c', 'scale'], gamma=['a', 'scale'], constant=['v'], randint=['low', 'high'], bernoulli=['p'])


def oracle_bernoulli_mono(seed, n, rng):
    import starsim as ss
    slots = np.arange(n); sim = c03.Sim0(slots)
    ps = sorted(rng.random() for _ in range(4))
    prev = None
    for p in ps:
        b = ss.bernoulli(p=p); b.init(trace='mono', seed=seed, sim=sim, slots=slots); b.jump_dt(ti=2)
        sel = set(int(x) for x in b.filter(ss.uids(np.arange(n))))
        if prev is not None and not prev <= sel:
            return f'bernoulli selection is not monotone in p under a fixed seed: p={p} drops uids {sorted(prev - sel)[:5]}'
        prev = sel
    return None


def search(ctx):
    import starsim as ss
    N = 40000 if not ctx.thorough else 200000
    fams = [f for f in ss.dist_list if theo_moments(f, gen_pars(f, ctx.rng, 3)[0]) is not None or documented_law(f, gen_pars(f, ctx.rng, 3)[0]) is not None]
    # a correspondence that broke names a family and parameters: examine exactly those against the documented law first
    seen = set()
    for b in list(ctx.broken):
        c = b.get('data')
        if not isinstance(c, dict) or 'family' not in c or 'spars' not in c: continue
        fam = c['family']; P = dict(c['spars'])
        if c.get('mode') != 'scalar' and c.get('tpars') and c.get('req'):
            for key, tab in c['tpars'].items(): P[key] = type(c['spars'].get(key, 0.0))(np.asarray(tab)[c['req'][0]]) if key in c['spars'] else float(np.asarray(tab)[c['req'][0]])
        key = json.dumps([fam, c.get('mode'), P], sort_keys=True, default=str)
        if key in seen or len(seen) >= 6: continue
        seen.add(key)
        for mode in dict.fromkeys([c.get('mode', 'scalar'), 'scalar']):
            seed = ctx.rng.randint(0, 10**6)
            try: msg = oracle_law(fam, mode, P, 200000, seed)
            except Exception as e: msg = f'raised {type(e).__name__}: {e}'
            ctx.count('law_checks_targeted')
            if msg:
                ctx.fail(law_signature(msg, fam, mode), f'ss.{fam} ({mode}) with {P}: {msg}', dict(kind='law', family=fam, mode=mode, pars=P, N=200000, seed=seed))
    todo = []
    for fam in fams:
        modes = ['scalar'] + (['array', 'callable'] if fam in DYN else [])
        for mode in (modes if ctx.thorough or ctx.broken else [ctx.rng.choice(modes), 'scalar'] if len(modes) > 1 else modes):
            todo.append((fam, mode))
    reps = 8 if ctx.thorough else 1        # thorough: several parameter sets per (family, mode)
    for fam, mode in [fm for fm in dict.fromkeys(todo) for _ in range(reps)]:
        P, _ = gen_pars(fam, ctx.rng, 3)
        seed = ctx.rng.randint(0, 10**6)
        try:
            msg = oracle_law(fam, mode, P, N, seed)
        except Exception as e:
            msg = f'raised {type(e).__name__}: {e}'
        ctx.count('law_checks')
        if msg:
            ctx.fail(law_signature(msg, fam, mode), f'ss.{fam} ({mode}) with {P}: {msg}', dict(kind='law', family=fam, mode=mode, pars=P, N=N, seed=seed))
    timepar_modes(ctx)
    for _ in range(ctx.budget(5, 40)):
        seed = ctx.rng.randint(0, 10**6); n = ctx.rng.randint(20, 300)
        st = ctx.rng.getstate()
        msg = oracle_bernoulli_mono(seed, n, ctx.rng)
        if msg: ctx.fail(dict(oracle='bernoulli-monotone'), msg, dict(kind='mono', seed=seed, n=n))
    # empty requests
    for fam in ss.dist_list:
        P, _ = gen_pars(fam, ctx.rng, 3)
        d = getattr(ss, fam)(**P); slots = np.arange(4); d.init(trace='e', seed=0, sim=c03.Sim0(slots), slots=slots)
        for req in (ss.uids([]), 0, np.array([], dtype=int)):
            try:
                out = d.rvs(req)
                if np.size(out) != 0:
                    ctx.fail(dict(oracle='empty', family=fam), f'ss.{fam}: a size-zero request returned {np.size(out)} values', dict(kind='empty', family=fam))
            except Exception as e:
                ctx.fail(dict(oracle='empty', family=fam), f'ss.{fam}: a size-zero request raised {type(e).__name__}', dict(kind='empty', family=fam))


def replay(ctx, data):
    import starsim as ss
    import random
    k = data.get('kind')
    if k == 'law':
        return oracle_law(data['family'], data['mode'], data['pars'], data['N'], data['seed']) is not None
    if k == 'family':   # stored witness of the repaired randint defect
        lo = np.array(data['pars']['low']); hi = np.array(data['pars']['high']); n = len(lo)
        try:
            d = ss.randint(low=lo, high=hi); d.init(trace='w', seed=0, sim=c03.Sim0(np.arange(n)), slots=np.arange(n))
            bad = False
            for t in range(1, 40):
                d.jump_dt(ti=t); x = d.rvs(ss.uids(np.arange(n)))
                bad |= bool(np.any((x < lo) | (x >= hi)))
            return bad
        except Exception:
            return True
    if k == 'randint_ppf':
        d = ss.randint(low=np.array([data['low']]), high=np.array([data['high']])); d.init(trace='f', seed=0, sim=c03.Sim0(np.arange(1)), slots=np.arange(1)); d._pars = d.pars
        g = int(d.ppf(np.array([data['u']]))[0]); return not (data['low'] <= g < data['high'])
    if k == 'timepar':
        return timepar_oracle(data['sc'], draws=data.get('draws', 1)) is not None
    if k == 'bern_tp':
        try: return bern_tp_case(**{kk: data[kk] for kk in ('mode', 'u1', 'u2', 'dt2', 'n', 'tabseed')})[0] is not None
        except Exception: return True
    if k == 'mono':
        return oracle_bernoulli_mono(data['seed'], data['n'], random.Random(data['seed'])) is not None
    return False
