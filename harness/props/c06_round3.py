"""
C06 round 3: histories of ONE parameter object, array identity, and the rate-derived probability at every magnitude
(wired into c06.correspond / c06.search).

correspondence family (model vs real code):
  * array identity (`A` lines of Drivers/C06.lean, Model/TimePar.lean `Store`/`ARef`/`AOp`): for array-valued parameters of every class
    a history of init / set(parent_dt) / update_cached / set(v=array) / to()+adopt / to_parent()+adopt / x*c+adopt is executed on the
    real object; after every call WHICH ndarray objects `v` and `values` are (same object / shared memory = same number) and their
    contents are compared with the model: the implementation may copy more than the model, but two references the model keeps apart
    must not be one array in the implementation; and every array that existed before the call must still hold the numbers it held
    (the model's store is append-only: Props/C06 `C06_buffers_never_overwritten`).
oracles (real code only):
  * history: a physical quantity followed through a history of link / re-link / convert / scale calls on the real object:
      - linking to a parent (init, set(parent_dt/parent_unit), update_cached) never changes the quantity in its own unit (`v`);
      - after EVERY call: dur: values x parent step = v x own period; rate: values / parent step = v / own period; time_prob / beta /
        rate_prob: values = the formula of the property (60-digit reference) evaluated from the unit / dt fields that the calls made so
        far ASK for (`track`; round 4) — not from what the object recorded — and the object must record exactly those fields;
      - across to()/to_parent(): the quantity (in days) is the same before and after, however many conversions and links came before;
      - the receiver of to()/to_parent()/`*` is left exactly as it was, every object left behind in the chain still is at the end
        what it was when it was left, and the user's input array is untouched.
  * module_relink (round 4): the parameters of a probe module in a real sim vs the module's (unit, dt), again after the module's step was
    changed and Module.init_time(force=True) linked them anew; and every per-step identity oracle of c06.py on parameters that already
    have another parent when they are linked (`pre` of c06.build);
  * rateprob_mono: the rate-derived probability is non-decreasing in dt, strictly increasing and strictly below 1 wherever the exact
    1-exp(-rate*dt) is (no early saturation), for rates from 1e-12 to 1e4 per reference period;
  * the existing `rateprob` formula oracle on a fixed grid of magnitudes (every ordered unit pair, scalar and array) in every run.
"""
import itertools
from fractions import Fraction as Fr
import numpy as np

CANON = ['day', 'week', 'month', 'year']
KINDS = ['dur', 'rate', 'time_prob', 'rate_prob', 'beta']
U = 2.0 ** -53
RATE_GRID = [1e-12, 1e-4, 0.02, 0.7, 3.0, 12.0, 20.0, 26.0, 30.0, 37.0, 52.0, 120.0, 365.25, 700.0, 1e4]


def F(sig, what):
    return dict(signature=sig, what=what)


# ---------------------------------------------------------------------------
# oracle: one object, a history of calls

def _cp(v):
    return v.copy() if isinstance(v, np.ndarray) else v


def snap(x):
    return dict(v=_cp(x.v), values=_cp(x.values), unit=x.unit, punit=x.parent_unit, pdt=x.parent_dt, sdt=x.self_dt, factor=x.factor, init=x.initialized)


def _same_num(a, b):
    if isinstance(a, np.ndarray) or isinstance(b, np.ndarray):
        return isinstance(a, np.ndarray) and isinstance(b, np.ndarray) and a.shape == b.shape and a.dtype == b.dtype and np.array_equal(a, b, equal_nan=True)
    if a is None or b is None: return a is b
    return float(a) == float(b)


def same_snap(a, b):
    """ -> None or the name of the first field that differs """
    for k in ('unit', 'punit', 'init'):
        if a[k] != b[k]: return k
    for k in ('pdt', 'sdt', 'factor', 'v', 'values'):
        if not _same_num(a[k], b[k]): return k
    return None


def show_snap(s):
    t = lambda v: v.tolist() if isinstance(v, np.ndarray) else v
    return f"v={t(s['v'])} values={t(s['values'])} unit={s['unit']} self_dt={s['sdt']} parent=({s['punit']}, {s['pdt']}) factor={s['factor']}"


def expected_values(c06, kind, v, f):
    """ the property's statement for one element: -> (reference as Decimal, absolute tolerance as Decimal) from the value in its own unit
        and the exact factor = own period / parent step """
    D, Dm = c06.D, c06.Dm
    if kind == 'dur':
        ref = D(v) * D(f); return ref, abs(ref) * Dm(12 * U)
    if kind == 'rate':
        ref = D(v) / D(f); return ref, abs(ref) * Dm(12 * U)
    if kind in ('time_prob', 'beta'):
        ref, tol = c06.tp_ref(v, f); return ref, Dm(tol)
    xx = D(v) / D(f); E = (-xx).exp()
    return 1 - E, Dm(U * float(4 + E * 4 * xx) * 4)


def check_values(c06, kind, x, exp=None):
    """ values of the real object vs the formula evaluated from the unit / dt fields `exp` that the history of calls ASKED for
        (never from what the object recorded: a parameter that remembers the wrong parent is consistent with itself) -> None or text """
    e = exp or dict(unit=x.unit, sdt=x.self_dt, punit=x.parent_unit, pdt=x.parent_dt)
    f = c06.exact_ratio(e['unit'], e['sdt'], e['punit'], e['pdt'])
    vs = c06.flat(x.v); vals = c06.flat(x.values)
    if len(vs) != len(vals): return f'values has {len(vals)} elements, v has {len(vs)}'
    for v, val in zip(vs, vals):
        ref, tol = expected_values(c06, kind, v, f)
        if abs(c06.D(val) - ref) > tol:
            law = {'dur': 'v x own period / parent step', 'rate': 'v x parent step / own period', 'rate_prob': '1-exp(-rate*dt)'}.get(kind, '1-(1-p)^(1/factor)')
            return (f"values={val!r} but {law} = {float(ref)!r} for v={v!r} with own period ({e['unit']}, {e['sdt']}) and parent step ({e['punit']}, {e['pdt']}) "
                    f"(own period / parent step = {float(f)!r}; the object records parent=({x.parent_unit}, {x.parent_dt}), factor={x.factor!r})")
    return None


def track(exp, op, canon):
    """ the unit / dt fields the calls ask for: what `exp` becomes by the call `op` (None arguments leave a field alone; a parameter
        without a parent unit takes its own, and vice versa) """
    e = dict(exp); name = op[0]
    if name in ('init', 'initp'):
        pu, pdt = (op[1], op[2]) if name == 'init' else (op[2], op[3])
        if pu is not None: e['punit'] = canon(pu)
        if pdt is not None: e['pdt'] = pdt
        if e['unit'] is None: e['unit'] = e['punit']
        if e['punit'] is None: e['punit'] = e['unit']
        if e['pdt'] is None: e['pdt'] = e['sdt'] if e['sdt'] is not None else 1.0
    elif name == 'set':
        for k, f in (('unit', 'unit'), ('parent_unit', 'punit'), ('parent_dt', 'pdt'), ('self_dt', 'sdt')):
            if op[1].get(k) is not None: e[f] = canon(op[1][k]) if 'unit' in k else op[1][k]
    elif name == 'to':
        u = op[1] if op[1] is not None else (e['punit'] if e['punit'] is not None else e['unit'])
        d = op[2] if op[2] is not None else 1.0
        e = dict(unit=canon(u), sdt=d, punit=canon(u), pdt=d)
    elif name == 'toparent':
        e = dict(unit=e['punit'], sdt=e['pdt'], punit=e['punit'], pdt=e['pdt'])
    return e


def quantity_days(c06, kind, x):
    """ the physical quantity of a dur / rate in days (per day), exactly, from the object's own fields """
    own = c06.fr(x.self_dt) * c06.live_units()[x.unit]
    return [c06.fr(v) * own if kind == 'dur' else c06.fr(v) / own for v in c06.flat(x.v)]


def o_history(a, c06):
    import starsim as ss
    kind = a['kind']
    user = c06.pyval(a['v']); orig = _cp(user)
    sig = dict(oracle='history', kind=kind, branch=c06.branch(a['v']))
    canon = lambda u: ss.time.unit_mapping[u]
    cur = getattr(ss, kind)(user, unit=a['unit'], self_dt=a.get('sdt', 1.0), parent_unit=a.get('punit0'), parent_dt=a.get('pdt0'))
    exp = dict(unit=canon(a['unit']), sdt=a.get('sdt', 1.0), punit=canon(a.get('punit0')), pdt=a.get('pdt0'))
    chain = []; nconv = 0; linked = False
    ctor = ''.join(f', {k}={a[f]!r}' for k, f in (('parent_unit', 'punit0'), ('parent_dt', 'pdt0')) if a.get(f) is not None)
    def desc(k): return f"ss.{kind}({a['v']}, unit={a['unit']!r}, self_dt={a.get('sdt', 1.0)}{ctor}) after calls {a['ops'][:k + 1]}"
    for k, op in enumerate(a['ops']):
        before = snap(cur); name = op[0]; new = None
        qbefore = quantity_days(c06, kind, cur) if kind in ('dur', 'rate') else None
        if name == 'init': cur.init(parent_unit=op[1], parent_dt=op[2])
        elif name == 'initp': cur.init(parent=c06.make_parent(op[1], op[2], op[3]))
        elif name == 'set': cur.set(**op[1])
        elif name == 'update': cur.update_cached()
        elif name == 'to': new = cur.to(op[1], op[2])
        elif name == 'toparent': new = cur.to_parent()
        elif name == 'mul': new = cur * op[1]
        else: raise RuntimeError(f'unknown op {op}')
        exp = track(exp, op, canon)
        if new is None:
            linked = True
            # linking / re-linking leaves the quantity in its own unit alone
            if not (name == 'set' and ('unit' in op[1] or 'self_dt' in op[1])) and not _same_num(before['v'], cur.v):
                return [F(dict(sig, check='link-changed-v', op=name), f"{desc(k)}: the call changed the quantity in its own unit: v was {np.asarray(before['v']).tolist()}, is {np.asarray(cur.v).tolist()}")]
        else:
            d = same_snap(before, snap(cur))
            if d:
                return [F(dict(sig, check='receiver-changed', op=name), f"{desc(k)}: the receiver's `{d}` changed: was {show_snap(before)}; is {show_snap(snap(cur))}")]
            chain.append((k, cur, before))
            if name != 'mul':
                nconv += 1
                if (new.unit, float(new.self_dt)) != (exp['unit'], float(exp['sdt'])):
                    return [F(dict(sig, check='target-not-recorded', op=name), f"{desc(k)}: the result has unit={new.unit!r}, self_dt={new.self_dt!r}")]
                if kind in ('time_prob', 'beta'):
                    fc = c06.exact_ratio(before['unit'], before['sdt'], new.unit, new.self_dt)
                    for p0, p1 in zip(c06.flat(before['v']), c06.flat(new.v)):
                        ref, tol = expected_values(c06, kind, p0, fc)
                        if abs(c06.D(p1) - ref) > tol:
                            return [F(dict(sig, check='quantity-changed', op=name), f"{desc(k)}: the probability {p0!r} per {before['sdt']} {before['unit']} became {p1!r} per {new.self_dt} {new.unit}, "
                                      f"but 1-(1-p)^(new period / old period) = {float(ref)!r}")]
                if qbefore is not None:
                    for q0, q1 in zip(qbefore, quantity_days(c06, kind, new)):
                        if not c06.close(q0, q1, 16 * U):
                            return [F(dict(sig, check='quantity-changed', op=name), f"{desc(k)}: the quantity was {float(q0)!r} ({'days' if kind == 'dur' else 'per day'}) before the conversion "
                                      f"and is {float(q1)!r} after it (v={np.asarray(new.v).tolist()}, unit={new.unit!r}, self_dt={new.self_dt})")]
            cur = new
        if linked or new is not None:
            got = dict(unit=cur.unit, sdt=cur.self_dt, punit=cur.parent_unit, pdt=cur.parent_dt)
            bad = [f for f in ('unit', 'punit') if got[f] != exp[f]] + [f for f in ('sdt', 'pdt') if got[f] is None or float(got[f]) != float(exp[f])]
            why = check_values(c06, kind, cur, exp) if cur.values is not None else None
            if why:
                return [F(dict(sig, check='values', op=name), f"{desc(k)}: {why}")]
            if bad:
                return [F(dict(sig, check='fields', op=name, field=bad[0]), f"{desc(k)}: the calls ask for own period ({exp['unit']}, {exp['sdt']}) and parent step ({exp['punit']}, {exp['pdt']}), "
                          f"the object records own period ({got['unit']}, {got['sdt']}) and parent step ({got['punit']}, {got['pdt']})")]
    for k, obj, s in chain:
        d = same_snap(s, snap(obj))
        if d:
            return [F(dict(sig, check='earlier-object-changed'), f"{desc(len(a['ops']) - 1)}: the object that call #{k} was made on has a different `{d}` now: was {show_snap(s)}; is {show_snap(snap(obj))}")]
    if isinstance(user, np.ndarray) and not np.array_equal(user, orig, equal_nan=True):
        return [F(dict(sig, check='input-array-modified'), f"{desc(len(a['ops']) - 1)}: the user's input array is now {user.tolist()}")]
    return []


HIST_V = {'dur': [3.5, 10.0, 0.2, 1.0, 2.0], 'rate': [0.25, 12.0, 3.0, 1.0], 'time_prob': [0.3, 0.6, 0.01, 0.9, 0.0, 1.0], 'beta': [0.05, 0.7, 0.2],
          'rate_prob': [0.7, 2.0, 0.1, 0.0, 25.0]}
HIST_DT = [1.0, 0.5, 2.0, 0.25, 7.0, 0.1, 3.0]


def other(rng, pool, x):
    return rng.choice([y for y in pool if y != x])


def fixed_history(rng, kind, array):
    """ convert, link with a different step, re-link, update again, convert back: every link has factor != 1 """
    vs = HIST_V[kind]
    v = [float(rng.choice(vs)) for _ in range(rng.choice([2, 3, 4]))] if array else rng.choice(vs)
    u0, u1 = rng.choice(CANON), rng.choice(CANON)
    d1 = rng.choice(HIST_DT); da = other(rng, HIST_DT, d1); db = other(rng, HIST_DT, da)
    dc = other(rng, HIST_DT, 1.0); dd = other(rng, HIST_DT, dc); de = other(rng, HIST_DT, dd)
    ops = [['init', u0, 1.0], ['to', u1, d1], ['init', None, da], ['set', dict(parent_dt=db)], ['update'], ['set', dict(parent_dt=db)], ['to', u0, 1.0],
           ['init', rng.choice(CANON), dc], ['init', rng.choice(CANON), dd], ['initp', rng.choice(['dict', 'time0']), rng.choice(CANON), de], ['initp', 'dict', rng.choice(CANON), other(rng, HIST_DT, de)]]
    a = dict(kind=kind, v=v, unit=u0, sdt=1.0, ops=ops)
    if array:   # a parent given to the constructor, then another one by linking
        a.update(punit0=rng.choice(CANON), pdt0=other(rng, HIST_DT, 1.0)); ops[0] = ['init', u0, other(rng, HIST_DT, a['pdt0'])]
    return no_rateprob_to(a)


def no_rateprob_to(a):
    """ rate_prob.to() stores a probability in `v` of a rate_prob (the recorded finding C06-rateprob-to-not-invertible, re-run by its own
        oracle on every invocation): histories of a rate_prob scale instead of converting, so that everything else about them is still checked """
    if a['kind'] == 'rate_prob':
        a['ops'] = [['mul', 0.5] if op[0] in ('to', 'toparent') else op for op in a['ops']]
    return a


def gen_history(rng):
    kind = rng.choice(KINDS)
    vs = HIST_V[kind]
    v = [float(rng.choice(vs)) for _ in range(rng.choice([1, 2, 3, 5]))] if rng.random() < 0.6 else rng.choice(vs)
    ops = []
    for _ in range(rng.randint(2, 8)):
        r = rng.random()
        if r < 0.25: ops.append(['init', rng.choice(CANON + [None]), rng.choice(HIST_DT)])
        elif r < 0.32: ops.append(['initp', rng.choice(['dict', 'time0']), rng.choice(CANON), rng.choice(HIST_DT)])
        elif r < 0.55:
            kw = rng.choice([dict(parent_dt=rng.choice(HIST_DT)), dict(parent_unit=rng.choice(CANON)), dict(parent_dt=rng.choice(HIST_DT), parent_unit=rng.choice(CANON)),
                             dict(self_dt=rng.choice(HIST_DT)), dict(unit=rng.choice(CANON))])
            ops.append(['set', kw])
        elif r < 0.62: ops.append(['update'])
        elif r < 0.85: ops.append(['to', rng.choice(CANON + [None]), rng.choice(HIST_DT + [None])])   # None: the parent's unit / dt 1
        elif r < 0.93: ops.append(['toparent'])
        else: ops.append(['mul', rng.choice([0.5, 0.25, 1.0])])
    if ops[0][0] not in ('init', 'initp'):   # the property speaks about parameters that are linked to a parent
        ops.insert(0, ['init', rng.choice(CANON), rng.choice(HIST_DT)])
    a = dict(kind=kind, v=v, unit=rng.choice(CANON), sdt=rng.choice([1.0, 1.0, 0.5, 2.0]), ops=ops)
    if rng.random() < 0.3: a.update(punit0=rng.choice(CANON + [None]), pdt0=rng.choice(HIST_DT))
    return no_rateprob_to(a)


# ---------------------------------------------------------------------------
# oracle: the rate-derived probability over dt

def o_rateprob_mono(a, c06):
    import starsim as ss
    D = c06.D
    out = []; prev = None
    sig = dict(oracle='rateprob-mono', kind='rate_prob', branch=c06.branch(a['v']))
    for dt in sorted(a['dts']):
        x = ss.rate_prob(c06.pyval(a['v']), unit=a['unit']); x.init(parent_unit=a['punit'], parent_dt=dt)
        f = c06.exact_ratio(a['unit'], 1.0, a['punit'], dt)
        vals = [float(t) for t in c06.flat(x.values)]
        refs = [1 - (-(D(v) / D(f))).exp() for v in c06.flat(a['v'])]
        for v, val, ref in zip(c06.flat(a['v']), vals, refs):
            if not (0 <= val <= 1):
                return [F(dict(sig, check='range'), f"ss.rate_prob({v}, {a['unit']!r}) per step of dt={dt} {a['punit']}: {val!r} is outside [0,1]")]
            if val >= 1 and ref < 1 - D(1e-9):
                return [F(dict(sig, check='saturated'), f"ss.rate_prob({v}, {a['unit']!r}) per step of dt={dt} {a['punit']} is {val!r}: certain, although 1-exp(-rate*dt) = {float(ref)!r} < 1")]
            if v > 0 and val <= 0 and ref > D(1e-12):
                return [F(dict(sig, check='vanished'), f"ss.rate_prob({v}, {a['unit']!r}) per step of dt={dt} {a['punit']} is {val!r}, although 1-exp(-rate*dt) = {float(ref)!r} > 0")]
        if prev is not None:
            for v, p, q, rp, rq in zip(c06.flat(a['v']), prev[1], vals, prev[2], refs):
                if q < p - 4e-16:
                    return [F(dict(sig, check='decreasing'), f"ss.rate_prob({v}, {a['unit']!r}) per step of dt={dt} {a['punit']} is {q!r} < {p!r} for the shorter dt={prev[0]}")]
                if rq - rp > D(1e-9) and not q > p:
                    return [F(dict(sig, check='not-increasing'), f"ss.rate_prob({v}, {a['unit']!r}) per step of dt={dt} {a['punit']} is {q!r}, not above {p!r} for the shorter dt={prev[0]} "
                              f"(exact: {float(rp)!r} -> {float(rq)!r})")]
        prev = (dt, vals, refs)
    return out


# ---------------------------------------------------------------------------
# oracle: a module's time parameters after the module's step changed (Module.init_time(force=True))

RELINK_TIMES = [('day', 1, 'day', 1, 2), ('day', 1, 'day', 3, 1), ('day', 1, 'day', 2, 7), ('day', 1, 'week', 1, 2), ('day', 7, 'week', 2, 1), ('year', 0.1, 'year', 0.5, 0.1),
                ('year', 0.25, 'year', 0.25, 1.0), ('year', 1.0, 'year', 1.0, 0.5), ('year', 0.5, 'month', 6, 12), ('week', 1, 'week', 1, 4), ('month', 1, 'month', 1, 3)]


def o_module_relink(a, c06):
    """ the parameters of a module in a real sim describe the same quantity for the module's step — also after the step was changed
        and the parameters were linked again with Module.init_time(force=True) """
    import starsim as ss
    canon = lambda u: ss.time.unit_mapping[u]
    specs = {k: tuple(v) for k, v in a['specs'].items()}
    dur = {'year': 3, 'month': 24, 'week': 60, 'day': 200}[a['su']]
    probe = c06.make_probe(ss, specs, a['mu'], a['mdt'])
    sim = ss.Sim(n_agents=10, unit=a['su'], dt=a['sdt'], dur=dur, analyzers=probe, verbose=0)
    sim.init()
    p = sim.analyzers[0]
    def chk(stage):
        for name, (kind, v, unit) in specs.items():
            tp = p.pars.nested.inner if name == 'inner' else p.pars[name]
            exp = dict(unit=canon(unit) if unit is not None else p.t.unit, sdt=1.0, punit=p.t.unit, pdt=p.t.dt)
            sig = dict(oracle='module-relink', kind=kind, stage=stage)
            why = check_values(c06, kind, tp, exp)
            if why:
                return [F(dict(sig, check='values'), f"module parameter ss.{kind}({v}, unit={unit!r}) in a sim ({a['su']}, dt={a['sdt']}), module step ({p.t.unit}, {p.t.dt})"
                          + (f" after the step was changed from {a['mdt']} and Module.init_time(force=True)" if stage == 'relinked' else '') + f': {why}')]
            if (tp.parent_unit, float(tp.parent_dt)) != (p.t.unit, float(p.t.dt)):
                return [F(dict(sig, check='fields'), f"module parameter ss.{kind}({v}, unit={unit!r}) records parent ({tp.parent_unit}, {tp.parent_dt}) but the module's step is ({p.t.unit}, {p.t.dt}) [{stage}]")]
        return []
    out = chk('first')
    if out: return out
    p.t.dt = a['mdt2']
    p.init_time(force=True)
    return chk('relinked')


def gen_module_relink(rng, c06):
    su, sdt, mu, mdt, mdt2 = rng.choice(RELINK_TIMES)
    specs = {}
    for name in ['a', 'b', 'c', 'inner']:
        kind = rng.choice(KINDS)
        v = [float(rng.choice(HIST_V[kind])) for _ in range(3)] if rng.random() < 0.4 else rng.choice(HIST_V[kind])
        specs[name] = [kind, v, c06.gen_unit(rng, p_none=0.3, p_alias=0.1, p_special=0, p_bad=0)]
    return dict(su=su, sdt=sdt, mu=mu, mdt=mdt, mdt2=mdt2, specs=specs)


ORACLES = dict(history=o_history, rateprob_mono=o_rateprob_mono, module_relink=o_module_relink)


def search(ctx, c06, run_oracle):
    rng = ctx.rng
    # one object through a history: the fixed shape for every class x scalar/array, then seeded histories
    for kind in KINDS:
        for array in (False, True):
            run_oracle(ctx, 'history', fixed_history(rng, kind, array))
    for _ in range(ctx.budget(120, 1200)):
        run_oracle(ctx, 'history', gen_history(rng))
    # every per-step identity for a parameter that ALREADY HAS another parent when it is linked (constructor / earlier link / parent object):
    # every ordered unit pair x every class; and the parameters of a module whose step is changed and re-linked
    for u, pu in itertools.product(CANON, CANON):
        for kind in KINDS:
            pdt = rng.choice(HIST_DT)
            pre = [rng.choice(['init', 'ctor', 'initp']), rng.choice(CANON), other(rng, HIST_DT, pdt)]
            v = [float(rng.choice(HIST_V[kind])) for _ in range(3)] if rng.random() < 0.4 else rng.choice(HIST_V[kind])
            name = {'dur': 'steps', 'rate': 'steps', 'rate_prob': 'rateprob'}.get(kind, 'timeprob')
            run_oracle(ctx, name, dict(kind=kind, v=v, unit=u, punit=pu, pdt=pdt, pre=pre, via=rng.choice(['kw', 'dict', 'time'] if float(pdt) == int(pdt) else ['kw', 'dict'])))
    for k in range(ctx.budget(len(RELINK_TIMES), 60)):
        a = gen_module_relink(rng, c06)
        if k < len(RELINK_TIMES): a.update(zip(('su', 'sdt', 'mu', 'mdt', 'mdt2'), RELINK_TIMES[k]))
        run_oracle(ctx, 'module_relink', a)
    # the rate-derived probability at every magnitude: formula (scalar and array) and monotonicity, every ordered unit pair
    for u, pu in itertools.product(CANON, CANON):
        pdt = rng.choice([1.0, 0.5, 2.0, 0.1, 7.0, 1 / 3])
        run_oracle(ctx, 'rateprob', dict(kind='rate_prob', v=list(RATE_GRID), unit=u, punit=pu, pdt=pdt))
        for v in rng.sample(RATE_GRID, ctx.budget(3, 10)):
            run_oracle(ctx, 'rateprob', dict(kind='rate_prob', v=v, unit=u, punit=pu, pdt=rng.choice([1.0, 0.5, 2.0, 0.1, 7.0, 1 / 3]), via=rng.choice(['kw', 'dict'])))
        dts = sorted({rng.choice([0.1, 0.25, 0.5, 1.0, 2.0, 4.0, 7.0, 0.3, 3.0]) for _ in range(5)} | {1.0})
        run_oracle(ctx, 'rateprob_mono', dict(v=rng.choice(RATE_GRID), unit=u, punit=pu, dts=dts))
        run_oracle(ctx, 'rateprob_mono', dict(v=[float(t) for t in rng.sample(RATE_GRID, 5)], unit=u, punit=pu, dts=dts))


# ---------------------------------------------------------------------------
# correspondence: always-exercised re-link sessions (format of c06.run_session)

def fixed_sessions(rng):
    """ the same object linked to one parent and then to another with a different dt: by keywords, by parent objects, with a parent already
        given to the constructor, without update_values, and with None arguments that must leave the recorded parent alone """
    out = []
    for kind in KINDS:
        v = rng.choice(HIST_V[kind]) if rng.random() < 0.5 else [float(rng.choice(HIST_V[kind])) for _ in range(3)]
        mode = 'Q' if kind in ('dur', 'rate') else 'F'
        d = rng.sample(HIST_DT, 4)
        u = rng.choice(CANON)
        out.append(dict(mode=mode, kind=kind, v=v, unit=u, punit=None, pdt=None, sdt=1.0,
                        ops=[['init', 'kw', rng.choice(CANON), d[0], None, True, True], ['init', 'kw', rng.choice(CANON), d[1], None, True, True],
                             ['init', rng.choice(['dict', 'time0']), rng.choice(CANON), d[2], None, True, True], ['init', 'kw', None, d[3], None, True, True],
                             ['init', 'kw', rng.choice(CANON), None, None, True, True], ['init', 'kw', None, None, None, True, True]]))
        out.append(dict(mode=mode, kind=kind, v=v, unit=u, punit=rng.choice(CANON), pdt=d[0], sdt=rng.choice([1.0, 2.0]),
                        ops=[['init', rng.choice(['kw', 'dict']), rng.choice(CANON), d[1], None, True, True], ['init', 'kw', rng.choice(CANON), d[2], None, False, True],
                             ['set', None, None, None, None, None, True], ['init', 'dict', None, d[3], None, True, False]]))
    return out


# ---------------------------------------------------------------------------
# correspondence: array identity

def gen_identity_case(rng, kind):
    vs = [t for t in HIST_V[kind]]
    n = rng.choice([1, 2, 3, 4])
    arr = lambda: [float(rng.choice(vs)) for _ in range(n)]
    ops = [['init', rng.choice(CANON), rng.choice(HIST_DT)]]
    for _ in range(rng.randint(3, 8)):
        r = rng.random()
        if r < 0.25: ops.append(['set_pdt', rng.choice(HIST_DT)])
        elif r < 0.35: ops.append(['update'])
        elif r < 0.45: ops.append(['init', rng.choice(CANON + [None]), rng.choice(HIST_DT)])
        elif r < 0.55: ops.append(['setv', arr()])
        elif r < 0.80 and kind != 'rate_prob': ops.append(['to', rng.choice(CANON), rng.choice(HIST_DT)])
        elif r < 0.88 and kind != 'rate_prob': ops.append(['toparent'])
        else: ops.append(['mul', rng.choice([0.5, 0.25, 1.0])])
    return dict(kind=kind, v=arr(), unit=rng.choice(CANON), ops=ops)


def fixed_identity_case(rng, kind):
    a = gen_identity_case(rng, kind)
    d1 = rng.choice(HIST_DT)
    a['ops'] = [['init', rng.choice(CANON), 1.0]] + ([['to', rng.choice(CANON), d1], ['init', None, other(rng, HIST_DT, d1)]] if kind != 'rate_prob' else [['mul', 0.5]]) + \
               [['set_pdt', rng.choice(HIST_DT)], ['update'], ['set_pdt', rng.choice(HIST_DT)]] + ([['toparent'], ['set_pdt', rng.choice(HIST_DT)]] if kind != 'rate_prob' else [])
    return a


class Labels:
    """ canonical numbering of ndarray objects: same object / shared memory = same number, numbered in order of first appearance;
        every labelled array is kept alive (so `is` cannot be fooled by a recycled address) together with a copy of its contents """
    def __init__(self):
        self.arrs = []; self.copies = []
    def label(self, arr):
        if not isinstance(arr, np.ndarray): return None
        for k, b in enumerate(self.arrs):
            if b is arr or np.shares_memory(b, arr): return k
        self.arrs.append(arr); self.copies.append(arr.copy())
        return len(self.arrs) - 1
    def overwritten(self):
        for k, (b, c) in enumerate(zip(self.arrs, self.copies)):
            if not np.array_equal(b, c, equal_nan=True): return k, c.tolist(), b.tolist()
        return None


def run_identity_case(a, c06):
    """ -> list of dict(line, res, ids, v, values, overwritten) from the real code """
    import starsim as ss
    kind = a['kind']
    lab = Labels()
    user = np.array(a['v'], dtype=float)
    cur = getattr(ss, kind)(user, unit=a['unit'])
    steps = []
    def record(line, sync=False):
        ids = (lab.label(cur.v), lab.label(cur.values))
        steps.append(dict(line=line, res='ok', ids=ids, v=c06.obs_val(cur.v), values=c06.obs_val(cur.values), overwritten=lab.overwritten()))
        if sync:   # an operation fed computed numbers into `v`: later comparisons are single-operation comparisons again
            steps.append(dict(steps[-1], line=f'A sync {c06.tok_val(cur.v.tolist())} {c06.tok_val(cur.values.tolist())}', res='sync'))
    record('A new ' + c06.tok_val(a['v']))
    for op in a['ops']:
        name = op[0]
        if name in ('init', 'set_pdt', 'update'):
            if name == 'init': cur.init(parent_unit=op[1], parent_dt=op[2])
            elif name == 'set_pdt': cur.set(parent_dt=op[1])
            else: cur.update_cached()
            record(f'A upd {kind} {c06.tok_num(cur.factor)}')
        elif name == 'setv':
            cur.set(v=np.array(op[1], dtype=float))
            record(f'A setv {kind} {c06.tok_num(cur.factor)} {c06.tok_val(op[1])}')
        elif name in ('to', 'toparent'):
            f = ss.time_ratio(cur.unit, cur.self_dt, *((op[1], op[2]) if name == 'to' else (cur.parent_unit, cur.parent_dt)))
            cur = cur.to(op[1], op[2]) if name == 'to' else cur.to_parent()
            record(f'A conv {kind} {c06.tok_num(f)}', sync=True)
        elif name == 'mul':
            cur = cur * op[1]
            record(f'A arith {kind} {c06.tok_num(cur.factor)} {c06.tok_num(op[1])}', sync=True)
        else:
            raise RuntimeError(f'unknown op {op}')
    return steps


def canon_ids(pairs):
    """ rename a stream of (vId, valuesId) by order of first appearance """
    m = {}; out = []
    for p in pairs:
        q = []
        for i in p:
            if i is None: q.append(None); continue
            if i not in m: m[i] = len(m)
            q.append(m[i])
        out.append(tuple(q))
    return out


def extra_sharing(model, impl):
    """ every sharing of the implementation must be a sharing of the model (copying MORE than the model is not a difference that matters;
        re-using an array the model allocates afresh is) -> None or text """
    names = [f'{w} after call {k}' for k in range(len(model)) for w in ('v', 'values')]
    m = [i for p in model for i in p]; q = [i for p in impl for i in p]
    for a in range(len(m)):
        for b in range(a + 1, len(m)):
            if q[a] is not None and q[a] == q[b] and m[a] != m[b]:
                return f'`{names[a]}` and `{names[b]}`'
    return None


def corr_identity(ctx, c06):
    rng = ctx.rng
    cases = [fixed_identity_case(rng, k) for k in KINDS] + [gen_identity_case(rng, rng.choice(KINDS)) for _ in range(ctx.budget(40, 400))]
    lines = []; per = []
    for a in cases:
        try:
            steps = run_identity_case(a, c06)
        except Exception as e:
            ctx.broke('correspondence', 'C06.array_identity', f"the array-identity history {a} raised {type(e).__name__}: {e}", data=a); return
        per.append((a, steps, len(lines)))
        lines += [s['line'] for s in steps]
    out = c06.drive(ctx, lines)
    for a, steps, off in per:
        ml = out[off:off + len(steps)]
        ctx.case(('ident', tuple(s['line'] for s in steps)), nontrivial=any(s['line'].startswith('A conv') for s in steps), sample=dict(kind='array identity', case=a, model_last=ml[-1][:200]))
        ctx.count('identity_' + a['kind'])
        prob = a['kind'] in c06.PROBKINDS
        mids = []
        why = None
        for k, (s, m) in enumerate(zip(steps, ml)):
            if not m.startswith('ok|'):
                why = (k, f'the model answered `{m}`'); break
            _, ids, mv, mvals = m.split('|')
            i, j = ids.split(' ')
            mids.append((int(i), None if j == '~' else int(j)))
            if s['res'] == 'sync': continue
            if s['overwritten']:
                b, was, now = s['overwritten']
                why = (k, f'array #{b} of the history (numbered by first appearance as `v`/`values`) held {was} and now holds {now}: an existing array was overwritten'); break
            extra = extra_sharing(mids, [t['ids'] for t in steps[:k + 1]])
            if extra:
                why = (k, f"the implementation uses ONE ndarray object where the model allocates two: {extra}; `v`/`values` by call: model {canon_ids(mids)} impl {canon_ids([t['ids'] for t in steps[:k + 1]])} "
                          "(same number = same ndarray object / shared memory)"); break
            if not c06.cmp_val(c06.val_from_tok(mv), s['v'], 16 * U, 4e-15 if prob else 0.0):
                why = (k, f"v: model={c06.show(c06.val_from_tok(mv))} impl={c06.show(s['v'])}"); break
            if not c06.cmp_val(c06.val_from_tok(mvals), s['values'], 16 * U, 4e-15 if prob else 0.0):
                why = (k, f"values: model={c06.show(c06.val_from_tok(mvals))} impl={c06.show(s['values'])}"); break
        if why:
            ctx.broke('correspondence', 'C06.array_identity', f"ss.{a['kind']}(np.array({a['v']}), unit={a['unit']!r}) history {a['ops'][:why[0]]} diverges from Model/TimePar.lean (Store/AOp) "
                      f"at line {why[0]} `{steps[why[0]]['line']}`: {why[1]}", data=dict(case=a, lines=[s['line'] for s in steps[:why[0] + 1]]))
            return
