"""
C20 implementation side: JSON-able intervention cases, building the REAL starsim objects, and the step probe.

A case is a plain dict (replayable):
  kind      'vx' | 'screen' | 'triage' | 'treat'
  delivery  'routine' | 'campaign'                      (treat_num has no schedule)
  sim       n_agents, start, dur, dt, rand_seed, disease ('sir'|'sis'), beta, init_prev, deaths (rate or None)
  sched     routine: start_year/end_year or years, prob (list), annual_prob ; campaign: years, prob (list)
  elig      name of an eligibility rule in ELIG
  vaccine   kind 'leaky'|'aon'|'inert', efficacy
  dx        rows [(state, [prob per result])], hierarchy
  tx        rows [(state, efficacy, post_state)]
  capacity  int or None ; treat_prob

The probe is a dynamically created SUBCLASS of the intervention class whose `step` snapshots the observable
delivery records before and after the real `step` (no source hook, nothing in /repo is touched).
"""
import numpy as np
from fractions import Fraction

STATES = {'sir': ['susceptible', 'infected', 'recovered'], 'sis': ['susceptible', 'infected'],
          'syphilis': ['susceptible', 'infected', 'naive', 'sus_not_naive', 'exposed', 'primary', 'secondary', 'latent_temp',
                       'latent_long', 'tertiary', 'congenital']}


def diseases_of(simc):
    if simc.get('zoo_diseases') is not None:      # a zoo base simulation (c20_zoo.py): module names as configured there
        return list(simc['zoo_diseases'])
    return [simc['disease']] + ([simc['disease2']] if simc.get('disease2') else [])


def all_states(simc):
    """ [(disease, state)] in a fixed order; the model numbers state arrays 10*disease_index + state_index """
    if simc.get('zoo_states') is not None:        # Boolean states found on the zoo entry's diseases by a dry initialisation
        return [tuple(x) for x in simc['zoo_states']]
    return [(d, st) for d in diseases_of(simc) for st in STATES[d]]


def state_code(simc, d, st):
    if simc.get('zoo_states') is not None:
        return 10 * diseases_of(simc).index(d) + [s for dd, s in all_states(simc) if dd == d].index(st)
    return 10 * diseases_of(simc).index(d) + STATES[d].index(st)


def flag_key(d, st):
    return f'{d}.{st}'


def frac(x):
    """ exact short-decimal rational of a float that came from a decimal literal / a rounded grid """
    return Fraction(repr(float(x)))


def fr_s(fr):
    fr = Fraction(fr)
    return str(fr.numerator) if fr.denominator == 1 else f'{fr.numerator}/{fr.denominator}'


def lst(xs, f=str):
    xs = list(xs)
    return ','.join(f(x) for x in xs) if xs else '-'


# ---------------------------------------------------------------------------
# eligibility rules (by name, so that a case is JSON-able)

def _elig_rules():
    import starsim as ss
    def dis(sim): return sim.diseases[0]
    return dict(
        none=None,
        age_gt_30=lambda sim: sim.people.age > 30,
        female=lambda sim: sim.people.female,
        susceptible=lambda sim: dis(sim).susceptible,
        infected=lambda sim: dis(sim).infected,
        nobody=lambda sim: sim.people.age > 500,
        uids_nobody=lambda sim: ss.uids(),
        adults=lambda sim: sim.people.age >= 15,
        unvaccinated=lambda sim: ~sim.interventions['target'].vaccinated,
        unscreened=lambda sim: ~sim.interventions['target'].screened,
        uids_young=lambda sim: (sim.people.age < 25).uids,
        uids_infected=lambda sim: dis(sim).infected.uids,
        uids_male_old=lambda sim: ((~sim.people.female) & (sim.people.age > 20)).uids,
        screen_pos=lambda sim: ss.uids(sim.interventions['scr'].outcomes['positive']),
        screen_pos_alive=lambda sim: ss.uids(sim.interventions['scr'].outcomes['positive']).intersect(sim.people.auids),
        # round 3: rules whose result depends on the STEP (enrolment windows, programmes that run on alternate steps, rotating
        # cohorts, an upstream screening that tests nobody on some steps): the rule as evaluated on the step of delivery counts
        t_enrol_early=lambda sim: dis(sim).infected & _open(sim, sim.ti < 3),
        t_late_open=lambda sim: dis(sim).infected & _open(sim, sim.ti >= 3),
        t_alt_steps=lambda sim: _open(sim, sim.ti % 2 == 0),
        t_alt_infected=lambda sim: dis(sim).infected & _open(sim, sim.ti % 2 == 0),
        t_two_on_two_off=lambda sim: dis(sim).infected & _open(sim, sim.ti % 4 < 2),
        t_rotating=lambda sim: sim.people.uid % 3 == sim.ti % 3,
        t_shrinking=lambda sim: sim.people.uid >= 7 * sim.ti,
        t_uids_alt=lambda sim: dis(sim).infected.uids if sim.ti % 2 == 0 else ss.uids(),
        t_uids_enrol_early=lambda sim: dis(sim).infected.uids if sim.ti < 3 else ss.uids(),
        t_uids_rotating=lambda sim: sim.people.auids[sim.people.auids % 2 == sim.ti % 2],
        screened_now=lambda sim: sim.interventions['scr'].screened & (sim.interventions['scr'].ti_screened == sim.ti),
    )


def _open(sim, cond):
    """ BoolArr that is True for everybody when the programme is open on this step and for nobody otherwise """
    return sim.people.age > (-1 if cond else 500)


TIME_RULES_TREAT = ['t_enrol_early', 't_late_open', 't_alt_infected', 't_two_on_two_off', 't_rotating', 't_shrinking', 't_uids_alt',
                    't_uids_enrol_early', 't_uids_rotating', 't_alt_steps']
TIME_RULES_DELIVERY = ['t_alt_steps', 't_rotating', 't_shrinking', 't_uids_rotating', 't_alt_infected', 't_uids_alt']


def n_used(ppl):
    """ number of uids ever created (array entries beyond it are uninitialised) """
    return int(ppl.uid.len_used)


def eval_elig(case_elig, sim):
    """ Evaluate the named rule independently of the intervention: ('all'|'mask'|'uids', list of uids).
        For a BoolArr the list is every raw index whose value is True (the model intersects with the active uids). """
    import starsim as ss
    fn = _elig_rules()[case_elig]
    if fn is None:
        return 'all', []
    r = fn(sim)
    if isinstance(r, ss.BoolArr):
        n = n_used(sim.people)
        return 'mask', np.nonzero(np.asarray(r.raw[:n]))[0].tolist()
    if isinstance(r, ss.uids):
        return 'uids', [int(u) for u in r]
    if r is None or len(r) == 0:
        return 'uids', []
    return 'bad', []


def elig_set(kind, l, active):
    """ The agents the rule makes eligible (reference semantics of Intervention.check_eligibility) """
    if kind == 'all': return list(active)
    if kind == 'mask':
        s = set(l); return [u for u in active if u in s]
    return list(l)


# ---------------------------------------------------------------------------
# case generation

def grid(simc):
    """ exact rational year grid of the sim: start + i*dt for i = 0..npts-1 """
    dt = frac(simc['dt']); start = Fraction(simc['start'])
    n = int(Fraction(simc['dur']) / dt) + 1
    return [start + i * dt for i in range(n)]


def gen_sim(rng, disease, dt=None):
    dt = dt if dt is not None else rng.choice([1.0, 1.0, 1.0, 0.5, 0.5, 0.25, 0.2, 2.0, 0.1, 0.4])
    nyears = rng.choice([6, 8, 10, 12])
    if dt == 0.1: nyears = rng.choice([4, 6])
    return dict(n_agents=rng.choice([40, 60, 90]), start=2000, dur=nyears, dt=dt, rand_seed=rng.randint(0, 9999),
                disease=disease, beta=rng.choice([0.2, 0.5, 1.5]), init_prev=rng.choice([0.05, 0.2, 0.4]),
                deaths=rng.choice([None, None, 30, 80]), births=rng.choice([None, None, None, 40]))


def gen_routine(rng, simc, prob_vector_ok=True):
    g = [y for y in grid(simc) if y.denominator == 1]
    dt = simc['dt']
    mode = rng.choice(['window', 'window', 'window', 'start_only', 'default', 'years'])
    s = dict(annual_prob=rng.random() < 0.75)
    i0 = rng.randrange(0, max(1, len(g) - 2))
    i1 = rng.randrange(i0, len(g) - 1)          # leave at least one grid year after the window
    if rng.random() < 0.15: i1 = len(g) - 1
    if mode == 'window':
        s.update(start_year=int(g[i0]), end_year=int(g[i1]))
    elif mode == 'start_only':
        s.update(start_year=int(g[i0]))
    elif mode == 'years':
        if dt > 1: mode = 'window'; s.update(start_year=int(g[i0]), end_year=int(g[i1]))
        else: s.update(years=list(range(int(g[i0]), int(g[i1]) + 1)))
    # probabilities
    r = rng.random()
    sy = s.get('start_year', s['years'][0] if 'years' in s else int(g[0]))
    ey = s.get('end_year', s['years'][-1] if 'years' in s else int(g[-1]))
    ny = ey - sy + 1
    if r < 0.25 and prob_vector_ok and ny >= 2 and not (0.5 < dt < 1):
        # (a coverage of exactly 1 in an interpolated annual vector makes 1-(1-p)**dt ill-conditioned on a non-dyadic grid)
        top = [1.0] if frac(dt).denominator in (1, 2, 4) or not s['annual_prob'] else [0.9]
        s['prob'] = [rng.choice([0.0, 0.1, 0.3, 0.5, 0.8] + top) for _ in range(ny)]
    elif r < 0.30 and ny >= 3:
        s['prob'] = [0.2, 0.4]                   # wrong length -> ValueError
    else:
        s['prob'] = [rng.choice([0.0, 0.05, 0.2, 0.3, 0.5, 0.9, 1.0, 1.0])]
    if rng.random() < 0.04:
        s = dict(start_year=2000.3, end_year=int(g[-1]), prob=[0.5], annual_prob=True)   # off the grid -> ValueError
    if rng.random() < 0.03 and 'years' not in s:
        s['years'] = [int(g[0]), int(g[1])] if len(g) > 1 else [int(g[0])]              # both given -> ValueError
        s.setdefault('start_year', int(g[0]))
    return s


def gen_campaign(rng, simc):
    g = grid(simc)
    k = rng.choice([1, 1, 2, 3])
    dyadic = frac(simc['dt']).denominator in (1, 2, 4)
    years = []
    for _ in range(k):
        y = float(rng.choice(g))
        if rng.random() < 0.4:
            off = rng.choice([0.1, 0.24, -0.2, 0.05]) * simc['dt'] if not dyadic else rng.choice([0.125, 0.25, -0.25, 0.5]) * simc['dt']
            y = round(y + off, 6)
        years.append(y)
    if rng.random() < 0.1: years.append(float(g[-1]) + 7)     # beyond the sim: nearest = last point
    if rng.random() < 0.7: years = sorted(years)
    r = rng.random()
    if r < 0.5: prob = [rng.choice([0.0, 0.2, 0.5, 0.9, 1.0])]
    elif r < 0.93 or len(years) < 2: prob = [rng.choice([0.0, 0.2, 0.5, 1.0]) for _ in years]
    else: prob = [0.5] * (len(years) + 1)                      # wrong length -> ValueError
    return dict(years=years, prob=prob)


def gen_dx(rng, simc):
    """ rows = [(disease, state, [prob per result])]: the complete cross product diseases x states, in table order """
    ds = diseases_of(simc)
    hier = rng.choice([['positive', 'negative'], ['positive', 'inadequate', 'negative'], ['positive', 'weak', 'inadequate', 'negative']])
    states = ['susceptible', 'infected'] if len(ds) > 1 or rng.random() < 0.7 else STATES[ds[0]]
    rows = []
    for d in ds:
        for st in states:
            m = len(hier)
            if st == 'susceptible':
                p = [0.0] * m; p[-1] = 1.0
                if rng.random() < 0.3: p = [0.1] + [0.0] * (m - 2) + [0.9]
            else:
                r = rng.random()
                if r < 0.4: p = [1.0] + [0.0] * (m - 1)
                elif r < 0.7 or m == 2:
                    pp = rng.choice([0.8, 0.5]); p = [pp] + [0.0] * (m - 2) + [round(1 - pp, 6)]
                else:
                    p = [0.5, 0.3] + [0.0] * (m - 3) + [0.2]          # a middle result with positive probability
            rows.append((d, st, p))
    return dict(hierarchy=hier, rows=rows)


def gen_tx(rng, simc):
    """ rows = [(disease, state, efficacy, post_state)]: the cross product diseases x states (table order) """
    ds = diseases_of(simc)
    states = ['infected'] if rng.random() < 0.5 else ['susceptible', 'infected']
    if len(ds) == 1 and ds[0] == 'sir' and rng.random() < 0.3: states = states + ['recovered']
    rows = []
    for d in ds:
        for st in states:
            if st == 'susceptible': rows.append((d, st, 0.0, 'susceptible'))
            elif st == 'infected':
                post = 'susceptible' if d == 'sis' else rng.choice(['recovered', 'susceptible'])
                rows.append((d, st, rng.choice([1.0, 1.0, 0.0, 0.6, 0.9]), post))
            else: rows.append((d, st, rng.choice([1.0, 0.5]), 'susceptible'))
    return dict(rows=rows)


def gen_case(rng, kind=None):
    kind = kind or rng.choice(['vx', 'vx', 'vx', 'screen', 'screen', 'triage', 'treat', 'treat'])
    disease = 'sir' if kind == 'vx' else rng.choice(['sis', 'sir'])
    simc = gen_sim(rng, disease)
    if rng.random() < 0.3:
        simc['disease2'] = 'sis' if disease == 'sir' else 'sir'
    case = dict(kind=kind, sim=simc, own_dt=1)
    if kind != 'treat':
        case['delivery'] = rng.choice(['routine', 'routine', 'campaign'])
        case['sched'] = gen_routine(rng, simc) if case['delivery'] == 'routine' else gen_campaign(rng, simc)
    if rng.random() < 0.25 and simc['dt'] in (1.0, 0.5, 0.25):
        case['own_dt'] = rng.choice([2, 2, 3])       # the intervention runs on its own, coarser timeline
    if kind == 'vx':
        case['elig'] = rng.choice(['none', 'age_gt_30', 'female', 'susceptible', 'unvaccinated', 'uids_young', 'uids_male_old', 'nobody', 'uids_nobody', 'adults'])
        vk = rng.choice(['leaky', 'leaky', 'aon', 'aon', 'inert'])
        case['vaccine'] = dict(kind=vk, efficacy=rng.choice([1.0, 1.0, 0.9, 0.5, 0.0]))
    elif kind in ('screen', 'triage'):
        case['elig'] = rng.choice(['none', 'age_gt_30', 'female', 'infected', 'uids_young', 'uids_infected', 'nobody', 'uids_nobody'] + (['unscreened'] if kind == 'screen' else []))
        if kind == 'triage' and case['elig'] == 'none': case['elig'] = 'female'
        case['dx'] = gen_dx(rng, simc)
    else:
        case['delivery'] = 'none'
        case['tx'] = gen_tx(rng, simc)
        case['capacity'] = rng.choice([None, 0, 1, 3, 5, 8])
        case['treat_prob'] = rng.choice([1.0, 1.0, 0.9, 0.5])
        if rng.random() < 0.5:
            # a screening stage feeds the treatment (as in tests/test_syphilis.py)
            d0 = simc['disease']
            case['pipeline'] = dict(sched=dict(start_year=2001, end_year=rng.choice([2003, 2004]), prob=[rng.choice([0.5, 1.0])], annual_prob=False),
                                    dx=dict(hierarchy=['positive', 'negative'], rows=[(d, st, p) for d in diseases_of(simc)
                                                                                      for st, p in (('susceptible', [0.0, 1.0]), ('infected', [1.0, 0.0]))]))
            case['elig'] = rng.choice(['screen_pos_alive', 'screen_pos_alive', 'screen_pos'])
            if simc['dt'] in (2.0, 0.4): simc['dt'] = 1.0
            case['own_dt'] = 1
        else:
            case['elig'] = rng.choice(['infected', 'uids_infected', 'none', 'female', 'nobody', 'uids_nobody'])
    return case


def syph_tables():
    """ the shipped syphilis products (data/products/syph_dx.csv, syph_tx.csv) as case tables, blocks in the products' loop order """
    import starsim as ss
    dxp = ss.diseases.syphilis.load_syph_dx()['rpr']; txp = ss.diseases.syphilis.load_syph_tx()['bpg']
    hier = list(dxp.hierarchy)
    dx_rows = []
    for d in dxp.diseases:
        for st in dxp.health_states:
            sub = dxp.df[(dxp.df.state == st) & (dxp.df.disease == d)]
            dx_rows.append((str(d), str(st), [float(sub[sub.result == r].probability.values[0]) for r in hier]))
    tx_rows = []
    for d in txp.diseases:
        for st in txp.health_states:
            sub = txp.df[(txp.df.state == st) & (txp.df.disease == d)]
            tx_rows.append((str(d), str(st), float(sub.efficacy.values[0]), str(sub.post_state.values[0])))
    return dict(hierarchy=hier, rows=dx_rows), dict(rows=tx_rows)


def fixed_cases():
    """ Scenario families that every run exercises (next to the random cases): interventions on their own timeline with a
        window that does not start at the sim start, products covering two diseases that share state names, results
        hierarchies with a middle result, empty eligibility, capacity 0 with a non-empty queue, births, all-or-nothing
        vaccine, a very small step. """
    def sim(dt=1.0, dur=12, disease='sir', **kw):
        d = dict(n_agents=60, start=2000, dur=dur, dt=dt, rand_seed=11, disease=disease, beta=0.5, init_prev=0.3, deaths=None, births=None)
        d.update(kw); return d
    leaky1 = dict(kind='leaky', efficacy=1.0)
    out = []
    out.append(dict(kind='vx', delivery='routine', own_dt=2, elig='none', vaccine=leaky1, sim=sim(),
                    sched=dict(start_year=2004, end_year=2008, prob=[0.5], annual_prob=False)))
    out.append(dict(kind='vx', delivery='routine', own_dt=2, elig='adults', vaccine=leaky1, sim=sim(dt=0.5, dur=10),
                    sched=dict(years=[2003, 2004, 2005], prob=[0.2, 0.9, 0.4], annual_prob=True)))
    out.append(dict(kind='vx', delivery='campaign', own_dt=2, elig='none', vaccine=dict(kind='aon', efficacy=0.5), sim=sim(dur=12),
                    sched=dict(years=[2006.0, 2010.0], prob=[1.0, 0.5])))
    dx2 = dict(hierarchy=['positive', 'inadequate', 'negative'],
               rows=[('sis', 'susceptible', [0.0, 0.0, 1.0]), ('sis', 'infected', [0.5, 0.3, 0.2]),
                     ('sir', 'susceptible', [0.0, 0.1, 0.9]), ('sir', 'infected', [0.0, 1.0, 0.0])])
    out.append(dict(kind='screen', delivery='routine', own_dt=2, elig='female', dx=dx2, sim=sim(disease='sis', disease2='sir', deaths=40),
                    sched=dict(start_year=2002, end_year=2006, prob=[0.8], annual_prob=False)))
    # ... and with a late window: BaseScreening writes results[...][sim.ti] into its own (shorter) result arrays
    out.append(dict(kind='screen', delivery='routine', own_dt=2, elig='none', dx=dx2, sim=sim(disease='sis', disease2='sir'),
                    sched=dict(start_year=2008, end_year=2010, prob=[0.8], annual_prob=False)))
    out.append(dict(kind='screen', delivery='routine', own_dt=1, elig='uids_nobody', dx=dx2, sim=sim(disease='sis', disease2='sir'),
                    sched=dict(start_year=2002, end_year=2004, prob=[1.0], annual_prob=False)))
    # one Tx for two diseases sharing the state name `infected`, with different rows
    out.append(dict(kind='treat', delivery='none', own_dt=1, elig='none', capacity=None, treat_prob=1.0, sim=sim(disease='sir', disease2='sis', dur=6),
                    tx=dict(rows=[('sir', 'infected', 1.0, 'recovered'), ('sis', 'infected', 0.0, 'susceptible')])))
    out.append(dict(kind='treat', delivery='none', own_dt=1, elig='uids_infected', capacity=4, treat_prob=1.0, sim=sim(disease='sis', disease2='sir', dur=6, deaths=40),
                    tx=dict(rows=[('sis', 'infected', 0.0, 'susceptible'), ('sir', 'infected', 1.0, 'susceptible')])))
    out.append(dict(kind='treat', delivery='none', own_dt=1, elig='infected', capacity=0, treat_prob=1.0, sim=sim(disease='sis', dur=5),
                    tx=dict(rows=[('sis', 'infected', 1.0, 'susceptible')])))
    out.append(dict(kind='treat', delivery='none', own_dt=2, elig='nobody', capacity=3, treat_prob=1.0, sim=sim(disease='sis', dur=6),
                    tx=dict(rows=[('sis', 'infected', 1.0, 'susceptible')])))
    out.append(dict(kind='vx', delivery='routine', own_dt=1, elig='nobody', vaccine=leaky1, sim=sim(dur=6),
                    sched=dict(start_year=2001, end_year=2003, prob=[1.0], annual_prob=False)))
    out.append(dict(kind='vx', delivery='routine', own_dt=1, elig='none', vaccine=leaky1, sim=sim(dur=8, births=60, deaths=40),
                    sched=dict(start_year=2002, end_year=2006, prob=[0.6], annual_prob=True)))
    out.append(dict(kind='vx', delivery='routine', own_dt=1, elig='none', vaccine=dict(kind='aon', efficacy=0.5), sim=sim(dt=0.5, dur=6),
                    sched=dict(start_year=2001, end_year=2002, prob=[0.7], annual_prob=True)))
    out.append(dict(kind='triage', delivery='routine', own_dt=1, elig='infected', dx=dict(hierarchy=['positive', 'negative'],
                    rows=[('sis', 'susceptible', [0.0, 1.0]), ('sis', 'infected', [1.0, 0.0])]), sim=sim(disease='sis', dur=5),
                    sched=dict(start_year=2001, end_year=2003, prob=[1.0], annual_prob=False)))
    out.append(dict(kind='screen', delivery='campaign', own_dt=1, elig='none', dx=dict(hierarchy=['positive', 'negative'],
                    rows=[('sis', 'susceptible', [0.0, 1.0]), ('sis', 'infected', [1.0, 0.0])]), sim=sim(disease='sis', dur=5),
                    sched=dict(years=[2002.0], prob=[1.0])))
    # the shipped syphilis interventions themselves: syph_screening ('rpr') and the screening -> syph_treatment ('bpg') pipeline
    sdx, stx = syph_tables()
    ssim = dict(n_agents=120, start=2000, dur=9, dt=1.0, rand_seed=5, disease='syphilis', beta=0.5, init_prev=0.25, deaths=None, births=None)
    out.append(dict(kind='screen', syph=True, delivery='routine', own_dt=1, elig='adults', dx=sdx, sim=dict(ssim),
                    sched=dict(start_year=2002, end_year=2005, prob=[0.8], annual_prob=True)))
    out.append(dict(kind='treat', syph=True, delivery='none', own_dt=1, elig='screen_pos_alive', capacity=4, treat_prob=0.9, tx=stx, sim=dict(ssim, rand_seed=6),
                    pipeline=dict(sched=dict(start_year=2002, end_year=2006, prob=[0.9], annual_prob=False), dx=sdx)))
    # a very small step: the window years are matched with np.isclose (rtol 1e-5 ~ 0.02 years around 2000)
    out.append(dict(kind='vx', delivery='routine', own_dt=1, elig='none', vaccine=leaky1, sim=sim(dt=0.02, dur=2, n_agents=40, beta=0.2),
                    sched=dict(start_year=2001, end_year=2001, prob=[1.0], annual_prob=False)))
    return out


def gen_case_r3(rng, kind=None):
    """ gen_case, then (with extra draws made AFTER gen_case so that the stream gen_case consumes — shared with C01/C13 — is
        unchanged) a step-dependent eligibility rule; treatments get a small capacity so that agents wait in the queue over
        steps on which the rule returns somebody else or nobody """
    case = gen_case(rng, kind)
    r = rng.random(); rule_t = rng.choice(TIME_RULES_TREAT); rule_d = rng.choice(TIME_RULES_DELIVERY); cap = rng.choice([1, 2, 3, 5, None])
    p = rng.choice([1.0, 1.0, 0.8])
    if case['kind'] == 'treat':
        if case.get('pipeline'):
            if r < 0.4: case['elig'] = 'screened_now'; case['capacity'] = cap
        elif r < 0.5:
            case['elig'] = rule_t; case['capacity'] = cap; case['treat_prob'] = p
    elif case['kind'] in ('vx', 'screen') and r < 0.2:
        case['elig'] = rule_d
    return case


def fixed_cases_r3():
    """ Round-3 families, exercised on every run: eligibility that changes from step to step (closed enrolment, alternate steps,
        rotating / shrinking cohorts, this step's screened agents only) for a capacity-limited treatment with a backlog, and for
        vaccination / screening.  The recipients of a step must be within the rule's result ON THAT STEP. """
    def sim(dt=1.0, dur=8, disease='sis', **kw):
        d = dict(n_agents=60, start=2000, dur=dur, dt=dt, rand_seed=23, disease=disease, beta=0.5, init_prev=0.35, deaths=None, births=None)
        d.update(kw); return d
    cure = dict(rows=[('sis', 'infected', 1.0, 'susceptible')])
    out = []
    out.append(dict(kind='treat', delivery='none', own_dt=1, elig='t_enrol_early', capacity=3, treat_prob=1.0, sim=sim(), tx=cure))
    out.append(dict(kind='treat', delivery='none', own_dt=1, elig='t_uids_alt', capacity=2, treat_prob=0.9, sim=sim(disease='sir', deaths=40),
                    tx=dict(rows=[('sir', 'infected', 1.0, 'recovered')])))
    out.append(dict(kind='treat', delivery='none', own_dt=1, elig='t_rotating', capacity=4, treat_prob=1.0, sim=sim(dur=6),
                    tx=dict(rows=[('sis', 'susceptible', 0.0, 'susceptible'), ('sis', 'infected', 0.6, 'susceptible')])))
    out.append(dict(kind='treat', delivery='none', own_dt=1, elig='t_shrinking', capacity=2, treat_prob=1.0, sim=sim(dur=6, beta=0.2), tx=cure))
    out.append(dict(kind='treat', delivery='none', own_dt=1, elig='t_two_on_two_off', capacity=1, treat_prob=1.0, sim=sim(dt=0.5, dur=5), tx=cure))
    out.append(dict(kind='treat', delivery='none', own_dt=1, elig='t_late_open', capacity=None, treat_prob=1.0, sim=sim(dur=6), tx=cure))
    out.append(dict(kind='treat', delivery='none', own_dt=2, elig='t_uids_enrol_early', capacity=2, treat_prob=1.0, sim=sim(dur=10), tx=cure))
    pl = dict(sched=dict(start_year=2001, end_year=2003, prob=[0.6], annual_prob=False),
              dx=dict(hierarchy=['positive', 'negative'], rows=[('sis', 'susceptible', [0.0, 1.0]), ('sis', 'infected', [1.0, 0.0])]))
    out.append(dict(kind='treat', delivery='none', own_dt=1, elig='screened_now', capacity=3, treat_prob=1.0, sim=sim(dur=8), tx=cure, pipeline=pl))
    out.append(dict(kind='vx', delivery='routine', own_dt=1, elig='t_alt_steps', vaccine=dict(kind='leaky', efficacy=1.0), sim=sim(disease='sir', dur=7),
                    sched=dict(start_year=2001, end_year=2005, prob=[0.5], annual_prob=False)))
    out.append(dict(kind='vx', delivery='campaign', own_dt=1, elig='t_uids_rotating', vaccine=dict(kind='leaky', efficacy=0.9), sim=sim(disease='sir', dur=6),
                    sched=dict(years=[2001.0, 2002.0, 2004.0], prob=[1.0])))
    out.append(dict(kind='screen', delivery='routine', own_dt=1, elig='t_rotating', sim=sim(dur=6),
                    dx=dict(hierarchy=['positive', 'negative'], rows=[('sis', 'susceptible', [0.0, 1.0]), ('sis', 'infected', [1.0, 0.0])]),
                    sched=dict(start_year=2001, end_year=2004, prob=[0.8], annual_prob=False)))
    return out


# ---------------------------------------------------------------------------
# building the real objects

def _dx_df(dx):
    import pandas as pd
    recs = []
    for d, st, probs in dx['rows']:
        for res, p in zip(dx['hierarchy'], probs):
            recs.append(dict(name='t', disease=d, state=st, result=res, probability=p))
    return pd.DataFrame(recs)


def _tx_df(tx):
    import pandas as pd
    return pd.DataFrame([dict(name='tx', disease=d, state=s, efficacy=e, post_state=p) for d, s, e, p in tx['rows']])


def probed(cls, snap):
    """ Subclass whose step() records snap(self) before and after the real step """
    class Probed(cls):
        def step(self):
            log = self.__dict__.setdefault('_c20_log', [])
            pre = snap(self)
            try:
                out = super().step()
            except Exception as e:
                log.append(dict(pre=pre, err=type(e).__name__, msg=str(e)[:200]))
                raise
            post = snap(self, after=True)
            try: ret = sorted(int(u) for u in out)
            except Exception: ret = None
            if ret is None and 'out' in post and 'queue' in post:
                # syph_treatment.step returns nothing: the treated are the agents of the outcomes written in this step
                # (n_tx[ti] says whether anybody was treated)
                ntx = int(self.results['n_tx'][self.sim.ti]) if 'n_tx' in self.results else None
                ret = sorted(set(post['out'].get('successful', [])) | set(post['out'].get('unsuccessful', []))) if ntx else []
            log.append(dict(pre=pre, post=post, ret=ret))
            return out
    Probed.__name__ = cls.__name__
    Probed.__qualname__ = cls.__qualname__
    return Probed


def upcoming_draws(dist, ppl, uids):
    """ The uniform variates the NEXT rvs call of this distribution will compare against p, per uid, as exact
        numerators over 2^53 — obtained from a copy of the generator state with NumPy directly. """
    import starsim as ss
    if not len(uids): return {}
    bg = np.random.PCG64(); bg.state = dist.rng.bit_generator.state
    slots = np.asarray(ppl.slot.raw)
    n = int(slots[np.asarray(uids, dtype=int)].max()) + 1
    r = np.random.Generator(bg).random(n, dtype=ss.dtypes.float)
    out = {}
    for u in uids:
        x = float(r[slots[u]])
        out[int(u)] = int(Fraction(x) * 2 ** 53)
    return out


def make_snap(case):
    kind = case['kind']; simc = case['sim']

    def snap(iv, after=False):
        sim = iv.sim; ppl = sim.people
        n = n_used(ppl)
        s = dict(ti=int(sim.ti), own_ti=int(iv.ti), active=[int(u) for u in ppl.auids], n=n)
        s['flags'] = {}
        for d, st in all_states(simc):
            dz = sim.diseases[d]
            if isinstance(getattr(type(dz), st, None), property):      # derived state (e.g. Syphilis.naive): defined on active agents only
                s['flags'][flag_key(d, st)] = sorted(int(u) for u in getattr(dz, st).uids)
            else:
                s['flags'][flag_key(d, st)] = np.nonzero(np.asarray(getattr(dz, st).raw[:n]))[0].tolist()
        dis = sim.diseases['sir'] if 'sir' in diseases_of(simc) else (sim.diseases[0] if len(sim.diseases) else None)
        s['rs'] = np.asarray(dis.rel_sus.raw[:n], dtype=float).copy() if hasattr(dis, 'rel_sus') else np.ones(n)   # (zoo: no disease / NCD)
        if not after:
            ek, el = eval_elig(case['elig'], sim)
            s['elig'] = (ek, el)
            us = sorted(set(s['active']) | set(el if ek != 'mask' else []))
            cd = getattr(iv, 'coverage_dist', None)     # CampaignDelivery x BaseTest has none
            s['draws'] = upcoming_draws(cd, ppl, us) if cd is not None else {}
            s['np_state'] = np.random.get_state()       # sir_vaccine(leaky=False) draws from the global NumPy generator
        if kind == 'vx':
            s['vacc'] = np.nonzero(np.asarray(iv.vaccinated.raw[:n]))[0].tolist()
            s['doses'] = np.asarray(iv.n_doses.raw[:n], dtype=float).copy()
            s['tiv'] = np.asarray(iv.ti_vaccinated.raw[:n], dtype=float).copy()
        elif kind in ('screen', 'triage'):
            s['screened'] = np.nonzero(np.asarray(iv.screened.raw[:n]))[0].tolist()
            s['screens'] = np.asarray(iv.screens.raw[:n], dtype=float).copy()
            s['tis'] = np.asarray(iv.ti_screened.raw[:n], dtype=float).copy()
            s['out'] = {k: [int(u) for u in v] for k, v in iv.outcomes.items()}
        else:
            s['queue'] = [int(u) for u in iv.queue]
            s['out'] = {k: sorted(int(u) for u in v) for k, v in iv.outcomes.items()}
            d = iv.product.efficacy_dist
            s['eff_seed'] = int(d.seed); s['eff_ind'] = int(d.ind)
            s['slots'] = np.asarray(ppl.slot.raw[:n]).copy()
        return s
    return snap


def ref_binomial(np_state, q, k):
    """ the variates np.random.binomial(1, q, k) returns from the given global state (NumPy only) """
    rs = np.random.RandomState(); rs.set_state(np_state)
    return [int(x) for x in rs.binomial(1, q, k)] if k else []


def eff_draws(seed, ind, ncalls, ppl_slots, uids):
    """ uniform variates of the next `ncalls` filter calls of the Tx efficacy distribution (call j uses the stream
        PCG64(seed).jumped(ind + j)), computed with NumPy only """
    import starsim as ss
    out = {}
    if not len(uids): return out
    n = int(ppl_slots[np.asarray(uids, dtype=int)].max()) + 1
    for j in range(ncalls):
        bg = np.random.PCG64(seed)
        if ind + j: bg = bg.jumped(ind + j)
        r = np.random.Generator(bg).random(n, dtype=ss.dtypes.float)
        for u in uids:
            out[(j, int(u))] = int(Fraction(float(r[ppl_slots[u]])) * 2 ** 53)
    return out


def build(case):
    """ Real, initialised ss.Sim for the case with the probed target intervention called 'target'.
        Raises whatever the real init raises (ValueError for rejected schedules). """
    import starsim as ss
    rules = _elig_rules()
    simc = case['sim']; kind = case['kind']
    snap = make_snap(case)
    elig = rules[case['elig']]
    own = {}
    if case.get('own_dt', 1) != 1:
        own = dict(dt=simc['dt'] * case['own_dt'])
    intvs = []
    syph = bool(case.get('syph'))
    if syph and kind == 'screen':
        intvs.append(probed(ss.syph_screening, snap)(name='target', product='rpr', eligibility=elig, **dict(case['sched']), **own))
    elif syph and kind == 'treat':
        pl = case['pipeline']
        intvs.append(ss.syph_screening(name='scr', product='rpr', eligibility=rules['adults'], **dict(pl['sched'])))
        intvs.append(probed(ss.syph_treatment, snap)(name='target', product='bpg', prob=case['treat_prob'], max_capacity=case['capacity'], eligibility=elig, **own))
    elif kind == 'vx':
        v = case['vaccine']
        prod = ss.Vx(diseases='sir') if v['kind'] == 'inert' else ss.sir_vaccine(efficacy=v['efficacy'], leaky=(v['kind'] == 'leaky'))
        cls = probed(ss.routine_vx if case['delivery'] == 'routine' else ss.campaign_vx, snap)
        kw = dict(case['sched'])
        intvs.append(cls(name='target', product=prod, eligibility=elig, **kw, **own))
    elif kind in ('screen', 'triage'):
        prod = ss.Dx(_dx_df(case['dx']), hierarchy=case['dx']['hierarchy'])
        if kind == 'screen':
            base = ss.routine_screening if case['delivery'] == 'routine' else ss.campaign_screening
            base = _screening_class(base)
        else:
            base = ss.routine_triage if case['delivery'] == 'routine' else ss.campaign_triage
        cls = probed(base, snap)
        intvs.append(cls(name='target', product=prod, eligibility=elig, **dict(case['sched']), **own))
    else:
        if case.get('pipeline'):
            pl = case['pipeline']
            scr = _screening_class(ss.routine_screening)(name='scr', product=ss.Dx(_dx_df(pl['dx']), hierarchy=pl['dx']['hierarchy']),
                                                         eligibility=None, **dict(pl['sched']))
            intvs.append(scr)
        prod = ss.Tx(_tx_df(case['tx']))
        cls = probed(ss.treat_num, snap)
        intvs.append(cls(name='target', product=prod, prob=case['treat_prob'], max_capacity=case['capacity'], eligibility=elig, **own))
    dlist = []
    for d in diseases_of(simc):
        dkw = dict(type=d, beta=simc['beta'], init_prev=simc['init_prev'])
        if d == 'sir': dkw['p_death'] = 0.0
        dlist.append(dkw)
    pars = dict(n_agents=simc['n_agents'], start=simc['start'], dur=simc['dur'], dt=simc['dt'], rand_seed=simc['rand_seed'],
                diseases=dlist, networks=dict(type='random', n_contacts=4), interventions=intvs, verbose=0)
    if simc['disease'] == 'syphilis':
        pars['diseases'] = ss.Syphilis(beta={'mf': [simc['beta'], simc['beta'] / 2], 'maternal': [0.99, 0]}, init_prev=simc['init_prev'])
        pars['networks'] = [ss.MFNet(), ss.MaternalNet()]
        pars['demographics'] = [ss.Pregnancy(fertility_rate=30), ss.Deaths(death_rate=10)]
    dem = []
    if simc.get('births'): dem.append(ss.Births(birth_rate=simc['births']))
    if simc.get('deaths'): dem.append(ss.Deaths(death_rate=simc['deaths']))
    if dem: pars['demographics'] = dem
    sim = ss.Sim(**pars)
    sim.init()
    return sim


_SCR = {}
def _screening_class(base):
    """ BaseScreening leaves check_eligibility / results to subclasses (as syph_screening does): the minimal subclass """
    import starsim as ss
    if base not in _SCR:
        class Scr(base):
            def check_eligibility(self):
                return ss.Intervention.check_eligibility(self)
            def init_results(self):
                super().init_results()
                self.define_results(ss.Result('n_screened', dtype=int), ss.Result('n_dx', dtype=int))
        Scr.__name__ = base.__name__
        _SCR[base] = Scr
    return _SCR[base]


def run_case(case):
    """ -> dict(init_err | sched, log, run_err, yearvec, ...) from the REAL code """
    res = dict(init_err=None, run_err=None, log=[])
    try:
        sim = build(case)
    except (ValueError, IndexError, TypeError) as e:
        res['init_err'] = type(e).__name__; res['init_msg'] = str(e)[:200]
        return res
    iv = sim.interventions['target']
    res['yearvec'] = [float(y) for y in sim.t.yearvec]
    res['npts'] = int(sim.t.npts)
    if case['kind'] != 'treat':
        res['timepoints'] = [int(t) for t in np.asarray(iv.timepoints)]
        res['prob'] = [float(p) for p in np.asarray(iv.prob)]
        if case['delivery'] == 'routine':
            res['start_year'] = float(iv.start_year); res['end_year'] = float(iv.end_year)
    res['own_dt'] = float(sim.interventions['target'].t.dt)
    res['own_npts'] = int(sim.interventions['target'].t.npts)
    try:
        sim.run()
    except Exception as e:
        res['run_err'] = type(e).__name__; res['run_msg'] = str(e)[:200]
    res['log'] = sim.interventions['target'].__dict__.get('_c20_log', [])
    res['sim'] = sim
    return res
