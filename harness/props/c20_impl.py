"""
C20 implementation side: JSON-able intervention cases, building the REAL starsim objects, and the step probe.

A case is a plain dict (replayable):
  kind      'vx' | 'screen' | 'triage' | 'treat'
  delivery  'routine' | 'campaign'                      (treat_num has no schedule)
  sim       n_agents, start, dur, dt, rand_seed, disease ('sir'|'sis'), beta, init_prev, deaths (rate or None)
  sched     routine: start_year/end_year or years, prob (list), annual_prob ; campaign: years, prob (list)
  elig      name of an eligibility rule in ELIG
  vaccine   kind 'leaky'|'aon'|'inert', efficacy
  dx        rows [(state, [prob per result])], hierarchy
  tx        rows [(state, efficacy, post_state)]
  capacity  int or None ; treat_prob

The probe is a dynamically created SUBCLASS of the intervention class whose `step` snapshots the observable
delivery records before and after the real `step` (no source hook, nothing in /repo is touched).
"""
import numpy as np
from fractions import Fraction

STATES = {'sir': ['susceptible', 'infected', 'recovered'], 'sis': ['susceptible', 'infected']}


def frac(x):
    """ exact short-decimal rational of a float that came from a decimal literal / a rounded grid """
    return Fraction(repr(float(x)))


def fr_s(fr):
    fr = Fraction(fr)
    return str(fr.numerator) if fr.denominator == 1 else f'{fr.numerator}/{fr.denominator}'


def lst(xs, f=str):
    xs = list(xs)
    return ','.join(f(x) for x in xs) if xs else '-'


# ---------------------------------------------------------------------------
# eligibility rules (by name, so that a case is JSON-able)

def _elig_rules():
    import starsim as ss
    def dis(sim): return sim.diseases[0]
    return dict(
        none=None,
        age_gt_30=lambda sim: sim.people.age > 30,
        female=lambda sim: sim.people.female,
        susceptible=lambda sim: dis(sim).susceptible,
        infected=lambda sim: dis(sim).infected,
        nobody=lambda sim: sim.people.age > 500,
        unvaccinated=lambda sim: ~sim.interventions['target'].vaccinated,
        unscreened=lambda sim: ~sim.interventions['target'].screened,
        uids_young=lambda sim: (sim.people.age < 25).uids,
        uids_infected=lambda sim: dis(sim).infected.uids,
        uids_male_old=lambda sim: ((~sim.people.female) & (sim.people.age > 20)).uids,
        screen_pos=lambda sim: ss.uids(sim.interventions['scr'].outcomes['positive']),
        screen_pos_alive=lambda sim: ss.uids(sim.interventions['scr'].outcomes['positive']).intersect(sim.people.auids),
    )


def eval_elig(case_elig, sim):
    """ Evaluate the named rule independently of the intervention: ('all'|'mask'|'uids', list of uids).
        For a BoolArr the list is every raw index whose value is True (the model intersects with the active uids). """
    import starsim as ss
    fn = _elig_rules()[case_elig]
    if fn is None:
        return 'all', []
    r = fn(sim)
    if isinstance(r, ss.BoolArr):
        n = int(sim.people.uid.raw.shape[0])
        return 'mask', np.nonzero(np.asarray(r.raw[:n]))[0].tolist()
    if isinstance(r, ss.uids):
        return 'uids', [int(u) for u in r]
    if r is None or len(r) == 0:
        return 'uids', []
    return 'bad', []


def elig_set(kind, l, active):
    """ The agents the rule makes eligible (reference semantics of Intervention.check_eligibility) """
    if kind == 'all': return list(active)
    if kind == 'mask':
        s = set(l); return [u for u in active if u in s]
    return list(l)


# ---------------------------------------------------------------------------
# case generation

def grid(simc):
    """ exact rational year grid of the sim: start + i*dt for i = 0..npts-1 """
    dt = frac(simc['dt']); start = Fraction(simc['start'])
    n = int(Fraction(simc['dur']) / dt) + 1
    return [start + i * dt for i in range(n)]


def gen_sim(rng, disease, dt=None):
    dt = dt if dt is not None else rng.choice([1.0, 1.0, 1.0, 0.5, 0.5, 0.25, 0.2, 2.0, 0.1, 0.4])
    nyears = rng.choice([6, 8, 10, 12])
    if dt == 0.1: nyears = rng.choice([4, 6])
    return dict(n_agents=rng.choice([40, 60, 90]), start=2000, dur=nyears, dt=dt, rand_seed=rng.randint(0, 9999),
                disease=disease, beta=rng.choice([0.2, 0.5, 1.5]), init_prev=rng.choice([0.05, 0.2, 0.4]),
                deaths=rng.choice([None, None, 30, 80]))


def gen_routine(rng, simc, prob_vector_ok=True):
    g = [y for y in grid(simc) if y.denominator == 1]
    dt = simc['dt']
    mode = rng.choice(['window', 'window', 'window', 'start_only', 'default', 'years'])
    s = dict(annual_prob=rng.random() < 0.75)
    i0 = rng.randrange(0, max(1, len(g) - 2))
    i1 = rng.randrange(i0, len(g) - 1)          # leave at least one grid year after the window
    if rng.random() < 0.15: i1 = len(g) - 1
    if mode == 'window':
        s.update(start_year=int(g[i0]), end_year=int(g[i1]))
    elif mode == 'start_only':
        s.update(start_year=int(g[i0]))
    elif mode == 'years':
        if dt > 1: mode = 'window'; s.update(start_year=int(g[i0]), end_year=int(g[i1]))
        else: s.update(years=list(range(int(g[i0]), int(g[i1]) + 1)))
    # probabilities
    r = rng.random()
    sy = s.get('start_year', s['years'][0] if 'years' in s else int(g[0]))
    ey = s.get('end_year', s['years'][-1] if 'years' in s else int(g[-1]))
    ny = ey - sy + 1
    if r < 0.25 and prob_vector_ok and ny >= 2 and not (0.5 < dt < 1):
        # (a coverage of exactly 1 in an interpolated annual vector makes 1-(1-p)**dt ill-conditioned on a non-dyadic grid)
        top = [1.0] if frac(dt).denominator in (1, 2, 4) or not s['annual_prob'] else [0.9]
        s['prob'] = [rng.choice([0.0, 0.1, 0.3, 0.5, 0.8] + top) for _ in range(ny)]
    elif r < 0.30 and ny >= 3:
        s['prob'] = [0.2, 0.4]                   # wrong length -> ValueError
    else:
        s['prob'] = [rng.choice([0.0, 0.05, 0.2, 0.3, 0.5, 0.9, 1.0, 1.0])]
    if rng.random() < 0.04:
        s = dict(start_year=2000.3, end_year=int(g[-1]), prob=[0.5], annual_prob=True)   # off the grid -> ValueError
    if rng.random() < 0.03 and 'years' not in s:
        s['years'] = [int(g[0]), int(g[1])] if len(g) > 1 else [int(g[0])]              # both given -> ValueError
        s.setdefault('start_year', int(g[0]))
    return s


def gen_campaign(rng, simc):
    g = grid(simc)
    k = rng.choice([1, 1, 2, 3])
    dyadic = frac(simc['dt']).denominator in (1, 2, 4)
    years = []
    for _ in range(k):
        y = float(rng.choice(g))
        if rng.random() < 0.4:
            off = rng.choice([0.1, 0.24, -0.2, 0.05]) * simc['dt'] if not dyadic else rng.choice([0.125, 0.25, -0.25, 0.5]) * simc['dt']
            y = round(y + off, 6)
        years.append(y)
    if rng.random() < 0.1: years.append(float(g[-1]) + 7)     # beyond the sim: nearest = last point
    if rng.random() < 0.7: years = sorted(years)
    r = rng.random()
    if r < 0.5: prob = [rng.choice([0.0, 0.2, 0.5, 0.9, 1.0])]
    elif r < 0.93 or len(years) < 2: prob = [rng.choice([0.0, 0.2, 0.5, 1.0]) for _ in years]
    else: prob = [0.5] * (len(years) + 1)                      # wrong length -> ValueError
    return dict(years=years, prob=prob)


def gen_dx(rng, disease):
    hier = rng.choice([['positive', 'negative'], ['positive', 'inadequate', 'negative']])
    rows = []
    for st in STATES[disease][:2] if rng.random() < 0.7 else STATES[disease]:
        if st == 'susceptible':
            p = [0.0] * len(hier); p[-1] = 1.0
            if rng.random() < 0.3: p = [0.1] + [0.0] * (len(hier) - 2) + [0.9]
        else:
            pp = rng.choice([1.0, 1.0, 0.8, 0.5])
            p = [pp] + [0.0] * (len(hier) - 2) + [round(1 - pp, 6)]
        rows.append((st, p))
    return dict(hierarchy=hier, rows=rows)


def gen_tx(rng, disease):
    rows = []
    if rng.random() < 0.4:
        rows.append(('susceptible', 0.0, 'susceptible'))
    post = 'susceptible' if disease == 'sis' else rng.choice(['recovered', 'susceptible'])
    rows.append(('infected', rng.choice([1.0, 1.0, 0.0, 0.6, 0.9]), post))
    if disease == 'sir' and rng.random() < 0.3:
        rows.append(('recovered', rng.choice([1.0, 0.5]), 'susceptible'))
    return dict(rows=rows)


def gen_case(rng, kind=None):
    kind = kind or rng.choice(['vx', 'vx', 'vx', 'screen', 'screen', 'triage', 'treat', 'treat'])
    disease = 'sir' if kind == 'vx' else rng.choice(['sis', 'sir'])
    simc = gen_sim(rng, disease)
    case = dict(kind=kind, sim=simc)
    if kind != 'treat':
        case['delivery'] = rng.choice(['routine', 'routine', 'campaign'])
        case['sched'] = gen_routine(rng, simc) if case['delivery'] == 'routine' else gen_campaign(rng, simc)
    if kind == 'vx':
        case['elig'] = rng.choice(['none', 'age_gt_30', 'female', 'susceptible', 'unvaccinated', 'uids_young', 'uids_male_old', 'nobody'])
        vk = rng.choice(['leaky', 'leaky', 'aon', 'inert'])
        case['vaccine'] = dict(kind=vk, efficacy=rng.choice([1.0, 1.0, 0.9, 0.5, 0.0]))
    elif kind in ('screen', 'triage'):
        case['elig'] = rng.choice(['none', 'age_gt_30', 'female', 'infected', 'uids_young', 'uids_infected'] + (['unscreened'] if kind == 'screen' else []))
        if kind == 'triage' and case['elig'] == 'none': case['elig'] = 'female'
        case['dx'] = gen_dx(rng, disease)
    else:
        case['delivery'] = 'none'
        case['tx'] = gen_tx(rng, disease)
        case['capacity'] = rng.choice([None, 0, 1, 3, 5, 8])
        case['treat_prob'] = rng.choice([1.0, 1.0, 0.9, 0.5])
        if rng.random() < 0.5:
            # a screening stage feeds the treatment (as in tests/test_syphilis.py)
            case['pipeline'] = dict(sched=dict(start_year=2001, end_year=rng.choice([2003, 2004]), prob=[rng.choice([0.5, 1.0])], annual_prob=False),
                                    dx=dict(hierarchy=['positive', 'negative'], rows=[('susceptible', [0.0, 1.0]), ('infected', [1.0, 0.0])]))
            case['elig'] = rng.choice(['screen_pos_alive', 'screen_pos_alive', 'screen_pos'])
            if simc['dt'] in (2.0, 0.4): simc['dt'] = 1.0
        else:
            case['elig'] = rng.choice(['infected', 'uids_infected', 'none', 'female'])
    return case


# ---------------------------------------------------------------------------
# building the real objects

def _dx_df(dx, disease):
    import pandas as pd
    recs = []
    for st, probs in dx['rows']:
        for res, p in zip(dx['hierarchy'], probs):
            recs.append(dict(name='t', disease=disease, state=st, result=res, probability=p))
    return pd.DataFrame(recs)


def _tx_df(tx, disease):
    import pandas as pd
    return pd.DataFrame([dict(name='tx', disease=disease, state=s, efficacy=e, post_state=p) for s, e, p in tx['rows']])


def probed(cls, snap):
    """ Subclass whose step() records snap(self) before and after the real step """
    class Probed(cls):
        def step(self):
            log = self.__dict__.setdefault('_c20_log', [])
            pre = snap(self)
            try:
                out = super().step()
            except Exception as e:
                log.append(dict(pre=pre, err=type(e).__name__, msg=str(e)[:200]))
                raise
            post = snap(self, after=True)
            try: ret = sorted(int(u) for u in out)
            except Exception: ret = None
            log.append(dict(pre=pre, post=post, ret=ret))
            return out
    Probed.__name__ = cls.__name__
    Probed.__qualname__ = cls.__qualname__
    return Probed


def upcoming_draws(dist, ppl, uids):
    """ The uniform variates the NEXT rvs call of this distribution will compare against p, per uid, as exact
        numerators over 2^53 — obtained from a copy of the generator state with NumPy directly. """
    import starsim as ss
    if not len(uids): return {}
    bg = np.random.PCG64(); bg.state = dist.rng.bit_generator.state
    slots = np.asarray(ppl.slot.raw)
    n = int(slots[np.asarray(uids, dtype=int)].max()) + 1
    r = np.random.Generator(bg).random(n, dtype=ss.dtypes.float)
    out = {}
    for u in uids:
        x = float(r[slots[u]])
        out[int(u)] = int(Fraction(x) * 2 ** 53)
    return out


def make_snap(case):
    kind = case['kind']; disease = case['sim']['disease']

    def snap(iv, after=False):
        sim = iv.sim; ppl = sim.people
        n = int(ppl.uid.raw.shape[0])
        dis = sim.diseases[0]
        s = dict(ti=int(sim.ti), active=[int(u) for u in ppl.auids], n=n)
        s['flags'] = {st: np.nonzero(np.asarray(getattr(dis, st).raw[:n]))[0].tolist() for st in STATES[disease]}
        s['rs'] = np.asarray(dis.rel_sus.raw[:n], dtype=float).copy()
        if not after:
            ek, el = eval_elig(case['elig'], sim)
            s['elig'] = (ek, el)
            us = sorted(set(s['active']) | set(el if ek != 'mask' else []))
            cd = getattr(iv, 'coverage_dist', None)     # CampaignDelivery x BaseTest has none
            s['draws'] = upcoming_draws(cd, ppl, us) if cd is not None else {}
        if kind == 'vx':
            s['vacc'] = np.nonzero(np.asarray(iv.vaccinated.raw[:n]))[0].tolist()
            s['doses'] = np.asarray(iv.n_doses.raw[:n], dtype=float).copy()
            s['tiv'] = np.asarray(iv.ti_vaccinated.raw[:n], dtype=float).copy()
        elif kind in ('screen', 'triage'):
            s['screened'] = np.nonzero(np.asarray(iv.screened.raw[:n]))[0].tolist()
            s['screens'] = np.asarray(iv.screens.raw[:n], dtype=float).copy()
            s['tis'] = np.asarray(iv.ti_screened.raw[:n], dtype=float).copy()
            s['out'] = {k: [int(u) for u in v] for k, v in iv.outcomes.items()}
        else:
            s['queue'] = [int(u) for u in iv.queue]
            s['out'] = {k: sorted(int(u) for u in v) for k, v in iv.outcomes.items()}
            d = iv.product.efficacy_dist
            s['eff_seed'] = int(d.seed); s['eff_ind'] = int(d.ind)
        return s
    return snap


def eff_draws(seed, ind, ncalls, ppl_slots, uids):
    """ uniform variates of the next `ncalls` filter calls of the Tx efficacy distribution (call j uses the stream
        PCG64(seed).jumped(ind + j)), computed with NumPy only """
    import starsim as ss
    out = {}
    if not len(uids): return out
    n = int(ppl_slots[np.asarray(uids, dtype=int)].max()) + 1
    for j in range(ncalls):
        bg = np.random.PCG64(seed)
        if ind + j: bg = bg.jumped(ind + j)
        r = np.random.Generator(bg).random(n, dtype=ss.dtypes.float)
        for u in uids:
            out[(j, int(u))] = int(Fraction(float(r[ppl_slots[u]])) * 2 ** 53)
    return out


def build(case):
    """ Real, initialised ss.Sim for the case with the probed target intervention called 'target'.
        Raises whatever the real init raises (ValueError for rejected schedules). """
    import starsim as ss
    rules = _elig_rules()
    simc = case['sim']; disease = simc['disease']; kind = case['kind']
    snap = make_snap(case)
    elig = rules[case['elig']]
    intvs = []
    if kind == 'vx':
        v = case['vaccine']
        prod = ss.Vx(diseases='sir') if v['kind'] == 'inert' else ss.sir_vaccine(efficacy=v['efficacy'], leaky=(v['kind'] == 'leaky'))
        cls = probed(ss.routine_vx if case['delivery'] == 'routine' else ss.campaign_vx, snap)
        kw = dict(case['sched'])
        intvs.append(cls(name='target', product=prod, eligibility=elig, **kw))
    elif kind in ('screen', 'triage'):
        prod = ss.Dx(_dx_df(case['dx'], disease), hierarchy=case['dx']['hierarchy'])
        if kind == 'screen':
            base = ss.routine_screening if case['delivery'] == 'routine' else ss.campaign_screening
            base = _screening_class(base)
        else:
            base = ss.routine_triage if case['delivery'] == 'routine' else ss.campaign_triage
        cls = probed(base, snap)
        intvs.append(cls(name='target', product=prod, eligibility=elig, **dict(case['sched'])))
    else:
        if case.get('pipeline'):
            pl = case['pipeline']
            scr = _screening_class(ss.routine_screening)(name='scr', product=ss.Dx(_dx_df(pl['dx'], disease), hierarchy=pl['dx']['hierarchy']),
                                                         eligibility=None, **dict(pl['sched']))
            intvs.append(scr)
        prod = ss.Tx(_tx_df(case['tx'], disease))
        cls = probed(ss.treat_num, snap)
        intvs.append(cls(name='target', product=prod, prob=case['treat_prob'], max_capacity=case['capacity'], eligibility=elig))
    dkw = dict(type=disease, beta=simc['beta'], init_prev=simc['init_prev'])
    if disease == 'sir': dkw['p_death'] = 0.0
    pars = dict(n_agents=simc['n_agents'], start=simc['start'], dur=simc['dur'], dt=simc['dt'], rand_seed=simc['rand_seed'],
                diseases=dkw, networks=dict(type='random', n_contacts=4), interventions=intvs, verbose=0)
    if simc.get('deaths'):
        pars['demographics'] = [ss.Deaths(death_rate=simc['deaths'])]
    sim = ss.Sim(**pars)
    sim.init()
    return sim


_SCR = {}
def _screening_class(base):
    """ BaseScreening leaves check_eligibility / results to subclasses (as syph_screening does): the minimal subclass """
    import starsim as ss
    if base not in _SCR:
        class Scr(base):
            def check_eligibility(self):
                return ss.Intervention.check_eligibility(self)
            def init_results(self):
                super().init_results()
                self.define_results(ss.Result('n_screened', dtype=int), ss.Result('n_dx', dtype=int))
        Scr.__name__ = base.__name__
        _SCR[base] = Scr
    return _SCR[base]


def run_case(case):
    """ -> dict(init_err | sched, log, run_err, yearvec, ...) from the REAL code """
    res = dict(init_err=None, run_err=None, log=[])
    try:
        sim = build(case)
    except (ValueError, IndexError, TypeError) as e:
        res['init_err'] = type(e).__name__; res['init_msg'] = str(e)[:200]
        return res
    iv = sim.interventions['target']
    res['yearvec'] = [float(y) for y in sim.t.yearvec]
    res['npts'] = int(sim.t.npts)
    if case['kind'] != 'treat':
        res['timepoints'] = [int(t) for t in np.asarray(iv.timepoints)]
        res['prob'] = [float(p) for p in np.asarray(iv.prob)]
        if case['delivery'] == 'routine':
            res['start_year'] = float(iv.start_year); res['end_year'] = float(iv.end_year)
    res['slots'] = np.asarray(sim.people.slot.raw).copy()
    try:
        sim.run()
    except Exception as e:
        res['run_err'] = type(e).__name__; res['run_msg'] = str(e)[:200]
    res['log'] = sim.interventions['target'].__dict__.get('_c20_log', [])
    res['sim'] = sim
    return res
