"""
C18 — Parallel and multi-run execution equals independent serial runs.

correspond(): generated scenarios (member configurations, replicate counts, n_cpus, serial/parallel/debug,
              in-place on/off, reseed, iterpars, ss.multi_run / ss.MultiSim / ss.parallel) are executed on the
              REAL starsim; the Lean model (Model/MultiRun.lean via Drivers/C18.lean) is given the same scenario,
              the chunk size of the pool and the OBSERVED schedule (which worker ran which member, in which
              order — stamped by a probe analyzer), and predicts for every returned sim and every caller object
              (configuration, rand_seed, seed the results were run with) or the error.  Each predicted
              (configuration, seed) is run standalone in-process and compared EXACTLY with the member.
              Reduced arrays (reduce / mean / median) and summarize() are compared with the model's exact
              rational statistics of the members (tolerance stated below).
search():     the property itself on the real code, no model: member i == standalone run with base+i (or its own
              seed for a list), whatever mode / n_cpus; in-place hand-over; permutation of members; reduced
              arrays vs an independent exact reference; plus the fixed probes of the known findings.
"""
import os, io, json, math, contextlib, fractions
import numpy as np
from harness import impl

PROP = 'C18'
GENERATED = ['RunFacts']
DRIVER = 'Drivers/C18.lean'
DRIVER_MODULES = ['StarsimModel.Model.MultiRun', 'StarsimModel.Model.Proto']
RULE = ('scenarios = (member configurations from harness/impl.gen_sim_config without global-generator readers, <=200 agents, <=10 steps; '
        'single sim x n_runs or list of sims; api multi_run/MultiSim/parallel; mode parallel/serial/debug; n_cpus 1,2,4 (thorough: 16); '
        'reseed None/True/False; iterpars rand_seed / n_agents; inplace on/off); distinct = distinct canonical scenario; '
        'non-trivial = at least two members and at least one standalone comparison')
TRUSTED = ['multiprocess.Pool.map: results are returned in task order; default chunk size ceil(n/(4*workers)); the tasks of one chunk are pickled together (validated: the driver is given the chunk size computed by this formula and must predict the observed outcome)',
           'sciris.parallelize: ncpus = min(n_cpus or cpu_count, n_jobs); default parallelizer multiprocess (fork)',
           'NumPy: np.mean / np.std(ddof=0) / np.quantile(method=linear) compute the statistics the model defines, up to the stated floating-point tolerance']
ASSUMPTIONS = ['the simulation itself is a function of (configuration, seed): configurations that read the process-global NumPy generator are excluded (C01 findings) and a mismatch is re-checked against a perturbed global generator before it is reported',
               'OS scheduling is abstracted as an arbitrary list of atomic member runs over workers; the observed schedule of every real parallel run is fed to the model',
               'floating point: reduced arrays are compared with the exact rational statistics within 1e-12*max(1,|row|max) (mean, quantiles) and 1e-9 relative (std bounds)']

RTOL = 1e-12
STD_RTOL = 1e-9
F = fractions.Fraction


# ---------------------------------------------------------------------------
# helpers on the real code

@contextlib.contextmanager
def quiet():
    buf = io.StringIO()
    with contextlib.redirect_stdout(buf):
        yield buf


def build(cfg, seed):
    from harness.props.c18_probe import Stamp
    return impl.build_sim(cfg, extra_analyzers=[Stamp()], rand_seed=int(seed))


_STANDALONE = {}


def standalone(cfg, seed, fresh=False):
    """ flat results of the configuration run alone, in this process, with this seed (cached) """
    key = (json.dumps(cfg, sort_keys=True), int(seed))
    if fresh or key not in _STANDALONE:
        with quiet():
            sim = build(cfg, seed)
            sim.run()
        res = impl.flat_results(sim)
        if fresh:
            return res
        _STANDALONE[key] = res
    return _STANDALONE[key]


def _digest(flat):
    import hashlib
    h = hashlib.sha1()
    for k in sorted(flat):
        h.update(k.encode()); h.update(np.ascontiguousarray(flat[k]).tobytes())
    return h.hexdigest()


def _hash_run(args):
    cfg, seed = args
    return _digest(standalone(cfg, seed, fresh=True))


def reproducible(cfg, seed):
    """ Is the standalone run a function of (configuration, seed) at all?  Re-run after perturbing the process-global
        NumPy generator, and in 8 forked child processes (plain multiprocessing, not the code under test).  If not,
        the mismatch is C01's / C14's business (global-generator readers; reads of uninitialised storage of removed
        agents), not C18's: the caller skips and counts the case. """
    a = standalone(cfg, seed)
    np.random.seed(987654); np.random.random(11)
    b = standalone(cfg, seed, fresh=True)
    if not impl.arrays_equal(a, b)[0]:
        return False
    import multiprocessing as mp
    with mp.get_context('fork').Pool(4) as pool:
        hs = pool.map(_hash_run, [(cfg, seed)] * 8, chunksize=1)
    return set(hs) == {_digest(a)}


def observe_sim(s):
    done = bool(getattr(s, 'complete', False)) and bool(getattr(s, 'results_ready', False))
    stamp = None
    try:
        a = s.analyzers[0]
        stamp = (a.pid, a.t0, a.t1)
    except Exception:
        pass
    return dict(seed=int(s.pars.rand_seed), n_agents=int(s.pars.n_agents), flat=impl.flat_results(s) if done else None,
                stamp=stamp, oid=id(s))


def err_name(e):
    return type(e).__name__


ERR_KIND = dict(AlreadyRunError='E:AlreadyRun', KeyNotFoundError='E:KeyNotFound', TypeError='E:Type', ValueError='E:Value')


def n_tasks(sc):
    if sc['target'] == 'list':
        return len(sc['members'])
    if sc.get('iterpars'):
        return len(sc['iterpars']['values'])
    return sc['n_runs']


def pool_shape(sc):
    """ (workers, chunk) of the multiprocess pool sc.parallelize builds for this scenario """
    n = max(n_tasks(sc), 1)
    import sciris as sc_
    workers = sc['n_cpus'] or sc_.cpu_count()
    workers = max(1, min(int(workers), n))
    chunk, extra = divmod(n, workers * 4)
    if extra: chunk += 1
    return workers, chunk


def run_impl(sc):
    """ Execute the scenario on the real code. Returns dict(error=None|name, callers=[obs], sims=[obs]) """
    import starsim as ss
    cfgs = sc['cfgs']
    with quiet():
        members = [build(cfgs[m['cfg']], m['seed']) for m in sc['members']]
        if sc.get('preinit'):
            for s in members: s.init()
        kw = {}
        if sc['mode'] == 'serial': kw['parallel'] = False
        if sc['mode'] == 'parallel' and sc['n_cpus'] is not None: kw['n_cpus'] = sc['n_cpus']
        if sc.get('reseed') is not None: kw['reseed'] = sc['reseed']
        if sc.get('iterpars'): kw['iterpars'] = {sc['iterpars']['kind']: list(sc['iterpars']['values'])}
        if not sc.get('do_run', True): kw['do_run'] = False
        target = members[0] if sc['target'] == 'single' else members
        out = dict(error=None, message=None)
        try:
            if sc['api'] == 'multi_run':
                sims = ss.multi_run(target, n_runs=sc['n_runs'], **kw)
            elif sc['api'] == 'MultiSim':
                m = ss.MultiSim(target, n_runs=sc['n_runs'], inplace=sc['inplace'], debug=(sc['mode'] == 'debug'), **kw)
                m.run()
                sims = m.sims
            elif sc['api'] == 'parallel':
                m = ss.parallel(*members, inplace=sc['inplace'], debug=(sc['mode'] == 'debug'), **kw)
                sims = m.sims
            else:
                raise RuntimeError('unknown api')
            out['sims'] = [observe_sim(s) for s in sims]
            out['objs'] = sims
        except Exception as e:
            out['error'] = err_name(e); out['message'] = str(e)[:200]
            out['sims'] = []; out['objs'] = []
        out['callers'] = [observe_sim(s) for s in members]
    return out


def observed_schedule(sc, out):
    """ worker:task list from the probe stamps of a successful parallel run, else the canonical in-order schedule """
    n = n_tasks(sc)
    canon = [(0, i) for i in range(n)]
    if sc['mode'] != 'parallel' or out['error'] or not sc.get('do_run', True):
        return canon, None
    stamps = [o['stamp'] for o in out['sims']]
    if len(stamps) != n or any(s is None or s[0] is None or s[1] is None for s in stamps):
        return canon, None
    pids = sorted({s[0] for s in stamps})
    order = sorted(range(n), key=lambda i: (stamps[i][1], i))
    return [(pids.index(stamps[i][0]), i) for i in order], len(pids)


def model_line(sc, sched, chunk, variant='asis'):
    ms = ','.join(f"{m['cfg']}:{m['seed']}:{m['seed'] if sc.get('preinit') else 'none'}:0" for m in sc['members'])
    rs = 'none' if sc.get('reseed') is None else str(int(sc['reseed']))
    iseeds = icfgs = 'none'
    ip = sc.get('iterpars')
    if ip:
        if ip['kind'] == 'rand_seed':
            iseeds = ','.join(str(v) for v in ip['values']) or '-'
        else:
            icfgs = ','.join(str(v) for v in ip['cfg_ids']) or '-'
    inplace = int(bool(sc['inplace'])) if sc['api'] != 'multi_run' else 0
    ss_ = ','.join(f'{w}:{i}' for w, i in sched) or '-'
    return (f"run {variant} {sc['target']} {ms} {sc['n_runs']} {rs} {iseeds} {icfgs} {int(sc.get('do_run', True))} "
            f"{sc['mode']} {inplace} {chunk} {ss_}")


def parse_model(line):
    if not line.startswith('ok'):
        return dict(error=line)
    parts = dict(p.split('=', 1) for p in line.split()[1:])
    def sims(s):
        if s == '-': return []
        res = []
        for t in s.split(','):
            c, sd, eff = t.split(':')
            res.append(dict(cfg=int(c), seed=int(sd), eff=None if eff == '-' else int(eff)))
        return res
    return dict(error=None, callers=sims(parts['callers']), sims=sims(parts['sims']))


def compare_sim(sc, obs, pred, where):
    """ one real sim object vs the model's prediction (cfg, seed, eff) -> None or a divergence string """
    cfg = sc['cfgs'][pred['cfg']]
    if obs['seed'] != pred['seed']:
        return f"{where}: rand_seed impl={obs['seed']} model={pred['seed']}"
    if obs['n_agents'] != cfg['n_agents']:
        return f"{where}: n_agents impl={obs['n_agents']} model cfg has {cfg['n_agents']}"
    if pred['eff'] is None:
        if obs['flat'] is not None:
            return f'{where}: impl sim has results, model says it was not run'
        return None
    if obs['flat'] is None:
        return f'{where}: impl sim has no results, model says run with seed {pred["eff"]}'
    ref = standalone(cfg, pred['eff'])
    same, why = impl.arrays_equal(obs['flat'], ref)
    if not same:
        if not reproducible(cfg, pred['eff']):
            return 'SKIP-global-reader'
        return f"{where}: results differ from the standalone run of cfg {pred['cfg']} with seed {pred['eff']}: {why}"
    return None


def compare_outcome(sc, out, model):
    if model.get('error'):
        kind = ERR_KIND.get(out['error'], f"E:Other({out['error']})") if out['error'] else 'ok'
        if kind != model['error']:
            return f"outcome impl={kind} ({out.get('message')}) model={model['error']}"
        return None
    if out['error']:
        return f"outcome impl raised {out['error']}: {out['message']}; model=ok"
    for name in ('sims', 'callers'):
        a, b = out[name], model[name]
        if len(a) != len(b):
            return f'{name}: impl has {len(a)} sims, model {len(b)}'
        for i, (o, p) in enumerate(zip(a, b)):
            d = compare_sim(sc, o, p, f'{name}[{i}]')
            if d: return d
    return None


# ---------------------------------------------------------------------------
# scenario generator

def small_cfg(rng):
    cfg = impl.gen_sim_config(rng, small=True, allow_global_readers=False)
    cfg['n_agents'] = min(cfg['n_agents'], 200)
    # ErdosRenyiNet/DiskNet index agents by array position (C14 finding): with births and deaths they read storage of
    # removed agents and the run is no longer a function of (configuration, seed) across processes -- observed here:
    # erdosrenyi + pregnancy + deaths differs in ~1 of 4 forked workers.  Not C18's subject: avoid.
    if cfg['demographics']:
        nets = [n if n['type'] not in ('erdosrenyi', 'disk') else dict(type='random', n_contacts=4, dur=0) for n in cfg['networks']]
        cfg['networks'] = [n for i, n in enumerate(nets) if n['type'] not in [m['type'] for m in nets[:i]]]
    return cfg


def gen_scenario(rng, thorough=False, force=None):
    force = force or {}
    cfgs = [small_cfg(rng)]
    target = force.get('target') or rng.choice(['single', 'single', 'list', 'list'])
    mode = force.get('mode') or rng.choice(['parallel', 'parallel', 'parallel', 'serial'])
    cpus = [1, 2, 4] + ([16] if thorough else [])
    sc = dict(cfgs=cfgs, target=target, mode=mode, n_cpus=rng.choice(cpus + [None]) if mode == 'parallel' else None,
              reseed=rng.choice([None, None, None, True, False]), iterpars=None, inplace=rng.random() < 0.6, do_run=True,
              preinit=False, n_runs=rng.choice([1, 2, 3, 4, 4, 5, 6] + ([9, 12, 16] if thorough else [])))
    if target == 'single':
        sc['api'] = rng.choice(['multi_run', 'MultiSim'])
        sc['members'] = [dict(cfg=0, seed=cfgs[0]['rand_seed'])]
        r = rng.random()
        if r < 0.2:
            k = rng.randint(1, 4)
            sc['iterpars'] = dict(kind='rand_seed', values=[rng.randint(0, 5000) for _ in range(k)])
        elif r < 0.35:
            k = rng.randint(1, 3)
            vals = [rng.choice([50, 70, 90, 120]) for _ in range(k)]
            ids = []
            for v in vals:
                c = dict(cfgs[0]); c['n_agents'] = v
                cfgs.append(c); ids.append(len(cfgs) - 1)
            sc['iterpars'] = dict(kind='n_agents', values=vals, cfg_ids=ids)
        # keep clear of the chunk-sharing finding in the random stream (it has its own probes): n <= 4*workers
        if mode == 'parallel':
            w, chunk = pool_shape(sc)
            if chunk > 1:
                sc['n_cpus'] = None
    else:
        sc['api'] = rng.choice(['multi_run', 'MultiSim', 'parallel'])
        k = max(rng.choice([1, 2, 3, 3, 4, 5] + ([8, 12] if thorough else [])), force.get('min_members', 1))
        same = rng.random() < 0.5
        if not same:
            for _ in range(min(k - 1, 2)):
                cfgs.append(small_cfg(rng))
        sc['members'] = [dict(cfg=(0 if same else rng.randrange(len(cfgs))), seed=rng.randint(0, 10000)) for _ in range(k)]
    sc.update({k: v for k, v in force.items() if k not in ('target', 'mode', 'min_members')})
    return sc


def canon(sc):
    return json.dumps(sc, sort_keys=True, default=str)


# ---------------------------------------------------------------------------
# statistics

def frac_str(x):
    f = F(float(x))
    return f'{f.numerator}/{f.denominator}' if f.denominator != 1 else str(f.numerator)


def parse_rat(s):
    return F(s)


def close(a, b, scale, rtol=RTOL):
    return abs(F(float(a)) - b) <= F(rtol) * max(1, scale)


def shared_cfg_members(sc, out):
    """ run members usable for reduce: all from the same configuration, all complete, at least 2 """
    if out['error'] or len(out['objs']) < 2: return None
    if any(o['flat'] is None for o in out['sims']): return None
    if sc['target'] == 'single':
        if sc.get('iterpars') and sc['iterpars']['kind'] != 'rand_seed': return None
    elif len({m['cfg'] for m in sc['members']}) != 1:
        return None
    return out['objs']


def reduce_impl(sims, use_mean, bounds, quantiles):
    """ MultiSim.reduce on the real code; returns {key: (centre, low, high)} """
    import starsim as ss
    with quiet():
        m = ss.MultiSim(sims=list(sims))
        if use_mean: m.mean(bounds=bounds)
        else: m.median(quantiles=quantiles)
    res = {}
    for k, r in m.results.items():
        if k == 'timevec': continue
        try:
            res[k] = (np.asarray(r.values if hasattr(r, 'values') else r, dtype=float), np.asarray(r.low, dtype=float), np.asarray(r.high, dtype=float))
        except Exception:
            pass
    return res


def mixed_keys(sims):
    """ result keys whose series length differs from the sim's number of time points (modules with their own time step) """
    npts = len(sims[0])
    return [k for k, v in impl.flat_results(sims[0]).items() if np.ndim(v) == 1 and len(v) != npts]


def member_matrix(sims, key):
    return [np.asarray(impl.flat_results(s)[key], dtype=float) for s in sims]


def q_pair(quantiles):
    if quantiles is None: return 0.1, 0.9
    if isinstance(quantiles, dict): return float(quantiles['low']), float(quantiles['high'])
    return float(quantiles[0]), float(quantiles[1])


def gen_reduce_opts(rng):
    use_mean = rng.random() < 0.5
    bounds = rng.choice([None, None, 1, 3, 0.5]) if use_mean else None
    quantiles = None if use_mean else rng.choice([None, None, [0.25, 0.75], {'low': 0.0, 'high': 1.0}, [0.05, 0.5], {'low': 0.3, 'high': 0.9}])
    return use_mean, bounds, quantiles


def correspond_reduce(ctx, sc, sims, opts, max_keys=4):
    """ reduced arrays of the real code vs the model's exact statistics of the same members """
    use_mean, bounds, quantiles = opts
    k = 2 if bounds is None else bounds
    qlo, qhi = q_pair(quantiles)
    npts = len(sims[0])
    mixed = mixed_keys(sims)
    try:
        red = reduce_impl(sims, use_mean, bounds, quantiles)
    except ValueError as e:
        if not mixed:
            return f'reduce raised ValueError ({e}) although every series has {npts} points'
        mat = member_matrix(sims, mixed[0])
        rows = ';'.join(','.join(frac_str(x) for x in m) or '-' for m in mat)
        ol = ctx.drive(DRIVER, [f'reduce asis {npts} {int(use_mean)} {frac_str(k)} {frac_str(qlo)} {frac_str(qhi)} {rows}'])[0]
        ctx.count('reduce_mixed_raises')
        return None if ol == 'E:Value' else f'reduce of {mixed[0]} (length {len(mat[0])}, sim has {npts} points): impl raised ValueError, model {ol}'
    if mixed:
        return f'reduce succeeded although {mixed[0]} has another length than the sim ({npts} points); the model (asis) predicts ValueError'
    keys = sorted(red)
    keys = [kk for kk in keys if all(np.all(np.isfinite(v)) for v in member_matrix(sims, kk))]
    keys = ctx.rng.sample(keys, min(max_keys, len(keys)))
    lines = []
    for key in keys:
        mat = member_matrix(sims, key)
        rows = ';'.join(','.join(frac_str(x) for x in m) or '-' for m in mat)
        lines.append(f'reduce asis {npts} {int(use_mean)} {frac_str(k)} {frac_str(qlo)} {frac_str(qhi)} {rows}')
    outl = ctx.drive(DRIVER, lines) if lines else []
    for key, ln, ol in zip(keys, lines, outl):
        if not ol.startswith('ok'):
            return f'reduce {key}: model answered {ol}'
        bands = [] if ol == 'ok -' else [tuple(parse_rat(x) for x in b.split(',')) for b in ol[3:].split(';')]
        c, lo, hi = red[key]
        mat = member_matrix(sims, key)
        if len(bands) != len(c):
            return f'reduce {key}: {len(c)} time points in the code, {len(bands)} in the model'
        for t, (mc, mlo, mhi, mvar) in enumerate(bands):
            scale = max(abs(float(m[t])) for m in mat)
            if not close(c[t], mc, scale):
                return f'reduce {key}[{t}] centre impl={c[t]!r} model={float(mc)!r} (use_mean={use_mean})'
            ctx.count('reduce_exact' if F(float(c[t])) == mc else 'reduce_within_tol')
            if use_mean:
                sd = math.sqrt(float(mvar))
                elo, ehi = float(mc) - k * sd, float(mc) + k * sd
                tol = STD_RTOL * max(1.0, scale)
                if abs(lo[t] - elo) > tol or abs(hi[t] - ehi) > tol:
                    return f'reduce {key}[{t}] mean bounds impl=({lo[t]!r},{hi[t]!r}) model=({elo!r},{ehi!r}) k={k}'
                # consistency of the model's own band with sqrt := id
                if mlo != mc - F(float(k)) * mvar or mhi != mc + F(float(k)) * mvar:
                    return f'reduce {key}[{t}] model band inconsistent'
            else:
                if not close(lo[t], mlo, scale) or not close(hi[t], mhi, scale):
                    return f'reduce {key}[{t}] quantile bounds impl=({lo[t]!r},{hi[t]!r}) model=({float(mlo)!r},{float(mhi)!r}) q=({qlo},{qhi})'
            ctx.count('reduce_points')
    return None


def correspond_summarize(ctx, sims):
    import starsim as ss
    with quiet():
        m = ss.MultiSim(sims=list(sims))
        per = [s.summarize() for s in sims]
    keys = [k for k in per[0].keys() if all(np.isfinite(p[k]) for p in per)]
    keys = ctx.rng.sample(sorted(keys), min(3, len(keys)))
    lines = []; impl_res = []
    for method in ('mean', 'all', 'median'):
        try:
            with quiet():
                s = m.summarize(method=method)
            err = None
        except Exception as e:
            s = None; err = err_name(e)
        for k in keys:
            vals = ','.join(frac_str(p[k]) for p in per)
            lines.append(f'summarize asis {method} 1/2,0,1,1/4,3/4 {vals}')
            impl_res.append((method, k, s[k] if s is not None else None, err, [float(p[k]) for p in per]))
    outl = ctx.drive(DRIVER, lines) if lines else []
    for (method, k, val, err, vals), ol in zip(impl_res, outl):
        scale = max(abs(v) for v in vals)
        if ol.startswith('E:'):
            kind = ERR_KIND.get(err, f'E:Other({err})') if err else 'ok'
            if kind != ol:
                return f'summarize({method}) {k}: impl={kind} model={ol}'
            continue
        if err:
            return f'summarize({method}) {k}: impl raised {err}, model={ol}'
        parts = dict(p.split('=', 1) for p in ol.split()[1:])
        if method == 'mean':
            mu, var, sem2 = F(parts['mean']), F(parts['var']), F(parts['sem2'])
            if not close(val['mean'], mu, scale): return f'summarize(mean) {k}: mean impl={val["mean"]} model={float(mu)}'
            if abs(float(val['std']) - math.sqrt(float(var))) > STD_RTOL * max(1, scale): return f'summarize(mean) {k}: std impl={val["std"]} model sqrt({float(var)})'
            if abs(float(val['sem']) - math.sqrt(float(sem2))) > STD_RTOL * max(1, scale): return f'summarize(mean) {k}: sem impl={val["sem"]} model sqrt({float(sem2)})'
        elif method == 'all':
            mv = [F(x) for x in parts['all'].split(',')]
            if [F(float(x)) for x in np.asarray(val).tolist()] != mv: return f'summarize(all) {k}: impl={val} model={mv}'
        ctx.count('summarize_checks')
    return None


# ---------------------------------------------------------------------------

def correspond(ctx):
    import starsim as ss
    facts = ctx.extracted.get('RunFacts', {}).get('facts') or {}
    # runtime cross-check of extracted defaults against the imported module
    import inspect
    sig = inspect.signature(ss.single_run)
    if sig.parameters['ind'].default != 0 or sig.parameters['reseed'].default is not True:
        ctx.broke('extract', 'RunFacts', 'single_run defaults differ from the extracted facts')
    # pool chunk formula: model vs CPython
    lines = [f'chunk {n} {w}' for n in range(1, 40) for w in (1, 2, 3, 4, 16)]
    outl = ctx.drive(DRIVER, lines)
    for ln, ol in zip(lines, outl):
        _, n, w = ln.split(); n = int(n); w = int(w)
        c, e = divmod(n, 4 * w); c += 1 if e else 0
        if ol != f'ok {c}':
            ctx.broke('correspondence', 'C18.chunk', f'pool chunk size: model {ol} vs CPython formula {c} for n={n} workers={w}')
            break
    nsc = ctx.budget(16, 110)
    scenarios = [gen_scenario(ctx.rng, ctx.thorough) for _ in range(nsc)]
    # fixed families that must always be exercised
    scenarios += [gen_scenario(ctx.rng, ctx.thorough, dict(target='single', mode='parallel', n_cpus=2, api='multi_run', n_runs=4, iterpars=None, reseed=None)),
                  gen_scenario(ctx.rng, ctx.thorough, dict(target='list', mode='parallel', n_cpus=2, api='MultiSim', inplace=True, min_members=3)),
                  gen_scenario(ctx.rng, ctx.thorough, dict(target='list', mode='debug', api='MultiSim')),
                  gen_scenario(ctx.rng, ctx.thorough, dict(target='single', mode='debug', api='MultiSim', iterpars=None)),
                  gen_scenario(ctx.rng, ctx.thorough, dict(target='single', mode='parallel', n_cpus=1, api='multi_run', n_runs=6, iterpars=None)),
                  gen_scenario(ctx.rng, ctx.thorough, dict(target='single', mode='parallel', n_cpus=1, api='multi_run', n_runs=6, iterpars=None, do_run=False)),
                  gen_scenario(ctx.rng, ctx.thorough, dict(target='single', mode='serial', api='multi_run', n_runs=3, iterpars=None, preinit=True, reseed=None))]
    n_reduce = 0
    for sc in scenarios:
        try:
            out = run_impl(sc)
        except Exception as e:
            ctx.broke('correspondence', 'C18.run', f'harness raised {type(e).__name__}: {e}', data=dict(kind='scenario', scenario=sc))
            continue
        sched, nworkers = observed_schedule(sc, out)
        workers, chunk = pool_shape(sc)
        if nworkers is not None:
            ctx.count('observed_schedules')
            ctx.count('observed_out_of_order', int([i for _, i in sched] != sorted(i for _, i in sched)))
            ctx.count('observed_multi_worker', int(nworkers > 1))
            if nworkers > workers:
                ctx.broke('correspondence', 'C18.workers', f'{nworkers} worker processes observed, pool of {workers} expected', data=dict(kind='scenario', scenario=sc))
        ml = ctx.drive(DRIVER, [model_line(sc, sched, chunk)])[0]
        if ml == 'bad-op':
            ctx.broke('correspondence', 'C18.run', 'model rejected the scenario line', data=dict(kind='scenario', scenario=sc, line=model_line(sc, sched, chunk)))
            continue
        model = parse_model(ml)
        div = compare_outcome(sc, out, model)
        nt = n_tasks(sc)
        ctx.case(('run', canon(sc)), nontrivial=(nt >= 2 and not model.get('error')),
                 sample=dict(kind='scenario', api=sc['api'], target=sc['target'], mode=sc['mode'], n_cpus=sc['n_cpus'], n=nt,
                             schedule=sched, model=ml[:200]))
        ctx.count('mode_' + sc['mode']); ctx.count('api_' + sc['api']); ctx.count('target_' + sc['target'])
        if model.get('error'): ctx.count('model_' + model['error'])
        if div == 'SKIP-global-reader':
            ctx.count('skipped_global_reader')
            continue
        if div:
            ctx.broke('correspondence', 'C18.run', f'MultiSim/multi_run diverges from Model/MultiRun.lean: {div}',
                      data=dict(kind='scenario', scenario=sc, model=ml, schedule=sched))
            break
        # reduce / summarize on members that share a configuration
        sims = shared_cfg_members(sc, out)
        if sims is not None and n_reduce < ctx.budget(6, 40):
            n_reduce += 1
            opts = gen_reduce_opts(ctx.rng)
            try:
                d = correspond_reduce(ctx, sc, sims, opts)
                if d is None and n_reduce <= ctx.budget(3, 20):
                    d = correspond_summarize(ctx, sims)
            except impl_errors() as e:
                d = f'harness raised {type(e).__name__}: {e}'
            ctx.case(('reduce', canon(sc), repr(opts)), nontrivial=True)
            if d:
                ctx.broke('correspondence', 'C18.reduce', f'reduced statistics diverge from the model: {d}',
                          data=dict(kind='reduce', scenario=sc, opts=list(opts)))
                break


def impl_errors():
    return (Exception,)


# ---------------------------------------------------------------------------
# oracle on the real code (no model)

def expected_members(sc):
    """ what the property demands: [(cfg id, seed)] per member """
    if sc['target'] == 'single':
        base = sc['members'][0]
        ip = sc.get('iterpars')
        n = n_tasks(sc)
        rs = True if sc.get('reseed') is None else sc['reseed']
        res = []
        for i in range(n):
            seed = base['seed'] + i if rs else base['seed']
            cfg = base['cfg']
            if ip and ip['kind'] == 'rand_seed': seed = ip['values'][i]
            if ip and ip['kind'] != 'rand_seed': cfg = ip['cfg_ids'][i]
            res.append((cfg, seed))
        return res
    rs = False if sc.get('reseed') is None else sc['reseed']
    return [(m['cfg'], m['seed'] + (i if rs else 0)) for i, m in enumerate(sc['members'])]


def q_ref(vals, q):
    """ independent exact reference of NumPy's linear-interpolation quantile """
    s = sorted(vals); n = len(s)
    idx = q * (n - 1)
    lo = math.floor(idx); hi = min(lo + 1, n - 1)
    return s[lo] + (s[hi] - s[lo]) * (idx - lo)


def oracle_scenario(sc, rng=None, with_reduce=True):
    """ The property on the real code. Returns a list of failures dict(signature, what) """
    fails = []
    out = run_impl(sc)
    workers, chunk = pool_shape(sc)
    chunked = bool(sc['target'] == 'single' and sc['mode'] == 'parallel' and chunk > 1)
    desc = f"{sc['api']}({sc['target']}, n={n_tasks(sc)}, mode={sc['mode']}, n_cpus={sc['n_cpus']}, reseed={sc.get('reseed')}, iterpars={sc.get('iterpars') and sc['iterpars']['kind']}, inplace={sc['inplace']})"
    if out['error']:
        fails.append(dict(signature=dict(oracle='multirun-raises', mode=sc['mode'], error=out['error'], chunked=chunked, target=sc['target']),
                          what=f"{desc} raised {out['error']}: {out['message']}"))
        return fails, out
    exp = expected_members(sc)
    if len(out['sims']) != len(exp):
        fails.append(dict(signature=dict(oracle='member-count'), what=f"{desc}: {len(out['sims'])} members returned, {len(exp)} expected"))
        return fails, out
    do_run = sc.get('do_run', True)

    def check(obs, cfg_id, seed, where, kind):
        cfg = sc['cfgs'][cfg_id]
        if obs['seed'] != seed:
            fails.append(dict(signature=dict(oracle=kind, what='seed', chunked=chunked, do_run=do_run, preinit=bool(sc.get('preinit'))),
                              what=f"{desc}: {where} has rand_seed {obs['seed']}, the property demands {seed}"))
            return
        if not do_run:
            return
        if obs['flat'] is None:
            fails.append(dict(signature=dict(oracle=kind, what='not-run'), what=f'{desc}: {where} has no results'))
            return
        same, why = impl.arrays_equal(obs['flat'], standalone(cfg, seed))
        if not same and reproducible(cfg, seed):
            fails.append(dict(signature=dict(oracle=kind, what='results', preinit=bool(sc.get('preinit')), mode=sc['mode']),
                              what=f"{desc}: {where} differs from the standalone run with seed {seed}: {why}"))

    for i, (o, (c, s)) in enumerate(zip(out['sims'], exp)):
        check(o, c, s, f'member {i}', 'member-vs-standalone')
    if len({o['oid'] for o in out['sims']}) != len(out['sims']) and not fails:
        fails.append(dict(signature=dict(oracle='member-aliasing', chunked=chunked), what=f'{desc}: two returned members are the same object'))
    # in-place hand-over
    if sc['api'] != 'multi_run' and sc['target'] == 'list':
        if sc['inplace']:
            for i, (o, (c, s)) in enumerate(zip(out['callers'], exp)):
                check(o, c, s, f"caller's sim {i} (inplace=True)", 'inplace')
        elif sc['mode'] != 'debug':
            for i, (o, m) in enumerate(zip(out['callers'], sc['members'])):
                if o['flat'] is not None or o['seed'] != m['seed']:
                    fails.append(dict(signature=dict(oracle='inplace', what='modified-without-inplace'),
                                      what=f"{desc}: caller's sim {i} was modified although inplace=False"))
    if sc['target'] == 'single':
        o = out['callers'][0]
        if o['flat'] is not None or o['seed'] != sc['members'][0]['seed']:
            fails.append(dict(signature=dict(oracle='inplace', what='base-sim-modified'), what=f'{desc}: the base sim was modified'))
    # reduced statistics
    if with_reduce and do_run and not fails:
        sims = shared_cfg_members(sc, out)
        if sims is not None:
            fails += oracle_reduce(sims, rng, desc)
    return fails, out


def oracle_reduce(sims, rng, desc, opts=None, perm=None):
    import random
    rng = rng or random.Random(0)
    fails = []
    opts = opts or gen_reduce_opts(rng)
    use_mean, bounds, quantiles = opts
    k = 2 if bounds is None else bounds
    qlo, qhi = q_pair(quantiles)
    try:
        red = reduce_impl(sims, use_mean, bounds, quantiles)
    except Exception as e:
        mixed = mixed_keys(sims)
        return [dict(signature=dict(oracle='reduce', what='raises', error=err_name(e), mixed_lengths=bool(mixed)),
                     what=f'{desc}: reduce{opts} raised {err_name(e)}: {e}' + (f' (result {mixed[0]} has another length than the sim time vector)' if mixed else ''))]
    perm = perm or rng.sample(range(len(sims)), len(sims))
    red_p = reduce_impl([sims[j] for j in perm], use_mean, bounds, quantiles)
    for key in sorted(red):
        mat = member_matrix(sims, key)
        if not all(np.all(np.isfinite(m)) for m in mat): continue
        c, lo, hi = red[key]; cp, lop, hip = red_p[key]
        if len(c) != len(mat[0]):
            fails.append(dict(signature=dict(oracle='reduce', what='length'), what=f'{desc}: reduced {key} has {len(c)} points, members {len(mat[0])}')); break
        for t in range(len(c)):
            row = [F(float(m[t])) for m in mat]
            scale = max(1, max(abs(x) for x in row)); n = len(row)
            if use_mean:
                mu = sum(row) / n; var = sum((x - mu) ** 2 for x in row) / n; sd = math.sqrt(float(var))
                ok_c = abs(F(float(c[t])) - mu) <= F(RTOL) * scale
                ok_b = abs(lo[t] - (float(mu) - k * sd)) <= STD_RTOL * scale and abs(hi[t] - (float(mu) + k * sd)) <= STD_RTOL * scale
                ok_p = abs(c[t] - cp[t]) <= RTOL * scale and abs(lo[t] - lop[t]) <= STD_RTOL * scale and abs(hi[t] - hip[t]) <= STD_RTOL * scale
                names = ('mean', 'mean-bounds')
            else:
                ok_c = abs(F(float(c[t])) - q_ref(row, F(1, 2))) <= F(RTOL) * scale
                ok_b = (abs(F(float(lo[t])) - q_ref(row, F(float(qlo)))) <= F(RTOL) * scale and
                        abs(F(float(hi[t])) - q_ref(row, F(float(qhi)))) <= F(RTOL) * scale)
                ok_p = c[t] == cp[t] and lo[t] == lop[t] and hi[t] == hip[t]
                names = ('median', 'quantile-bounds')
            if not ok_c:
                fails.append(dict(signature=dict(oracle='reduce', stat=names[0]), what=f'{desc}: reduce{opts} {key}[{t}] = {c[t]!r} is not the {names[0]} of the members {[float(x) for x in row]}'))
            if not ok_b:
                fails.append(dict(signature=dict(oracle='reduce', stat=names[1]), what=f'{desc}: reduce{opts} {key}[{t}] bounds ({lo[t]!r}, {hi[t]!r}) are not the stated {names[1]} of the members {[float(x) for x in row]}'))
            if not ok_p:
                fails.append(dict(signature=dict(oracle='reduce', stat='permutation'), what=f'{desc}: reduce{opts} {key}[{t}] changes under the member permutation {perm}'))
            if fails: return fails
    return fails


def oracle_summarize(sims, desc):
    import starsim as ss
    fails = []
    with quiet():
        m = ss.MultiSim(sims=list(sims))
        per = [s.summarize() for s in sims]
    for method in ('mean', 'median', 'all'):
        try:
            with quiet():
                s = m.summarize(method=method)
        except Exception as e:
            fails.append(dict(signature=dict(oracle='summarize', method=method, error=err_name(e)),
                              what=f'{desc}: MultiSim.summarize(method={method!r}) raised {err_name(e)}: {str(e)[:120]}'))
            continue
        for k in per[0].keys():
            vals = [F(float(p[k])) for p in per]
            if not all(np.isfinite(float(p[k])) for p in per): continue
            scale = max(1, max(abs(v) for v in vals)); n = len(vals)
            mu = sum(vals) / n; var = sum((x - mu) ** 2 for x in vals) / n
            if method == 'mean':
                ok = (abs(F(float(s[k]['mean'])) - mu) <= F(RTOL) * scale and abs(float(s[k]['std']) - math.sqrt(float(var))) <= STD_RTOL * scale
                      and abs(float(s[k]['sem']) - math.sqrt(float(var) / n)) <= STD_RTOL * scale)
            elif method == 'all':
                ok = [F(float(x)) for x in np.asarray(s[k]).tolist()] == vals
            else:
                q = s[k]
                ok = all(abs(F(float(q[name])) - q_ref(vals, F(lvl))) <= F(RTOL) * scale
                         for name, lvl in (('median', .5), ('min', 0), ('max', 1), ('q25', .25), ('q75', .75)))
            if not ok:
                fails.append(dict(signature=dict(oracle='summarize', method=method, what='value'),
                                  what=f'{desc}: summarize({method}) of {k} = {s[k]} is not the statistic of {[float(v) for v in vals]}'))
                break
    return fails


def oracle_permutation(sc):
    """ a list run in a permuted order returns the permuted members """
    import random
    if sc['target'] != 'list' or len(sc['members']) < 2: return []
    if sc.get('reseed'): return []   # an explicitly reseeded list gets seed + position: position dependent by definition
    rng = random.Random(len(canon(sc)))
    perm = rng.sample(range(len(sc['members'])), len(sc['members']))
    sc2 = dict(sc, members=[sc['members'][j] for j in perm], mode='serial' if sc['mode'] == 'debug' else sc['mode'])
    a = run_impl(dict(sc, mode=sc2['mode'])); b = run_impl(sc2)
    if a['error'] or b['error']: return []
    for pos, j in enumerate(perm):
        x, y = a['sims'][j], b['sims'][pos]
        if x['seed'] != y['seed'] or (x['flat'] is None) != (y['flat'] is None) or (x['flat'] is not None and not impl.arrays_equal(x['flat'], y['flat'])[0]):
            cfg = sc['cfgs'][sc['members'][j]['cfg']]
            if not reproducible(cfg, x['seed']): continue
            return [dict(signature=dict(oracle='permutation', what='member'), what=f"{sc['api']}(list): member {j} changes when the list is given in the order {perm}")]
    return []


def known_probes(rng):
    """ fixed scenarios for the recorded defects (re-run on every check) """
    cfg = small_cfg(rng)
    base = dict(cfgs=[cfg], members=[dict(cfg=0, seed=cfg['rand_seed'])], reseed=None, iterpars=None, inplace=True, do_run=True, preinit=False)
    two = dict(base, members=[dict(cfg=0, seed=11), dict(cfg=0, seed=12)])
    return [
        dict(two, target='list', api='MultiSim', mode='debug', n_cpus=None, n_runs=4),
        dict(base, target='single', api='MultiSim', mode='debug', n_cpus=None, n_runs=2),
        dict(base, target='single', api='multi_run', mode='parallel', n_cpus=1, n_runs=5),
        dict(base, target='single', api='multi_run', mode='parallel', n_cpus=1, n_runs=6, do_run=False),
        dict(base, target='single', api='multi_run', mode='serial', n_cpus=None, n_runs=3, preinit=True),
    ]


def search(ctx):
    n = ctx.budget(7, 60)
    scenarios = [gen_scenario(ctx.rng, ctx.thorough) for _ in range(n)]
    scenarios += [gen_scenario(ctx.rng, ctx.thorough, dict(target='single', mode='parallel', n_cpus=2, api='MultiSim', n_runs=4, iterpars=None, reseed=None)),
                  gen_scenario(ctx.rng, ctx.thorough, dict(target='single', mode='serial', api='multi_run', n_runs=3, iterpars=None, reseed=None)),
                  gen_scenario(ctx.rng, ctx.thorough, dict(target='list', mode='parallel', n_cpus=2, api='MultiSim', inplace=True, min_members=3)),
                  gen_scenario(ctx.rng, ctx.thorough, dict(target='list', mode='serial', api='parallel', inplace=True, min_members=2))]
    did_sum = 0
    for i, sc in enumerate(scenarios):
        fails, out = oracle_scenario(sc, ctx.rng)
        ctx.count('oracle_scenarios')
        for f in fails:
            ctx.fail(f['signature'], f['what'], dict(kind='scenario', scenario=sc))
        if not fails and i % 3 == 0:
            for f in oracle_permutation(sc):
                ctx.fail(f['signature'], f['what'], dict(kind='permutation', scenario=sc))
        sims = shared_cfg_members(sc, out)
        if sims is not None and did_sum < ctx.budget(2, 10):
            did_sum += 1
            for f in oracle_summarize(sims, f"MultiSim of {len(sims)} members"):
                ctx.fail(f['signature'], f['what'], dict(kind='summarize', scenario=sc))
    for sc in known_probes(ctx.rng):
        fails, _ = oracle_scenario(sc, ctx.rng, with_reduce=False)
        ctx.count('known_probes')
        for f in fails:
            ctx.fail(f['signature'], f['what'], dict(kind='scenario', scenario=sc))


def replay(ctx, data):
    kind = data.get('kind')
    sc = data.get('scenario')
    if kind == 'scenario':
        fails, _ = oracle_scenario(sc, ctx.rng)
        for f in fails: print('  ', f['what'][:300])
        return bool(fails)
    if kind == 'permutation':
        fails = oracle_permutation(sc)
        for f in fails: print('  ', f['what'][:300])
        return bool(fails)
    if kind in ('summarize', 'reduce'):
        out = run_impl(sc)
        sims = shared_cfg_members(sc, out)
        if sims is None: return False
        fails = oracle_summarize(sims, 'replay') if kind == 'summarize' else oracle_reduce(sims, ctx.rng, 'replay', opts=tuple(data['opts']) if data.get('opts') else None)
        for f in fails: print('  ', f['what'][:300])
        return bool(fails)
    return False
