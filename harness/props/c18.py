"""
C18 — Parallel and multi-run execution equals independent serial runs.

correspond(): generated scenarios (member configurations, replicate counts, n_cpus, serial/parallel/debug,
              in-place on/off, reseed, iterpars, ss.multi_run / ss.MultiSim / ss.parallel) are executed on the
              REAL starsim; the Lean model (Model/MultiRun.lean via Drivers/C18.lean) is given the same scenario,
              the chunk size of the pool and the OBSERVED schedule (which worker ran which member, in which
              order — stamped by a probe analyzer), and predicts for every returned sim and every caller object
              (configuration, rand_seed, seed the results were run with) or the error.  Each predicted
              (configuration, seed) is run standalone in-process and compared EXACTLY with the member.
              Reduced arrays (reduce / mean / median) and summarize() are compared with the model's exact
              rational statistics of the members (tolerance stated below).
search():     the property itself on the real code, no model: member i == standalone run with base+i (or its own
              seed for a list), whatever mode / n_cpus; in-place hand-over; permutation of members; reduced
              arrays vs an independent exact reference; plus the fixed probes of the known findings.
"""
import os, io, json, math, contextlib, fractions
import numpy as np
from harness import impl

PROP = 'C18'
GENERATED = ['RunFacts']
DRIVER = 'Drivers/C18.lean'
DRIVER_MODULES = ['StarsimModel.Model.MultiRun', 'StarsimModel.Model.Proto']
RULE = ('scenarios = (member configurations from harness/impl.gen_sim_config without global-generator readers, <=200 agents, <=10 steps; '
        'single sim x n_runs or list of sims; api multi_run/MultiSim/parallel; mode parallel/serial/debug; n_cpus 1,2,4 (thorough: 16); '
        'reseed None/True/False; iterpars rand_seed / n_agents; inplace on/off; population created by the sim or supplied by the caller (own_people); '
        'state of the process-global generators of the calling process (host)); fixed families every run incl. caller-supplied People + ss.Births in lists/replicates, serial / one worker / in place; '
        'members that differ only in a data input (mortality tables), zoo entries as members of one list (serial, 2 workers); every standalone reference in a pristine process; '
        'summaries: msim.summary after mean()/median(), summarize(method, how) under a history of how values; distinct = distinct canonical scenario; '
        'non-trivial = at least two members and at least one standalone comparison')
TRUSTED = ['harness/props/c18_ref.py: a child forked from an interpreter that imported starsim and never ran a simulation is a pristine process for the reference run',
           'multiprocess.Pool.map: results are returned in task order; default chunk size ceil(n/(4*workers)); the tasks of one chunk are pickled together (validated: the driver is given the chunk size computed by this formula and must predict the observed outcome)',
           'sciris.parallelize: ncpus = min(n_cpus or cpu_count, n_jobs); default parallelizer multiprocess (fork)',
           'NumPy: np.mean / np.std(ddof=0) / np.quantile(method=linear) compute the statistics the model defines, up to the stated floating-point tolerance']
ASSUMPTIONS = ['the simulation itself is a function of (configuration, seed, state of the process-global generators when stepping starts): Model GEnv.simG; that Sim.init resets those generators from the seed first is a regenerated fact (initSeedsGlobalFirst) and the frame theorems C18_host_state_frame* follow; every real multi-run is started from a random state of the process-global generators (scenario `host`), the standalone references from another; a mismatch is classified (host-state dependent = failure; differs even from an identical host state = C01/C14, skipped and counted)',
               'OS scheduling is abstracted as an arbitrary list of atomic member runs over workers; the observed schedule of every real parallel run is fed to the model',
               'floating point: reduced arrays are compared with the exact rational statistics within 1e-12*max(1,|row|max) (mean, quantiles) and 1e-9 relative (std bounds)']

RTOL = 1e-12
STD_RTOL = 1e-9
F = fractions.Fraction


# ---------------------------------------------------------------------------
# helpers on the real code

@contextlib.contextmanager
def quiet():
    buf = io.StringIO()
    with contextlib.redirect_stdout(buf):
        yield buf


def build(cfg, seed):
    """ the real sim of a configuration.  `own_people`: the caller supplies the population (`ss.Sim(people=ss.People(n))`)
        instead of letting Sim.init create it: another path through Sim.init / init_people """
    from harness.props.c18_probe import Stamp
    over = dict(rand_seed=int(seed))
    if cfg.get('own_people'):
        import starsim as ss
        over['people'] = ss.People(int(cfg['n_agents']))
    return impl.build_sim(cfg, extra_analyzers=[Stamp()], **over)


HOST_STANDALONE = 424242      # state of the process-global generators under which the standalone references are run
HOST_OTHER = 987654


def set_host_state(x):
    """ Put the process-global generators (NumPy legacy, Numba, Python `random`) of THIS process into a known state `x`.
        Forked pool workers inherit it; a serial loop and a one-worker pool hand each member what the previous one left.
        The property quantifies over worker counts and schedules, i.e. over whatever state the hosting process is in. """
    import random
    import starsim as ss
    if x is None: return
    ss.set_seed(int(x) % (2 ** 31))          # NumPy + Numba
    random.seed(int(x))
    np.random.random(int(x) % 7 + 1)


_STANDALONE = {}


def _key(cfg, seed):
    return (json.dumps(cfg, sort_keys=True), int(seed))


def _ref_fetch(jobs):
    """ reference runs, each in a child forked from a pristine interpreter in which no simulation ever ran (c18_ref) """
    from harness.props import c18_ref
    res = c18_ref.fetch([(cfg, int(seed), host) for cfg, seed, host in jobs])
    for (cfg, seed, host), r in zip(jobs, res):
        if '__error__' in r:
            raise RuntimeError(f"standalone run (seed {seed}) failed in the reference process: {r['__error__']}")
    return res


def prefetch(pairs):
    """ run the missing standalone references of [(cfg, seed)] concurrently """
    todo = {}
    for cfg, seed in pairs:
        k = _key(cfg, seed)
        if k not in _STANDALONE and k not in todo: todo[k] = (cfg, int(seed), HOST_STANDALONE)
    if todo:
        for k, r in zip(todo, _ref_fetch(list(todo.values()))):
            _STANDALONE[k] = r


def standalone(cfg, seed, fresh=False, host=HOST_STANDALONE):
    """ flat results of the configuration run ALONE with this seed: in a fresh process (forked from an interpreter that has
        imported starsim and never run anything), its process-global generators put into state `host` first (cached) """
    if fresh:
        return _ref_fetch([(cfg, seed, host)])[0]
    key = _key(cfg, seed)
    if key not in _STANDALONE:
        _STANDALONE[key] = _ref_fetch([(cfg, seed, host)])[0]
    return _STANDALONE[key]


def _digest(flat):
    import hashlib
    h = hashlib.sha1()
    for k in sorted(flat):
        h.update(k.encode()); h.update(np.ascontiguousarray(flat[k]).tobytes())
    return h.hexdigest()


def classify(cfg, seed):
    """ Why can a member differ from its standalone run?
        'ok'     : the standalone run is a function of (configuration, seed): the mismatch is a genuine C18 failure.
        'host'   : the standalone run depends on the state the process-global generators of the hosting process are in
                   when the run starts (same state -> same results, other state -> other results): `Sim.init` did not
                   reset them before the first read.  Then a member's results depend on which worker runs it and on what
                   ran there before — worker count, scheduling, serial vs parallel: a C18 failure (the frame theorem
                   C18_host_state_frame rests on exactly this reset).
        'nondet' : it differs even from an identical host state (8 more pristine processes): reads of
                   uninitialised storage etc. — C01's / C14's subject; the caller skips and counts the case. """
    key = (json.dumps(cfg, sort_keys=True), int(seed))
    if key not in _CLASS:
        _CLASS[key] = _classify(cfg, seed)
    return _CLASS[key]


_CLASS = {}


def _classify(cfg, seed):
    a = standalone(cfg, seed)
    runs = _ref_fetch([(cfg, seed, HOST_STANDALONE)] * 8 + [(cfg, seed, HOST_OTHER)])
    if not all(impl.arrays_equal(a, r)[0] for r in runs[:8]):
        return 'nondet'
    if not impl.arrays_equal(a, runs[8])[0]:
        return 'host'
    return 'ok'


def reproducible(cfg, seed):
    return classify(cfg, seed) == 'ok'


HOST_MSG = ('the run alone is itself not a function of (configuration, seed): it continues the process-global generator of the hosting '
            'process (same host state -> same results, another host state -> other results), so the member depends on worker count / scheduling / serial vs parallel')


def observe_sim(s):
    done = bool(getattr(s, 'complete', False)) and bool(getattr(s, 'results_ready', False))
    stamp = None
    try:
        a = s.analyzers[0]
        stamp = (a.pid, a.t0, a.t1)
    except Exception:
        pass
    return dict(seed=int(s.pars.rand_seed), n_agents=int(s.pars.n_agents), flat=impl.flat_results(s) if done else None,
                stamp=stamp, oid=id(s), initialized=bool(getattr(s, 'initialized', False)), label=getattr(s, 'label', None))


def err_name(e):
    return type(e).__name__


ERR_KIND = dict(AlreadyRunError='E:AlreadyRun', KeyNotFoundError='E:KeyNotFound', TypeError='E:Type', ValueError='E:Value')


def ip_norm(ip):
    """ iterpars as dict(seeds=[..]|None, n_agents=[..]|None, cfg_ids=[..]|None) (accepts the round-1 form) """
    if not ip: return None
    if 'kind' in ip:
        if ip['kind'] == 'rand_seed': return dict(seeds=list(ip['values']), n_agents=None, cfg_ids=None)
        return dict(seeds=None, n_agents=list(ip['values']), cfg_ids=list(ip['cfg_ids']))
    return ip


def ip_desc(ip):
    ip = ip_norm(ip)
    if not ip: return None
    return '+'.join(k for k in ('seeds', 'n_agents') if ip.get(k) is not None)


def n_tasks(sc):
    if sc['target'] == 'list':
        return len(sc['members'])
    ip = ip_norm(sc.get('iterpars'))
    if ip:
        return len(ip['seeds'] if ip.get('seeds') is not None else ip['n_agents'])
    return sc['n_runs']


def pool_shape(sc):
    """ (workers, chunk) of the multiprocess pool sc.parallelize builds for this scenario """
    n = max(n_tasks(sc), 1)
    import sciris as sc_
    workers = sc['n_cpus'] or sc_.cpu_count()
    if 0 < workers < 1: workers = int(np.ceil(sc_.cpu_count() * workers))   # a fraction of the machine
    workers = max(1, min(int(workers), n))
    chunk, extra = divmod(n, workers * 4)
    if extra: chunk += 1
    return workers, chunk


def run_impl(sc):
    """ Execute the scenario on the real code. Returns dict(error=None|name, callers=[obs], sims=[obs]) """
    import starsim as ss
    cfgs = sc['cfgs']
    with quiet():
        members = []
        for m in sc['members']:
            members.append(members[m['alias']] if m.get('alias') is not None else build(cfgs[m['cfg']], m['seed']))
        if sc.get('preinit'):
            for s in members: s.init()
        kw = {}
        if sc['mode'] == 'serial': kw['parallel'] = False
        if sc['mode'] == 'parallel' and sc['n_cpus'] is not None: kw['n_cpus'] = sc['n_cpus']
        if sc.get('reseed') is not None: kw['reseed'] = sc['reseed']
        ip = ip_norm(sc.get('iterpars'))
        if ip:
            kw['iterpars'] = {}
            if ip.get('n_agents') is not None: kw['iterpars']['n_agents'] = list(ip['n_agents'])
            if ip.get('seeds') is not None: kw['iterpars']['rand_seed'] = list(ip['seeds'])
        sa = sc.get('sim_args')
        if sa:
            d = {}
            if sa.get('n_agents') is not None: d['n_agents'] = sa['n_agents']
            if sa.get('seed') is not None: d['rand_seed'] = sa['seed']
            if sa.get('as_kwargs'): kw.update(d)
            else: kw['sim_args'] = d
        if sc.get('shrink'): kw['shrink'] = True
        if not sc.get('do_run', True): kw['do_run'] = False
        target = members[0] if sc['target'] == 'single' else members
        out = dict(error=None, message=None)
        set_host_state(sc.get('host'))
        try:
            if sc['api'] == 'multi_run':
                sims = ss.multi_run(target, n_runs=sc['n_runs'], **kw)
            elif sc['api'] == 'MultiSim':
                m = ss.MultiSim(target, n_runs=sc['n_runs'], inplace=sc['inplace'], debug=(sc['mode'] == 'debug'), **kw)
                m.run()
                sims = m.sims
            elif sc['api'] == 'initrun':
                m = ss.MultiSim(target, n_runs=sc['n_runs'], inplace=sc['inplace'], debug=(sc['mode'] == 'debug'), initialize=True, **kw)
                out['prepared'] = [observe_sim(s) for s in m.sims]
                m.run()
                sims = m.sims
            elif sc['api'] == 'parallel':
                m = ss.parallel(*members, inplace=sc['inplace'], debug=(sc['mode'] == 'debug'), **kw)
                sims = m.sims
            else:
                raise RuntimeError('unknown api')
            out['sims'] = [observe_sim(s) for s in sims]
            out['objs'] = sims
        except Exception as e:
            out['error'] = err_name(e); out['message'] = str(e)[:200]
            out['sims'] = []; out['objs'] = []
        out['callers'] = [observe_sim(s) for s in members]
    return out


def observed_schedule(sc, out):
    """ worker:task list from the probe stamps of a successful parallel run, else the canonical in-order schedule """
    n = n_tasks(sc)
    canon = [(0, i) for i in range(n)]
    if sc['mode'] != 'parallel' or out['error'] or not sc.get('do_run', True):
        return canon, None
    stamps = [o['stamp'] for o in out['sims']]
    if len(stamps) != n or any(s is None or s[0] is None or s[1] is None for s in stamps):
        return canon, None
    pids = sorted({s[0] for s in stamps})
    order = sorted(range(n), key=lambda i: (stamps[i][1], i))
    return [(pids.index(stamps[i][0]), i) for i in order], len(pids)


def model_line(sc, sched, chunk, variant='asis'):
    ms = ','.join(f"{m['cfg']}:{m['seed']}:{m['seed'] if sc.get('preinit') else 'none'}:0" for m in sc['members'])
    rs = 'none' if sc.get('reseed') is None else str(int(sc['reseed']))
    iseeds = icfgs = simseed = simcfg = 'none'
    ip = ip_norm(sc.get('iterpars'))
    if ip:
        if ip.get('seeds') is not None: iseeds = ','.join(str(v) for v in ip['seeds']) or '-'
        if ip.get('n_agents') is not None: icfgs = ','.join(str(v) for v in ip['cfg_ids']) or '-'
    sa = sc.get('sim_args')
    if sa:
        if sa.get('seed') is not None: simseed = str(sa['seed'])
        if sa.get('n_agents') is not None: simcfg = str(sa['cfg_id'])
    inplace = int(bool(sc['inplace'])) if sc['api'] != 'multi_run' else 0
    api = dict(multi_run='msim', MultiSim='msim', parallel='parallel', initrun='initrun')[sc['api']]
    ss_ = ','.join(f'{w}:{i}' for w, i in sched) or '-'
    ident = '-'
    if any(m.get('alias') is not None for m in sc['members']):
        ident = ','.join(str(m['alias'] if m.get('alias') is not None else i) for i, m in enumerate(sc['members']))
    return (f"run {variant} {api} {sc['target']} {ms} {sc['n_runs']} {rs} {iseeds} {icfgs} {simseed} {simcfg} "
            f"{int(sc.get('do_run', True))} {sc['mode']} {inplace} {chunk} {ident} {ss_}")


def parse_model(line):
    if not line.startswith('ok'):
        return dict(error=line)
    parts = dict(p.split('=', 1) for p in line.split()[1:])
    def sims(s):
        if s == '-': return []
        res = []
        for t in s.split(','):
            c, sd, eff, ini = t.split(':')
            res.append(dict(cfg=int(c), seed=int(sd), eff=None if eff == '-' else int(eff), init=bool(int(ini))))
        return res
    return dict(error=None, callers=sims(parts['callers']), sims=sims(parts['sims']))


def compare_sim(sc, obs, pred, where):
    """ one real sim object vs the model's prediction (cfg, seed, eff) -> None or a divergence string """
    cfg = sc['cfgs'][pred['cfg']]
    if obs['seed'] != pred['seed']:
        return f"{where}: rand_seed impl={obs['seed']} model={pred['seed']}"
    if obs['n_agents'] != cfg['n_agents']:
        return f"{where}: n_agents impl={obs['n_agents']} model cfg has {cfg['n_agents']}"
    if obs['initialized'] != pred['init']:
        return f"{where}: initialized impl={obs['initialized']} model={pred['init']}"
    if pred['eff'] is None:
        if obs['flat'] is not None:
            return f'{where}: impl sim has results, model says it was not run'
        return None
    if obs['flat'] is None:
        return f'{where}: impl sim has no results, model says run with seed {pred["eff"]}'
    ref = standalone(cfg, pred['eff'])
    same, why = impl.arrays_equal(obs['flat'], ref)
    if not same:
        cl = classify(cfg, pred['eff'])
        if cl == 'nondet':
            return 'SKIP-global-reader'
        return (f"{where}: results differ from the standalone run of cfg {pred['cfg']} with seed {pred['eff']}: {why}"
                + (f' ({HOST_MSG})' if cl == 'host' else ''))
    return None


def compare_outcome(sc, out, model):
    if model.get('error'):
        kind = ERR_KIND.get(out['error'], f"E:Other({out['error']})") if out['error'] else 'ok'
        if kind != model['error']:
            return f"outcome impl={kind} ({out.get('message')}) model={model['error']}"
        return None
    if out['error']:
        return f"outcome impl raised {out['error']}: {out['message']}; model=ok"
    for name in ('sims', 'callers'):
        a, b = out[name], model[name]
        if name == 'callers' and any(m.get('alias') is not None for m in sc['members']) and len(b) == len(sc['members']):
            # one Python object stands at several list positions: the in-place copy of the LAST of them is what it holds
            cls = [m['alias'] if m.get('alias') is not None else i for i, m in enumerate(sc['members'])]
            b = [b[max(j for j in range(len(cls)) if cls[j] == cls[i])] for i in range(len(cls))]
        if len(a) != len(b):
            return f'{name}: impl has {len(a)} sims, model {len(b)}'
        for i, (o, p) in enumerate(zip(a, b)):
            d = compare_sim(sc, o, p, f'{name}[{i}]')
            if d: return d
    return None


# ---------------------------------------------------------------------------
# scenario generator

TABLE_SCALES = [2.0, 8.0, 20.0, 40.0, 60.0]


def small_cfg(rng, births=False, own_people=False, table=None):
    """ `table`: ss.Deaths driven by an age / sex / year mortality TABLE (a data input) scaled by this factor, instead of a scalar rate """
    cfg = _small_cfg(rng, births)
    if own_people: cfg['own_people'] = True
    if table is None and rng.random() < 0.25 and any(d['type'] == 'deaths' for d in cfg.get('demographics', [])):
        table = rng.choice(TABLE_SCALES)
    if table:
        dem = [d for d in cfg.get('demographics', []) if d['type'] != 'deaths']
        cfg['demographics'] = dem + [dict(type='deaths', death_table=dict(scale=float(table)))]
    return cfg


def with_table(cfgs, base_id, scale):
    """ the same configuration with another mortality table """
    c = json.loads(json.dumps(cfgs[base_id]))
    c['demographics'] = [d for d in c.get('demographics', []) if d['type'] != 'deaths'] + [dict(type='deaths', death_table=dict(scale=float(scale)))]
    cfgs.append(c)
    return len(cfgs) - 1


def _small_cfg(rng, births=False):
    if births:   # ss.Births draws from the process-global generator, which Sim.init seeds: init and run must stay together
        cfg = impl.gen_sim_config(rng, small=True, allow_global_readers=True, demographics=['births', 'deaths'])
    else:
        cfg = impl.gen_sim_config(rng, small=True, allow_global_readers=False)
    cfg['n_agents'] = min(cfg['n_agents'], 200)
    return cfg


def with_n_agents(cfgs, base_id, v):
    c = dict(cfgs[base_id]); c['n_agents'] = v
    cfgs.append(c)
    return len(cfgs) - 1


N_CPUS = [1, 2, 4, None, 8, 0.5, 32]


def gen_scenario(rng, thorough=False, force=None):
    force = force or {}
    cfgs = [small_cfg(rng, births=force.get('births', False), own_people=force.get('own_people', False))]
    target = force.get('target') or rng.choice(['single', 'single', 'list', 'list'])
    mode = force.get('mode') or rng.choice(['parallel', 'parallel', 'parallel', 'serial'])
    cpus = N_CPUS + ([16] if thorough else [])
    sc = dict(cfgs=cfgs, target=target, mode=mode, n_cpus=rng.choice(cpus) if mode == 'parallel' else None,
              reseed=rng.choice([None, None, None, True, False]), iterpars=None, sim_args=None, inplace=rng.random() < 0.6, do_run=True,
              preinit=False, shrink=(True if rng.random() < 0.15 else None),
              n_runs=rng.choice([1, 2, 3, 4, 4, 5, 6] + ([9, 12, 16] if thorough else [])))
    if target == 'single':
        sc['api'] = force.get('api') or rng.choice(['multi_run', 'MultiSim', 'MultiSim', 'initrun'])
        if sc['api'] == 'initrun' and sc['reseed']: sc['reseed'] = None
        # shrink=True is forwarded to the prepare step too and shrinks the not-yet-initialised copies, which then cannot run
        # (AttributeError: no attribute 'networks'): outside the statement, noted in notes/C18.md, not generated
        if sc['api'] == 'initrun': sc['shrink'] = None
        sc['members'] = [dict(cfg=0, seed=cfgs[0]['rand_seed'])]
        r = rng.random()
        if r < 0.35:
            k = rng.randint(1, 4)
            seeds = [rng.randint(0, 5000) for _ in range(k)] if r < 0.15 or r >= 0.27 else None
            nag = [rng.choice([50, 70, 90, 120]) for _ in range(k)] if r >= 0.15 else None
            sc['iterpars'] = dict(seeds=seeds, n_agents=nag, cfg_ids=[with_n_agents(cfgs, 0, v) for v in nag] if nag else None)
        same = True
    else:
        sc['api'] = force.get('api') or rng.choice(['multi_run', 'MultiSim', 'parallel'])
        k = max(rng.choice([1, 2, 3, 3, 4, 5] + ([8, 12] if thorough else [])), force.get('min_members', 1))
        same = rng.random() < 0.5
        if not same:
            for _ in range(min(k - 1, 2)):
                cfgs.append(small_cfg(rng, births=force.get('births', False), own_people=force.get('own_people', False)))
        sc['members'] = [dict(cfg=(0 if same else rng.randrange(len(cfgs))), seed=rng.randint(0, 10000)) for _ in range(k)]
        if 2 <= k <= 4 and rng.random() < 0.12:     # the same object twice in the list
            j = rng.randrange(1, k); a = rng.randrange(0, j)
            if sc['members'][a].get('alias') is None:
                sc['members'][j] = dict(sc['members'][a], alias=a)
    if same and rng.random() < 0.15:
        v = rng.choice([50, 80, 110])
        sc['sim_args'] = dict(n_agents=v, cfg_id=with_n_agents(cfgs, 0, v), seed=None, as_kwargs=rng.random() < 0.5)
    sc.update({k: v for k, v in force.items() if k not in ('target', 'mode', 'min_members', 'births', 'sizes', 'own_people', 'tables')})
    # prepare-then-run with the SAME parameter given twice (per run through iterpars and for all runs through sim_args / kwargs) is a
    # contradictory input: the one-step run lets iterpars win, the second step of initialize=True re-applies the kwargs to the prepared
    # list (the model predicts exactly that); the property demands nothing for it -> not generated
    ipn_ = ip_norm(sc.get('iterpars'))
    if sc.get('api') == 'initrun' and sc.get('sim_args') and ipn_ and ((ipn_.get('n_agents') is not None and sc['sim_args'].get('n_agents') is not None)
                                                                     or (ipn_.get('seeds') is not None and sc['sim_args'].get('seed') is not None)):
        sc['sim_args'] = None
    # the state of the process-global generators the hosting process is in when the multi-run starts
    sc['host'] = rng.randint(1, 2 ** 31 - 2)
    # caller-supplied population (not together with n_agents overrides: the supplied People object fixes the size)
    ipn = ip_norm(sc.get('iterpars'))
    if 'own_people' not in force and not (ipn and ipn.get('n_agents') is not None) and not sc.get('sim_args') and rng.random() < 0.3:
        for c in cfgs:
            if rng.random() < 0.7: c['own_people'] = True
    if force.get('tables'):     # members that differ ONLY in a data input: the mortality table their ss.Deaths module is driven by (same seed)
        sd = rng.randint(0, 10000)
        cfgs[0] = dict(cfgs[0], unit='year', start=2000, dt=rng.choice([0.5, 1.0]), dur=6)     # a time line on which background deaths do occur
        sc['members'] = [dict(cfg=with_table(cfgs, 0, v), seed=sd) for v in force['tables']]
    if force.get('sizes'):      # members of different sizes (same configuration otherwise)
        sc['members'] = [dict(cfg=with_n_agents(cfgs, 0, v), seed=rng.randint(0, 10000)) for v in force['sizes']]
    # keep clear of the chunk-sharing finding in the random stream (it has its own probes): n <= 4*workers
    if target == 'single' and mode == 'parallel' and 'n_cpus' not in force:
        if pool_shape(sc)[1] > 1:
            sc['n_cpus'] = None
    return sc


def fixed_families(rng, thorough=False):
    """ Scenario families exercised in EVERY run (one per clause of the property / configuration family of its quantifier) """
    G = lambda **f: gen_scenario(rng, thorough, dict(dict(iterpars=None, sim_args=None, reseed=None, shrink=None), **f))
    sizes = rng.choice([[90, 150, 60, 120], [120, 60, 150, 90], [60, 150, 90], [150, 90, 120, 60, 100]])
    tabs = rng.sample(TABLE_SCALES, 3)
    fam = [
        # members that differ in a DATA INPUT rather than a scalar (mortality tables of ss.Deaths; same seed, same everything else):
        # serial loop in the caller's process, fewer workers than members, in place -- whatever ran before in any of these
        # processes (each reference is run in a pristine process, c18_ref)
        G(target='list', mode='serial', api=rng.choice(['MultiSim', 'multi_run']), inplace=True, tables=tabs, own_people=False),
        G(target='list', mode='parallel', n_cpus=rng.choice([1, 2]), api=rng.choice(['parallel', 'multi_run', 'MultiSim']), inplace=True,
          tables=tabs[::-1] + [rng.choice(TABLE_SCALES)], own_people=False),
        # caller-supplied population + a module that draws from the process-global generator (ss.Births): every member must
        # still be its standalone run, whatever state the hosting process is in (one worker / serial loop: the state the
        # previous member left; forked workers: the parent's) -- lists (not reseeded) and replicates, in place
        G(target='list', mode='serial', api='MultiSim', inplace=True, min_members=3, births=True, own_people=True),
        G(target='list', mode='parallel', n_cpus=rng.choice([1, 2]), api=rng.choice(['parallel', 'multi_run']), inplace=True, min_members=3,
          births=True, own_people=True),
        G(target='single', mode=rng.choice(['parallel', 'serial']), n_cpus=rng.choice([1, 2]), api=rng.choice(['MultiSim', 'multi_run']), n_runs=3,
          births=True, own_people=True),
        # the same with a population created by the sim
        G(target='list', mode=rng.choice(['parallel', 'serial']), n_cpus=1, api='multi_run', min_members=3, births=True),
        # replicates, every api
        G(target='single', mode='parallel', n_cpus=2, api='multi_run', n_runs=4),
        G(target='single', mode='parallel', n_cpus=rng.choice([2, 4]), api='MultiSim', n_runs=3),
        # prepare-then-run with a module reading the process-global generator (init and run must not be separated)
        G(target='single', mode='parallel', n_cpus=2, api='initrun', n_runs=3, births=True),
        G(target='single', mode='serial', api='initrun', n_runs=rng.choice([2, 3]), births=True),
        G(target='single', mode='parallel', n_cpus=rng.choice([1, 4]), api='MultiSim', n_runs=3, births=True),
        # lists: fewer workers than sims, members of different sizes, in place
        G(target='list', mode='parallel', n_cpus=rng.choice([2, 3]), api=rng.choice(['MultiSim', 'parallel']), inplace=True, sizes=sizes),
        G(target='list', mode='parallel', n_cpus=rng.choice([1, 2]), api='multi_run', sizes=sizes[::-1]),
        G(target='list', mode='parallel', n_cpus=2, api='MultiSim', inplace=True, min_members=3),
        # exactly one sim, in place
        G(target='list', mode=rng.choice(['parallel', 'serial']), n_cpus=None, api='parallel', inplace=True,
          members=[dict(cfg=0, seed=rng.randint(0, 9999))]),
        G(target='list', mode='serial', api='MultiSim', inplace=True, members=[dict(cfg=0, seed=rng.randint(0, 9999))]),
        # iterpars with several keys, sim_args, worker counts beyond / as a fraction of the machine, shrink
        G(target='single', mode='parallel', n_cpus=rng.choice([0.5, 32]), api='multi_run', n_runs=3, shrink=True),
        # debug mode
        G(target='list', mode='debug', api='MultiSim', min_members=2),
        G(target='single', mode='debug', api='MultiSim'),
    ]
    sc = G(target='single', mode='serial', api='multi_run', n_runs=2, own_people=False)
    sc['iterpars'] = dict(seeds=[rng.randint(0, 999), rng.randint(0, 999)], n_agents=[70, 90],
                          cfg_ids=[with_n_agents(sc['cfgs'], 0, 70), with_n_agents(sc['cfgs'], 0, 90)])
    sc['sim_args'] = dict(n_agents=55, cfg_id=with_n_agents(sc['cfgs'], 0, 55), seed=None, as_kwargs=False)
    fam.append(sc)
    sc = G(target='list', mode='serial', api='MultiSim', inplace=True, min_members=2, own_people=False)
    if len({m['cfg'] for m in sc['members']}) == 1:
        sc['sim_args'] = dict(n_agents=80, cfg_id=with_n_agents(sc['cfgs'], sc['members'][0]['cfg'], 80), seed=None, as_kwargs=True)
    fam.append(sc)
    # the same object twice
    sc = G(target='list', mode=rng.choice(['parallel', 'serial']), n_cpus=2, api='MultiSim', inplace=True,
           members=[dict(cfg=0, seed=77), dict(cfg=0, seed=78), dict(cfg=0, seed=77, alias=0)])
    fam.append(sc)
    fam += zoo_families(rng)
    return fam


ZOO_EXCLUDE = {'pools'}     # (Pregnancy + MixingPools crash upstream; pools entries are kept out of mixed lists)


def zoo_families(rng, k=4):
    """ a few entries of the shared configuration zoo (harness/zoo.py) as the members of ONE list, run serially and on two
        workers: heterogeneous members (units, own time steps, tables, interventions, user objects) in one process """
    from harness import zoo
    entries = zoo.configs(exclude=ZOO_EXCLUDE)
    names = [n for n, _ in entries]
    pick = rng.sample(names, min(k, len(names)))
    if 'deaths-table' in names and 'deaths-table' not in pick: pick[0] = 'deaths-table'
    cfgs = [dict(c) for n, c in entries if n in pick]
    if 'deaths-table' in pick:          # and the same entry with another table
        with_table(cfgs, [n for n, _ in entries if n in pick].index('deaths-table'), 5.0)
    members = [dict(cfg=i, seed=int(c.get('rand_seed', 11)) + i) for i, c in enumerate(cfgs)]
    base = dict(cfgs=cfgs, members=members, target='list', n_runs=1, reseed=None, iterpars=None, sim_args=None, do_run=True, preinit=False, shrink=None,
                zoo=pick)
    return [dict(base, api='MultiSim', mode='serial', n_cpus=None, inplace=True, host=rng.randint(1, 2 ** 31 - 2)),
            dict(json.loads(json.dumps(base)), api=rng.choice(['multi_run', 'parallel']), mode='parallel', n_cpus=2, inplace=True, host=rng.randint(1, 2 ** 31 - 2))]


def canon(sc):
    return json.dumps(sc, sort_keys=True, default=str)


# ---------------------------------------------------------------------------
# statistics

def frac_str(x):
    f = F(float(x))
    return f'{f.numerator}/{f.denominator}' if f.denominator != 1 else str(f.numerator)


def parse_rat(s):
    return F(s)


def close(a, b, scale, rtol=RTOL):
    return abs(F(float(a)) - b) <= F(rtol) * max(1, scale)


def shared_cfg_members(sc, out):
    """ run members usable for reduce: all from the same configuration, all complete, at least 2 """
    if out['error'] or len(out['objs']) < 2: return None
    if any(o['flat'] is None for o in out['sims']): return None
    if sc['target'] == 'single':
        ip = ip_norm(sc.get('iterpars'))
        if ip and ip.get('n_agents') is not None: return None
    elif len({m['cfg'] for m in sc['members']}) != 1:
        return None
    return out['objs']


def reduce_impl(sims, use_mean, bounds, quantiles):
    """ MultiSim.reduce on the real code; returns {key: (centre, low, high)} """
    import starsim as ss
    with quiet():
        m = ss.MultiSim(sims=list(sims))
        if use_mean: m.mean(bounds=bounds)
        else: m.median(quantiles=quantiles)
    res = {}
    res['__metadata__'] = dict(m.base_sim.metadata)
    for k, r in m.results.items():
        if k == 'timevec': continue
        try:
            res[k] = (np.asarray(r.values if hasattr(r, 'values') else r, dtype=float), np.asarray(r.low, dtype=float), np.asarray(r.high, dtype=float))
        except Exception:
            pass
    return res


def mixed_keys(sims):
    """ result keys whose series length differs from the sim's number of time points (modules with their own time step) """
    npts = len(sims[0])
    return [k for k, v in impl.flat_results(sims[0]).items() if np.ndim(v) == 1 and len(v) != npts]


def member_matrix(sims, key):
    return [np.asarray(impl.flat_results(s)[key], dtype=float) for s in sims]


def q_pair(quantiles):
    if quantiles is None: return 0.1, 0.9
    if isinstance(quantiles, dict): return float(quantiles['low']), float(quantiles['high'])
    return float(quantiles[0]), float(quantiles[1])


def gen_reduce_opts(rng):
    use_mean = rng.random() < 0.5
    bounds = rng.choice([None, None, 1, 3, 0.5, 0, 0.0]) if use_mean else None
    quantiles = None if use_mean else rng.choice([None, None, [0.25, 0.75], {'low': 0.0, 'high': 1.0}, [0.05, 0.5], {'low': 0.3, 'high': 0.9},
                                                  [0, 1], (0, 0.5), {'low': 0, 'high': 0.5}, (0.5, 1), [1, 1], [0.0, 0.0]])
    return use_mean, bounds, quantiles


# explicit arguments at the boundary values, exercised in every run
BOUNDARY_OPTS = [(True, 0, None), (True, None, None), (False, None, [0, 1]), (False, None, {'low': 0, 'high': 0.5}), (False, None, (0.0, 1.0)),
                 (False, None, None), (True, 1, None)]


def opt_args(opts):
    """ the reduce arguments as the model receives them: bounds / quantile pair as exact rationals, `none` if not given """
    use_mean, bounds, quantiles = opts
    b = 'none' if bounds is None else frac_str(bounds)
    if quantiles is None: q = 'none'
    else:
        lo, hi = q_pair(quantiles)
        q = f'{frac_str(lo)},{frac_str(hi)}'
    return b, q


def correspond_reduce(ctx, sc, sims, opts, max_keys=4):
    """ reduced arrays of the real code vs the model's exact statistics of the same members (one driver call) """
    use_mean, bounds, quantiles = opts
    barg, qarg = opt_args(opts)
    npts = len(sims[0])
    mixed = mixed_keys(sims)
    rowstr = lambda mat: ';'.join(','.join(frac_str(x) for x in m) or '-' for m in mat)
    try:
        red = reduce_impl(sims, use_mean, bounds, quantiles)
    except ValueError as e:
        lens = {len(s) for s in sims}
        if not mixed and len(lens) == 1:
            return f'reduce raised ValueError ({e}) although every series has {npts} points'
        key = mixed[0] if mixed else sorted(impl.flat_results(sims[0]))[0]
        mat = member_matrix(sims, key)
        ol = ctx.drive(DRIVER, [f'reduce asis {npts} {int(use_mean)} {barg} {qarg} {rowstr(mat)}'])[0]
        ctx.count('reduce_rejected')
        return None if ol == 'E:Value' else f'reduce of {key} (lengths {[len(m) for m in mat]}, sim has {npts} points): impl raised ValueError, model {ol}'
    if mixed:
        return f'reduce succeeded although {mixed[0]} has another length than the sim ({npts} points); the model (asis) predicts ValueError'
    md = red.pop('__metadata__')
    keys = [kk for kk in sorted(red) if all(np.all(np.isfinite(v)) for v in member_matrix(sims, kk))]
    keys = ctx.rng.sample(keys, min(max_keys, len(keys)))
    lines = [f'reduceargs {barg} {qarg}'] + [f'reduce asis {npts} {int(use_mean)} {barg} {qarg} {rowstr(member_matrix(sims, key))}' for key in keys]
    outl = ctx.drive(DRIVER, lines)
    al = outl[0]
    if not al.startswith('ok '):
        return f'reduceargs: model answered {al}'
    k, qlo, qhi = (F(x) for x in al.split()[1:])
    # the argument values the code actually used (it records them in the reduced sim's metadata) vs the model's
    if use_mean:
        if md.get('bounds') is None or float(md['bounds']) != float(k):
            return f"reduce(bounds={bounds!r}): the code used bounds={md.get('bounds')!r}, the model {float(k)}"
    else:
        mq = md.get('quantiles') or {}
        if float(mq.get('low', -1)) != float(qlo) or float(mq.get('high', -1)) != float(qhi):
            return f"reduce(quantiles={quantiles!r}): the code used {mq!r}, the model ({float(qlo)}, {float(qhi)})"
    ctx.count('reduce_args_checked')
    for key, ol in zip(keys, outl[1:]):
        if not ol.startswith('ok'):
            return f'reduce {key}: model answered {ol}'
        bands = [] if ol == 'ok -' else [tuple(parse_rat(x) for x in b.split(',')) for b in ol[3:].split(';')]
        c, lo, hi = red[key]
        mat = member_matrix(sims, key)
        if len(bands) != len(c):
            return f'reduce {key}: {len(c)} time points in the code, {len(bands)} in the model'
        for t, (mc, mlo, mhi, mvar) in enumerate(bands):
            scale = max(abs(float(m[t])) for m in mat)
            if not close(c[t], mc, scale):
                return f'reduce {key}[{t}] centre impl={c[t]!r} model={float(mc)!r} (use_mean={use_mean})'
            ctx.count('reduce_exact' if F(float(c[t])) == mc else 'reduce_within_tol')
            if use_mean:
                sd = math.sqrt(float(mvar))
                elo, ehi = float(mc) - float(k) * sd, float(mc) + float(k) * sd
                tol = STD_RTOL * max(1.0, scale)
                if abs(lo[t] - elo) > tol or abs(hi[t] - ehi) > tol:
                    return f'reduce {key}[{t}] mean bounds impl=({lo[t]!r},{hi[t]!r}) model=({elo!r},{ehi!r}) k={float(k)}'
                if mlo != mc - k * mvar or mhi != mc + k * mvar:
                    return f'reduce {key}[{t}] model band inconsistent'
            else:
                if not close(lo[t], mlo, scale) or not close(hi[t], mhi, scale):
                    return f'reduce {key}[{t}] quantile bounds impl=({lo[t]!r},{hi[t]!r}) model=({float(mlo)!r},{float(mhi)!r}) q=({float(qlo)},{float(qhi)})'
            ctx.count('reduce_points')
    return None


def correspond_diff_npts(ctx):
    """ members on different time lines: reduce is rejected by the code and by the model (both variants) """
    cfg = small_cfg(ctx.rng)
    cfg = dict(cfg, demographics=[], unit='year', dt=1.0, start=2000)
    c1 = dict(cfg, dur=4.0); c2 = dict(cfg, dur=6.0)
    sc = dict(cfgs=[c1, c2], members=[dict(cfg=0, seed=5), dict(cfg=1, seed=6), dict(cfg=0, seed=7)], target='list', api='multi_run', mode='serial',
              n_cpus=None, n_runs=1, reseed=None, iterpars=None, sim_args=None, inplace=False, do_run=True, preinit=False, shrink=None)
    out = run_impl(sc)
    if out['error']:
        return f"harness: could not run the members: {out['error']}"
    for order in ([0, 1, 2], [1, 0, 2]):
        sims = [out['objs'][i] for i in order]
        d = correspond_reduce(ctx, sc, sims, (False, None, None))
        if d: return d
        try:
            reduce_impl(sims, True, None, None)
            return 'reduce of members with different numbers of time points returned a result; the model rejects it'
        except ValueError:
            pass
    return None


def correspond_summarize(ctx, sims):
    """ MultiSim.summarize(method, how) under a short history of `how` values, and msim.summary after mean() / median(), against
        the model evaluated on the members' SERIES (exact rationals): Model simSummary / msimSummarize / reducedSummary """
    import starsim as ss
    if mixed_keys(sims): return None
    with quiet():
        m = ss.MultiSim(sims=list(sims))
    flats = [impl.flat_results(s) for s in sims]
    keys = summary_keys(flats)
    keys = ctx.rng.sample(sorted(keys), min(3, len(keys)))
    # make sure a key of every rule of the table is among them when there is one
    for pref in ('cum_', 'n_'):
        cand = [k for k in sorted(summary_keys(flats)) if pref in k]
        if cand and not any(pref in k for k in keys): keys.append(ctx.rng.choice(cand))
    rowstr = lambda k: ';'.join(','.join(frac_str(x) for x in f[k]) for f in flats)
    lines = []; impl_res = []
    history = ['default', ctx.rng.choice(['last', 'median', 'mean']), 'default']
    for hi, how in enumerate(history):
        for method in (('mean', 'all', 'median') if hi == 0 else ('mean', 'all')):
            try:
                with quiet():
                    s = m.summarize(method=method, how=how)
                err = None
            except Exception as e:
                s = None; err = err_name(e)
            for k in keys:
                lines.append(f'msummarize asis {method} 1/2,0,1,1/4,3/4 {how} {k} {rowstr(k)}')
                impl_res.append((f'{method},how={how},call {hi + 1} of {history}', method, k, s[k] if s is not None else None, err,
                                 [float(max(abs(x) for x in f[k])) for f in flats]))
    outl = ctx.drive(DRIVER, lines) if lines else []
    for (tag, method, k, val, err, mags), ol in zip(impl_res, outl):
        scale = max(mags)
        if ol.startswith('E:'):
            kind = ERR_KIND.get(err, f'E:Other({err})') if err else 'ok'
            if kind != ol:
                return f'summarize({tag}) {k}: impl={kind} model={ol}'
            continue
        if err:
            return f'summarize({tag}) {k}: impl raised {err}, model={ol}'
        if not ol.startswith('ok'):
            return f'summarize({tag}) {k}: model answered {ol}'
        parts = dict(p.split('=', 1) for p in ol.split()[1:])
        if method == 'mean':
            mu, var, sem2 = F(parts['mean']), F(parts['var']), F(parts['sem2'])
            if not close(val['mean'], mu, scale): return f'summarize({tag}) {k}: mean impl={val["mean"]} model={float(mu)}'
            if abs(float(val['std']) - math.sqrt(float(var))) > STD_RTOL * max(1, scale): return f'summarize({tag}) {k}: std impl={val["std"]} model sqrt({float(var)})'
            if abs(float(val['sem']) - math.sqrt(float(sem2))) > STD_RTOL * max(1, scale): return f'summarize({tag}) {k}: sem impl={val["sem"]} model sqrt({float(sem2)})'
        elif method == 'all':
            mv = [F(x) for x in parts['all'].split(',')]
            got = np.asarray(val).tolist()
            if len(got) != len(mv) or not all(close(x, v, scale) for x, v in zip(got, mv)): return f'summarize({tag}) {k}: impl={val} model={[float(v) for v in mv]}'
        ctx.count('summarize_checks')
    # the summary of the reduced MultiSim
    red = {}
    for um in (True, False):
        with quiet():
            m2 = ss.MultiSim(sims=list(sims))
            m2.mean() if um else m2.median()
        red[um] = m2
    outl = ctx.drive(DRIVER, [f'rsummary {int(um)} none none {k} {rowstr(k)}' for um in (True, False) for k in keys])
    for (um, k), ol in zip([(um, k) for um in (True, False) for k in keys], outl):
        if not ol.startswith('ok '):
            return f'summary after reduce {k}: model answered {ol}'
        want = F(ol.split()[1])
        scale = max(float(max(abs(x) for x in f[k])) for f in flats)
        for name, summ in (('msim.summary', red[um].summary), ('msim.base_sim.summary', red[um].base_sim.summary)):
            got = summ.get(k)
            if not is_num(got) or not close(got, want, scale):
                return f"after {'mean' if um else 'median'}() {name}[{k}] impl={got!r} model={float(want)!r}"
        ctx.count('reduced_summary_checks')
    return None


def host_line(sc, out, sched):
    """ the driver line of the host-state model for this scenario (None: outside its scope) """
    if sc['api'] == 'initrun' or sc['mode'] == 'debug' or out['error'] or not sc.get('do_run', True): return None
    if sc.get('iterpars') or sc.get('sim_args') or any(m.get('alias') is not None for m in sc['members']): return None
    ini = lambda m: m['seed'] if sc.get('preinit') else 'none'
    if sc['target'] == 'single':
        b = sc['members'][0]; ms = [b] * n_tasks(sc); rs = True if sc.get('reseed') is None else sc['reseed']
        if pool_shape(sc)[1] > 1 and sc['mode'] == 'parallel': return None
    else:
        ms = sc['members']; rs = False if sc.get('reseed') is None else sc['reseed']
    mstr = ','.join(f"{m['cfg']}:{m['seed']}:{ini(m)}:0" for m in ms) or '-'
    h = int(sc.get('host') or 0)
    if sc['mode'] == 'parallel':
        return f"grun {mstr} {int(rs)} 1 private {','.join(f'{w}:{i}' for w, i in sched) or '-'} {','.join(str((h + 17 * w) % 1000) for w in range(8))}"
    return f'gserial {mstr} {int(rs)} 1 {h % 1000}'


def correspond_host(ctx, sc, out, line, ol):
    """ The model whose runs READ the hosting process's global generators (singleRunG / execParG / execSerialG), given the
        observed schedule and arbitrary initial worker states: where it says a member's steps started from the generators
        freshly seeded with its own seed (`S<eff>`), the real member -- run while the real process-global generators were in
        the state sc['host'] (inherited by forked workers, handed on from member to member) -- must be the standalone run. """
    h = int(sc.get('host') or 0)
    if not ol.startswith('ok '):
        return f'host-state model answered {ol} for `{line}` although the real run succeeded'
    toks = ol[3:].split(',')
    if len(toks) != len(out['sims']):
        return f"host-state model: {len(toks)} members, impl {len(out['sims'])}"
    for i, (tok, o) in enumerate(zip(toks, out['sims'])):
        c, sd, eff, g = tok.split(':')
        if int(sd) != o['seed']:
            return f"host-state model: member {i} rand_seed model={sd} impl={o['seed']}"
        if g.startswith('S'):
            if int(g[1:]) != int(eff):
                return f'host-state model: member {i} stepped from generators seeded {g[1:]}, distributions seeded {eff}'
            cfg = sc['cfgs'][int(c)]
            same, why = impl.arrays_equal(o['flat'], standalone(cfg, int(eff)))
            if not same:
                cl = classify(cfg, int(eff))
                if cl == 'nondet':
                    ctx.count('skipped_global_reader'); continue
                return (f"member {i}: the model says its steps start from the global generators freshly seeded with {eff} whatever the worker held (host state {h}), "
                        f"but it differs from the standalone run: {why}" + (f' ({HOST_MSG})' if cl == 'host' else ''))
            ctx.count('host_frame_members')
        else:
            ctx.count('model_host_dependent_members')
    return None


# ---------------------------------------------------------------------------

def correspond(ctx):
    import starsim as ss
    facts = ctx.extracted.get('RunFacts', {}).get('facts') or {}
    # runtime cross-check of extracted defaults against the imported module
    import inspect
    sig = inspect.signature(ss.single_run)
    if sig.parameters['ind'].default != 0 or sig.parameters['reseed'].default is not True:
        ctx.broke('extract', 'RunFacts', 'single_run defaults differ from the extracted facts')
    if facts.get('summarize_how') is not None and [tuple(x) for x in facts['summarize_how']] != DEFAULT_HOW:
        ctx.broke('extract', 'RunFacts', f"Sim.summarize: the default how table {facts['summarize_how']} differs from the one the oracle's reference uses {DEFAULT_HOW}")
    # pool chunk formula: model vs CPython
    lines = [f'chunk {n} {w}' for n in range(1, 40) for w in (1, 2, 3, 4, 16)]
    outl = ctx.drive(DRIVER, lines)
    for ln, ol in zip(lines, outl):
        _, n, w = ln.split(); n = int(n); w = int(w)
        c, e = divmod(n, 4 * w); c += 1 if e else 0
        if ol != f'ok {c}':
            ctx.broke('correspondence', 'C18.chunk', f'pool chunk size: model {ol} vs CPython formula {c} for n={n} workers={w}')
            break
    nsc = ctx.budget(10, 100)
    scenarios = [gen_scenario(ctx.rng, ctx.thorough) for _ in range(nsc)]
    # fixed families that must always be exercised
    scenarios += fixed_families(ctx.rng, ctx.thorough)
    P = lambda **f: gen_scenario(ctx.rng, ctx.thorough, dict(dict(iterpars=None, sim_args=None, reseed=None, shrink=None), **f))
    # the recorded defects, as the model (asis) predicts them
    scenarios += [P(target='single', mode='parallel', n_cpus=1, api='multi_run', n_runs=6),
                  P(target='single', mode='parallel', n_cpus=1, api='multi_run', n_runs=6, do_run=False),
                  P(target='single', mode='parallel', n_cpus=1, api='initrun', n_runs=6),
                  P(target='single', mode='serial', api='multi_run', n_runs=3, preinit=True),
                  # the same object twice within one Pool.map chunk (5 entries on one worker: chunks of 2)
                  P(target='list', mode='parallel', n_cpus=1, api='multi_run',
                    members=[dict(cfg=0, seed=31), dict(cfg=0, seed=31, alias=0), dict(cfg=0, seed=32), dict(cfg=0, seed=33), dict(cfg=0, seed=34)])]
    n_reduce = 0
    # pass 1: the real code; pass 2: ONE driver call for all scenarios (pure model + host-state model), then the comparisons
    records = []
    for sc in scenarios:
        try:
            out = run_impl(sc)
        except Exception as e:
            ctx.broke('correspondence', 'C18.run', f'harness raised {type(e).__name__}: {e}', data=dict(kind='scenario', scenario=sc))
            continue
        sched, nworkers = observed_schedule(sc, out)
        workers, chunk = pool_shape(sc)
        if nworkers is not None:
            ctx.count('observed_schedules')
            ctx.count('observed_out_of_order', int([i for _, i in sched] != sorted(i for _, i in sched)))
            ctx.count('observed_multi_worker', int(nworkers > 1))
            if nworkers > workers:
                ctx.broke('correspondence', 'C18.workers', f'{nworkers} worker processes observed, pool of {workers} expected', data=dict(kind='scenario', scenario=sc))
        records.append((sc, out, sched, chunk, model_line(sc, sched, chunk), host_line(sc, out, sched)))
    lines = []
    for rec in records:
        lines += [rec[4], rec[5] or 'chunk 1 1']
    outl = ctx.drive(DRIVER, lines) if lines else []
    want = []
    for ri, (sc, out, sched, chunk, mline, hline) in enumerate(records):
        pm = parse_model(outl[2 * ri]) if outl[2 * ri] != 'bad-op' else {}
        for name in ('sims', 'callers'):
            want += [(sc['cfgs'][p_['cfg']], p_['eff']) for p_ in (pm.get(name) or []) if p_['eff'] is not None and p_['cfg'] < len(sc['cfgs'])]
    try:
        prefetch(want)
    except RuntimeError as e:
        ctx.count('prefetch_errors')
    for ri, (sc, out, sched, chunk, mline, hline) in enumerate(records):
        ml, hl = outl[2 * ri], outl[2 * ri + 1]
        if ml == 'bad-op':
            ctx.broke('correspondence', 'C18.run', 'model rejected the scenario line', data=dict(kind='scenario', scenario=sc, line=mline))
            continue
        model = parse_model(ml)
        div = compare_outcome(sc, out, model)
        nt = n_tasks(sc)
        ctx.case(('run', canon(sc)), nontrivial=(nt >= 2 and not model.get('error')),
                 sample=dict(kind='scenario', api=sc['api'], target=sc['target'], mode=sc['mode'], n_cpus=sc['n_cpus'], n=nt,
                             schedule=sched, model=ml[:200]))
        ctx.count('mode_' + sc['mode']); ctx.count('api_' + sc['api']); ctx.count('target_' + sc['target'])
        if model.get('error'): ctx.count('model_' + model['error'])
        if div == 'SKIP-global-reader':
            ctx.count('skipped_global_reader')
            continue
        if div:
            ctx.broke('correspondence', 'C18.run', f'MultiSim/multi_run diverges from Model/MultiRun.lean: {div}',
                      data=dict(kind='scenario', scenario=sc, model=ml, schedule=sched))
            break
        div = correspond_host(ctx, sc, out, hline, hl) if hline else None
        if div:
            ctx.broke('correspondence', 'C18.host', f'runs reading the hosting process\'s global generators diverge from Model/MultiRun.lean (execParG/execSerialG): {div}',
                      data=dict(kind='scenario', scenario=sc, schedule=sched))
            break
        # reduce / summarize on members that share a configuration
        sims = shared_cfg_members(sc, out)
        if sims is not None and n_reduce < ctx.budget(6, 40):
            n_reduce += 1
            opts = gen_reduce_opts(ctx.rng)
            try:
                d = correspond_reduce(ctx, sc, sims, opts)
                if d is None and n_reduce == 1:      # explicit arguments at their boundary values, every run
                    for bo in BOUNDARY_OPTS:
                        d = d or correspond_reduce(ctx, sc, sims, bo, max_keys=2)
                        opts = bo if d else opts
                        if d: break
                if d is None and n_reduce <= ctx.budget(3, 20):
                    d = correspond_summarize(ctx, sims)
            except impl_errors() as e:
                d = f'harness raised {type(e).__name__}: {e}'
            ctx.case(('reduce', canon(sc), repr(opts)), nontrivial=True)
            if d:
                ctx.broke('correspondence', 'C18.reduce', f'reduced statistics diverge from the model: {d}',
                          data=dict(kind='reduce', scenario=sc, opts=list(opts)))
                break
    if not any(b['kind'] == 'correspondence' for b in ctx.broken):
        correspond_extra(ctx)


def correspond_extra(ctx):
    d = correspond_diff_npts(ctx)
    ctx.case(('reduce-different-npts',), nontrivial=True)
    if d:
        ctx.broke('correspondence', 'C18.reduce', f'members with different time lines: {d}', data=dict(kind='diff-npts'))


def impl_errors():
    return (Exception,)


# ---------------------------------------------------------------------------
# oracle on the real code (no model)

def expected_members(sc):
    """ what the property demands: [(cfg id, seed)] per member """
    sa = sc.get('sim_args') or {}
    if sc['target'] == 'single':
        base = sc['members'][0]
        ip = ip_norm(sc.get('iterpars')) or {}
        n = n_tasks(sc)
        rs = True if sc.get('reseed') is None else sc['reseed']
        res = []
        for i in range(n):
            seed = base['seed'] + i if rs else base['seed']
            cfg = base['cfg']
            if sa.get('seed') is not None: seed = sa['seed']
            if sa.get('n_agents') is not None: cfg = sa['cfg_id']
            if ip.get('seeds') is not None: seed = ip['seeds'][i]
            if ip.get('n_agents') is not None: cfg = ip['cfg_ids'][i]
            res.append((cfg, seed))
        return res
    rs = False if sc.get('reseed') is None else sc['reseed']
    return [(sa['cfg_id'] if sa.get('n_agents') is not None else m['cfg'],
             sa['seed'] if sa.get('seed') is not None else m['seed'] + (i if rs else 0)) for i, m in enumerate(sc['members'])]


def q_ref(vals, q):
    """ independent exact reference of NumPy's linear-interpolation quantile """
    s = sorted(vals); n = len(s)
    idx = q * (n - 1)
    lo = math.floor(idx); hi = min(lo + 1, n - 1)
    return s[lo] + (s[hi] - s[lo]) * (idx - lo)


def oracle_scenario(sc, rng=None, with_reduce=True):
    """ The property on the real code. Returns a list of failures dict(signature, what) """
    fails = []
    out = run_impl(sc)
    workers, chunk = pool_shape(sc)
    chunked = bool(sc['target'] == 'single' and sc['mode'] == 'parallel' and chunk > 1)
    desc = (f"{sc['api']}({sc['target']}, n={n_tasks(sc)}, mode={sc['mode']}, n_cpus={sc['n_cpus']}, reseed={sc.get('reseed')}, iterpars={ip_desc(sc.get('iterpars'))}, "
            f"sim_args={bool(sc.get('sim_args'))}, shrink={sc.get('shrink')}, inplace={sc['inplace']}, own_people={[int(bool(c.get('own_people'))) for c in sc['cfgs']]})")
    if out['error']:
        fails.append(dict(signature=dict(oracle='multirun-raises', mode=sc['mode'], error=out['error'], chunked=chunked, target=sc['target']),
                          what=f"{desc} raised {out['error']}: {out['message']}"))
        return fails, out
    exp = expected_members(sc)
    if sc.get('do_run', True): prefetch([(sc['cfgs'][c], sd) for c, sd in exp])
    if len(out['sims']) != len(exp):
        fails.append(dict(signature=dict(oracle='member-count'), what=f"{desc}: {len(out['sims'])} members returned, {len(exp)} expected"))
        return fails, out
    do_run = sc.get('do_run', True)

    def check(obs, cfg_id, seed, where, kind):
        cfg = sc['cfgs'][cfg_id]
        if obs['seed'] != seed:
            fails.append(dict(signature=dict(oracle=kind, what='seed', chunked=chunked, do_run=do_run, preinit=bool(sc.get('preinit'))),
                              what=f"{desc}: {where} has rand_seed {obs['seed']}, the property demands {seed}"))
            return
        if not do_run:
            return
        if obs['flat'] is None:
            fails.append(dict(signature=dict(oracle=kind, what='not-run'), what=f'{desc}: {where} has no results'))
            return
        same, why = impl.arrays_equal(obs['flat'], standalone(cfg, seed))
        if not same:
            cl = classify(cfg, seed)
            if cl == 'ok':
                fails.append(dict(signature=dict(oracle=kind, what='results', preinit=bool(sc.get('preinit')), mode=sc['mode']),
                                  what=f"{desc}: {where} differs from the standalone run with seed {seed}: {why}"))
            elif cl == 'host':
                fails.append(dict(signature=dict(oracle=kind, what='results-host-state', preinit=bool(sc.get('preinit')), own_people=bool(cfg.get('own_people'))),
                                  what=f"{desc}: {where} differs from the standalone run with seed {seed}: {why}; {HOST_MSG}"))

    for i, (o, (c, s)) in enumerate(zip(out['sims'], exp)):
        check(o, c, s, f'member {i}', 'member-vs-standalone')
    # returned members are in member order: an unlabelled member i comes back labelled 'Sim i'
    if not fails and not any(m.get('alias') is not None for m in sc['members']):
        labels = [o['label'] for o in out['sims']]
        if labels != [f'Sim {i}' for i in range(len(labels))]:
            fails.append(dict(signature=dict(oracle='label-order'), what=f"{desc}: returned members are labelled {labels}, expected Sim 0..{len(labels) - 1} in order"))
    if len({o['oid'] for o in out['sims']}) != len(out['sims']) and not fails:
        fails.append(dict(signature=dict(oracle='member-aliasing', chunked=chunked), what=f'{desc}: two returned members are the same object'))
    # in-place hand-over
    if sc['api'] != 'multi_run' and sc['target'] == 'list':
        aliased = any(m.get('alias') is not None for m in sc['members'])
        if sc['inplace'] and aliased:
            pass    # one object at several positions cannot hold several results: nothing to demand
        elif sc['inplace']:
            for i, (o, (c, s)) in enumerate(zip(out['callers'], exp)):
                check(o, c, s, f"caller's sim {i} (inplace=True)", 'inplace')
        elif sc['mode'] != 'debug':
            for i, (o, m) in enumerate(zip(out['callers'], sc['members'])):
                if o['flat'] is not None or o['seed'] != m['seed']:
                    fails.append(dict(signature=dict(oracle='inplace', what='modified-without-inplace'),
                                      what=f"{desc}: caller's sim {i} was modified although inplace=False"))
    if sc['target'] == 'single':
        o = out['callers'][0]
        if o['flat'] is not None or o['seed'] != sc['members'][0]['seed']:
            fails.append(dict(signature=dict(oracle='inplace', what='base-sim-modified'), what=f'{desc}: the base sim was modified'))
    # reduced statistics
    if with_reduce and do_run and not fails:
        sims = shared_cfg_members(sc, out)
        if sims is not None:
            fails += oracle_reduce(sims, rng, desc)
    return fails, out


def oracle_reduce(sims, rng, desc, opts=None, perm=None):
    import random
    rng = rng or random.Random(0)
    fails = []
    opts = opts or gen_reduce_opts(rng)
    use_mean, bounds, quantiles = opts
    k = 2 if bounds is None else bounds
    qlo, qhi = q_pair(quantiles)
    try:
        red = reduce_impl(sims, use_mean, bounds, quantiles)
    except Exception as e:
        mixed = mixed_keys(sims)
        return [dict(signature=dict(oracle='reduce', what='raises', error=err_name(e), mixed_lengths=bool(mixed)),
                     what=f'{desc}: reduce{opts} raised {err_name(e)}: {e}' + (f' (result {mixed[0]} has another length than the sim time vector)' if mixed else ''))]
    perm = perm or rng.sample(range(len(sims)), len(sims))
    red_p = reduce_impl([sims[j] for j in perm], use_mean, bounds, quantiles)
    red.pop('__metadata__', None); red_p.pop('__metadata__', None)
    for key in sorted(red):
        mat = member_matrix(sims, key)
        if not all(np.all(np.isfinite(m)) for m in mat): continue
        c, lo, hi = red[key]; cp, lop, hip = red_p[key]
        if len(c) != len(mat[0]):
            fails.append(dict(signature=dict(oracle='reduce', what='length'), what=f'{desc}: reduced {key} has {len(c)} points, members {len(mat[0])}')); break
        for t in range(len(c)):
            row = [F(float(m[t])) for m in mat]
            scale = max(1, max(abs(x) for x in row)); n = len(row)
            if use_mean:
                mu = sum(row) / n; var = sum((x - mu) ** 2 for x in row) / n; sd = math.sqrt(float(var))
                ok_c = abs(F(float(c[t])) - mu) <= F(RTOL) * scale
                ok_b = abs(lo[t] - (float(mu) - k * sd)) <= STD_RTOL * scale and abs(hi[t] - (float(mu) + k * sd)) <= STD_RTOL * scale
                ok_p = abs(c[t] - cp[t]) <= RTOL * scale and abs(lo[t] - lop[t]) <= STD_RTOL * scale and abs(hi[t] - hip[t]) <= STD_RTOL * scale
                names = ('mean', 'mean-bounds')
            else:
                ok_c = abs(F(float(c[t])) - q_ref(row, F(1, 2))) <= F(RTOL) * scale
                ok_b = (abs(F(float(lo[t])) - q_ref(row, F(float(qlo)))) <= F(RTOL) * scale and
                        abs(F(float(hi[t])) - q_ref(row, F(float(qhi)))) <= F(RTOL) * scale)
                ok_p = c[t] == cp[t] and lo[t] == lop[t] and hi[t] == hip[t]
                names = ('median', 'quantile-bounds')
            if not ok_c:
                fails.append(dict(signature=dict(oracle='reduce', stat=names[0]), what=f'{desc}: reduce{opts} {key}[{t}] = {c[t]!r} is not the {names[0]} of the members {[float(x) for x in row]}'))
            if not ok_b:
                fails.append(dict(signature=dict(oracle='reduce', stat=names[1]), what=f'{desc}: reduce{opts} {key}[{t}] bounds ({lo[t]!r}, {hi[t]!r}) are not the stated {names[1]} of the members {[float(x) for x in row]}'))
            if not ok_p:
                fails.append(dict(signature=dict(oracle='reduce', stat='permutation'), what=f'{desc}: reduce{opts} {key}[{t}] changes under the member permutation {perm}'))
            if fails: return fails
    return fails


def oracle_idempotent(sims, desc):
    """ mean()/median() twice give the same arrays; median after mean is the median; reducing does not touch the members """
    import starsim as ss
    fails = []
    before = [impl.flat_results(s) for s in sims]
    def arrays(m):
        return {k: (np.array(r.values if hasattr(r, 'values') else r, dtype=float), np.array(r.low, dtype=float), np.array(r.high, dtype=float))
                for k, r in m.results.items() if k != 'timevec'}
    def same(a, b):
        return a.keys() == b.keys() and all(all(np.array_equal(x, y, equal_nan=True) for x, y in zip(a[k], b[k])) for k in a)
    try:
        with quiet():
            m = ss.MultiSim(sims=list(sims))
            m.mean(); a1 = arrays(m); m.mean(); a2 = arrays(m)
            m.median(); b1 = arrays(m); m.median(); b2 = arrays(m)
            m2 = ss.MultiSim(sims=list(sims)); m2.median(); b0 = arrays(m2)
    except Exception as e:
        if mixed_keys(sims): return []
        return [dict(signature=dict(oracle='reduce-twice', what='raises', error=err_name(e)), what=f'{desc}: calling mean()/median() repeatedly raised {err_name(e)}: {e}')]
    if not same(a1, a2): fails.append(dict(signature=dict(oracle='reduce-twice', what='mean'), what=f'{desc}: mean() called twice gives different arrays'))
    if not same(b1, b2) or not same(b1, b0): fails.append(dict(signature=dict(oracle='reduce-twice', what='median'), what=f'{desc}: median() after mean() / called twice differs from a fresh median()'))
    after = [impl.flat_results(s) for s in sims]
    if not all(impl.arrays_equal(x, y)[0] for x, y in zip(before, after)):
        fails.append(dict(signature=dict(oracle='reduce-twice', what='members-modified'), what=f'{desc}: reduce modified the members'))
    return fails


# Sim.summarize: "the last entry for count and cumulative results, and the mean otherwise" -- the first entry whose key is a
# substring of the result key decides (pinned to the regenerated table by theorem C18_summarize_how_table)
DEFAULT_HOW = [('n_', 'mean'), ('new_', 'mean'), ('cum_', 'last'), ('timevec', 'last'), ('', 'mean')]


def how_func(key, how='default'):
    table = DEFAULT_HOW if how == 'default' else [('', how)]
    return next((f for h, f in table if h in key), 'mean')


def summary_ref(series, key, how='default'):
    """ independent exact reference of the summary number of ONE result series """
    vals = [F(float(x)) for x in series]
    f = how_func(key, how)
    if f == 'mean': return sum(vals) / len(vals)
    if f == 'last': return vals[-1]
    if f == 'median': return q_ref(vals, F(1, 2))
    raise ValueError(f)


def summary_keys(flats):
    ks = []
    for k in flats[0]:
        if 'timevec' in k: continue
        if all(k in f and np.ndim(f[k]) == 1 and len(f[k]) > 0 and np.asarray(f[k]).dtype.kind in 'fiub' and np.all(np.isfinite(np.asarray(f[k], dtype=float))) for f in flats):
            ks.append(k)
    return ks


def is_num(x):
    return isinstance(x, (int, float, np.integer, np.floating)) and np.isfinite(float(x))


def oracle_reduce_summary(sims, rng, desc, opts=None, perm=None):
    """ After reduce()/mean()/median() the MultiSim's summary (msim.summary, msim.base_sim.summary) is a reduced statistic too:
        it must be the summary of the reduced series (re-derived here from the MEMBERS: exact mean/median per time point, then
        the summary rule), and it must not depend on the order of the members. """
    import starsim as ss, random
    rng = rng or random.Random(0)
    if mixed_keys(sims): return []
    opts = opts or gen_reduce_opts(rng)
    use_mean, bounds, quantiles = opts
    perm = perm or rng.sample(range(len(sims)), len(sims))
    if perm == sorted(perm): perm = perm[1:] + perm[:1]
    def red(ss_):
        with quiet():
            m = ss.MultiSim(sims=list(ss_))
            if use_mean: m.mean(bounds=bounds)
            else: m.median(quantiles=quantiles)
        return m
    try:
        m = red(sims); mp_ = red([sims[j] for j in perm])
    except Exception as e:
        return [dict(signature=dict(oracle='reduce-summary', what='raises', error=err_name(e)), what=f'{desc}: reduce{opts} raised {err_name(e)}: {e}')]
    flats = [impl.flat_results(s) for s in sims]
    fails = []
    which = 'mean' if use_mean else 'median'
    for key in summary_keys(flats):
        n = len(flats[0][key])
        rows = [[F(float(f[key][t])) for f in flats] for t in range(n)]
        centre = [sum(r) / len(r) if use_mean else q_ref(r, F(1, 2)) for r in rows]
        want = summary_ref(centre, key)
        scale = max(1, max(abs(x) for r in rows for x in r))
        for name, summ in (('msim.summary', m.summary), ('msim.base_sim.summary', getattr(m.base_sim, 'summary', None))):
            got = summ.get(key) if summ is not None else None
            if not is_num(got) or abs(F(float(got)) - want) > F(RTOL) * scale:
                fails.append(dict(signature=dict(oracle='reduce-summary', what='value', stat=which),
                                  what=f'{desc}: after {which}() {name}[{key!r}] = {got!r}, but the {how_func(key)} of the {which} series of the members is {float(want)!r} '
                                       f'(member 0 alone: {float(summary_ref(flats[0][key], key))!r})'))
                return fails
        gp = mp_.summary.get(key)
        if not is_num(gp) or abs(float(gp) - float(m.summary[key])) > RTOL * float(scale):
            fails.append(dict(signature=dict(oracle='reduce-summary', what='permutation', stat=which),
                              what=f'{desc}: after {which}() msim.summary[{key!r}] = {m.summary[key]!r} becomes {gp!r} when the members are given in the order {perm}'))
            return fails
    return fails


SUMMARIZE_HOWS = ['default', 'last', 'mean', 'median']


def oracle_summarize(sims, desc, rng=None, history=None):
    """ MultiSim.summarize(method, how) is the stated statistic of the members' summary numbers, each re-derived here from the
        member's result series -- for every `how`, and whatever was asked for before (a history of calls on one MultiSim) """
    import starsim as ss, random
    rng = rng or random.Random(0)
    fails = []
    with quiet():
        m = ss.MultiSim(sims=list(sims))
    flats = [impl.flat_results(s) for s in sims]
    keys = summary_keys(flats)
    history = history or (['default'] + rng.sample(SUMMARIZE_HOWS[1:], 2) + ['default'])
    calls = [(how, method) for i, how in enumerate(history) for method in (('mean', 'median', 'all') if i == 0 else (rng.choice(['mean', 'all']),))]
    for ci, (how, method) in enumerate(calls):
        hist = f'call {ci + 1} of the history {[h for h, _ in calls]}'
        try:
            with quiet():
                s = m.summarize(method=method, how=how)
        except Exception as e:
            fails.append(dict(signature=dict(oracle='summarize', method=method, error=err_name(e)),
                              what=f'{desc}: MultiSim.summarize(method={method!r}) raised {err_name(e)}: {str(e)[:120]}'))
            continue
        for k in keys:
            vals = [summary_ref(f[k], k, how) for f in flats]
            scale = max(1, max(abs(v) for v in vals)); n = len(vals)
            mu = sum(vals) / n; var = sum((x - mu) ** 2 for x in vals) / n
            if method == 'mean':
                ok = (abs(F(float(s[k]['mean'])) - mu) <= F(RTOL) * scale and abs(float(s[k]['std']) - math.sqrt(float(var))) <= STD_RTOL * scale
                      and abs(float(s[k]['sem']) - math.sqrt(float(var) / n)) <= STD_RTOL * scale)
            elif method == 'all':
                got = np.asarray(s[k]).tolist()
                ok = len(got) == n and all(abs(F(float(x)) - v) <= F(RTOL) * scale for x, v in zip(got, vals))
            else:
                q = s[k]
                ok = all(abs(F(float(q[name])) - q_ref(vals, F(lvl))) <= F(RTOL) * scale
                         for name, lvl in (('median', .5), ('min', 0), ('max', 1), ('q25', .25), ('q75', .75)))
            if not ok:
                fails.append(dict(signature=dict(oracle='summarize', method=method, what='value'),
                                  what=f'{desc}: summarize(method={method!r}, how={how!r}) of {k} = {s[k]} ({hist}) is not the statistic of the members\' '
                                       f'{how_func(k, how)} values {[float(v) for v in vals]}'))
                break
        if any(f['signature'].get('what') == 'value' for f in fails): break
    return fails


def oracle_permutation(sc):
    """ a list run in a permuted order returns the permuted members """
    import random
    if sc['target'] != 'list' or len(sc['members']) < 2: return []
    if any(m.get('alias') is not None for m in sc['members']): return []
    if sc.get('reseed'): return []   # an explicitly reseeded list gets seed + position: position dependent by definition
    rng = random.Random(len(canon(sc)))
    perm = rng.sample(range(len(sc['members'])), len(sc['members']))
    sc2 = dict(sc, members=[sc['members'][j] for j in perm], mode='serial' if sc['mode'] == 'debug' else sc['mode'])
    a = run_impl(dict(sc, mode=sc2['mode'])); b = run_impl(sc2)
    if a['error'] or b['error']: return []
    for pos, j in enumerate(perm):
        x, y = a['sims'][j], b['sims'][pos]
        if x['seed'] != y['seed'] or (x['flat'] is None) != (y['flat'] is None) or (x['flat'] is not None and not impl.arrays_equal(x['flat'], y['flat'])[0]):
            cfg = sc['cfgs'][sc['members'][j]['cfg']]
            if not reproducible(cfg, x['seed']): continue
            return [dict(signature=dict(oracle='permutation', what='member'), what=f"{sc['api']}(list): member {j} changes when the list is given in the order {perm}")]
    return []


def known_probes(rng):
    """ fixed scenarios for the recorded defects (re-run on every check) """
    cfg = small_cfg(rng)
    base = dict(cfgs=[cfg], members=[dict(cfg=0, seed=cfg['rand_seed'])], reseed=None, iterpars=None, sim_args=None, shrink=None, inplace=True, do_run=True, preinit=False)
    two = dict(base, members=[dict(cfg=0, seed=11), dict(cfg=0, seed=12)])
    return [
        dict(two, target='list', api='MultiSim', mode='debug', n_cpus=None, n_runs=4),
        dict(base, target='single', api='MultiSim', mode='debug', n_cpus=None, n_runs=2),
        dict(base, target='single', api='multi_run', mode='parallel', n_cpus=1, n_runs=5),
        dict(base, target='single', api='multi_run', mode='parallel', n_cpus=1, n_runs=6, do_run=False),
        dict(base, target='single', api='multi_run', mode='serial', n_cpus=None, n_runs=3, preinit=True),
    ]


def search(ctx):
    n = ctx.budget(5, 50)
    scenarios = [gen_scenario(ctx.rng, ctx.thorough) for _ in range(n)]
    fam = [sc for sc in fixed_families(ctx.rng, ctx.thorough) if sc['mode'] != 'debug']
    scenarios += fam if (ctx.thorough or ctx.broken) else fam[:10] + [sc for sc in fam[10:] if sc.get('zoo')]
    did_sum = 0; did_boundary = False
    for i, sc in enumerate(scenarios):
        fails, out = oracle_scenario(sc, ctx.rng)
        ctx.count('oracle_scenarios')
        for f in fails:
            ctx.fail(f['signature'], f['what'], dict(kind='scenario', scenario=sc))
        if not fails and i % 3 == 0:
            for f in oracle_permutation(sc):
                ctx.fail(f['signature'], f['what'], dict(kind='permutation', scenario=sc))
        sims = shared_cfg_members(sc, out)
        if sims is not None and not did_boundary and not mixed_keys(sims):
            did_boundary = True
            for bo in BOUNDARY_OPTS:
                for f in oracle_reduce(sims, ctx.rng, f'MultiSim of {len(sims)} members', opts=bo):
                    ctx.fail(f['signature'], f['what'], dict(kind='reduce', scenario=sc, opts=list(bo)))
            for f in oracle_idempotent(sims, f'MultiSim of {len(sims)} members'):
                ctx.fail(f['signature'], f['what'], dict(kind='idempotent', scenario=sc))
        if sims is not None and did_sum < ctx.budget(2, 10) and not mixed_keys(sims):
            did_sum += 1
            # the summary a reduced MultiSim reports (mean and median), then summarize() under a history of `how` values
            for um in (True, False):
                opts = (um, None, None); perm = ctx.rng.sample(range(len(sims)), len(sims))
                for f in oracle_reduce_summary(sims, ctx.rng, f'MultiSim of {len(sims)} members', opts=opts, perm=perm):
                    ctx.fail(f['signature'], f['what'], dict(kind='reduce-summary', scenario=sc, opts=list(opts), perm=perm))
            history = ['default'] + ctx.rng.sample(SUMMARIZE_HOWS[1:], 2) + ['default']
            for f in oracle_summarize(sims, f"MultiSim of {len(sims)} members", ctx.rng, history=history):
                ctx.fail(f['signature'], f['what'], dict(kind='summarize', scenario=sc, history=history))
            ctx.count('summary_oracles')
    for sc in known_probes(ctx.rng):
        fails, _ = oracle_scenario(sc, ctx.rng, with_reduce=False)
        ctx.count('known_probes')
        for f in fails:
            ctx.fail(f['signature'], f['what'], dict(kind='scenario', scenario=sc))


def replay(ctx, data):
    kind = data.get('kind')
    sc = data.get('scenario')
    if kind == 'scenario':
        fails, _ = oracle_scenario(sc, ctx.rng)
        for f in fails: print('  ', f['what'][:300])
        return bool(fails)
    if kind == 'permutation':
        fails = oracle_permutation(sc)
        for f in fails: print('  ', f['what'][:300])
        return bool(fails)
    if kind in ('summarize', 'reduce', 'idempotent', 'reduce-summary'):
        out = run_impl(sc)
        sims = shared_cfg_members(sc, out)
        if sims is None: return False
        if kind == 'summarize': fails = oracle_summarize(sims, 'replay', ctx.rng, history=data.get('history'))
        elif kind == 'reduce-summary': fails = oracle_reduce_summary(sims, ctx.rng, 'replay', opts=tuple(data['opts']) if data.get('opts') else None, perm=data.get('perm'))
        elif kind == 'idempotent': fails = oracle_idempotent(sims, 'replay')
        else: fails = oracle_reduce(sims, ctx.rng, 'replay', opts=tuple(data['opts']) if data.get('opts') else None)
        for f in fails: print('  ', f['what'][:300])
        return bool(fails)
    return False
