"""
C07 — independent reference for timelines (fractions.Fraction + datetime only; no starsim, no sciris, no model).

Used by the search oracle of harness/props/c07.py on observations taken from the REAL code.  A specification is a
JSON-able dict with decimal strings for numbers ("0.1", "2000") and "Dyyyy-mm-dd" for dates; the reference reads the
decimals exactly (Fraction("0.1") == 1/10), i.e. it judges the code against what the user wrote.
"""
import datetime as dtm
from fractions import Fraction as F

UNIT_DAYS = dict(day=F(1), week=F(7), month=F('30.4375'), year=F('365.25'))     # cross-checked against ss.time.time_units at run time
EPS = F(1, 10**6)
TOL = 2 * EPS          # vectors are rounded to time_eps: allow one rounding on each side


def is_date(s):
    return isinstance(s, str) and s.startswith('D')


def to_date(s):
    y, m, d = (int(x) for x in s[1:].split('-'))
    return dtm.date(y, m, d)


def num(s):
    return F(s)


def leap(y):
    return y % 4 == 0 and (y % 100 != 0 or y % 400 == 0)


def year_len(y):
    return 366 if leap(y) else 365


def month_len(y, m):
    if m == 2: return 29 if leap(y) else 28
    return 30 if m in (4, 6, 9, 11) else 31


def date_to_year(d):
    """ exact decimal year of a calendar day """
    return F(d.year) + F((d - dtm.date(d.year, 1, 1)).days, year_len(d.year))


def year_to_day_exact(y):
    """ the instant `y` (decimal year) as an exact day number (ordinal of 1 Jan + fraction·yearlen) """
    full = int(y)   # y >= 1
    return dtm.date(full, 1, 1).toordinal() + (y - full) * year_len(full)


def floor_div(a, b):
    q = a / b
    return q.numerator // q.denominator


def round_half_even(q):
    fl = q.numerator // q.denominator
    r = q - fl
    if r < F(1, 2): return fl
    if r > F(1, 2): return fl + 1
    return fl if fl % 2 == 0 else fl + 1


class Obs:
    """ What was observed on a ss.Time object (all plain Python) """
    def __init__(self, d):
        self.__dict__.update(d)


def check_timeline(spec, o, who='sim'):
    """
    spec: dict(unit (canonical), start, stop (decimal strings or D-dates; the code's own resolved stop for date
          timelines), dt (decimal string), start_given)
    o:    Obs(npts, numeric, timevec, yearvec, datevec(list of date), tvec, reslens={name:len})
    Returns a list of failures: dict(signature, what)
    """
    fails = []
    def fail(oracle, cause, what):
        fails.append(dict(signature=dict(oracle=oracle, cause=cause), what=f'{who}: {what}'))

    unit = spec['unit']
    dunit = 'year' if unit == 'unitless' else unit
    dt = num(spec['dt'])
    n = o.npts
    # lengths
    for name, vec in (('yearvec', o.yearvec), ('datevec', o.datevec), ('tvec', o.tvec)) + ((('timevec', o.timevec),) if o.numeric else ()):
        if len(vec) != n:
            fail('vector-length', name, f'len({name})={len(vec)} but npts={n}')
    if fails:
        return fails
    if n == 0:
        # an empty timeline is the consistent answer exactly when the start lies after the stop
        a, b = spec['start'], spec['stop']
        after = (to_date(a) > to_date(b)) if (is_date(a) and is_date(b)) else (not is_date(a) and not is_date(b) and num(a) > num(b))
        if not after:
            fail('vector-length', 'empty', f'empty timeline although start={a} is not after stop={b}')
        for name, ln in sorted(o.reslens.items()):
            if ln != 0:
                fail('results-len', 'shape', f'result {name} has {ln} entries for 0 time points'); break
        return fails
    # a start that lies after the stop leaves no grid point: the consistent timeline is empty
    a_, b_ = spec['start'], spec['stop']
    if (is_date(a_) and is_date(b_) and to_date(a_) > to_date(b_)) or (not is_date(a_) and not is_date(b_) and num(a_) > num(b_)):
        first = o.datevec[0] if is_date(a_) else o.timevec[0]
        want = to_date(a_) if is_date(a_) else num(a_)
        single = (n == 1 and ((first == want) if is_date(a_) else abs(first - want) <= TOL))
        fail('grid-length', 'start-after-stop-single-point' if single else 'start-after-stop',
             f'start={a_} lies after stop={b_} but the timeline has {n} point(s), the first at {first}: no grid point is <= stop')
        return fails
    # elapsed time: tvec[i] = i*dt
    for i, t in enumerate(o.tvec):
        if abs(t - i * dt) > TOL:
            fail('tvec', 'not-i-times-dt', f'tvec[{i}]={float(t)} but i*dt={float(i*dt)} (dt={spec["dt"]})')
            break
    if o.numeric:
        start, stop = num(spec['start']), num(spec['stop'])
        # grid length
        if dt > 0 and stop >= start:
            q = (stop - start) / dt
            exp = floor_div(stop - start, dt) + 1
            if n != exp:
                cause = 'other'
                if q.denominator == 1 and n == exp - 1:
                    cause = 'float-quotient-below-integer'
                fail('grid-length', cause, f'start={spec["start"]} stop={spec["stop"]} dt={spec["dt"]}: npts={n}, but floor((stop-start)/dt)+1={exp}'
                     + (f' (the quotient is exactly {q}: the last point {float(start+q*dt)} = stop is missing)' if cause != 'other' else ''))
        # first point, spacing, monotone
        if abs(o.timevec[0] - start) > TOL:
            fail('first-point', 'numeric', f'timevec[0]={float(o.timevec[0])} but start={spec["start"]}')
        for i in range(n):
            if abs(o.timevec[i] - (start + i * dt)) > TOL:
                fail('spacing', 'numeric', f'timevec[{i}]={float(o.timevec[i])} but start+i*dt={float(start+i*dt)}')
                break
        if o.timevec[-1] > stop + TOL:
            fail('last-point', 'after-stop', f'timevec[-1]={float(o.timevec[-1])} is after stop={spec["stop"]}')
        # year representation: the start is a year (offset by the default start year when it is 0), steps are dt·unit
        ratio = UNIT_DAYS[dunit] / UNIT_DAYS['year']
        y0 = o.yearvec[0]
        for i in range(n):
            if abs(o.yearvec[i] - (y0 + i * dt * ratio)) > TOL:
                fail('representations', 'yearvec-spacing', f'yearvec[{i}]={float(o.yearvec[i])} but yearvec[0]+i*dt*{float(ratio):.6g}={float(y0+i*dt*ratio)}')
                break
        if start != 0 and abs(y0 - start) > TOL:
            fail('representations', 'yearvec-start', f'yearvec[0]={float(y0)} but the numeric start is {spec["start"]}')
    else:
        start, stop = to_date(spec['start']), to_date(spec['stop'])
        if o.datevec[0] != start:
            fail('first-point', 'date', f'datevec[0]={o.datevec[0]} but start={start}')
        if o.datevec[-1] > stop:
            fail('last-point', 'after-stop', f'datevec[-1]={o.datevec[-1]} is after stop={stop}')
        if dunit == 'year':
            ys, ye = date_to_year(start), date_to_year(stop)
            if dt > 0 and ye >= ys:
                q = (ye - ys) / dt
                exp = floor_div(ye - ys, dt) + 1
                if n != exp:
                    cause = 'float-quotient-below-integer' if (q.denominator == 1 and n == exp - 1) else 'other'
                    fail('grid-length', cause, f'start={start} stop={stop} dt={spec["dt"]} year(s): npts={n}, but floor((stop-start)/dt)+1={exp}')
            for i in range(n):
                if abs(o.yearvec[i] - (ys + i * dt)) > TOL:
                    fail('spacing', 'yearvec', f'yearvec[{i}]={float(o.yearvec[i])} but start+i*dt={float(ys+i*dt)}')
                    break
        else:
            tu = UNIT_DAYS[dunit]
            days = [(d - start).days for d in o.datevec]
            if dt.denominator == 1 and dunit in ('day', 'week'):
                k = int(dt) * int(tu)
                bad = [i for i in range(n) if days[i] != i * k]
                if bad:
                    fail('spacing', 'calendar-integer-dt', f'datevec[{bad[0]}]={o.datevec[bad[0]]} is {days[bad[0]]} days after start, expected {bad[0]*k}')
                exp = (stop - start).days // k + 1
                if n != exp and not bad:
                    fail('grid-length', 'calendar', f'{n} points, but {exp} steps of {k} days fit between {start} and {stop}')
            elif dt.denominator == 1:   # months
                k = int(dt)
                for i in range(1, n):
                    a, b = o.datevec[i - 1], o.datevec[i]
                    mi = a.year * 12 + a.month - 1 + k
                    ey, em = mi // 12, mi % 12 + 1
                    ed = min(a.day, month_len(ey, em))
                    if (b.year, b.month, b.day) != (ey, em, ed):
                        fail('spacing', 'calendar-month', f'datevec[{i}]={b} after {a}: expected {ey:04d}-{em:02d}-{ed:02d} ({k} month(s) later, day clipped)')
                        break
                # the next step would pass stop
                a = o.datevec[-1]
                mi = a.year * 12 + a.month - 1 + k
                ey, em = mi // 12, mi % 12 + 1
                nxt = dtm.date(ey, em, min(a.day, month_len(ey, em)))
                if nxt <= stop:
                    fail('grid-length', 'calendar', f'the timeline stops at {a} although the next point {nxt} is not after stop={stop}')
            else:
                # fractional dt: point i must lie on the calendar day of start + i·dt (to one day)
                step = dt * tu
                drift = [(abs(days[i] - i * step), i) for i in range(n)]
                worst, wi = max(drift)
                if worst > 1:
                    diffs = {days[i + 1] - days[i] for i in range(n - 1)}
                    const = len(diffs) == 1 and list(diffs)[0] == round_half_even(step) and step.denominator != 1
                    cause = 'constant-rounded-day-step' if const else 'other'
                    fail('date-vs-elapsed', cause, f'unit={unit} dt={spec["dt"]}: datevec[{wi}]={o.datevec[wi]} is {days[wi]} days after start while tvec[{wi}]={float(wi*dt)} {unit}(s) = {float(wi*step)} days'
                         + (f' (dates advance by a constant {list(diffs)[0]} days)' if const else ''))
                else:
                    nxt = round_half_even(n * step)
                    if (stop - start).days >= nxt + 1:
                        fail('grid-length', 'calendar', f'{n} points, but point {n} at day {nxt} would still be before stop')
            # strictly increasing dates
        for i in range(1, n):
            if not o.datevec[i] > o.datevec[i - 1]:
                fail('monotone', 'datevec', f'datevec[{i}]={o.datevec[i]} is not after datevec[{i-1}]={o.datevec[i-1]}')
                break
    # strictly increasing years
    for i in range(1, n):
        if not o.yearvec[i] > o.yearvec[i - 1]:
            fail('monotone', 'yearvec', f'yearvec[{i}]={float(o.yearvec[i])} is not after yearvec[{i-1}]')
            break
    # year <-> date: the same instant to one calendar day
    for i in range(n):
        y = o.yearvec[i]
        if y < 1: break
        inst = year_to_day_exact(y)
        if abs(inst - o.datevec[i].toordinal()) > 1:
            fail('representations', 'year-vs-date', f'yearvec[{i}]={float(y)} is day {float(inst):.2f} but datevec[{i}]={o.datevec[i]} is day {o.datevec[i].toordinal()}')
            break
    # one result entry per point
    for name, ln in sorted(o.reslens.items()):
        if ln != n:
            fail('results-len', 'shape', f'result {name} has {ln} entries for {n} time points')
            break
    return fails


def check_placement(sim_spec, so, mod_spec, mo, who='module'):
    """ The module's points on the sim's elapsed-time axis (sim units) must be where its calendar times say.
        Returns (fails, skipped_reason) """
    fails = []
    def fail(cause, what):
        fails.append(dict(signature=dict(oracle='placement', cause=cause), what=f'{who}: {what}'))
    if mo.abstvec is None or len(mo.abstvec) != mo.npts:
        fail('abstvec-length', f'abstvec has {None if mo.abstvec is None else len(mo.abstvec)} entries for {mo.npts} points')
        return fails, None
    su, mu = sim_spec['unit'], mod_spec['unit']
    n = mo.npts
    for i in range(1, n):
        if not mo.abstvec[i] > mo.abstvec[i - 1]:
            fail('monotone', f'abstvec[{i}]={float(mo.abstvec[i])} is not after abstvec[{i-1}]={float(mo.abstvec[i-1])}')
            return fails, None
    both_numeric = so.numeric and mo.numeric
    if both_numeric and su == mu:
        s0 = num(sim_spec['start'])
        for i in range(n):
            if abs(mo.abstvec[i] - (mo.timevec[i] - s0)) > TOL:
                fail('numeric-same-unit', f'abstvec[{i}]={float(mo.abstvec[i])} but timevec[{i}]-sim.start={float(mo.timevec[i]-s0)}')
                break
        return fails, None
    if both_numeric and su not in ('year', 'unitless') and num(sim_spec['start']) != num(mod_spec['start']):
        return fails, 'numeric starts differ in a sim whose unit is not the year: the offset has no unambiguous calendar meaning'
    if su in ('year', 'unitless'):
        for i in range(n):
            exp = mo.yearvec[i] - so.yearvec[0]
            if abs(mo.abstvec[i] - exp) > TOL:
                fail('year-sim', f'abstvec[{i}]={float(mo.abstvec[i])} years but yearvec[{i}]-sim.yearvec[0]={float(exp)}')
                break
        # and the years agree with the dates to ~a day
        for i in range(n):
            days = (mo.datevec[i] - so.datevec[0]).days
            if abs(mo.abstvec[i] * UNIT_DAYS['year'] - days) > 2:
                fail('year-sim-dates', f'abstvec[{i}]={float(mo.abstvec[i])} years = {float(mo.abstvec[i]*UNIT_DAYS["year"]):.2f} days but the dates are {days} days apart')
                break
    else:
        tu = UNIT_DAYS[su]
        for i in range(n):
            days = (mo.datevec[i] - so.datevec[0]).days
            if abs(mo.abstvec[i] - F(days) / tu) > TOL:
                fail('day-sim', f'abstvec[{i}]={float(mo.abstvec[i])} {su}(s) but {mo.datevec[i]} is {days} days = {float(F(days)/tu):.6f} {su}(s) after the sim start {so.datevec[0]}')
                break
    return fails, None
