"""
C07 — independent reference for timelines (fractions.Fraction + datetime only; no starsim, no sciris, no model).

Used by the search oracle of harness/props/c07.py on observations taken from the REAL code.  A specification is a
JSON-able dict with decimal strings for numbers ("0.1", "2000") and "Dyyyy-mm-dd" for dates; the reference reads the
decimals exactly (Fraction("0.1") == 1/10), i.e. it judges the code against what the user wrote.
"""
import datetime as dtm
from fractions import Fraction as F

UNIT_DAYS = dict(day=F(1), week=F(7), month=F('30.4375'), year=F('365.25'))     # cross-checked against ss.time.time_units at run time
EPS = F(1, 10**6)
TOL = 2 * EPS          # vectors are rounded to time_eps: allow one rounding on each side


def is_date(s):
    return isinstance(s, str) and s.startswith('D')


def to_date(s):
    y, m, d = (int(x) for x in s[1:].split('-'))
    return dtm.date(y, m, d)


def num(s):
    return F(s)


def leap(y):
    return y % 4 == 0 and (y % 100 != 0 or y % 400 == 0)


def year_len(y):
    return 366 if leap(y) else 365


def month_len(y, m):
    if m == 2: return 29 if leap(y) else 28
    return 30 if m in (4, 6, 9, 11) else 31


def date_to_year(d):
    """ exact decimal year of a calendar day """
    return F(d.year) + F((d - dtm.date(d.year, 1, 1)).days, year_len(d.year))


def year_to_day_exact(y):
    """ the instant `y` (decimal year) as an exact day number (ordinal of 1 Jan + fraction·yearlen) """
    full = int(y)   # y >= 1
    return dtm.date(full, 1, 1).toordinal() + (y - full) * year_len(full)


def floor_div(a, b):
    q = a / b
    return q.numerator // q.denominator


def float_quotient_below(start, stop, dt, q):
    """ Does the quotient (stop - start) / dt, computed in float64 from the floats nearest to the three numbers, really fall below
        the exact integer q?  Only then is a missing last point the recorded float-truncation defect; a point that is missing
        although the float quotient reaches q has some other cause """
    fq = (float(stop) - float(start)) / float(dt)
    return int(fq) < q


def float_truncation(spec, start, stop, dt, q, conv):
    """ Is a last point that is missing although (stop - start)/dt is exactly the integer q the recorded float-truncation defect?
        Only if the code still holds the stop that was asked for (spec['stop_resolved'], when the caller knows it: the same date /
        the same number up to float rounding, e.g. start + dur computed in floats) and the float quotient — taken with the
        requested or with the held stop — really falls below q.  A timeline whose held stop has moved, or that lacks a point
        although the float quotient reaches q, is short for some other reason """
    rs = spec.get('stop_resolved')
    if rs is None or is_date(rs) != is_date(spec['stop']):
        return float_quotient_below(start, stop, dt, q)
    held = conv(rs)
    if is_date(rs): same = to_date(rs) == to_date(spec['stop'])
    else: same = abs(held - stop) <= F(1, 10**9) * max(1, abs(stop))
    return same and (float_quotient_below(start, stop, dt, q) or float_quotient_below(start, held, dt, q))


def round_half_even(q):
    fl = q.numerator // q.denominator
    r = q - fl
    if r < F(1, 2): return fl
    if r > F(1, 2): return fl + 1
    return fl if fl % 2 == 0 else fl + 1


class Obs:
    """ What was observed on a ss.Time object (all plain Python) """
    def __init__(self, d):
        self.__dict__.update(d)


def check_timeline(spec, o, who='sim'):
    """
    spec: dict(unit (canonical), start, stop (decimal strings or D-dates; the code's own resolved stop for date
          timelines), dt (decimal string), start_given)
    o:    Obs(npts, numeric, timevec, yearvec, datevec(list of date), tvec, reslens={name:len})
    Returns a list of failures: dict(signature, what)
    """
    fails = []
    def fail(oracle, cause, what):
        fails.append(dict(signature=dict(oracle=oracle, cause=cause), what=f'{who}: {what}'))

    unit = spec['unit']
    dunit = 'year' if unit == 'unitless' else unit
    dt = num(spec['dt'])
    n = o.npts
    # lengths
    for name, vec in (('yearvec', o.yearvec), ('datevec', o.datevec), ('tvec', o.tvec)) + ((('timevec', o.timevec),) if o.numeric else ()):
        if len(vec) != n:
            fail('vector-length', name, f'len({name})={len(vec)} but npts={n}')
    if fails:
        return fails
    if n == 0:
        # an empty timeline is the consistent answer exactly when the start lies after the stop
        a, b = spec['start'], spec['stop']
        after = (to_date(a) > to_date(b)) if (is_date(a) and is_date(b)) else (not is_date(a) and not is_date(b) and num(a) > num(b))
        if not after:
            fail('vector-length', 'empty', f'empty timeline although start={a} is not after stop={b}')
        for name, ln in sorted(o.reslens.items()):
            if ln != 0:
                fail('results-len', 'shape', f'result {name} has {ln} entries for 0 time points'); break
        return fails
    # a start that lies after the stop leaves no grid point: the consistent timeline is empty
    a_, b_ = spec['start'], spec['stop']
    if (is_date(a_) and is_date(b_) and to_date(a_) > to_date(b_)) or (not is_date(a_) and not is_date(b_) and num(a_) > num(b_)):
        first = o.datevec[0] if is_date(a_) else o.timevec[0]
        want = to_date(a_) if is_date(a_) else num(a_)
        single = (n == 1 and ((first == want) if is_date(a_) else abs(first - want) <= TOL))
        fail('grid-length', 'start-after-stop-single-point' if single else 'start-after-stop',
             f'start={a_} lies after stop={b_} but the timeline has {n} point(s), the first at {first}: no grid point is <= stop')
        return fails
    # elapsed time: tvec[i] = i*dt
    for i, t in enumerate(o.tvec):
        if abs(t - i * dt) > TOL:
            fail('tvec', 'not-i-times-dt', f'tvec[{i}]={float(t)} but i*dt={float(i*dt)} (dt={spec["dt"]})')
            break
    if o.numeric:
        start, stop = num(spec['start']), num(spec['stop'])
        # grid length
        if dt > 0 and stop >= start:
            q = (stop - start) / dt
            exp = floor_div(stop - start, dt) + 1
            # timelines are rounded to time_eps: a point that exceeds stop by less than that IS stop (e.g. a dt written with
            # 17 digits, 0.15000000000000002, whose 8th multiple passes 1.2 by 2e-16) — the same tolerance as `last-point`
            within_eps = (n == exp + 1 and start + (n - 1) * dt <= stop + TOL)
            if n != exp and not within_eps:
                cause = 'other'
                if q.denominator == 1 and n == exp - 1 and float_truncation(spec, start, stop, dt, q, num):
                    cause = 'float-quotient-below-integer'
                fail('grid-length', cause, f'start={spec["start"]} stop={spec["stop"]} dt={spec["dt"]}: npts={n}, but floor((stop-start)/dt)+1={exp}'
                     + (f' (the quotient is exactly {q}: the last point {float(start+q*dt)} = stop is missing)' if cause != 'other' else ''))
        # first point, spacing, monotone
        if abs(o.timevec[0] - start) > TOL:
            fail('first-point', 'numeric', f'timevec[0]={float(o.timevec[0])} but start={spec["start"]}')
        for i in range(n):
            if abs(o.timevec[i] - (start + i * dt)) > TOL:
                fail('spacing', 'numeric', f'timevec[{i}]={float(o.timevec[i])} but start+i*dt={float(start+i*dt)}')
                break
        if o.timevec[-1] > stop + TOL:
            fail('last-point', 'after-stop', f'timevec[-1]={float(o.timevec[-1])} is after stop={spec["stop"]}')
        # year representation: the start is a year (offset by the default start year when it is 0), steps are dt·unit
        ratio = UNIT_DAYS[dunit] / UNIT_DAYS['year']
        y0 = o.yearvec[0]
        for i in range(n):
            if abs(o.yearvec[i] - (y0 + i * dt * ratio)) > TOL:
                fail('representations', 'yearvec-spacing', f'yearvec[{i}]={float(o.yearvec[i])} but yearvec[0]+i*dt*{float(ratio):.6g}={float(y0+i*dt*ratio)}')
                break
        if start != 0 and abs(y0 - start) > TOL:
            fail('representations', 'yearvec-start', f'yearvec[0]={float(y0)} but the numeric start is {spec["start"]}')
    else:
        start, stop = to_date(spec['start']), to_date(spec['stop'])
        if o.datevec[0] != start:
            fail('first-point', 'date', f'datevec[0]={o.datevec[0]} but start={start}')
        if o.datevec[-1] > stop:
            fail('last-point', 'after-stop', f'datevec[-1]={o.datevec[-1]} is after stop={stop}')
        if dunit == 'year':
            ys, ye = date_to_year(start), date_to_year(stop)
            if dt > 0 and ye >= ys:
                q = (ye - ys) / dt
                exp = floor_div(ye - ys, dt) + 1
                if n != exp:
                    cause = 'float-quotient-below-integer' if (q.denominator == 1 and n == exp - 1 and float_truncation(spec, ys, ye, dt, q, lambda x: date_to_year(to_date(x)))) else 'other'
                    fail('grid-length', cause, f'start={start} stop={stop} dt={spec["dt"]} year(s): npts={n}, but floor((stop-start)/dt)+1={exp}')
            for i in range(n):
                if abs(o.yearvec[i] - (ys + i * dt)) > TOL:
                    fail('spacing', 'yearvec', f'yearvec[{i}]={float(o.yearvec[i])} but start+i*dt={float(ys+i*dt)}')
                    break
        else:
            tu = UNIT_DAYS[dunit]
            days = [(d - start).days for d in o.datevec]
            if dt.denominator == 1 and dunit in ('day', 'week'):
                k = int(dt) * int(tu)
                bad = [i for i in range(n) if days[i] != i * k]
                if bad:
                    fail('spacing', 'calendar-integer-dt', f'datevec[{bad[0]}]={o.datevec[bad[0]]} is {days[bad[0]]} days after start, expected {bad[0]*k}')
                exp = (stop - start).days // k + 1
                if n != exp and not bad:
                    fail('grid-length', 'calendar', f'{n} points, but {exp} steps of {k} days fit between {start} and {stop}')
            elif dt.denominator == 1:   # months
                k = int(dt)
                for i in range(1, n):
                    a, b = o.datevec[i - 1], o.datevec[i]
                    mi = a.year * 12 + a.month - 1 + k
                    ey, em = mi // 12, mi % 12 + 1
                    ed = min(a.day, month_len(ey, em))
                    if (b.year, b.month, b.day) != (ey, em, ed):
                        fail('spacing', 'calendar-month', f'datevec[{i}]={b} after {a}: expected {ey:04d}-{em:02d}-{ed:02d} ({k} month(s) later, day clipped)')
                        break
                # the next step would pass stop
                a = o.datevec[-1]
                mi = a.year * 12 + a.month - 1 + k
                ey, em = mi // 12, mi % 12 + 1
                nxt = dtm.date(ey, em, min(a.day, month_len(ey, em)))
                if nxt <= stop:
                    fail('grid-length', 'calendar', f'the timeline stops at {a} although the next point {nxt} is not after stop={stop}')
            else:
                # fractional dt: point i must lie on the calendar day of start + i·dt (to one day)
                step = dt * tu
                drift = [(abs(days[i] - i * step), i) for i in range(n)]
                worst, wi = max(drift)
                if worst > 1:
                    diffs = {days[i + 1] - days[i] for i in range(n - 1)}
                    const = len(diffs) == 1 and list(diffs)[0] == round_half_even(step) and step.denominator != 1
                    cause = 'constant-rounded-day-step' if const else 'other'
                    fail('date-vs-elapsed', cause, f'unit={unit} dt={spec["dt"]}: datevec[{wi}]={o.datevec[wi]} is {days[wi]} days after start while tvec[{wi}]={float(wi*dt)} {unit}(s) = {float(wi*step)} days'
                         + (f' (dates advance by a constant {list(diffs)[0]} days)' if const else ''))
                else:
                    nxt = round_half_even(n * step)
                    if (stop - start).days >= nxt + 1:
                        # the same constant whole-day step also loses points before the drift exceeds a day
                        diffs = {days[i + 1] - days[i] for i in range(n - 1)}
                        const = len(diffs) == 1 and list(diffs)[0] == round_half_even(step) and step.denominator != 1
                        if const:
                            fail('date-vs-elapsed', 'constant-rounded-day-step', f'unit={unit} dt={spec["dt"]}: {n} points, but point {n} (elapsed {float(n*step)} days, day {nxt}) would still be before stop: dates advance by a constant {list(diffs)[0]} days')
                        else:
                            fail('grid-length', 'calendar', f'{n} points, but point {n} at day {nxt} would still be before stop')
            # strictly increasing dates
        for i in range(1, n):
            if not o.datevec[i] > o.datevec[i - 1]:
                fail('monotone', 'datevec', f'datevec[{i}]={o.datevec[i]} is not after datevec[{i-1}]={o.datevec[i-1]}')
                break
    # strictly increasing years
    for i in range(1, n):
        if not o.yearvec[i] > o.yearvec[i - 1]:
            fail('monotone', 'yearvec', f'yearvec[{i}]={float(o.yearvec[i])} is not after yearvec[{i-1}]')
            break
    # year <-> date: the same instant.  Calendar day/week/month timelines derive the year from the date (exact to
    # time_eps); numeric and year-unit timelines derive the date from the year (nearest day: half a day)
    derived_from_date = (not o.numeric) and dunit != 'year'
    for i in range(n):
        y = o.yearvec[i]
        if y < 1: break
        if derived_from_date:
            if abs(date_to_year(o.datevec[i]) - y) > TOL:
                fail('representations', 'year-vs-date', f'yearvec[{i}]={float(y)} but datevec[{i}]={o.datevec[i]} is year {float(date_to_year(o.datevec[i])):.6f}')
                break
        else:
            inst = year_to_day_exact(y)
            if abs(inst - o.datevec[i].toordinal()) > F(1, 2) + TOL * 366:
                fail('representations', 'year-vs-date', f'yearvec[{i}]={float(y)} is day {float(inst):.2f} but datevec[{i}]={o.datevec[i]} is day {o.datevec[i].toordinal()}')
                break
    # elapsed time <-> date on numeric day/week/month timelines: tvec[i] units after the first date, to the calendar day
    # (the year has 365.25 days on the numeric axis: a day of slack per crossed year boundary is inherent)
    if o.numeric and dunit in ('day', 'week', 'month') and n and o.yearvec[0] >= 1:
        tu = UNIT_DAYS[dunit]
        for i in range(n):
            days = (o.datevec[i] - o.datevec[0]).days
            if abs(days - o.tvec[i] * tu) > 2:
                fail('representations', 'elapsed-vs-date', f'tvec[{i}]={float(o.tvec[i])} {dunit}(s) = {float(o.tvec[i]*tu):.2f} days but datevec[{i}]={o.datevec[i]} is {days} days after datevec[0]={o.datevec[0]}')
                break
    # one result entry per point
    for name, ln in sorted(o.reslens.items()):
        if ln == -1:
            fail('results-timevec', 'entries', f'the timevec of result {name[:-len(".timevec-entries")]} is not its owner\'s timevec')
            break
        if ln != n:
            fail('results-len', 'shape', f'result {name} has {ln} entries for {n} time points')
            break
    # now(): every representation read at the same index min(ti, npts-1)
    for rec in getattr(o, 'now', []):
        idx = min(rec['ti'], n - 1)
        native = float(o.timevec[idx]) if o.numeric else o.datevec[idx].isoformat()
        want = {'None': native, 'time': native, 'none': native, 'date': o.datevec[idx].isoformat(), 'year': float(o.yearvec[idx]), 'tvec': float(o.tvec[idx])}
        bad = [k for k, w in want.items() if (abs(rec[k] - w) > float(TOL) if isinstance(w, float) and isinstance(rec[k], float) else rec[k] != w)]
        if bad:
            fail('now', 'representation', f"now({bad[0]}) at ti={rec['ti']} gives {rec[bad[0]]!r} but entry {idx} of that representation is {want[bad[0]]!r}")
            break
    for prob in getattr(o, 'copies', []):
        fail('copy', 'differs', f'a copy of the Time object is not the same timeline: {prob}')
        break
    return fails


def check_placement(sim_spec, so, mod_spec, mo, who='module'):
    """ The module's points on the sim's elapsed-time axis (sim units) must be where its calendar times say.
        Returns (fails, skipped_reason) """
    fails = []
    def fail(cause, what):
        fails.append(dict(signature=dict(oracle='placement', cause=cause), what=f'{who}: {what}'))
    if mo.abstvec is None or len(mo.abstvec) != mo.npts:
        fail('abstvec-length', f'abstvec has {None if mo.abstvec is None else len(mo.abstvec)} entries for {mo.npts} points')
        return fails, None
    su, mu = sim_spec['unit'], mod_spec['unit']
    n = mo.npts
    for i in range(1, n):
        if not mo.abstvec[i] > mo.abstvec[i - 1]:
            fail('monotone', f'abstvec[{i}]={float(mo.abstvec[i])} is not after abstvec[{i-1}]={float(mo.abstvec[i-1])}')
            return fails, None
    both_numeric = so.numeric and mo.numeric
    def raw_offset(i):
        """ is abstvec[i] the raw formula tvec·ratio + (module start − sim start) with different start numbers? """
        sa, sb = num(mod_spec['start']), num(sim_spec['start'])
        if sa == sb or su == 'unitless' or mu == 'unitless': return False
        return abs(mo.abstvec[i] - (mo.tvec[i] * UNIT_DAYS[mu] / UNIT_DAYS[su] + (sa - sb))) <= TOL
    zero_asym = both_numeric and ((num(sim_spec['start']) == 0) != (num(mod_spec['start']) == 0))
    if both_numeric and su == mu and (su == 'unitless' or (su == 'year' and not zero_asym) or num(sim_spec['start']) == num(mod_spec['start'])):
        s0 = num(sim_spec['start'])
        for i in range(n):
            if abs(mo.abstvec[i] - (mo.timevec[i] - s0)) > TOL:
                fail('numeric-same-unit', f'abstvec[{i}]={float(mo.abstvec[i])} but timevec[{i}]-sim.start={float(mo.timevec[i]-s0)}')
                break
        return fails, None
    if both_numeric and su not in ('year', 'unitless'):
        # a numeric start is a YEAR in yearvec/datevec; the elapsed axis must agree with those instants (to the day the
        # numeric calendar resolves)
        tu = UNIT_DAYS[su]
        sa, sb = num(mod_spec['start']), num(sim_spec['start'])
        ratio = UNIT_DAYS[mu] / tu
        for i in range(n):
            if so.yearvec[0] < 1 or mo.yearvec[i] < 1: break
            days = (mo.datevec[i] - so.datevec[0]).days
            if abs(mo.abstvec[i] * tu - days) > 2:
                raw = raw_offset(i)
                fail('numeric-start-offset-raw' if raw else 'day-sim',
                     f'abstvec[{i}]={float(mo.abstvec[i])} {su}(s) but datevec[{i}]={mo.datevec[i]} is {days} days after the sim start {so.datevec[0]}'
                     + (f' (the starts {mod_spec["start"]} and {sim_spec["start"]} are years in yearvec/datevec but their difference is added as {su}s)' if raw else ''))
                break
        return fails, None
    if su in ('year', 'unitless'):
        for i in range(n):
            exp = mo.yearvec[i] - so.yearvec[0]
            if abs(mo.abstvec[i] - exp) > TOL:
                raw = both_numeric and zero_asym and raw_offset(i)
                fail('numeric-start-offset-raw' if raw else 'year-sim', f'abstvec[{i}]={float(mo.abstvec[i])} years but yearvec[{i}]-sim.yearvec[0]={float(exp)}'
                     + (' (a numeric start of 0 is the default start year in yearvec/datevec, but the offset between module and sim is the raw difference of the start numbers)' if raw else ''))
                return fails, None
        # and the years agree with the dates to ~a day
        for i in range(n):
            days = (mo.datevec[i] - so.datevec[0]).days
            # (the elapsed axis has 365.25-day years, the calendar 365.2425 on average: 3 days per 400 years of distance are inherent)
            if abs(mo.abstvec[i] * UNIT_DAYS['year'] - days) > 2 + abs(mo.abstvec[i]) * F(3, 400):
                fail('year-sim-dates', f'abstvec[{i}]={float(mo.abstvec[i])} years = {float(mo.abstvec[i]*UNIT_DAYS["year"]):.2f} days but the dates are {days} days apart')
                break
    else:
        tu = UNIT_DAYS[su]
        for i in range(n):
            days = (mo.datevec[i] - so.datevec[0]).days
            if abs(mo.abstvec[i] - F(days) / tu) > TOL:
                fail('day-sim', f'abstvec[{i}]={float(mo.abstvec[i])} {su}(s) but {mo.datevec[i]} is {days} days = {float(F(days)/tu):.6f} {su}(s) after the sim start {so.datevec[0]}')
                break
    return fails, None
