"""
C03 — An agent's draw depends only on seed, distribution, time and slot.

correspond(): the Lean model (Model/Slots.lean, Model/Rng.lean) predicts, for real ss.Dist objects of every family,
              (a) which variate of the stream each requested agent receives (the stream itself is read from the real
                  generator through a plain integer-size request on an identically seeded clone),
              (b) which uids bernoulli.filter selects given the exact uniforms and probabilities,
              (c) the pairwise number multi_random attaches to each edge (exact 32-bit arithmetic),
              (d) the generator position a call starts from after an arbitrary earlier history.
search():     metamorphic oracle on the real code only: subset / permutation / single-agent / population-size /
              history independence for every family and parameter mode, and sim-level population extension on the
              slot-keyed networks.
"""
import numpy as np
from fractions import Fraction
from harness import impl
from harness.props import c04

PROP = 'C03'
GENERATED = ['RngConsts', 'GrowOps', 'HistoryWriters', 'DistLink']
DRIVER = 'Drivers/C03.lean'
DRIVER_MODULES = ['StarsimModel.Model.Slots', 'StarsimModel.Model.History', 'StarsimModel.Model.Rng', 'StarsimModel.Model.Proto',
                  'StarsimModel.Model.Link', 'StarsimModel.Generated.DistLink']
RULE = ('every family of ss.dist_list x parameter mode (scalar / per-agent array / callable) x slot assignment with repeats x '
        'uid request (subset, permuted, single, empty) x earlier sampling history; distinct = distinct (family, mode, slots, request, history); '
        'non-trivial = non-empty request with at least two agents')
TRUSTED = ['NumPy Generator methods are prefix-stable: a call with size=n returns the first n variates of the sequence determined by the state (validated per family on every run)']
ASSUMPTIONS = ['the stream of a generator position is uninterpreted in the theorems; in the correspondence it is read from the real generator via an integer-size request']

# families whose parameters may be per-agent arrays / callables, and which parameter is varied
DYN_PAR = dict(uniform='high', normal='loc', lognorm_ex='mean', lognorm_im='mean', expon='scale', poisson='lam',
               weibull='scale', gamma='scale', constant='v', bernoulli='p', nbinom='p')
TP_CALLABLE = ('bernoulli', 'normal', 'expon')     # families exercised with a time-wrapped callable parameter


def par_table(fam, n, rng):
    """ per-uid values of the varied parameter """
    r = np.random.default_rng(rng.randint(0, 10**9))
    if fam == 'bernoulli': return np.round(r.random(n), 3)
    if fam == 'nbinom': return np.round(0.2 + 0.6 * r.random(n), 3)
    if fam == 'uniform': return np.round(3.0 + 4 * r.random(n), 3)
    if fam == 'normal': return np.round(10 * r.random(n) - 5, 3)
    return np.round(0.5 + 3 * r.random(n), 3)


class People0(c04.FakePeople):
    _states = {}


class Sim0:
    """ minimal stand-in for the sim a Dist links to (slots are passed explicitly) """
    def __init__(self, slot):
        self.people = People0(slot)
        self.ti = 0


def container_of(d):
    """ The real `ss.Dists` container a Module keeps its distributions in (Module.start_step jumps the distributions through
        `self.dists.jump_dt()`, never through `Dist.jump_dt` directly): holds `d` and a sibling stream.  Built once per dist. """
    import starsim as ss
    import sciris as sc
    c = getattr(d, '_c03_container', None)
    if c is None:
        sib = ss.random(); sib.init(trace=str(d.trace) + '_sibling', seed=7, sim=d.sim, slots=d.slots)
        c = ss.Dists(sc.objdict(main=d, sibling=sib))
        c.init(sim=d.sim)
        if not any(x is d for x in c.dists.values()) or len(c.dists) != 2:
            raise RuntimeError('ss.Dists did not register the distributions of its object')
        d._c03_container = c
    return c


# Object lifecycles: how the distribution object came to be initialised.  The property makes a draw a function of (seed, identity,
# parameters, timestep, ordinal, slot) only, so none of these may matter:
#   once   created (strict=True) and initialised once                        -- what every module distribution of a default sim is
#   loose  created with strict=False (it initialises itself at once, without sim or slots) and then initialised properly with
#          force=True                                                         -- a user-made distribution handed to a module (Sim.init re-initialises it)
#   twice  initialised, drawn from, initialised again with force=True         -- `Dists.init(force=True)`, a re-initialised sim
#   copy   initialised, drawn from, deep-copied; the copy is used             -- `sim.copy()`, MultiSim, parallel runs
#   pickle initialised, drawn from, pickled and restored                      -- `sim.save()` / `ss.load()`, multiprocessing
LIVES = ['once', 'loose', 'twice', 'copy', 'pickle']


def life_of(c):
    """ the lifecycle of a case's distribution objects (older stored cases have none: 'once') """
    return c.get('life', 'once')


def make(fam, mode, slots, trace, seed, table=None, req=None, life='once'):
    """ A real, initialised dist of the family; parameters by mode; object lifecycle by `life` """
    import starsim as ss
    import copy, pickle
    pars = dict(impl.DIST_PARS[fam])
    if mode == 'tp_callable':
        # a time-wrapped callable parameter: ss.time_prob(f) for a Bernoulli probability, ss.dur(f) elsewhere
        key = DYN_PAR[fam]; tab = np.asarray(table)
        f = lambda module, sim, uids: tab if uids is None else tab[np.asarray(uids, dtype=int)]
        tp = (ss.time_prob if fam == 'bernoulli' else ss.dur)(f, unit='year', parent_unit='year', parent_dt=0.5)
        tp.init(update_values=False)
        pars[key] = tp
    if mode in ('array', 'callable'):
        key = DYN_PAR[fam]
        if mode == 'array':
            pars[key] = np.asarray(table)[np.asarray(req, dtype=int)]
        else:
            tab = np.asarray(table)
            pars[key] = lambda module, sim, uids: tab if uids is None else tab[np.asarray(uids, dtype=int)]  # (lognormal calls it with None at init)
    d = getattr(ss, fam)(**pars, **(dict(strict=False) if life == 'loose' else {}))
    init = lambda force=False: d.init(trace=trace, seed=seed, sim=Sim0(slots), slots=slots, force=force)
    if life == 'loose':
        init(True)
    else:
        init()
        if life != 'once':
            # something is drawn before the object is re-initialised / copied / restored
            if mode == 'scalar': d.rvs(3)
            else: d.rvs(ss.uids(req if (mode == 'array' or (req is not None and len(req))) else [0]))
            if life == 'twice': init(True)
            elif life == 'pickle' and mode in ('scalar', 'array'): d = pickle.loads(pickle.dumps(d))      # (the callables of the other modes are local functions)
            else: d = copy.deepcopy(d)
    return d


def play_history(d, hist, dyn_req=None, via='dist'):
    """ via = 'dist': timestep jumps through `Dist.jump_dt`; 'container': through the `ss.Dists` container, as Module.start_step does.
        hist = list of ('jumpdt', ti) / ('draw', n) ; returns protocol lines for the C04 driver.
        A dist with per-agent (array / callable) parameters can only be asked for uids: its history draws
        request `dyn_req` (the amount drawn is irrelevant to where later calls start). """
    import starsim as ss
    lines = []
    for h in hist:
        if h[0] == 'jumpdt':
            if via == 'container': container_of(d).jump_dt(ti=h[1])
            else: d.jump_dt(ti=h[1])
            lines.append(f'jumpdt {h[1]} 0')
        elif h[0] == 'drawu':
            d.rvs(ss.uids(h[1])); lines.append(f'rvs {int(d.slots[np.asarray(h[1], dtype=int)].max()) + 1 if len(h[1]) else 0} 0')
        elif h[0] == 'steps':
            # a long run: `h[2]` consecutive timesteps from h[1], `h[3]` calls in each (what a module does over a long simulation)
            for i in range(h[2]):
                lines += play_history(d, [('jumpdt', h[1] + i)] + [('draw', 1 + (i + j) % 3) for j in range(h[3])], dyn_req, via)
        elif h[0] == 'burst':
            # a long earlier history: many more calls than any test makes
            for _ in range(h[1]):
                if dyn_req is None:
                    d.rvs(1); lines.append('rvs 1 0')
                else:
                    d.rvs(ss.uids(dyn_req)); lines.append(f'rvs {int(d.slots[np.asarray(dyn_req, dtype=int)].max()) + 1 if len(dyn_req) else 0} 0')
        elif dyn_req is None:
            d.rvs(h[1]); lines.append(f'rvs {h[1]} 0')
        else:
            d.rvs(ss.uids(dyn_req))
            lines.append(f'rvs {int(d.slots[np.asarray(dyn_req, dtype=int)].max()) + 1 if len(dyn_req) else 0} 0')
    return lines


def gen_history(rng):
    hist = []
    ti = 0
    if rng.random() < 0.04:
        hist.append(('jumpdt', 1)); hist.append(('burst', rng.choice([1500, 6000, 11000]))); ti = 20
    for _ in range(rng.randint(0, 3)):
        ti += rng.randint(1, 3)
        hist.append(('jumpdt', ti))
        for _ in range(rng.randint(0, 3)):
            hist.append(('draw', rng.choice([1, 2, 7, 30])))
    ti += rng.randint(1, 2)
    hist.append(('jumpdt', ti))
    for _ in range(rng.choice([0, 0, 1, 2])):
        hist.append(('draw', rng.choice([1, 3, 11])))
    return hist


def modes_of(fam):
    return ['scalar'] + (['array', 'callable'] if fam in DYN_PAR else []) + (['tp_callable', 'tp_callable'] if fam in TP_CALLABLE else [])


def strata(families):
    """ every (family, parameter mode) pair: each is exercised on EVERY run (the first cases of a run walk through this list;
        the time-wrapped callable mode three times), the remaining cases are drawn at random """
    out = []
    for fam in families:
        for mode in dict.fromkeys(modes_of(fam)):
            out += [(fam, mode)] * (3 if mode == 'tp_callable' else 1)
    return out


def gen_case(rng, families, fam=None, mode=None):
    fam_given = fam is not None
    fam = fam if fam is not None else rng.choice(families)
    modes = modes_of(fam)
    mode = mode if mode is not None else rng.choice(modes)
    n = rng.randint(4, 25)
    hi = 3 * n if rng.random() < 0.9 else rng.choice([1200, 5000, 20000])     # (now and then slots of a large population)
    slots = [rng.randint(0, hi) for _ in range(n)] if rng.random() < 0.6 else list(range(n))
    k = rng.choice([0, 1, 1, 2, 3, n // 2, n])
    req = rng.sample(range(n), min(k, n))
    if rng.random() < 0.5: req.sort()
    if fam_given and not req: req = [0, n - 1]        # (the cases that guarantee the coverage of a (family, mode) pair request somebody)
    c = dict(family=fam, mode=mode, n=n, slots=slots, req=req, trace='d_%d' % rng.randint(0, 10**6),
             seed=rng.choice([0, 1, 7, 123456]), history=gen_history(rng), tabseed=rng.randint(0, 10**6),
             via=rng.choice(['dist', 'container']))
    c['life'] = LIVES[c['tabseed'] % len(LIVES)]      # (derived, so that the sequence of generated cases is the one of the earlier rounds)
    return c


def gen_long_case(rng, families, i):
    """ Always exercised (fixed count per run): a LONG earlier history -- thousands of calls, i.e. far more than any test of the
        package makes and beyond any round internal size (the stride, the default capacities) -- either packed into one step or
        spread over hundreds of steps, with the timestep jumps made through the module-level container. """
    c = gen_case(rng, families)
    if c['mode'] == 'array': c['mode'] = 'scalar'        # (an array parameter fixes the request size; histories draw other sizes)
    calls = [1001, 1200, 1700, 2600, 4100][i % 5] + rng.randint(0, 40)
    if i % 2 == 0:
        t1 = calls // 1000 + 3                       # (every call auto-jumps the stream by one: stay ahead of it)
        hist = [('jumpdt', 1), ('burst', calls), ('jumpdt', t1), ('draw', 2)]
        ti = t1 + 1
    else:
        k = rng.choice([2, 5]); nsteps = calls // k + 1
        hist = [('steps', 1, nsteps, k)]
        ti = nsteps + 1
    hist.append(('jumpdt', ti + rng.randint(0, 2)))
    for _ in range(rng.choice([0, 1, 2])):
        hist.append(('draw', rng.choice([1, 3, 11])))
    c['history'] = hist; c['via'] = 'container'
    c['lives'] = sorted((LIVES[(i + k) % len(LIVES)] for k in (1, 3)), key=lambda l: l == 'twice')     # (two of the other lifecycles per long case, rotating)
    if len(c['req']) == 0: c['req'] = [0, c['n'] - 1]
    return c


def same(a, b):
    a = np.asarray(a); b = np.asarray(b)
    if a.shape != b.shape: return False
    if a.dtype.kind == 'f' or b.dtype.kind == 'f':
        return np.array_equal(a, b, equal_nan=True)
    return np.array_equal(a, b)


def frac(x):
    return Fraction(*float(x).as_integer_ratio())


def fr(x):
    f = frac(x)
    return f'{f.numerator}/{f.denominator}' if f.denominator != 1 else f'{f.numerator}'


def lst(xs, f=str):
    xs = list(xs)
    return ','.join(f(x) for x in xs) if xs else '-'


# ---------------------------------------------------------------------------

def corr_life(c):
    """ in the correspondence the twice-initialised object is left out when the seed is 0 (see known finding C03-reinit-seed0: the
        model's seed is then not the object's) """
    life = life_of(c)
    return 'copy' if (life == 'twice' and not c['seed']) else life


def correspond(ctx):
    import starsim as ss
    import random as pyrandom
    families = list(ss.dist_list)
    ncase = ctx.budget(150, 1200)
    lines03 = []; lines04 = []; plan = []
    modulo = (ctx.extracted.get('RngConsts', {}).get('facts') or {}).get('modulo', 10**9)
    st = strata(families)
    for i in range(ncase):
        c = gen_case(ctx.rng, families, *(st[i] if i < len(st) else ()))
        slots = np.array(c['slots'])
        table = par_table(c['family'], c['n'], pyrandom.Random(c['tabseed'])) if c['mode'] != 'scalar' else None
        try:
            d = make(c['family'], c['mode'], slots, c['trace'], c['seed'], table, c['req'], life=corr_life(c))
            ref = make(c['family'], 'scalar', slots, c['trace'], c['seed'])
            hl = play_history(d, c['history'], None if c['mode'] == 'scalar' else c['req'], via=c.get('via', 'dist')); play_history(ref, c['history'])
            pre = d.state_int
            out = d.rvs(ss.uids(c['req']))
        except Exception as e:
            ctx.broke('correspondence', 'C03.rvs', f"ss.{c['family']} ({c['mode']}) raised {type(e).__name__}: {e}", data=c)
            continue
        # (d) position: the C04 model replays the history
        seq = ['new 1 1', f"init {c04.str2int_ref(c['trace'], modulo)} {c['seed']} 0"] + hl
        plan.append(dict(c=c, out=out, pre=pre, ref=ref, off03=len(lines03), off04=len(lines04), n04=len(seq), table=table, d=d))
        lines04 += seq
        lines03.append('rvs ' + lst(slots[c['req']]))
    out03 = ctx.drive(DRIVER, lines03)
    out04 = ctx.drive(c04.DRIVER, lines04)
    fams = {}
    for p in plan:
        c = p['c']
        key = (c['family'], c['mode'])
        fams[key] = fams.get(key, 0) + 1
        m = dict(kv.split('=') for kv in out03[p['off03']].split())
        size = int(m['size'])
        idx = [] if m['idx'] == '-' else [None if t == 'x' else int(t) for t in m['idx'].split(',')]
        last = c04.parse_model_line(out04[p['off04'] + p['n04'] - 1])
        ind_s, draws = last['pos'].split(':')
        ctx.case(('rvs', c['family'], c['mode'], tuple(c['slots']), tuple(c['req']), tuple(map(tuple, c['history']))),
                 len(c['req']) >= 2, sample=dict(kind='rvs', family=c['family'], mode=c['mode'], slots=c['slots'][:8], request=c['req'][:8], history=c['history']))
        # (d)
        if draws != '-' or c04.ref_state(int(last['seed']), int(ind_s)) != p['pre']:
            ctx.broke('correspondence', 'C03.position', f"ss.{c['family']}: the call starts from a generator state other than PCG64({last['seed']}).jumped({ind_s}) predicted by the model after history {c['history']}", data=c)
            return
        if len(c['req']) == 0:
            if np.size(p['out']) != 0:
                ctx.broke('correspondence', 'C03.empty', f"ss.{c['family']}: empty request returned {np.size(p['out'])} values", data=c); return
            continue
        if None in idx or len(idx) != len(c['req']):
            ctx.broke('correspondence', 'C03.index', f'model indexes outside the drawn prefix: {m}', data=c); return
        # (a) the stream: integer-size request on the identically seeded scalar clone
        if c['mode'] == 'scalar':
            stream = p['ref'].rvs(size)
            exp = np.asarray(stream)[idx]
            if not same(exp, p['out']):
                ctx.broke('correspondence', 'C03.rvs', f"ss.{c['family']} (scalar parameters): rvs(uids) differs from the model's indexing (size {size}, idx {idx[:8]}) of the stream read by an int-size request",
                          data=dict(case=c, expected=np.asarray(exp).tolist()[:10], got=np.asarray(p['out']).tolist()[:10]))
                return
        else:
            # dynamic path: agent i gets f(par_i, u[slot_i]); check against single-agent requests on fresh clones
            for j, uid in enumerate(c['req'][:4]):
                one = make(c['family'], c['mode'], np.array(c['slots']), c['trace'], c['seed'], p['table'], [uid])
                play_history(one, c['history'], [uid])
                v = one.rvs(ss.uids([uid]))
                if not same(np.asarray(v).reshape(-1)[:1], np.asarray(p['out']).reshape(-1)[j:j + 1]):
                    ctx.broke('correspondence', 'C03.dynamic', f"ss.{c['family']} ({c['mode']} parameters): the value of uid {uid} in a joint request differs from its value when requested alone",
                              data=dict(case=c, uid=uid)); return
                ctx.count('single_agent_checks')
    ctx.notes['family_mode_coverage'] = {f'{k[0]}/{k[1]}': v for k, v in sorted(fams.items())}
    missing = [f for f in families if not any(k[0] == f for k in fams)]
    if missing and ncase >= 100:
        ctx.notes['families_not_sampled'] = missing
    correspond_filter(ctx)
    correspond_multi(ctx)
    correspond_saved_states(ctx)
    correspond_link(ctx)


def correspond_filter(ctx):
    """ (b) bernoulli.filter vs the model, with exact uniforms from an identically seeded ss.random clone """
    import starsim as ss
    lines = []; plan = []
    for _ in range(ctx.budget(40, 300)):
        rng = ctx.rng
        n = rng.randint(3, 20)
        slots = np.array([rng.randint(0, 2 * n) for _ in range(n)])
        req = rng.sample(range(n), rng.randint(1, n))
        mode = rng.choice(['scalar', 'array', 'callable'])
        ptab = np.round(np.random.default_rng(rng.randint(0, 10**6)).random(n), 2)
        if rng.random() < 0.2: ptab[rng.randrange(n)] = rng.choice([0.0, 1.0])
        trace = 'b_%d' % rng.randint(0, 10**6); seed = rng.randint(0, 100)
        hist = gen_history(rng)
        if mode == 'scalar':
            p0 = float(ptab[0]); b = ss.bernoulli(p=p0); ps = [p0] * len(req)
        elif mode == 'array':
            b = ss.bernoulli(p=ptab[req]); ps = list(ptab[req])
        else:
            tab = ptab.copy(); b = ss.bernoulli(p=lambda m, s, u: tab[np.asarray(u, dtype=int)]); ps = list(ptab[req])
        b.init(trace=trace, seed=seed, sim=Sim0(slots), slots=slots)
        u = ss.random(); u.init(trace=trace, seed=seed, sim=Sim0(slots), slots=slots)
        play_history(b, hist, None if mode == 'scalar' else req); play_history(u, hist)
        size = int(slots[req].max()) + 1
        us = u.rvs(size)
        sel = b.filter(ss.uids(req))
        lines.append(f"filter {lst(req)} {lst(slots[req])} {lst(us, fr)} {lst(ps, fr)}")
        plan.append(dict(req=req, sel=[int(x) for x in sel], mode=mode, slots=slots.tolist(), ps=[float(x) for x in ps]))
    out = ctx.drive(DRIVER, lines)
    for p, o in zip(plan, out):
        exp = [] if o == 'sel=-' else [int(x) for x in o[4:].split(',')] if o.startswith('sel=') else None
        ctx.case(('filter', tuple(p['req']), tuple(p['slots']), tuple(p['ps'])), len(p['req']) >= 2,
                 sample=dict(kind='filter', mode=p['mode'], request=p['req'][:8], selected=p['sel'][:8]))
        if exp != p['sel']:
            ctx.broke('correspondence', 'C03.filter', f"bernoulli.filter ({p['mode']} p) selected {p['sel']} but the model selects {exp} from the same uniforms", data=p)
            return


def correspond_saved_states(ctx):
    """ (e) the list of saved generator states (`Dist.history`) vs Model/History.lean: random sequences of calls, resets and
        (container) jumps on a real distribution; compared: the number of saved states, which of the saved states and the current
        state coincide with each other (the model's symbolic positions give the equality pattern), and every draw-free position
        against PCG64(seed).jumped(ind).  Some sequences are long (more than a thousand calls). """
    import starsim as ss
    rng = ctx.rng
    lines = []; plan = []
    ncase = ctx.budget(30, 200)
    for i in range(ncase):
        n = rng.randint(3, 12); slots = np.arange(n)
        fam = rng.choice(['random', 'normal', 'poisson', 'bernoulli'])
        seed = rng.randint(0, 10**4); trace = 'h_%d' % rng.randint(0, 10**6)
        d = getattr(ss, fam)(strict=False, auto=False, **impl.DIST_PARS.get(fam, {}))
        d.init(trace=trace, seed=seed, sim=Sim0(slots), slots=slots)
        cont = container_of(d)
        ops = []; nsaved = 1
        if i < 3:
            # long: over a thousand calls, a jump every few calls (so that positions stay short)
            for t in range(1, rng.randint(260, 420)):
                ops.append(('j', t)); ops += [('c', rng.randint(1, 3)) for _ in range(rng.randint(3, 5))]
            ops.append(('j', rng.randint(500, 600)))
        else:
            t = 0
            for _ in range(rng.randint(1, 14)):
                k = rng.random()
                if k < 0.5: ops.append(('c', rng.randint(1, 2 * n)))
                elif k < 0.7: ops.append(('r', rng.randrange(nsaved)))
                else: t += rng.randint(0, 3); ops.append(('j', t))
                if ops[-1][0] == 'c': nsaved += 1
        try:
            for o, v in ops:
                if o == 'c': d.rvs(v)
                elif o == 'r': d.reset(v)
                else: cont.jump(to=v, force=True)
            states = [int(h['state']['state']) for h in d.history] + [int(d.state_int)]
        except Exception as e:
            ctx.broke('correspondence', 'C03.saved-states', f'ss.{fam}: {type(e).__name__}: {e} during calls / resets / container jumps', data=dict(ops=ops[:40])); return
        lines.append('hist ' + ','.join(f'{o}{v}' for o, v in ops))
        plan.append(dict(fam=fam, seed=int(d.seed), ops=ops, states=states))
    out = ctx.drive(DRIVER, lines)
    for p, o in zip(plan, out):
        if not o.startswith('len='):
            ctx.broke('correspondence', 'C03.saved-states', f'driver answered {o[:60]!r}'); return
        m = dict(kv.split('=', 1) for kv in o.split())
        pos = m['hist'].split(';') + [m['cur']]
        short = dict(ops=p['ops'][:30], n_ops=len(p['ops']), family=p['fam'])
        ctx.case(('saved', p['fam'], p['seed'], tuple(p['ops'][:50]), len(p['ops'])), len(p['ops']) >= 2, sample=dict(kind='saved-states', family=p['fam'], ops=[f'{a}{b}' for a, b in p['ops'][:12]], n_ops=len(p['ops'])))
        if int(m['len']) != len(p['states']) - 1:
            ctx.broke('correspondence', 'C03.saved-states', f"ss.{p['fam']}: {len(p['states']) - 1} saved states after {len(p['ops'])} operations, the model has {m['len']}", data=short); return
        first = {}
        for k, (ps, st) in enumerate(zip(pos, p['states'])):
            ind, draws = ps.split(':')
            if draws == '-' and c04.ref_state(p['seed'], int(ind)) != st:
                which = 'current state' if k == len(pos) - 1 else f'saved state {k}'
                ctx.broke('correspondence', 'C03.saved-states', f"ss.{p['fam']}: {which} is not PCG64({p['seed']}).jumped({ind}) as the model says (after {len(p['ops'])} calls / resets / container jumps)", data=short); return
            j = first.setdefault(ps, k)
            if (p['states'][j] == st) != True:
                ctx.broke('correspondence', 'C03.saved-states', f"ss.{p['fam']}: states {j} and {k} of (saved states + current) should coincide (model position {ps})", data=short); return
        ctx.count('saved_state_sequences')


def correspond_link(ctx):
    """ (f) which generator OBJECT a draw reads, vs Model/Link.lean on the regenerated statements of `Dist.init`: random sequences of
        initialisations (force=True) and calls / jumps on real distributions of every SciPy-backed family (and a custom SciPy one), created
        strictly or loosely; compared: is the frozen sampler's `random_state` the Dist's own generator, and how many distinct
        generator objects the Dist has had. """
    import starsim as ss
    import scipy.stats as sps
    rng = ctx.rng
    fams = [f for f in ss.dist_list if getattr(getattr(ss, f)(**impl.DIST_PARS[f], strict=False), 'dist', None) is not None]
    if not fams:
        ctx.broke('correspondence', 'C03.link', 'no family of ss.dist_list is backed by a SciPy sampler any more: Model/Link.lean models nothing'); return
    ctx.notes['scipy_backed_families'] = fams
    makers = [(f, (lambda f=f, **kw: getattr(ss, f)(**impl.DIST_PARS[f], **kw))) for f in fams] + [('custom-beta', lambda **kw: ss.Dist(dist=sps.beta, a=2.0, b=5.0, **kw))]
    lines = []; plan = []
    for i in range(ctx.budget(24, 120)):
        name, mk = makers[i % len(makers)]
        loose = bool(i // len(makers) % 2)
        slots = np.arange(6)
        d = mk(strict=False) if loose else mk()
        seen = [d.rng] if d.rng is not None else []
        ops = 'i' if loose else ''                      # (a loose distribution has initialised itself)
        proper = False
        for _ in range(rng.randint(1, 6)):
            if rng.random() < 0.5 or not proper:
                proper = True
                d.init(trace='l_%d' % i, seed=rng.randint(0, 50), sim=Sim0(slots), slots=slots, force=True); ops += 'i'
                if not any(d.rng is g for g in seen): seen.append(d.rng)
            else:
                k = rng.random()
                if k < 0.5: d.rvs(ss.uids(rng.sample(range(6), rng.randint(1, 6))))
                elif k < 0.8: d.jump_dt(ti=rng.randint(1, 9), force=True)
                else: d.reset()
                ops += 's'
        lines.append(f'link {ops}')
        plan.append(dict(name=name, loose=loose, ops=ops, linked=d.dist.random_state is d.rng, made=len(seen)))
    out = ctx.drive(DRIVER, lines)
    for p, o in zip(plan, out):
        ctx.case(('link', p['name'], p['loose'], p['ops']), p['ops'].count('i') >= 2, sample=dict(kind='link', family=p['name'], loose=p['loose'], ops=p['ops']))
        m = dict(kv.split('=') for kv in o.split()) if o.startswith('linked=') else None
        if m is None:
            ctx.broke('correspondence', 'C03.link', f'driver answered {o[:60]!r}'); return
        if (m['linked'] == 'true') != p['linked'] or int(m['made']) != p['made']:
            ctx.broke('correspondence', 'C03.link', f"ss.{p['name']} ({'strict=False' if p['loose'] else 'strict'}), operations {p['ops']}: the SciPy sampler "
                      f"{'reads' if p['linked'] else 'does NOT read'} the distribution's own generator and the distribution has had {p['made']} generator objects; "
                      f"the model says linked={m['linked']}, {m['made']} generators", data=p); return
        ctx.count('link_sequences')


def correspond_multi(ctx):
    """ (c) multi_random.rvs vs exact 32-bit combination of the two agents' float32 uniforms """
    import starsim as ss
    lines = []; plan = []
    for _ in range(ctx.budget(25, 200)):
        rng = ctx.rng
        n = rng.randint(3, 30)
        slots = np.array([rng.randint(0, 2 * n) for _ in range(n)])
        ne = rng.randint(1, 40)
        src = [rng.randrange(n) for _ in range(ne)]; trg = [rng.randrange(n) for _ in range(ne)]
        seed = rng.randint(0, 100); tr = 'm_%d' % rng.randint(0, 10**6)
        hist = gen_history(rng)
        mr = ss.multi_random('source', 'target')
        refs = []
        for d, nm in zip(mr.dists, ('source', 'target')):
            d.init(trace=f'{tr}_{nm}', seed=seed, sim=Sim0(slots), slots=slots)
            play_history(d, hist)
            r = ss.random(); r.init(trace=f'{tr}_{nm}', seed=seed, sim=Sim0(slots), slots=slots); play_history(r, hist)
            refs.append(r)
        out = mr.rvs(ss.uids(src), ss.uids(trg))
        a = refs[0].rvs(ss.uids(src)); b = refs[1].rvs(ss.uids(trg))
        if a.dtype != np.float32:
            ctx.broke('correspondence', 'C03.multi', f'uniform dtype is {a.dtype}, model assumes 32-bit patterns'); return
        ai = a.view(np.uint32); bi = b.view(np.uint32)
        lines.append(f'combine {lst(ai)} {lst(bi)}')
        plan.append(dict(out=out, src=src, trg=trg, slots=slots.tolist()))
    res = ctx.drive(DRIVER, lines)
    for p, o in zip(plan, res):
        nums = [int(x) for x in o[4:].split(',')]
        exp = np.array(nums, dtype=np.uint32) / np.iinfo(np.uint32).max
        ctx.case(('multi', tuple(p['src']), tuple(p['trg']), tuple(p['slots'])), True,
                 sample=dict(kind='multi_random', src=p['src'][:6], trg=p['trg'][:6]))
        # the integer combination is exact; the final division by 2^32-1 is compiled by numba with fastmath
        # (reciprocal multiplication), so the quotient is compared to 4 ulp
        ok = np.shape(exp) == np.shape(p['out']) and np.allclose(exp, p['out'], rtol=4e-15, atol=0)
        ctx.count('multi_inexact_division', int(ok and not same(exp, p['out'])))
        if not ok:
            ctx.broke('correspondence', 'C03.multi', 'multi_random.rvs differs from xor(a*b, a-b)/(2^32-1) on the two agents\' 32-bit uniforms',
                      data=dict(src=p['src'], trg=p['trg'], slots=p['slots'], got=np.asarray(p['out']).tolist()[:8], expected=exp.tolist()[:8]))
            return


# ---------------------------------------------------------------------------
# oracle on the real code

def oracle_case(c):
    """ Metamorphic relations on real dists for one case; returns a failure dict or None """
    import starsim as ss
    import random as pyrandom
    fam, mode = c['family'], c['mode']
    slots = np.array(c['slots']); n = c['n']
    table = par_table(fam, n, pyrandom.Random(c['tabseed'])) if mode != 'scalar' else None
    if mode == 'tp_callable' and fam == 'bernoulli':
        table = np.clip(table, 0.01, 0.9)
        if n >= 4: table[0] = 0.0; table[1] = 1.0       # agents that are certainly out / certainly in, next to the others
    allu = list(range(n))
    via0 = c.get('via', 'dist')
    life0 = corr_life(c)
    seeds = {}
    def draw(req, hist, slots_=slots, via=via0, life=life0):
        d = make(fam, mode, slots_, c['trace'], c['seed'], table, req, life=life)
        seeds[life] = int(d.seed)
        play_history(d, hist, None if mode == 'scalar' else req, via=via)
        return np.asarray(d.rvs(ss.uids(req)))
    hist = c['history']
    full = draw(allu, hist)
    req = c['req']
    sig = dict(oracle='draw-depends-on-more-than-slot')
    if len(req):
        sub = draw(req, hist)
        if not same(sub, full[req]):
            return dict(signature=dict(sig, relation='subset'), what=f'ss.{fam} ({mode}): values for uids {req[:6]} differ between a joint request of all agents and a request of just these (slots {slots[req][:6].tolist()})')
    if n >= 4:
        # a few agents fewer in the call: everybody except the first two
        rest = allu[2:]
        sub8 = draw(rest, hist)
        if not same(sub8, full[rest]):
            return dict(signature=dict(sig, relation='subset-drop'), what=f'ss.{fam} ({mode}): values of agents 2..{n - 1} change when agents 0 and 1 are left out of the call')
    if len(req):
        # other history: more/larger draws in earlier steps, same final step and ordinal
        last_jump = max(i for i, h in enumerate(hist) if h[0] == 'jumpdt')
        early = hist[:last_jump]
        ncalls = sum(h[1] if h[0] == 'burst' else h[2] * h[3] if h[0] == 'steps' else 1 for h in early if h[0] != 'jumpdt')
        early2 = early + [('draw', 50), ('draw', 3)] if early else early
        if early:
            hist2 = [early[0]] + [('draw', 9)] + early[1:] + [('draw', 40)] + hist[last_jump:]
            sub2 = draw(req, hist2)
            if not same(sub2, sub):
                return dict(signature=dict(sig, relation='history'), what=f'ss.{fam} ({mode}): values change when more was drawn in earlier timesteps')
        # per-agent parameters: OTHER agents (another group of the same size, then one of another size) drawn in earlier steps
        if early and mode in ('callable', 'tp_callable') and n >= 3:
            k = len(req)
            other1 = [(u + 1) % n for u in req]
            other2 = [u for u in allu if u not in req][: max(1, (k + 1) % n)] or allu[:1]
            hist6 = [early[0]] + [('drawu', other1)] + early[1:] + [('drawu', other2)] + hist[last_jump:]
            try:
                sub6 = draw(req, hist6)
            except Exception as e:
                return dict(signature=dict(sig, relation='history-other-agents'), what=f'ss.{fam} ({mode}): after draws for other agents in earlier timesteps the request raises {type(e).__name__}: {e}')
            if not same(sub6, sub):
                return dict(signature=dict(sig, relation='history-other-agents'), what=f'ss.{fam} ({mode}): values change when OTHER agents were drawn in earlier timesteps')
        # no earlier history at all: a fresh distribution jumped straight to the final step
        if last_jump > 0:
            sub5 = draw(req, hist[last_jump:])
            if not same(sub5, sub):
                return dict(signature=dict(sig, relation='history-fresh'), what=f'ss.{fam} ({mode}): values differ from those of a fresh distribution jumped straight to the same step (earlier history of {ncalls} calls, timestep jumps via {via0})')
        # the same history with the timestep jumps made the other way (module container vs the distribution itself)
        sub7 = draw(req, hist, via='dist' if via0 == 'container' else 'container')
        if not same(sub7, sub):
            return dict(signature=dict(sig, relation='container'), what=f'ss.{fam} ({mode}): values differ between timestep jumps made through the module container (ss.Dists.jump_dt) and through Dist.jump_dt')
        # population size: append agents with larger slots
        big = np.concatenate([slots, slots.max() + 1 + np.arange(7)])
        if mode == 'scalar' or mode == 'callable' or mode == 'array':
            sub3 = draw(req, hist, big)
            if not same(sub3, sub):
                return dict(signature=dict(sig, relation='popsize'), what=f'ss.{fam} ({mode}): values change when the population (largest slot) grows')
        # permutation
        perm = list(reversed(req))
        sub4 = draw(perm, hist)
        if not same(sub4, sub[::-1]):
            return dict(signature=dict(sig, relation='permutation'), what=f'ss.{fam} ({mode}): values change with the order of the request')
        # object lifecycle: the same request after the same history on an object that was created loosely and re-initialised /
        # initialised twice / deep-copied / pickled and restored after a first draw (every lifecycle, in every case)
        # (evaluated last, the twice-initialised object last of all: with seed 0 it is known finding C03-reinit-seed0)
        for life in c.get('lives', ['once', 'loose', 'copy', 'pickle', 'twice']):
            if life == life0: continue
            try:
                subl = draw(req, hist, life=life)
            except Exception as e:
                return dict(signature=dict(sig, relation='lifecycle', life=life, cause='raises'), what=f'ss.{fam} ({mode}): on a distribution object with lifecycle `{life}` the request raises {type(e).__name__}: {e}')
            if not same(subl, sub):
                a, b = sorted([life, life0], key=LIVES.index)
                # (diagnosed from the observed objects: the only difference a re-initialisation with a zero seed makes today is that
                #  `Dist.process_seed` adds the name's offset to the previous total, `seed or self.seed`, i.e. counts it twice)
                other = seeds.get(b if a == 'twice' else a)
                cause = 'seed-accumulates' if ('twice' in (a, b) and not c['seed'] and other and seeds.get('twice') == 2 * other) else 'stream'
                return dict(signature=dict(sig, relation='lifecycle', life=f'{a}/{b}', cause=cause),
                            what=f'ss.{fam} ({mode}): values differ between distribution objects with lifecycles `{a}` and `{b}` (same seed, name, parameters, timestep, call and slots)'
                                 + (f': the object initialised twice has seed {seeds.get("twice")}, the other {other} (seed=0 given both times)' if cause == 'seed-accumulates' else ''))
    return None


def gen_pairwise_case(rng):
    n = rng.randint(3, 30)
    ne = rng.randint(2, 40)
    return dict(n=n, slots=[rng.randint(0, 2 * n) for _ in range(n)], src=[rng.randrange(n) for _ in range(ne)], trg=[rng.randrange(n) for _ in range(ne)],
                seed=rng.randint(0, 100), trace='mp_%d' % rng.randint(0, 10**6), history=gen_history(rng), via=rng.choice(['dist', 'container']),
                perm=rng.sample(range(n), n), keep=sorted(rng.sample(range(ne), rng.randint(1, ne))))


def oracle_pairwise(c):
    """ Pairwise (transmission) draws on the real `ss.multi_random`: the number attached to an edge depends only on the two agents'
        SLOTS -- not on the other edges of the call, and not on the agents' uids (the same slots under another uid labelling). """
    import starsim as ss
    slots = np.array(c['slots']); src = np.array(c['src']); trg = np.array(c['trg']); perm = np.array(c['perm']); keep = np.array(c['keep'])
    def pair(slots_, s_, t_):
        mr = ss.multi_random('source', 'target')
        for d, nm in zip(mr.dists, ('source', 'target')):
            d.init(trace=f"{c['trace']}_{nm}", seed=c['seed'], sim=Sim0(slots_), slots=slots_)
            play_history(d, c['history'], via=c.get('via', 'dist'))
        return np.asarray(mr.rvs(ss.uids(s_), ss.uids(t_)))
    sig = dict(oracle='pairwise-depends-on-more-than-slots')
    full = pair(slots, src, trg)
    sub = pair(slots, src[keep], trg[keep])
    if not same(sub, full[keep]):
        return dict(signature=dict(sig, relation='edge-subset'), what=f'multi_random: the numbers of edges {keep[:6].tolist()} change when the other edges are left out of the call')
    slots2 = np.empty_like(slots); slots2[perm] = slots          # agent u is now called perm[u] and keeps its slot
    rel = pair(slots2, perm[src], perm[trg])
    if not same(rel, full):
        return dict(signature=dict(sig, relation='uid-relabel'), what='multi_random: the numbers of the edges change when the agents get other uids but keep their slots')
    return None


def oracle_combine(c):
    """ The package's OTHER pairwise combiner, `ss.utils.combine_rands` (what the Erdos-Renyi network decides the existence of an edge
        with), fed as the network feeds it: per-agent integers drawn by slot from `ss.randint(int64 range, dtype=int64)` (kind 'int64')
        or from `ss.rand_raw` (kind 'raw', the documented input).  The number of a pair depends only on the two agents' slots: not on
        the other pairs of the call (a sub-list of the pairs; one pair alone), and not on the agents' uids. """
    import starsim as ss
    slots = np.array(c['slots']); src = np.array(c['src']); trg = np.array(c['trg']); perm = np.array(c['perm']); keep = np.array(c['keep'])
    kind = c.get('kind', 'int64')
    def pair(slots_, s_, t_):
        if kind == 'int64': d = ss.randint(low=np.iinfo('int64').min, high=np.iinfo('int64').max, dtype=np.int64)
        else: d = ss.rand_raw()
        d.init(trace=c['trace'], seed=c['seed'], sim=Sim0(slots_), slots=slots_)
        play_history(d, c['history'], via=c.get('via', 'dist'))
        everyone = np.unique(np.concatenate([s_, t_]))
        ints = np.asarray(d.rvs(ss.uids(everyone)))             # one draw for all agents of the call, as `add_pairs` does
        pos = {int(u): k for k, u in enumerate(everyone)}
        return np.asarray(ss.utils.combine_rands(ints[[pos[int(u)] for u in s_]], ints[[pos[int(u)] for u in t_]]))
    sig = dict(oracle='pairwise-depends-on-more-than-slots', combiner='combine_rands')
    full = pair(slots, src, trg)
    sub = pair(slots, src[keep], trg[keep])
    if not same(sub, full[keep]):
        return dict(signature=dict(sig, relation='edge-subset'), what=f'combine_rands ({kind} inputs): the numbers of pairs {keep[:6].tolist()} change when the other pairs are left out of the call')
    for e in range(min(3, len(src))):
        one = pair(slots, src[e:e + 1], trg[e:e + 1])
        if not same(one, full[e:e + 1]):
            return dict(signature=dict(sig, relation='edge-alone'), what=f'combine_rands ({kind} inputs): the number of pair {e} (agents {int(src[e])}, {int(trg[e])}) differs between a call with all pairs and a call with this pair alone')
    slots2 = np.empty_like(slots); slots2[perm] = slots
    rel = pair(slots2, perm[src], perm[trg])
    if not same(rel, full):
        return dict(signature=dict(sig, relation='uid-relabel'), what=f'combine_rands ({kind} inputs): the numbers of the pairs change when the agents get other uids but keep their slots')
    return None


def oracle_extension(cfg):
    """ Sim level: n agents vs n+k agents where the extras can neither transmit nor be infected (slot-keyed networks) """
    import starsim as ss
    n = cfg['n_agents']; k = cfg['extra']

    class neutralise(ss.Intervention):
        def __init__(self, first, **kw):
            super().__init__(**kw); self.first = first
        def step(self):
            ppl = self.sim.people
            ex = ss.uids(np.arange(self.first, len(ppl.uid.raw[:ppl.uid.len_used])))
            ex = ex[np.isin(ex, ppl.auids)]
            for dis in self.sim.diseases():
                dis.rel_sus[ex] = 0.0; dis.rel_trans[ex] = 0.0

    class edges(ss.Analyzer):
        """ per step: the edges among the ORIGINAL agents in every network (pair formation is a pairwise draw keyed by the two slots) """
        def __init__(self, n, **kw):
            super().__init__(**kw); self.n = n; self.log = []
        def step(self):
            row = {}
            for net in self.sim.networks():
                p1 = np.asarray(net.edges.p1); p2 = np.asarray(net.edges.p2)
                k = (p1 < self.n) & (p2 < self.n)
                row[net.name] = sorted(zip(p1[k].tolist(), p2[k].tolist(), np.asarray(net.edges.dur)[k].tolist() if 'dur' in net.edges else [0] * int(k.sum())))
            self.log.append(row)

    def run(n_agents):
        c = dict(cfg); c['n_agents'] = n_agents
        sim = impl.build_sim(c, extra_interventions=[neutralise(first=n)], extra_analyzers=[edges(n, name='c03edges')])
        sim.init()
        # extras must not seed infections among themselves that matter: they are neutralised before transmission
        sim.run()
        out = {}
        for dis in sim.diseases():
            for st in ('ti_infected', 'ti_recovered', 'susceptible', 'infected'):
                if hasattr(dis, st):
                    out[f'{dis.name}.{st}'] = np.asarray(getattr(dis, st).raw[:n]).copy()
        return out, sim.analyzers['c03edges'].log
    (a, ea), (b, eb) = run(n), run(n + k)
    for t, (ra, rb) in enumerate(zip(ea, eb)):
        for nm in ra:
            if ra[nm] != rb.get(nm):
                diff = sorted(set(map(tuple, ra[nm])) ^ set(map(tuple, rb.get(nm) or [])))
                return dict(signature=dict(oracle='extension', network=cfg['networks'][0]['type'], relation='edges'),
                            what=f"adding {k} agents who can neither transmit nor be infected changed the edges AMONG the original agents in network `{nm}` at step {t} (e.g. (p1, p2, dur) {diff[:3]}; {len(ra[nm])} vs {len(rb.get(nm) or [])} edges)")
    for key in a:
        if not same(a[key], b[key]):
            bad = np.flatnonzero(~((a[key] == b[key]) | (np.isnan(a[key].astype(float)) & np.isnan(b[key].astype(float)))))
            return dict(signature=dict(oracle='extension', network=cfg['networks'][0]['type']),
                        what=f"adding {k} agents who can neither transmit nor be infected changed `{key}` of original agents {bad[:6].tolist()} ({cfg['networks'][0]['type']} network)")
    return None


def oracle_extension_births(cfg):
    """ Sim level, with births by pregnancy: the same simulation with and without k extra agents that are grown into
        the population at the start (isolated: no susceptibility, no transmissibility, male, outside every network rule
        that matters).  A newborn's slot is drawn from a stream keyed by its MOTHER's slot, so every birth of an original
        mother must get the same slot, and the original agents' infection histories must be unchanged. """
    import starsim as ss
    n = cfg['n_agents']; k = cfg['extra']; slot0 = cfg['extra_slot0']

    class AddIsolated(ss.Intervention):
        """ grows k isolated agents on its first step and keeps every non-original agent neutral """
        def __init__(self, k, slot0, **kw):
            super().__init__(**kw); self.k = k; self.slot0 = slot0; self.extras = None
            # a per-agent state whose default is a random draw (like DiskNet's positions or a mixing pool's contacts):
            # what a newborn receives must depend on its slot only, not on how many agents were created before it
            self.define_states(ss.FloatArr('mark', default=ss.random(name='markdist')))
        def step(self):
            ppl = self.sim.people
            if self.extras is None:
                if self.k:
                    self.extras = ppl.grow(self.k, new_slots=np.arange(self.slot0, self.slot0 + self.k))
                    ppl.age[self.extras] = 30.0
                    ppl.female[self.extras] = False
                else:
                    self.extras = ss.uids()
            if len(self.extras):
                ex = self.extras[np.isin(self.extras, ppl.auids)]
                for dis in self.sim.diseases():
                    dis.rel_sus[ex] = 0.0; dis.rel_trans[ex] = 0.0
                    if hasattr(dis, 'susceptible'): dis.susceptible[ex] = False
                for net in self.sim.networks():
                    if hasattr(net, 'participant'): net.participant[ex] = False

    def run(k_extra):
        c = dict(cfg)
        sim = impl.build_sim(c, extra_interventions=[AddIsolated(k_extra, slot0, name='addiso')])
        sim.init(); sim.run()
        ppl = sim.people
        parent = np.asarray(ppl.parent.raw[:ppl.uid.len_used]); slot = np.asarray(ppl.slot.raw[:ppl.uid.len_used])
        births = {}; marks = {}
        mark = np.asarray(sim.interventions['addiso'].mark.raw[:ppl.uid.len_used])
        for u in range(n, len(parent)):
            p = parent[u]
            if p == p and 0 <= p < n:      # children of original mothers, in birth order per mother
                births.setdefault(int(p), []).append(int(slot[u]))
                marks.setdefault(int(p), []).append(float(mark[u]))
        out = dict(births=births, marks=marks)
        for dis in sim.diseases():
            for st in ('ti_infected', 'susceptible', 'infected'):
                out[f'{dis.name}.{st}'] = np.asarray(getattr(dis, st).raw[:n]).copy()
        return out
    a = run(0); b = run(k)
    if a['births'] != b['births']:
        m = next(mm for mm in sorted(set(a['births']) | set(b['births'])) if a['births'].get(mm) != b['births'].get(mm))
        return dict(signature=dict(oracle='extension', network='births-slots'),
                    what=f"adding {k} isolated agents (slots {slot0}..{slot0 + k - 1}) changed the slots given to the children of original mother {m}: {a['births'].get(m)} vs {b['births'].get(m)}")
    if a['marks'] != b['marks']:
        m = next(mm for mm in sorted(set(a['marks']) | set(b['marks'])) if a['marks'].get(mm) != b['marks'].get(mm))
        return dict(signature=dict(oracle='extension', network='births-state-default'),
                    what=f"adding {k} isolated agents changed the random state default received by the children of original mother {m} (same slots {a['births'].get(m)}): {a['marks'].get(m)} vs {b['marks'].get(m)}")
    for key in a:
        if key not in ('births', 'marks') and not same(a[key], b[key]):
            return dict(signature=dict(oracle='extension', network='births-history'),
                        what=f"adding {k} isolated agents changed `{key}` of original agents")
    return None


def oracle_long_run(cfg):
    """ Sim level, real `Module.start_step` path: after a LONG run (every per-step stream has been called more than a thousand
        times, the transmission streams several thousand times) every distribution of every module, jumped to a later timestep
        by its module's container, must give the stream of the same distribution in a freshly initialised identical sim jumped
        to that timestep: what a step draws does not depend on how much was drawn in earlier steps. """
    a = impl.build_sim(cfg); a.init(); a.run()
    b = impl.build_sim(cfg); b.init()
    ti = int(a.t.npts) + cfg.get('probe_ahead', 7)
    seen = 0; most = 0
    for ma, mb in zip(a.modules, b.modules):
        if getattr(ma, 'dists', None) is None or getattr(mb, 'dists', None) is None: continue
        if type(ma) is not type(mb) or list(ma.dists.dists.keys()) != list(mb.dists.dists.keys()):
            return dict(signature=dict(oracle='long-run', relation='setup'), what='two builds of the same configuration have different distributions')
        ma.dists.jump_dt(ti=ti); mb.dists.jump_dt(ti=ti)
        for tr, da in ma.dists.dists.items():
            db = mb.dists.dists[tr]
            seen += 1; most = max(most, int(da.called))
            xa = np.asarray(da.rng.random(6)); xb = np.asarray(db.rng.random(6))
            if not same(xa, xb):
                return dict(signature=dict(oracle='long-run', relation='history-fresh'),
                            what=f"after a run of {int(a.t.npts)} steps ({int(da.called)} calls) the stream of `{tr}` at timestep {ti} differs from the one a freshly initialised identical sim has at that timestep")
    if seen == 0 or most <= 1000:
        return dict(signature=dict(oracle='long-run', relation='setup'), what=f'the long run did not exercise a long history ({seen} distributions, at most {most} calls)')
    return None


def gen_long_run_cfg(rng):
    net = rng.choice([dict(type='erdosrenyi', p=0.15), dict(type='random', n_contacts=2)])
    return dict(n_agents=rng.choice([25, 40]), rand_seed=rng.randint(0, 1000), unit='day', dt=1.0, start='2020-01-01',
                dur=rng.randint(1050, 1250), diseases=[dict(type='sis', beta=0.05, init_prev=0.2, dur_inf=5)], networks=[net],
                demographics=[], probe_ahead=rng.randint(1, 30))


def gen_extension_births_cfg(rng):
    n = rng.choice([80, 120, 160])
    return dict(n_agents=n, rand_seed=rng.randint(0, 1000), unit='year', dt=1.0, start=2000, dur=rng.randint(12, 25),
                extra=rng.choice([60, 150, 300]), extra_slot0=n + 1 + rng.choice([0, 5, 40]),
                diseases=[dict(type='sis', beta=0.3, init_prev=0.2, dur_inf=5)],
                networks=[dict(type=rng.choice(['erdosrenyi', 'mf', 'embedding']))], use_aging=True,
                demographics=[dict(type='pregnancy', fertility_rate=rng.choice([150, 300]), burnin=False)])


def gen_extension_cfg(rng):
    net = rng.choice(['erdosrenyi', 'erdosrenyi', 'disk'])
    cfg = dict(n_agents=rng.choice([40, 80, 120]), rand_seed=rng.randint(0, 1000), unit='year', dt=1.0, start=2000,
               dur=rng.randint(4, 9), extra=rng.choice([1, 5, 30]),
               diseases=[dict(type=rng.choice(['sir', 'sis']), beta=rng.choice([0.3, 0.8]), init_prev=rng.choice([0.05, 0.2]), dur_inf=rng.choice([2, 5]))],
               networks=[dict(type='erdosrenyi', p=rng.choice([0.05, 0.1]))] if net == 'erdosrenyi' else [dict(type='disk', r=0.2, v=0.1)],
               demographics=[])
    if net == 'erdosrenyi' and rng.random() < 0.6:
        # edges that persist for a duration drawn per source agent (a slot-keyed draw, with repeated sources in one request)
        cfg['networks'][0]['dur'] = rng.choice([dict(dist='uniform', pars=dict(low=0.0, high=4.0)), dict(dist='poisson', pars=dict(lam=2.0)), 2])
    if cfg['diseases'][0]['type'] == 'sir': cfg['diseases'][0]['p_death'] = 0
    return cfg


def search(ctx):
    import starsim as ss
    families = list(ss.dist_list)
    st = strata(families)
    for i in range(ctx.budget(120, 1000)):
        c = gen_case(ctx.rng, families, *(st[i] if i < len(st) else ()))
        try:
            f = oracle_case(c)
        except Exception as e:
            ctx.count('oracle_exceptions'); continue
        ctx.count('oracle_cases')
        if f:
            ctx.fail(f['signature'], f['what'], dict(kind='case', case=c))
    for _ in range(ctx.budget(25, 200)):
        c = gen_pairwise_case(ctx.rng)
        f = oracle_pairwise(c)
        ctx.count('oracle_pairwise_cases')
        if f:
            ctx.fail(f['signature'], f['what'], dict(kind='pairwise', case=c))
    import random as pyrandom
    crng = pyrandom.Random(ctx.rng.randint(0, 10**9))
    for i in range(ctx.budget(20, 150)):
        c = gen_pairwise_case(crng); c['kind'] = ['int64', 'raw'][i % 2]
        f = oracle_combine(c)
        ctx.count('oracle_combine_cases')
        if f:
            ctx.fail(f['signature'], f['what'], dict(kind='combine', case=c))
    for i in range(ctx.budget(5, 20)):
        c = gen_long_case(ctx.rng, families, i)
        try:
            f = oracle_case(c)
        except Exception as e:
            ctx.count('oracle_exceptions'); ctx.notes['last_long_case_exception'] = f'{type(e).__name__}: {e}'; continue
        ctx.count('oracle_long_history_cases')
        if f:
            ctx.fail(f['signature'], f['what'], dict(kind='case', case=c))
    for _ in range(ctx.budget(1, 5)):
        cfg = gen_long_run_cfg(ctx.rng)
        f = oracle_long_run(cfg)
        ctx.count('long_runs')
        if f:
            ctx.fail(f['signature'], f['what'], dict(kind='long_run', cfg=cfg))
    fixed_durs = [dict(dist='uniform', pars=dict(low=0.0, high=4.0)), dict(dist='poisson', pars=dict(lam=2.0))]
    # always exercised: a duration of infection drawn from a distribution object the USER made before the sim existed (strict=False:
    # it initialised itself, was perhaps drawn from, and is re-initialised by Sim.init) -- a SciPy-backed and a NumPy-backed family
    user_dists = [dict(dist='gamma', pars=dict(a=2.0, scale=3.0)), dict(dist='weibull', pars=dict(c=1.5, scale=4.0), preview=3),
                  dict(dist='lognorm_ex', pars=dict(mean=4.0, std=2.0), preview=5)]
    for ud in user_dists:
        cfg = dict(n_agents=60, rand_seed=ctx.rng.randint(0, 1000), unit='year', dt=1.0, start=2000, dur=12, extra=ctx.rng.choice([7, 30]),
                   diseases=[dict(type='sir', beta=0.5, init_prev=0.15, dur_inf=ud, p_death=0)], networks=[dict(type='erdosrenyi', p=0.08)], demographics=[])
        f = oracle_extension(cfg)
        ctx.count('extension_runs_user_dist')
        if f:
            ctx.fail(f['signature'], f['what'], dict(kind='extension', cfg=cfg))
    for i in range(ctx.budget(3, 25) + len(fixed_durs)):
        cfg = gen_extension_cfg(ctx.rng)
        if i < len(fixed_durs):
            # always exercised: an Erdos-Renyi network whose edges persist for a duration drawn per source agent
            cfg['networks'] = [dict(type='erdosrenyi', p=0.08, dur=fixed_durs[i])]; cfg['n_agents'] = 60; cfg['dur'] = 10
            cfg['diseases'] = [dict(type='sir', beta=0.5, init_prev=0.1, dur_inf=4, p_death=0)]
        f = oracle_extension(cfg)
        ctx.count('extension_runs')
        if f:
            ctx.fail(f['signature'], f['what'], dict(kind='extension', cfg=cfg))
    for _ in range(ctx.budget(3, 20)):
        cfg = gen_extension_births_cfg(ctx.rng)
        try:
            f = oracle_extension_births(cfg)
        except Exception as e:
            ctx.count('extension_births_exceptions'); ctx.notes['last_extension_births_exception'] = f'{type(e).__name__}: {e}'; continue
        ctx.count('extension_births_runs')
        if f:
            ctx.fail(f['signature'], f['what'], dict(kind='extension_births', cfg=cfg))


def replay(ctx, data):
    if data.get('kind') == 'case':
        return oracle_case(data['case']) is not None
    if data.get('kind') == 'pairwise':
        return oracle_pairwise(data['case']) is not None
    if data.get('kind') == 'combine':
        return oracle_combine(data['case']) is not None
    if data.get('kind') == 'long_run':
        return oracle_long_run(data['cfg']) is not None
    if data.get('kind') == 'extension':
        return oracle_extension(data['cfg']) is not None
    if data.get('kind') == 'extension_births':
        return oracle_extension_births(data['cfg']) is not None
    return False
