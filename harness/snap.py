"""
Snapshots of a finished (or paused) real sim for exact comparisons: every result series and every agent-state
array over the active agents, keyed by stable names (module name + state / result name).
"""
import numpy as np


def results(sim, modules=None):
    """ {key: ndarray}; `modules` = iterable of module names to keep (None = everything incl. sim-level results) """
    out = {}
    for k, v in sim.results.items():
        if hasattr(v, 'items') and not hasattr(v, 'dtype'):   # per-module Results container
            if modules is not None and k not in modules: continue
            for k2, v2 in v.items():
                if k2 == 'timevec': continue
                try: out[f'{k}.{k2}'] = np.asarray(v2.values if hasattr(v2, 'values') else v2).copy()
                except Exception: pass
        else:
            if k == 'timevec': continue
            if modules is not None and '__sim__' not in modules: continue
            try: out[f'sim.{k}'] = np.asarray(v.values if hasattr(v, 'values') else v).copy()
            except Exception: pass
    return out


def states(sim, modules=None):
    """ {key: values over active uids}; people's own states under 'people.<name>' """
    import starsim as ss
    ppl = sim.people
    au = np.asarray(ppl.auids)
    out = {'people.__auids__': au.copy()}
    if modules is None or '__people__' in modules:
        for st in (ppl.states.values() if modules is None and hasattr(ppl, 'states') and hasattr(ppl.states, 'values') else []):
            try: out[f'people.{st.name}'] = np.asarray(st.raw[au]).copy()
            except Exception: pass
        for nm in ('uid', 'slot', 'alive', 'female', 'age', 'ti_dead', 'scale', 'parent'):
            st = getattr(ppl, nm, None)
            if st is not None and hasattr(st, 'raw') and f'people.{nm}' not in out:
                out[f'people.{nm}'] = np.asarray(st.raw[au]).copy()
    for mod in sim.modules:
        if modules is not None and mod.name not in modules: continue
        for st in mod.states:
            try: out[f'{mod.name}.{st.name}'] = np.asarray(st.raw[au]).copy()
            except Exception: pass
    return out


def network_edges(sim, modules=None):
    out = {}
    for name, net in sim.networks.items():
        if modules is not None and name not in modules: continue
        if hasattr(net, 'edges'):
            for col, v in net.edges.items():
                out[f'{name}.edges.{col}'] = np.asarray(v).copy()
    return out


def delivery_records(sim, modules=None):
    """ outcome lists / queues kept by interventions outside their agent arrays """
    out = {}
    for name, iv in sim.interventions.items():
        if modules is not None and name not in modules: continue
        oc = getattr(iv, 'outcomes', None)
        if isinstance(oc, dict):
            for k, v in oc.items():
                try: out[f'{name}.outcomes.{k}'] = np.sort(np.asarray(v, dtype=float))
                except Exception: pass
        q = getattr(iv, 'queue', None)
        if isinstance(q, (list, np.ndarray)):
            try: out[f'{name}.queue'] = np.asarray(q, dtype=float)
            except Exception: pass
    return out


def everything(sim, modules=None):
    out = {}
    out.update(results(sim, modules)); out.update(states(sim, modules)); out.update(network_edges(sim, modules))
    out.update(delivery_records(sim, modules))
    return out


def diff(a, b, keys=None):
    """ first difference between two snapshots (exact; NaN == NaN) or None """
    ks = keys if keys is not None else sorted(set(a) | set(b))
    for k in ks:
        if k not in a or k not in b:
            return f'{k} present in only one run'
        x, y = a[k], b[k]
        if x.shape != y.shape:
            return f'{k}: shape {x.shape} vs {y.shape}'
        same = np.array_equal(x, y, equal_nan=True) if x.dtype.kind in 'fc' and y.dtype.kind in 'fc' else np.array_equal(x, y)
        if not same:
            idx = np.flatnonzero(~((x == y) | ((x != x) & (y != y)))) if x.dtype.kind in 'fc' else np.flatnonzero(x != y)
            i = int(idx[0]) if len(idx) else -1
            return f'{k}[{i}]: {x.ravel()[i] if i >= 0 else "?"} vs {y.ravel()[i] if i >= 0 else "?"} ({len(idx)} entries differ)'
    return None
