-- Root of the `StarsimModel` library: models, generated tables, lemmas, property theorems.
import StarsimModel.Model.Rng
