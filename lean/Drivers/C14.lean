import StarsimModel.Model.Network
import StarsimModel.Model.Proto
/-!
Line-protocol driver for C14.  Every line is self-contained:  `<op> key=value key=value …`
  state keys   n auids alive female age(aligned with auids) part debut(aligned with auids) kind variant
               p1 p2 beta dur acts start stop          (the current edge table; `-` = empty list)
  op keys      dt ti uids wantf  a b (observed new endpoints)  durs actsl
               n_p1 n_p2 n_beta n_dur n_acts n_start n_stop (append: an absent key = key missing from the dict)
Ops: end rm matstep matend append check avail accept addstated (durpar dval | draws) matadd (mothers unborn durs starts ti)
-/
open StarsimModel StarsimModel.Network StarsimModel.Proto

abbrev KV := List (String × String)

def parseKV (ws : List String) : Option KV :=
  ws.mapM (fun w => match w.splitOn "=" with
    | [k, v] => some (k, v)
    | _ => none)

def getS (kv : KV) (k : String) : Option String := (kv.find? (·.1 == k)).map (·.2)
def getNats (kv : KV) (k : String) : Option (List Nat) := match getS kv k with
  | none => some []
  | some v => parseNatList? v
def getRats (kv : KV) (k : String) : Option (List Rat) := match getS kv k with
  | none => some []
  | some v => parseRatList? v
def getRat (kv : KV) (k : String) : Option Rat := (getS kv k).bind parseRat?
def getNat (kv : KV) (k : String) : Option Nat := (getS kv k).bind parseNat?

def parseKind : String → Option Kind
  | "static" => some .static | "random" => some .random | "erdos" => some .erdos | "disk" => some .disk
  | "null" => some .null | "mf" => some .mf | "msm" => some .msm | "embedding" => some .embedding
  | "maternal" => some .maternal | "randomplain" => some .randomPlain | _ => none

def lookupRat (ks : List Nat) (vs : List Rat) (dflt : Rat) (u : Nat) : Rat :=
  match ks.idxOf? u with
  | some i => vs.getD i dflt
  | none => dflt

def showTable (t : Table) : String :=
  s!"ok p1={showList toString t.p1} p2={showList toString t.p2} beta={showList showRat t.beta} dur={showList showRat t.dur} acts={showList showRat t.acts} start={showList showRat t.start} stop={showList showRat t.stop}"

def showErr : Err → String
  | .keyMissing => "E:KeyMissing" | .badChoice => "E:BadChoice" | .contract => "E:Contract"

structure St where
  pop : Pop
  net : Net

def build (kv : KV) : Option St := do
  let kind ← (getS kv "kind").bind parseKind
  let variant := if getS kv "variant" == some "asis" then Variant.asis else Variant.spec
  let auids ← getNats kv "auids"
  let alive ← getNats kv "alive"
  let female ← getNats kv "female"
  let age ← getRats kv "age"
  let part ← getNats kv "part"
  let debut ← getRats kv "debut"
  let n := (getNat kv "n").getD 0
  let t : Table := { keys := kind.keys, p1 := ← getNats kv "p1", p2 := ← getNats kv "p2", beta := ← getRats kv "beta",
                     dur := ← getRats kv "dur", acts := ← getRats kv "acts", start := ← getRats kv "start",
                     stop := ← getRats kv "stop" }
  let pop : Pop := { nUids := n, auids := auids, alive := fun u => alive.contains u, female := fun u => female.contains u,
                     age := lookupRat auids age 0 }
  let net : Net := { kind := kind, variant := variant, table := t, participant := fun u => part.contains u,
                     debut := lookupRat auids debut 0 }
  pure { pop := pop, net := net }

def optRats (kv : KV) (k : String) : Option (Option (List Rat)) := match getS kv k with
  | none => some none
  | some v => (parseRatList? v).map some
def optNats (kv : KV) (k : String) : Option (Option (List Nat)) := match getS kv k with
  | none => some none
  | some v => (parseNatList? v).map some

/-- index of the first occurrence -/
def idxIn (l : List Nat) (u : Nat) : Nat := (l.idxOf? u).getD l.length

/-- the choice that would make `newPairs` return the observed `(a, b)`, if any does -/
def choiceFor (s : St) (a b : List Nat) (durs acts : List Rat) : Choice :=
  let p := s.pop
  let base : Choice := { durAt := fun i => durs.getD i 0, actsAt := fun i => acts.getD i 0,
                         participant := s.net.participant, debut := s.net.debut }
  match s.net.kind with
  | .random => { base with nOf := fun u => a.count u, target := b }
  | .randomPlain =>
      -- one count per active position: the eligible agents' own counts, then everything that is left over (the filler
      -- slots) on the first position beyond them
      let born := p.auids.filter (fun u => p.alive u && decide (0 < p.age u))
      let headCounts := born.map (fun u => if u = 0 then (a.takeWhile (· == 0)).length else a.count u)
      let rest := a.length - headCounts.sum
      let extra := p.auids.length - born.length
      let tailCounts := if extra = 0 then [] else rest :: List.replicate (extra - 1) 0
      { base with counts := headCounts ++ tailCounts, target := b }
  | .erdos =>
      let born := p.auids.filter (fun u => decide (0 < p.age u))
      match s.net.variant with
      | .asis => { base with pairs := a.zip b }
      | .spec => { base with pairs := (a.map (idxIn born)).zip (b.map (idxIn born)) }
  | .disk =>
      match s.net.variant with
      | .asis => { base with pairs := a.zip b }
      | .spec => { base with pairs := (a.map (idxIn p.auids)).zip (b.map (idxIn p.auids)) }
  | .mf =>
      if (s.net.available p false).length ≤ (s.net.available p true).length then { base with pick := b }
      else { base with pick := a }
  | .embedding => { base with pick := a, pick2 := b }
  | _ => base

def stepLine (_ : Unit) (line : String) : Unit × String :=
  match words line with
  | [] => ((), "bad-op")
  | op :: rest =>
    match parseKV rest with
    | none => ((), "bad-op")
    | some kv =>
      match build kv with
      | none => ((), "bad-op")
      | some s =>
        let t := s.net.table
        let r : Option String := match op with
          | "end" => do
              let dt ← getRat kv "dt"
              pure (showTable (t.endPairs dt s.pop.alive))
          | "rm" => do
              let uids ← getNats kv "uids"
              pure (showTable (t.removeUids uids))
          | "matstep" => do
              let ti ← getRat kv "ti"
              pure (showTable (t.matStep ti))
          | "matend" => do
              let ti ← getRat kv "ti"
              pure (showTable (t.matEndPairs ti s.pop.alive))
          | "append" => do
              let c : Cols := { p1 := ← optNats kv "n_p1", p2 := ← optNats kv "n_p2", beta := ← optRats kv "n_beta",
                                dur := ← optRats kv "n_dur", acts := ← optRats kv "n_acts",
                                start := ← optRats kv "n_start", stop := ← optRats kv "n_stop" }
              pure (match t.append c with
                | .ok t' => showTable t' ++ s!" wf={showBool t'.wfB}"
                | .error e => showErr e)
          | "poolrm" => do
              let uids ← getNats kv "uids"
              let members ← getNats kv "a"
              pure s!"ok {showList toString (setdiff members uids)}"
          | "check" =>
              pure s!"ok wf={showBool t.wfB} active={showBool (t.endpointsIn s.pop.auids)} mono={showBool t.monogamous} alive={showBool (t.endpoints.all s.pop.alive)}"
          | "avail" => do
              let wf ← (getS kv "wantf").bind parseBool?
              pure s!"ok {showList toString (s.net.available s.pop wf)}"
          | "accept" => do
              let a ← getNats kv "a"
              let b ← getNats kv "b"
              let durs ← getRats kv "durs"
              let acts ← getRats kv "actsl"
              let c := choiceFor s a b durs acts
              pure (match s.net.newPairs s.pop c with
                | .error e => showErr e
                | .ok none => if a.isEmpty && b.isEmpty then "ok accept=1 none" else "ok accept=0 none"
                | .ok (some (a', b')) =>
                    s!"ok accept={showBool (a' == a && b' == b)} a={showList toString a'} b={showList toString b'}")
          | "addstated" => do
              -- the whole `add_pairs` of a duration-carrying class: observed endpoints -> choice, durations from the STATED
              -- duration parameter (`durpar=plain dval=<number>` | `durpar=drawn draws=<one value per new edge>`)
              let a ← getNats kv "a"
              let b ← getNats kv "b"
              let acts ← getRats kv "actsl"
              let spec : DurPar ← match getS kv "durpar" with
                | some "plain" => (getRat kv "dval").map DurPar.plain
                | some "timepar" => do
                    let D ← getRat kv "dval"
                    let dt ← getRat kv "dt"
                    if dt == 0 then none else pure (DurPar.plain (timeparValue D dt))
                | some "drawn" => (getRats kv "draws").map DurPar.drawn
                | _ => none
              let c := choiceFor s a b [] acts
              pure (match s.net.addPairsStated s.pop c spec with
                | .ok n' => showTable n'.table ++ s!" wf={showBool n'.table.wfB}"
                | .error e => showErr e)
          | "matadd" => do
              let mothers ← getNats kv "mothers"
              let unborn ← getNats kv "unborn"
              let durs ← getRats kv "durs"
              let starts ← optRats kv "starts"
              let ti ← getRat kv "ti"
              pure (match t.matAddPairsAt mothers unborn durs starts ti with
                | .ok t' => showTable t' ++ s!" wf={showBool t'.wfB}"
                | .error e => showErr e)
          | _ => none
        ((), r.getD "bad-op")

def main : IO Unit := mainLoop stepLine ()
