import StarsimModel.Model.Loop
import StarsimModel.Model.LoopInstant
import StarsimModel.Model.Proto
open StarsimModel StarsimModel.Loop StarsimModel.LoopInstant StarsimModel.Proto

/-
Line protocol (one line in, one line out):
  plan <mods> <tvecs>
     mods  = `-` or comma list of `<kind>:<isDisease 0/1>:<nameId>` (nameId 0 = "sim", 1 = "people")
     tvecs = `;`-separated comma lists of Int (units of time_eps): sim; every module's own abstvec; the sim's again
             for the `people` entry (owner mods.length+1)
  ->  ok n=<#funcs> sep=<0/1> mono=<0/1> aligned=<0/1> funcs=<owner:clock:finish:row,…>
         plan=<time:order:owner:clock:k:clockvalue,…> final=<ti after Sim.run of sim and modules,…>
  table  ->  the rows of Gen.loopRows as the model understands them
  inst <y0> <readings>
     y0 = the sim's first year in eps (Int); readings = comma list of `<year>:<zero-based day of the year>` shown by a
     date-based owner's clock at its successive indices
  ->  ok inc=<0/1: existing days, strictly increasing> v=<the owner's time vector in eps (Model/LoopInstant.lean)>
-/

def parseReading? (s : String) : Option Reading :=
  match s.splitOn ":" with
  | [y, d] => do some ⟨← parseNat? y, ← parseNat? d⟩
  | _ => none

def parseKind? (s : String) : Option Kind :=
  match s with
  | "demographics" => some .demographics | "networks" => some .networks | "diseases" => some .diseases
  | "connectors" => some .connectors | "interventions" => some .interventions | "products" => some .products
  | "analyzers" => some .analyzers | _ => none

def parseMod? (s : String) : Option Mod :=
  match s.splitOn ":" with
  | [k, d, n] => do some ⟨← parseKind? k, ← parseBool? d, ← parseNat? n⟩
  | _ => none

def parseMods? (s : String) : Option (List Mod) :=
  if s = "-" then some [] else (s.splitOn ",").mapM parseMod?

def parseTvecs? (s : String) : Option (List (List Int)) :=
  (s.splitOn ";").mapM parseIntList?

def showEntry (ec : Entry × Nat) : String :=
  s!"{ec.1.time}:{ec.1.order}:{ec.1.owner}:{ec.1.clock}:{ec.1.k}:{ec.2}"

def stepLine (u : Unit) (line : String) : Unit × String :=
  match words line with
  | ["plan", ms, ts] =>
      match parseMods? ms, parseTvecs? ts with
      | some mods, some tvecs =>
          if tvecs.length ≠ mods.length + 2 then (u, "bad-op") else
          let T := Times.ofArrays (tvecs.map List.toArray).toArray
          let fl := collect Gen.loopRows mods
          let p := makePlan T fl
          let tr := trace [] p
          let fin := afterRun (finalClocks [] p)
          let owners := List.range (mods.length + 1)
          (u, s!"ok n={fl.length} sep={showBool (separatedFast T fl fl.length)} mono={showBool (strictMonoB T (List.range (mods.length + 2)))} " ++
              s!"aligned={showBool (alignedB T fl)} " ++
              s!"funcs={showList (fun (f : Func) => s!"{f.owner}:{f.clock}:{showBool f.finish}:{f.row}") fl} " ++
              s!"plan={showList showEntry tr} final={showList (fun m => toString (fin m)) owners}")
      | _, _ => (u, "bad-op")
  | ["inst", y0s, rs] =>
      match parseInt? y0s, (rs.splitOn ",").mapM parseReading? with
      | some y0, some l =>
          (u, s!"ok inc={showBool (increasingB l)} v={showList (fun (x : Int) => toString x) (instVec y0 l)}")
      | _, _ => (u, "bad-op")
  | ["table"] =>
      (u, "ok " ++ showList (fun (r : Row) => s!"{r.1}|{r.2.1}|{r.2.2}|{match contIsSimD r with | some true => "sim" | some false => "mod" | none => "?"}") Gen.loopRows)
  | _ => (u, "bad-op")
where
  contIsSimD (r : Row) : Option Bool :=
    match parseCont r.1, parseGuard r.2.2 with
    | some .sim, some _ => some true
    | some .people, some _ => some true
    | some .modules, some _ => some false
    | some (.kind _), some _ => some false
    | _, _ => none

def main : IO Unit := mainLoop stepLine ()
