import StarsimModel.Model.Timeline
import StarsimModel.Model.Proto
/-!
Line-protocol driver for C07 (timelines).  One operation per line, one canonical output line per input line.

  sim <unit|~> <start> <stop> <dur> <dt>                       the sim's own timeline (asis), plus the spec variant's npts
  mod <unit|~> <start> <stop> <dur> <dt> <munit> <mstart> <mstop> <mdt>     a module's timeline in that sim
  grid <start> <stop> <dt>                                      int((stop-start)/dt): asis (software float), spec (exact), Lean Float
  update <F|N|T> <self 4> <kwargs 4> <pars 4> <0|1> <parent 4>   Time.update on (start stop dt unit); unit `_` = None
  now <npts> <ti>                                               index Time.now reads
  consts                                                        the regenerated constants the model was built with
  ord <date> | cal <n> | addm <date> <k> | y2d <year> | d2y <date> | rd <x>      calendar / float primitives

module unit `_` = not given; numbers: `p/q` or `p` (a Python float) or `12i` (a Python int) (the decimal the harness wrote); dates: `Dyyyy-mm-dd`; absent: `none`; the empty unit string: `~`.
Vectors are printed in units of time_eps (integers, after round_tvec) or as ISO dates.
-/
open StarsimModel StarsimModel.Calendar StarsimModel.Timeline StarsimModel.Proto

def parseDate? (s : String) : Option Date :=
  if s.startsWith "D" then
    match ((s.drop 1).toString.splitOn "-") with
    | [y, m, d] => do
        let t : Date := ⟨← y.toNat?, ← m.toNat?, ← d.toNat?⟩
        if t.valid then some t else none
    | _ => none
  else none

/-- `12i` = the Python int 12; anything else a Python float written as a decimal -/
def parseNum? (s : String) : Option Num :=
  if s.endsWith "i" then ((s.dropEnd 1).toString.toInt?).map Num.ofInt else (parseRat? s).map Num.ofRat

def parseTVal? (s : String) : Option TVal :=
  match parseDate? s with
  | some d => some (.date d)
  | none => (parseNum? s).map .num

def parseOpt {α} (f : String → Option α) (s : String) : Option (Option α) :=
  if s = "none" then some none else (f s).map some

def parseUnitStr (s : String) : String := if s = "~" then "" else s

def showErr : Err → String
  | .value => "E:Value" | .key => "E:Key" | .type => "E:Type" | .other => "E:Other" | .hang => "E:Hang"
  | .unsupported => "unsupported"

def showMicros (l : List Rat) : String := showList (fun x => toString (micro x)) l

def showTimeline (t : Timeline) : String :=
  let tv := if t.numeric then showMicros t.timevec else "-"
  let ab := match t.abstvec with | some a => showMicros a | none => "none"
  s!"ok unit={t.unit.name} npts={t.npts} numeric={showBool t.numeric} dt={showRat t.dt.q} timevec={tv} yearvec={showMicros t.yearvec} datevec={showList Date.iso t.datevec} tvec={showMicros t.tvec} abstvec={ab} plan={showMicros (loopPlacement t)} reslen={resultLen t}"

def showRes (r : Except Err Timeline) : String :=
  match r with
  | .ok t => showTimeline t
  | .error e => showErr e

def showNpts (r : Except Err Timeline) : String :=
  match r with
  | .ok t => toString t.npts
  | .error e => showErr e

def parseSim? (u st sp du dt : String) : Option SimPars := do
  some ⟨parseUnitStr u, ← parseOpt parseTVal? st, ← parseOpt parseTVal? sp, ← parseOpt parseNum? du, ← parseNum? dt⟩

def showNum (x : Num) : String := showRat x.q ++ (if x.int then "i" else "")
def showTVal : TVal → String
  | .num x => showNum x
  | .date d => "D" ++ d.iso
def showOpt {α} (f : α → String) : Option α → String
  | none => "none" | some a => f a
def showUnitOpt : Option String → String
  | none => "_" | some "" => "~" | some u => u
def parseUnitOpt (s : String) : Option String := if s = "_" then none else some (parseUnitStr s)

def parseTPars? (a b c d : String) : Option TPars := do
  some ⟨← parseOpt parseTVal? a, ← parseOpt parseTVal? b, ← parseOpt parseNum? c, parseUnitOpt d⟩

def parseForce? (s : String) : Option Force :=
  if s = "F" then some .onlyMissing else if s = "N" then some .current else if s = "T" then some .parent else none

def stepLine (_ : Unit) (line : String) : Unit × String :=
  ((), match words line with
  | ["sim", u, st, sp, du, dt] =>
      match parseSim? u st sp du dt with
      | some p => showRes (simTimeline .asis p) ++ " spec=" ++ showNpts (simTimeline .spec p)
      | none => "bad-op"
  | ["mod", u, st, sp, du, dt, mu, ms, mp, md] =>
      match parseSim? u st sp du dt, (if mu = "_" then some none else some (some (parseUnitStr mu))), parseOpt parseTVal? ms,
            parseOpt parseTVal? mp, parseOpt parseNum? md with
      | some p, some mu, some ms, some mp, some md =>
          let run (v : Variant) : Except Err Timeline := do
            let s ← simTimeline v p
            moduleTimeline v s ⟨mu, ms, mp, md⟩
          showRes (run .asis) ++ " spec=" ++ showNpts (run .spec)
      | _, _, _, _, _ => "bad-op"
  | ["grid", a, b, dt] =>
      match parseNum? a, parseNum? b, parseNum? dt with
      | some a, some b, some dt =>
          if dt.q = 0 then "E:Other" else
          s!"steps asis={gridSteps .asis a b dt} spec={gridSteps .spec a b dt} float={gridStepsFloat (F64.toFloat a.f) (F64.toFloat b.f) (F64.toFloat dt.f)}"
      | _, _, _ => "bad-op"
  | ["ord", d] => match parseDate? d with | some d => toString (toOrdinal d) | none => "bad-op"
  | ["cal", n] => match n.toNat? with | some n => if n = 0 then "bad-op" else (fromOrdinal n).iso | none => "bad-op"
  | ["addm", d, k] => match parseDate? d, k.toNat? with | some d, some k => (addMonths d k).iso | _, _ => "bad-op"
  | ["y2d", y] => match parseRat? y with
      | some y => if y < 1 then "bad-op" else s!"{(yearToDate .asis y).iso} {(yearToDate .spec y).iso}"
      | none => "bad-op"
  | ["d2y", d] => match parseDate? d with | some d => showRat (dateToYearNum d).f | none => "bad-op"
  | ["update", f, a1, a2, a3, a4, k1, k2, k3, k4, p1, p2, p3, p4, hasParent, q1, q2, q3, q4] =>
      match parseForce? f, parseTPars? a1 a2 a3 a4, parseTPars? k1 k2 k3 k4, parseTPars? p1 p2 p3 p4, parseTPars? q1 q2 q3 q4 with
      | some f, some self, some kw, some pars, some par =>
          let r := update f self kw pars (if hasParent = "1" then some par else none)
          s!"upd start={showOpt showTVal r.start} stop={showOpt showTVal r.stop} dt={showOpt showNum r.dt} unit={showUnitOpt r.unit} ready={showBool r.ready}"
      | _, _, _, _, _ => "bad-op"
  | ["now", n, ti] => match n.toNat?, ti.toNat? with
      | some n, some ti => toString (nowIndex n ti)
      | _, _ => "bad-op"
  | ["consts"] =>
      let us := ",".intercalate (Gen.timeUnits.map (fun r => s!"{r.1}:{showRat r.2}"))
      s!"consts units={us} dur={showRat Gen.defaultDur} unit={Gen.defaultUnit} year={Gen.defaultStartYear} date={Gen.defaultStartDate.1}-{Gen.defaultStartDate.2.1}-{Gen.defaultStartDate.2.2} decimals={Gen.roundDecimals} dt={showRat Gen.simDefaultDt}"
  | ["rd", x] => match parseRat? x with | some x => showRat (F64.rd x) | none => "bad-op"
  | _ => "bad-op")

def main : IO Unit := mainLoop stepLine ()
