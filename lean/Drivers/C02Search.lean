import StarsimModel.Model.Search
import StarsimModel.Model.Proto
open StarsimModel StarsimModel.Search StarsimModel.Proto

/-- keys travel %-escaped (`%XXXX` = code point in hex) -/
def hexVal (c : Char) : Nat :=
  if '0' ≤ c ∧ c ≤ '9' then c.toNat - '0'.toNat
  else if 'a' ≤ c ∧ c ≤ 'f' then c.toNat - 'a'.toNat + 10
  else if 'A' ≤ c ∧ c ≤ 'F' then c.toNat - 'A'.toNat + 10 else 0

def unesc (s : String) : String :=
  let rec go : List Char → List Char → List Char
    | [], acc => acc.reverse
    | '%' :: a :: b :: c :: d :: rest, acc =>
        go rest (Char.ofNat (((hexVal a * 16 + hexVal b) * 16 + hexVal c) * 16 + hexVal d) :: acc)
    | ch :: rest, acc => go rest (ch :: acc)
  String.ofList (go s.toList [])

def esc (s : String) : String :=
  String.join (s.toList.map (fun ch =>
    if ch.isAlphanum ∨ ch = '_' ∨ ch = '.' ∨ ch = '-' then String.singleton ch
    else
      let n := ch.toNat
      let hx := fun (k : Nat) => (Nat.toDigits 16 k).head!
      String.ofList ['%', hx (n / 4096 % 16), hx (n / 256 % 16), hx (n / 16 % 16), hx (n % 16)]))

structure DState where
  nodes : Array Obj := #[]
  sk    : Skips := ⟨[], []⟩
  old   : Array Bool := #[]

def DState.graph (d : DState) : Graph := fun i => d.nodes.getD i ⟨false, false, []⟩
def DState.isOld (d : DState) : Nat → Bool := fun i => d.old.getD i true

/-- the graph without the added objects: old objects keep their old children only, added objects disappear -/
def DState.sub (d : DState) : Graph := fun i =>
  if d.isOld i then
    let o := d.graph i
    { o with kids := o.kids.filter (fun kc => d.isOld kc.2) }
  else ⟨false, false, []⟩

def parseKids : List String → Option (List (String × Nat))
  | [] => some []
  | k :: c :: rest => do
      let ci ← c.toNat?
      let r ← parseKids rest
      some ((unesc k, ci) :: r)
  | _ => none

def showOut (s : State) : String :=
  s!"final={showBool s.final} memo={s.memo.length} | " ++
    " ".intercalate (s.out.map (fun o => esc (flatten o.1) ++ ":" ++ toString o.2))

def stepLine (d : DState) (line : String) : DState × String :=
  match words line with
  | ["graph", n] =>
      match n.toNat? with
      | some n => ({ nodes := Array.replicate n ⟨false, false, []⟩, sk := ⟨[], []⟩, old := Array.replicate n true }, "ok")
      | none => (d, "bad-op")
  | "node" :: i :: isd :: _nk :: kids =>
      match i.toNat?, parseBool? isd, parseKids kids with
      | some i, some b, some ks => ({ d with nodes := d.nodes.setIfInBounds i ⟨true, b, ks⟩ }, "ok")
      | _, _, _ => (d, "bad-op")
  | "skipkeys" :: ks => ({ d with sk := ⟨ks.map unesc, d.sk.ids⟩ }, "ok")
  | "skipids" :: is =>
      match is.mapM (·.toNat?) with
      | some l => ({ d with sk := ⟨d.sk.keys, l⟩ }, "ok")
      | none => (d, "bad-op")
  | "new" :: is =>
      match is.mapM (·.toNat?) with
      | some l => ({ d with old := l.foldl (fun a i => a.setIfInBounds i false) (Array.replicate d.nodes.size true) }, "ok")
      | none => (d, "bad-op")
  | ["search", root, fuel] =>
      match root.toNat?, fuel.toNat? with
      | some r, some f => (d, showOut (steps d.graph d.sk f (start d.graph r)))
      | _, _ => (d, "bad-op")
  | ["sub", root, fuel] =>
      match root.toNat?, fuel.toNat? with
      | some r, some f => (d, showOut (steps d.sub d.sk f (start d.sub r)))
      | _, _ => (d, "bad-op")
  | ["safe", root, fuel] =>
      match root.toNat?, fuel.toNat? with
      | some r, some f => (d, showBool (safeRun d.graph d.sk d.isOld f (start d.graph r)))
      | _, _ => (d, "bad-op")
  | ["registry", root, fuel] =>
      match root.toNat?, fuel.toNat? with
      | some r, some f =>
          (d, " ".intercalate ((registry (steps d.graph d.sk f (start d.graph r)).out).map (fun e => esc e.1 ++ ":" ++ toString e.2)))
      | _, _ => (d, "bad-op")
  | _ => (d, "bad-op")

def main : IO Unit := mainLoop stepLine {}
