import StarsimModel.Model.Rng
import StarsimModel.Model.Proto
open StarsimModel StarsimModel.Rng StarsimModel.Proto

def showPos (p : Pos) : String := s!"{p.ind}:{showList toString p.draws}"

def showErr : Err → String
  | .notInitialized => "E:NotInitialized" | .notReady => "E:NotReady"
  | .seedRepeat => "E:SeedRepeat" | .other => "E:Other"

def showState (d : Dist) (r : String) : String :=
  s!"{r} seed={d.seed} ind={d.ind} pos={showPos d.pos} ready={showBool d.ready} init={showBool d.initialized} called={d.called} hist={d.history.length}"

def parseOp (ws : List String) : Option Op :=
  match ws with
  | ["init", o, s, f] => do some (.init (← parseNat? o) (← parseOptNat? s) (← parseBool? f))
  | ["jump", t, dl, f] => do some (.jump (← parseOptInt? t) (← parseInt? dl) (← parseBool? f))
  | ["jumpdt", ti, f] => do some (.jumpDt (← parseInt? ti) (← parseBool? f))
  | ["rvs", n, r] => do some (.rvs (← parseNat? n) (← parseBool? r))
  | ["reset", k] => do some (.reset (← parseInt? k))
  | ["direct", n] => do some (.direct (← parseNat? n))
  | ["set"] => some .setPars
  | _ => none

def stepLine (d : Dist) (line : String) : Dist × String :=
  match words line with
  | ["new", s, a] =>
      match parseBool? s, parseBool? a with
      | some s, some a => let d' := fresh s a; (d', showState d' "ok start=-")
      | _, _ => (d, "bad-op")
  | ["checkseeds", l] =>
      match parseNatList? l with
      | some l => (d, match checkSeeds [] l with | .ok _ => "ok" | .error e => showErr e)
      | none => (d, "bad-op")
  | ws =>
      match parseOp ws with
      | none => (d, "bad-op")
      | some op =>
          let (d', r) := step d op
          let rs := match r with
            | .error e => showErr e ++ " start=-"
            | .ok none => "ok start=-"
            | .ok (some p) => "ok start=" ++ showPos p
          (d', showState d' rs)

def main : IO Unit := mainLoop stepLine (fresh true true)
