import StarsimModel.Model.RunState
import StarsimModel.Model.Proto
open StarsimModel StarsimModel.Loop StarsimModel.RunState StarsimModel.Proto

/-
Line protocol (one line in, one line out); the driver state is (configuration, run state):
  cfg <mods> <tvecs> <timevec>      new sim: module kinds, abstvecs in eps units (`;` separated), sim.t.timevec as p/q list
  run <p/q|none> | step | lstep | finalize | restore <none|deepcopy|pickle|saveload>
  ->  <ok|E:AlreadyRun|E:Other> index=<i> ti=<sim,mod1,…> complete=<0/1> ready=<0/1> scaled=<n> executed=<n>
-/

def parseKind? (s : String) : Option Kind :=
  match s with
  | "demographics" => some .demographics | "networks" => some .networks | "diseases" => some .diseases
  | "connectors" => some .connectors | "interventions" => some .interventions | "products" => some .products
  | "analyzers" => some .analyzers | _ => none

def parseMod? (s : String) : Option Mod :=
  match s.splitOn ":" with
  | [k, d, n] => do some ⟨← parseKind? k, ← parseBool? d, ← parseNat? n⟩
  | _ => none

def parseMods? (s : String) : Option (List Mod) :=
  if s = "-" then some [] else (s.splitOn ",").mapM parseMod?

def parseTvecs? (s : String) : Option (List (List Int)) :=
  (s.splitOn ";").mapM parseIntList?

def parseMode? (s : String) : Option Mode :=
  match s with
  | "none" => some .none | "deepcopy" => some .deepcopy | "pickle" => some .pickle | "saveload" => some .saveload
  | _ => none

def parseUntil? (s : String) : Option (Option Rat) :=
  if s = "none" then some none else (parseRat? s).map some

structure DState where
  cfg : Cfg Nat
  s : State Nat

def showRes : Except Err Unit → String
  | .ok _ => "ok" | .error .alreadyRun => "E:AlreadyRun" | .error .other => "E:Other"

def showState (d : DState) (r : String) : String :=
  let owners := List.range d.cfg.nOwners
  s!"{r} index={d.s.index} ti={showList (fun m => toString (d.s.ti m)) owners} complete={showBool d.s.complete} " ++
  s!"ready={showBool d.s.resultsReady} scaled={d.s.nScaled} executed={d.s.st}"

def emptyCfg : Cfg Nat := ⟨[], [], 0, fun n _ => n + 1, 0⟩

def parseOp? (ws : List String) : Option Op :=
  match ws with
  | ["run", u] => do some (.run (← parseUntil? u))
  | ["step"] => some .simStep
  | ["lstep"] => some .loopStep
  | ["finalize"] => some .finalize
  | ["restore", m] => do some (.restore (← parseMode? m))
  | ["observe"] => some .observe
  | _ => none

def stepLine (d : DState) (line : String) : DState × String :=
  match words line with
  | ["cfg", ms, ts, tv] =>
      match parseMods? ms, parseTvecs? ts, parseRatList? tv with
      | some mods, some tvecs, some timevec =>
          if tvecs.length ≠ mods.length + 2 then (d, "bad-op") else
          let T := Times.ofArrays (tvecs.map List.toArray).toArray
          let fl := collect Gen.loopRows mods
          let c : Cfg Nat := ⟨makePlan T fl, timevec, mods.length + 1, fun n _ => n + 1, 0⟩
          let d' : DState := ⟨c, fresh c⟩
          (d', showState d' s!"ok len={c.plan.length}")
      | _, _, _ => (d, "bad-op")
  | ws =>
      match parseOp? ws with
      | none => (d, "bad-op")
      | some op =>
          let (s', r) := apply d.cfg d.s op
          let d' := { d with s := s' }
          (d', showState d' (showRes r))

def main : IO Unit := mainLoop stepLine ⟨emptyCfg, fresh emptyCfg⟩
