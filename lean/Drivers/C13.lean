import StarsimModel.Generated.Disease_sir
import StarsimModel.Generated.Disease_sis
import StarsimModel.Generated.Disease_measles
import StarsimModel.Generated.Disease_ebola
import StarsimModel.Generated.Disease_cholera
import StarsimModel.Generated.Disease_gonorrhea
import StarsimModel.Generated.Disease_hiv
import StarsimModel.Generated.Disease_syphilis
import StarsimModel.Generated.Treat_syphilis
import StarsimModel.Model.Proto
open StarsimModel StarsimModel.Proto

/-
Line protocol of C13 (one operation per line, one answer per line):

  names <disease>                         -> ok f1,f2,...            the flag order of the generated record
  guards <disease> <method>               -> ok <n>                  number of guard atoms of the generated function
  treat <product> <flagbits> <guards>     -> ok b|b|...              syphilis treatment round (Generated/Treat_syphilis.lean)
  finer <r> <k>                           -> ok <lo> <hi>            module step indices seen while sim.ti = k (module r times finer)
  coarser <c> <j>                         -> ok <k> <lo> <hi>        sim.ti during the module's own step j; sim.ti range at which its index reads j
  <disease> <method> <flagbits> <guards>  -> ok b|b|...              flag bits after the generated per-agent function

<flagbits> is a string of 0/1 in the order of `names`; <guards> is a string of 0/1/? in the order of the generated
guard structure (`-` for none).  `?` is an atom the harness could not observe: the driver answers with the set of
results over both values.  Anything else: `bad-op`.
-/

def parseBit : Char → Option (Option Bool)
  | '0' => some (some false)
  | '1' => some (some true)
  | '?' => some none
  | _ => none

def parseBits (s : String) : Option (List (Option Bool)) :=
  if s = "-" then some [] else s.toList.mapM parseBit

/-- all completions of a partially known valuation -/
def completions : List (Option Bool) → List (List Bool)
  | [] => [[]]
  | some b :: l => (completions l).map (b :: ·)
  | none :: l => (completions l).flatMap fun c => [false :: c, true :: c]

def showBits (l : List Bool) : String := String.ofList (l.map fun b => if b then '1' else '0')

def runDisease (d m : String) (fl gl : List Bool) : Option (List Bool) :=
  match d with
  | "sir" => Gen.Sir.run m fl gl
  | "sis" => Gen.Sis.run m fl gl
  | "measles" => Gen.Measles.run m fl gl
  | "ebola" => Gen.Ebola.run m fl gl
  | "cholera" => Gen.Cholera.run m fl gl
  | "gonorrhea" => Gen.Gonorrhea.run m fl gl
  | "hiv" => Gen.Hiv.run m fl gl
  | "syphilis" => Gen.Syphilis.run m fl gl
  | _ => none

def flagNames (d : String) : Option (List String) :=
  match d with
  | "sir" => some Gen.Sir.flagNames
  | "sis" => some Gen.Sis.flagNames
  | "measles" => some Gen.Measles.flagNames
  | "ebola" => some Gen.Ebola.flagNames
  | "cholera" => some Gen.Cholera.flagNames
  | "gonorrhea" => some Gen.Gonorrhea.flagNames
  | "hiv" => some Gen.Hiv.flagNames
  | "syphilis" => some Gen.Syphilis.flagNames
  | _ => none

def guardCount (d m : String) : Option Nat :=
  match d with
  | "sir" => Gen.Sir.guardCount m
  | "sis" => Gen.Sis.guardCount m
  | "measles" => Gen.Measles.guardCount m
  | "ebola" => Gen.Ebola.guardCount m
  | "cholera" => Gen.Cholera.guardCount m
  | "gonorrhea" => Gen.Gonorrhea.guardCount m
  | "hiv" => Gen.Hiv.guardCount m
  | "syphilis" => Gen.Syphilis.guardCount m
  | _ => none

def dedup (l : List String) : List String :=
  l.foldl (fun acc x => if acc.contains x then acc else acc ++ [x]) []

def stepLine (u : Unit) (line : String) : Unit × String :=
  match words line with
  | ["names", d] => (u, match flagNames d with | some l => "ok " ++ ",".intercalate l | none => "bad-op")
  | ["guards", d, m] => (u, match guardCount d m with | some n => s!"ok {n}" | none => "bad-op")
  | ["finer", r, k] =>
      match r.toNat?, k.toNat? with
      | some r, some k => if r = 0 then (u, "bad-op") else
          let p := TimerOps.moduleIndexRange r k
          (u, s!"ok {p.1} {p.2}")
      | _, _ => (u, "bad-op")
  | ["coarser", c, j] =>
      match c.toNat?, j.toNat? with
      | some c, some j => if c = 0 then (u, "bad-op") else 
          let p := TimerOps.simIndexRangeCoarse c j
          (u, s!"ok {TimerOps.simIndexCoarse c j} {p.1} {p.2}")
      | _, _ => (u, "bad-op")
  | ["treat", prod, fb, gb] =>
      match parseBits fb, parseBits gb with
      | some fl, some gl =>
          if fl.any Option.isNone then (u, "bad-op") else
          let flags := fl.filterMap id
          let outs := (completions gl).map fun g => Gen.TreatSyphilis.run prod flags g
          if outs.any Option.isNone then (u, "bad-op")
          else (u, "ok " ++ "|".intercalate (dedup (outs.filterMap (·.map showBits))))
      | _, _ => (u, "bad-op")
  | [d, m, fb, gb] =>
      match parseBits fb, parseBits gb with
      | some fl, some gl =>
          if fl.any Option.isNone then (u, "bad-op") else
          let flags := fl.filterMap id
          let outs := (completions gl).map fun g => runDisease d m flags g
          if outs.any Option.isNone then (u, "bad-op")
          else (u, "ok " ++ "|".intercalate (dedup (outs.filterMap (·.map showBits))))
      | _, _ => (u, "bad-op")
  | _ => (u, "bad-op")

def main : IO Unit := mainLoop stepLine ()
