import StarsimModel.Model.SimCore
import StarsimModel.Model.Proto
open StarsimModel StarsimModel.SimCore StarsimModel.Proto

/-
Line protocol of the composed step model (one operation per line, one answer per line):

  init <ti>                                         -> ok                 empty population, sim.ti = <ti>
  agent <alive> <present> <pDead> <SIR bits> <tiInf> <tiRec> <tiDead>   -> ok <uid>      append one agent (times: p/q or nan)
  step <births> <background uids> <calls>           -> ok <row> bad=<0|1>  one simulation step under Gen.collectFuncs
        <calls>: `-` or calls separated by `|`, each `uid:dur:willDie` entries separated by `;`
        <row>: ti nAlive newDeaths cumDeaths nS nI nR newInf cumInf prevNum/prevDen
  dump                                              -> ok a;a;...          every agent: alive present pDead bits tiInf tiRec tiDead (`,`-joined)
  order                                             -> ok c.m,c.m,...      the schedule the model steps through
Anything else: `bad-op`.
-/

def parseTime? (s : String) : Option (Option Rat) :=
  if s = "nan" then some none else (parseRat? s).map some

def showTime : Option Rat → String
  | none => "nan"
  | some r => showRat r

def parseFlags? (s : String) : Option Gen.Sir.Flags :=
  match s.toList with
  | [a, b, c] => do
      let f (ch : Char) : Option Bool := if ch = '1' then some true else if ch = '0' then some false else none
      some ⟨← f a, ← f b, ← f c⟩
  | _ => none

def showFlags (f : Gen.Sir.Flags) : String := showBool f.susceptible ++ showBool f.infected ++ showBool f.recovered

def parseInf? (s : String) : Option Inf :=
  match s.splitOn ":" with
  | [u, d, w] => do some ⟨← parseNat? u, ← parseRat? d, ← parseBool? w⟩
  | _ => none

def parseCalls? (s : String) : Option (List (List Inf)) :=
  if s = "-" then some [] else
    (s.splitOn "|").mapM fun c => if c = "" then some [] else (c.splitOn ";").mapM parseInf?

def showRow (r : Row) : String :=
  s!"{r.ti} {r.nAlive} {r.newDeaths} {r.cumDeaths} {r.nS} {r.nI} {r.nR} {r.newInf} {r.cumInf} {r.prevNum}/{r.prevDen}"

def showAgent (a : Agent) : String :=
  ",".intercalate [showBool a.alive, showBool a.present, showTime a.pDead, showFlags a.fl,
                   showTime a.tm.ti_infected, showTime a.tm.ti_recovered, showTime a.tm.ti_dead]

def stepLine (s : Sim) (line : String) : Sim × String :=
  match words line with
  | ["init", t] =>
      match parseNat? t with
      | some t => ({ ti := t, pop := [], rows := [], bad := false }, "ok")
      | none => (s, "bad-op")
  | ["agent", al, pr, pd, fl, t1, t2, t3] =>
      match parseBool? al, parseBool? pr, parseTime? pd, parseFlags? fl, parseTime? t1, parseTime? t2, parseTime? t3 with
      | some al, some pr, some pd, some fl, some t1, some t2, some t3 =>
          ({ s with pop := s.pop ++ [⟨al, pr, pd, fl, ⟨t1, t2, t3⟩⟩] }, s!"ok {s.pop.length}")
      | _, _, _, _, _, _, _ => (s, "bad-op")
  | ["step", b, bg, calls] =>
      match parseNat? b, parseNatList? bg, parseCalls? calls with
      | some b, some bg, some calls =>
          let s' := simStep s ⟨b, bg, calls⟩
          match s'.rows.getLast? with
          | some r => (s', s!"ok {showRow r} bad={showBool s'.bad}")
          | none => (s', s!"ok - bad={showBool s'.bad}")
      | _, _, _ => (s, "bad-op")
  | ["dump"] => (s, "ok " ++ (if s.pop.isEmpty then "-" else ";".intercalate (s.pop.map showAgent)))
  | ["order"] => (s, "ok " ++ showList (fun f => f.1 ++ "." ++ f.2.1) Gen.collectFuncs)
  | _ => (s, "bad-op")

def main : IO Unit := mainLoop stepLine { ti := 0, pop := [], rows := [], bad := false }
