import StarsimModel.Model.DistPars
import StarsimModel.Model.Proto
open StarsimModel StarsimModel.Proto StarsimModel.DistPars StarsimModel.Gen.DistF

/-- floats travel as their IEEE-754 bit patterns (decimal UInt64) so that I/O is exact -/
def pf (s : String) : Option Float := (s.toNat?).map (fun n => Float.ofBits (UInt64.ofNat n))
def sf (x : Float) : String := toString x.toBits.toNat

def stepLine (_ : Unit) (line : String) : Unit × String :=
  let r := match words line with
    | ["lognorm_ex", m, s] => do
        let m ← pf m; let s ← pf s
        let mi := lognormExMeanIm m s; let si := lognormExSigmaIm m s
        some s!"{sf mi} {sf si} {sf (lognormImS mi si)} {sf (lognormImScale mi si)} {sf (lognormImLoc mi si)}"
    | ["lognorm_im", m, s] => do
        let m ← pf m; let s ← pf s
        some s!"{sf (lognormImS m s)} {sf (lognormImScale m s)} {sf (lognormImLoc m s)}"
    | ["poisson", l] => do let l ← pf l; some (sf (poissonMu l))
    | ["uniform", u, lo, hi] => do
        let u ← pf u; let lo ← pf lo; let hi ← pf hi
        some s!"{sf (uniformMakeRvs u lo hi)} {sf (uniformPpf u lo hi)}"
    | ["randintraw", u, lo, hi] => do
        let u ← pf u; let lo ← pf lo; let hi ← pf hi
        let x := randintPpfRaw u lo hi
        some s!"{sf x} {sf (if randintFloors then Float.floor x else x)}"
    | ["bern", u, p] => do
        let u ← pf u; let p ← pf p
        some s!"{showBool (bernoulliMakeRvs u p)} {showBool (bernoulliPpf u p)}"
    | ["dur", v, f] => do let v ← pf v; let f ← pf f; some (sf (durValues v f))
    | ["rate", v, f] => do let v ← pf v; let f ← pf f; some (sf (rateValues v f))
    | ["hist", vs, bs] => do
        let vs ← parseRatList? vs; let bs ← parseRatList? bs
        let nb := match completeBins vs.length bs with | some b => showList showRat b | none => "E:Other"
        some s!"{showList showRat (normalise vs)} {nb}"
    | ["randint", u, lo, hi] => do
        let u ← parseRat? u; let lo ← parseInt? lo; let hi ← parseInt? hi
        some (toString (randintSpec u lo hi))
    | _ => none
  ((), r.getD "bad-op")

def main : IO Unit := mainLoop stepLine ()
