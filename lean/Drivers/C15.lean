import StarsimModel.Model.Results
import StarsimModel.Model.Proto
open StarsimModel StarsimModel.Results StarsimModel.Proto

/-
Line protocol (one output line per input line):
  people <table|spec|0|1> <npts> <step>|<step>|…      step = agent,agent,… ; agent = <alive 0/1>:<ti_dead int or n> ; `-` = no agents
  disease <table|0|1> <infIdx> <nStates> <npts> <step>|…   agent = <alive>:<flags bitstring>:<ti_infected int or n>
  sim new <pop_scale> <key>:<scale 0/1>:<cumOf key or ->:<npts> …
  sim writes <key> <v0,v1,…>        (one write per step, in order)
  sim write <key> <ti> <v>
  sim finalize | view | summary | tojson | shrink | saveload
  vtp <n_agents> <total_pop or none> <pop_scale or none>
  how <key>
  pop <n0> <step>|<step>|…          step = <born>;<req positions or ->;<late positions or ->   (flows: created / removed agents)
  rate <units> <new list> <alive list> <inds list or ->      (cmr / cbr as computed in finalize)
-/

def showErr : Err → String
  | .alreadyRun => "E:AlreadyRun" | .notReady => "E:NotReady" | .value => "E:Value"
  | .key => "E:Key" | .index => "E:Index" | .other => "E:Other"

def splitSteps (s : String) : List String := s.splitOn "|"

def parseOptInt (s : String) : Option (Option Int) := if s = "n" then some none else s.toInt?.map some

def parsePerson (tok : String) : Option Person :=
  match tok.splitOn ":" with
  | [a, d] => do some ⟨← parseBool? a, ← parseOptInt d⟩
  | _ => none

def parseDAgent (tok : String) : Option DAgent :=
  match tok.splitOn ":" with
  | [a, f, t] => do
      let fl ← f.toList.mapM (fun c => if c = '1' then some true else if c = '0' then some false else none)
      some ⟨← parseBool? a, fl, ← parseOptInt t⟩
  | _ => none

def parseStep {α} (p : String → Option α) (s : String) : Option (List α) :=
  if s = "-" then some [] else (s.splitOn ",").mapM p

def parseOff (s cls res : String) : Option Nat :=
  if s = "table" then some (offOf .asis cls res)
  else if s = "spec" then some (offOf .spec cls res)
  else if s = "0" then some 0 else if s = "1" then some 1 else none

def showRats (l : List Rat) : String := showList showRat l

def parseSeriesSpec (tok : String) : Option Series :=
  match tok.splitOn ":" with
  | [k, sc, co, n] => do
      let npts ← n.toNat?
      some ⟨k, ← parseBool? sc, if co = "-" then none else some co, zeros npts⟩
  | _ => none

def showView (s : Sim) : String :=
  ";".intercalate ((view s).map (fun (k, v) => s!"{k}={showRats v}"))

def showSummary (s : Sim) : String :=
  ";".intercalate (s.summary.map (fun (k, v) => s!"{k}={showRat v}"))

def applyOp (s : Sim) (op : Op) (okText : Sim → String) : Sim × String :=
  match step s op with
  | .ok s' => (s', "ok " ++ okText s')
  | .error e => (s, showErr e)

def parsePopStep (tok : String) : Option PopStep :=
  match tok.splitOn ";" with
  | [b, r, l] => do some ⟨← b.toNat?, ← parseNatList? r, ← parseNatList? l⟩
  | _ => none

def bits (l : List Person) : String := String.ofList (l.map (fun p => if p.alive then '1' else '0'))

def stepLine (s : Sim) (line : String) : Sim × String :=
  match words line with
  | ["pop", n0, steps] =>
      match n0.toNat?, (splitSteps steps).mapM parsePopStep with
      | some n0, some sts =>
          let (snaps, act) := popRun (List.replicate n0 fresh) sts
          let f (g : List Person → Nat) := ",".intercalate (snaps.map (fun sn => toString (g sn)))
          let nd := ",".intercalate (snaps.zipIdx.map (fun (sn, i) => toString (newDeathsOf i sn)))
          (s, s!"ok nalive={f nAliveOf} removed={f removedOf} newdeaths={nd} final={act.length} alive={"|".intercalate (snaps.map bits)}")
      | _, _ => (s, "bad-op")
  | ["rate", units, new, alive, inds] =>
      match parseRat? units, parseRatList? new, parseRatList? alive, parseNatList? inds with
      | some u, some new, some alive, some inds =>
          let al := if inds.isEmpty then alive else inds.map (fun i => alive.getD i 0)
          (s, "ok " ++ showList (fun o => match o with | some r => showRat r | none => "u") (rateSeries u new al))
      | _, _, _, _ => (s, "bad-op")
  | ["people", off, npts, steps] =>
      match parseOff off "People" "cum_deaths", npts.toNat?, (splitSteps steps).mapM (parseStep parsePerson) with
      | some off, some npts, some snaps =>
          if snaps.length ≤ npts then
            let r := peopleRun off npts snaps
            (s, s!"ok off={off} nalive={showRats r.nAlive} new={showRats r.deaths.new} cum={showRats r.deaths.cum}")
          else (s, "E:Index")
      | _, _, _ => (s, "bad-op")
  | ["disease", off, infIdx, nStates, npts, steps] =>
      match parseOff off "Infection" "cum_infections", infIdx.toNat?, nStates.toNat?, npts.toNat?,
            (splitSteps steps).mapM (parseStep parseDAgent) with
      | some off, some infIdx, some nStates, some npts, some snaps =>
          if snaps.length ≤ npts then
            let r := diseaseRun off infIdx nStates npts snaps
            let undef := snaps.map (fun sn => if nAliveD sn = 0 then "1" else "0")
            let ns := "/".intercalate (r.nState.map showRats)
            (s, s!"ok off={off} n={ns} prev={showRats r.prevalence} undef={",".intercalate undef} new={showRats r.inf.new} cum={showRats r.inf.cum}")
          else (s, "E:Index")
      | _, _, _, _, _ => (s, "bad-op")
  | "sim" :: "new" :: k :: specs =>
      match parseRat? k, specs.mapM parseSeriesSpec with
      | some k, some st => let s' : Sim := ⟨k, false, st, []⟩; (s', "ok")
      | _, _ => (s, "bad-op")
  | ["sim", "writes", key, vals] =>
      match parseRatList? vals with
      | some vs =>
          let r := runOps s (vs.zipIdx.map (fun (v, i) => Op.write key i v))
          match r with
          | .ok s' => (s', "ok")
          | .error e => (s, showErr e)
      | none => (s, "bad-op")
  | ["sim", "write", key, ti, v] =>
      match ti.toNat?, parseRat? v with
      | some ti, some v => applyOp s (.write key ti v) (fun _ => "")
      | _, _ => (s, "bad-op")
  | ["sim", "finalize"] => applyOp s .finalize (fun s' => s!"ready={showBool s'.ready}")
  | ["sim", "view"] => applyOp s .toDf showView
  | ["sim", "rawview"] => (s, "ok " ++ showView s)
  | ["sim", "summary"] => applyOp s .summarize showSummary
  | ["sim", "rate", key, newKey, aliveKey, units, inds] =>
      match parseRat? units, parseNatList? inds with
      | some u, some inds =>
          match rateOf s.store ⟨key, newKey, aliveKey, u, inds⟩ with
          | some l => (s, "ok " ++ showList (fun o => match o with | some r => showRat r | none => "u") l)
          | none => (s, "E:Key")
      | _, _ => (s, "bad-op")
  | ["sim", "tojson"] => applyOp s .toJson (fun s' => if s'.ready then showSummary s' else "unavailable")
  | ["sim", "shrink"] => applyOp s .shrink showView
  | ["sim", "saveload"] => applyOp s .saveLoad showView
  | ["vtp", n, tp, ps] =>
      let po (x : String) : Option (Option Rat) := if x = "none" then some none else (parseRat? x).map some
      match n.toNat?, po tp, po ps with
      | some n, some tp, some ps =>
          match validateTotalPop n tp ps with
          | .ok (a, b) => (s, s!"ok {showRat a} {showRat b}")
          | .error e => (s, showErr e)
      | _, _, _ => (s, "bad-op")
  | ["how", key] => (s, "ok " ++ summaryFunc Gen.summaryHow Gen.summaryMatchSubstring Gen.summaryDefault key)
  | _ => (s, "bad-op")

def main : IO Unit := mainLoop stepLine (⟨1, false, [], []⟩ : Sim)
