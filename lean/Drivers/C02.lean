import StarsimModel.Model.Footprint
import StarsimModel.Model.Proto
open StarsimModel StarsimModel.Footprint StarsimModel.Proto

/-- registry entries travel as `trace` strings; a path is the trace split at `_`, the payload is its position -/
def toPath (s : String) : List String := s.splitOn "_"
def showReg (r : Registry Nat) : String := showList (fun e => "_".intercalate e.1) r

def stepLine (reg : Registry Nat) (line : String) : Registry Nat × String :=
  match words line with
  | "reg" :: paths =>
      let r : Registry Nat := (paths.zipIdx).map (fun (p, i) => (toPath p, i))
      (r, showReg r)
  | "add" :: k :: pre :: subs =>
      match k.toNat? with
      | some k =>
          let p := toPath pre
          let sub : Registry Nat := (subs.zipIdx).map (fun (s, i) => (if s = "." then [] else toPath s, 1000 + i))
          let fresh := reg.all (fun e => !p.isPrefixOf e.1)
          let r := addComponent reg k p sub
          (r, (if fresh then "fresh " else "clash ") ++ showReg r)
      | none => (reg, "bad-op")
  | ["others", pre] =>
      (reg, showReg (reg.filter (fun e => !(toPath pre).isPrefixOf e.1)))
  | _ => (reg, "bad-op")

def main : IO Unit := mainLoop stepLine []
