import StarsimModel.Model.Arr
import StarsimModel.Model.Proto
open StarsimModel StarsimModel.Arr StarsimModel.Proto

/-! Line-protocol driver for C11: a small world (active index + named registered arrays) over Model/Arr.lean.
    One canonical output line per input line; `bad-op` for anything not understood. -/

structure World where
  au : List Nat
  n : Nat
  arrs : List (String × Arr)

def World.empty : World := { au := [], n := 0, arrs := [] }

def World.find (w : World) (name : String) : Option Arr := (w.arrs.find? (·.1 == name)).map (·.2)

def World.put (w : World) (name : String) (a : Arr) : World :=
  { w with arrs := w.arrs.map (fun p => if p.1 == name then (name, a) else p) }

def showVal : Val → String
  | .num r => showRat r
  | .bool b => if b then "T" else "F"
  | .nan => "nan"
  | .undef => "_"

def parseVal? (s : String) : Option Val :=
  if s = "T" then some (.bool true) else if s = "F" then some (.bool false)
  else if s = "nan" then some .nan else if s = "_" then some .undef
  else (parseRat? s).map .num

def parseValList? (s : String) : Option (List Val) :=
  if s = "-" then some [] else (s.splitOn ",").mapM parseVal?

def showVals (l : List Val) : String := showList showVal l
def showNats (l : List Nat) : String := showList toString l

def showErr : Err → String
  | .index => "E:Index" | .value => "E:Value" | .ambiguous => "E:Ambiguous" | .boolOp => "E:BoolOp"

def parseKind? : String → Option Kind
  | "float" => some .float | "bool" => some .bool | "index" => some .index | "generic" => some .generic
  | _ => none

def parseCmp? : String → Option Cmp
  | "gt" => some .gt | "lt" => some .lt | "ge" => some .ge | "le" => some .le | "eq" => some .eq | "ne" => some .ne
  | _ => none

def parseLogic? : String → Option Logic
  | "and" => some .and | "or" => some .or | "xor" => some .xor
  | _ => none

def parseArith? : String → Option Arith
  | "add" => some .add | "sub" => some .sub | "mul" => some .mul
  | _ => none

def parseVariant? : String → Option Variant
  | "spec" => some .spec | "asis" => some .asis | "code" => some codeVariant
  | _ => none

def affine (b s : Rat) (n : Nat) : List Val := (List.range n).map (fun (i : Nat) => Val.num (b + (i : Rat) * s))

/-- default spec: `unset` | `const v` | `affine b s` | `dist` -/
def parseDefault? : List String → Option (Default × List String)
  | "unset" :: r => some (.unset, r)
  | "const" :: v :: r => do some (.const (← parseVal? v), r)
  | "affine" :: b :: s :: r => do
      let b ← parseRat? b; let s ← parseRat? s
      some (.fn (affine b s), r)
  | "dist" :: r => some (.dist (fun _ => []), r)
  | _ => none

/-- a derived array expression: `arr NAME` | `cmp NAME op VAL` | `cmparr A op B` | `not NAME` | `logic A op B` -/
def evalExpr (w : World) : List String → Option (Except Err Arr × List String)
  | "arr" :: nm :: r => do some (.ok (← w.find nm), r)
  | "cmp" :: nm :: op :: v :: r => do
      some (.ok (cmpScalar w.au (← w.find nm) (← parseCmp? op) (← parseVal? v)), r)
  | "cmparr" :: a :: op :: b :: r => do
      some (.ok (cmpArr w.au (← w.find a) (← w.find b) (← parseCmp? op)), r)
  | "not" :: nm :: r => do some (invert w.au (← w.find nm), r)
  | "logic" :: a :: op :: b :: r => do
      some (logicArr w.au (← w.find a) (← w.find b) (← parseLogic? op), r)
  | "logics" :: a :: op :: v :: r => do
      some (logicScalar w.au (← w.find a) (← parseLogic? op) (← parseVal? v), r)
  | "isnan" :: nm :: r => do some (.ok (isnan w.au (← w.find nm)), r)
  | "notnan" :: nm :: r => do some (.ok (notnan w.au (← w.find nm)), r)
  | "arith" :: nm :: op :: v :: r => do
      some (.ok (arithScalar w.au (← w.find nm) (← parseArith? op) (← parseVal? v)), r)
  | "aritharr" :: a :: op :: b :: r => do
      some (.ok (arithArr w.au (← w.find a) (← w.find b) (← parseArith? op)), r)
  | "cmparith" :: nm :: aop :: v :: cop :: x :: r => do
      some (.ok (cmpScalar w.au (arithScalar w.au (← w.find nm) (← parseArith? aop) (← parseVal? v)) (← parseCmp? cop) (← parseVal? x)), r)
  | "notcmp" :: nm :: op :: v :: r => do
      some (invert w.au (cmpScalar w.au (← w.find nm) (← parseCmp? op) (← parseVal? v)), r)
  | _ => none

/-- key spec: `uids L` | `int I` | `slice S E T` | `bool <expr>` | `index NAME` | `empty` | `bad`.
    Returns an error when the key expression itself raises. -/
def parseKey (w : World) : List String → Option (Except Err Key × List String)
  | "uids" :: l :: r => do some (.ok (.uids (← parseNatList? l)), r)
  | "ruids" :: l :: r => do some (.ok (.ruids (← parseIntList? l)), r)
  | "int" :: i :: r => do some (.ok (.int (← parseInt? i)), r)
  | "slice" :: s :: e :: t :: r => do
      some (.ok (.slice (← parseOptInt? s) (← parseOptInt? e) (← parseOptInt? t)), r)
  | "bool" :: r => do
      let (e, r') ← evalExpr w r
      some (match e with | .ok a => .ok (.boolArr a) | .error x => .error x, r')
  | "index" :: nm :: r => do some (.ok (.indexArr (← w.find nm)), r)
  | "empty" :: r => some (.ok .empty, r)
  | "bad" :: r => some (.ok .unsupported, r)
  | _ => none

def parseRhs? : List String → Option Rhs
  | ["scalar", v] => do some (.scalar (← parseVal? v))
  | ["list", l] => do some (.list (← parseValList? l))
  | _ => none

def showArr (nm : String) (a : Arr) : String :=
  s!"{nm}:{a.lenUsed}:{a.lenTot}:{showVals a.raw}"

def showState (w : World) : String :=
  s!"n={w.n} au={showNats w.au} " ++ " ".intercalate (w.arrs.map (fun p => showArr p.1 p.2))

def showView (w : World) (a : Arr) : String :=
  s!"vals={showVals (values w.au a)} true={showNats (trueUids w.au a)} false={showNats (falseUids w.au a)}"

def showOptVal : Option Val → String
  | none => "none" | some v => showVal v

/-- parse `name=vals` draw assignments of a grow line -/
def parseDraws? (ws : List String) : Option (List (String × List Val)) :=
  ws.mapM (fun t => match t.splitOn "=" with
    | [nm, l] => do some (nm, ← parseValList? l)
    | _ => none)

def withDraw (a : Arr) (d : Option (List Val)) : Arr :=
  match a.default, d with
  | .dist _, some vs => { a with default := .dist (fun _ => vs) }
  | _, _ => a

/-- grow all registered arrays in registration order; first error wins (the code raises there) -/
def growAll (arrs : List (String × Arr)) (newUids : List Nat) (draws : List (String × List Val)) :
    Except Err (List (String × Arr)) :=
  arrs.mapM (fun p => do
    let a' ← grow (withDraw p.2 ((draws.find? (·.1 == p.1)).map (·.2))) newUids none
    pure (p.1, a'))

def stepLine (w : World) (line : String) : World × String :=
  match words line with
  | ["reset", n] =>
      match parseNat? n with
      | some n => let w' : World := { au := List.range n, n := n, arrs := [] }; (w', "ok " ++ showState w')
      | none => (w, "bad-op")
  | "new" :: nm :: kind :: nanv :: rest =>
      match parseKind? kind, parseVal? nanv, parseDefault? rest with
      | some k, some nv, some (d, r) =>
          match parseValList? (r.headD "-") with
          | none => (w, "bad-op")
          | some draw =>
            -- Arr.init_vals: `self.grow(self.people.uid)`: the IndexArr `uid` stands for its active values
            let a0 := withDraw (fresh k nv d) (some draw)
            match grow a0 w.au none with
            | .ok a => let w' := { w with arrs := w.arrs ++ [(nm, a)] }; (w', "ok " ++ showArr nm a)
            | .error e => (w, showErr e)
      | _, _, _ => (w, "bad-op")
  | "grow" :: k :: rest =>
      match parseNat? k, parseDraws? rest with
      | some k, some draws =>
          if k = 0 then (w, "ok " ++ showState w) else
          let newUids := (List.range k).map (· + w.n)
          match growAll w.arrs newUids draws with
          | .ok arrs => let w' : World := { au := w.au ++ newUids, n := w.n + k, arrs := arrs }
                        (w', "ok " ++ showState w')
          | .error e => (w, showErr e)
      | _, _ => (w, "bad-op")
  | ["remove", l] =>
      match parseNatList? l with
      | some us => let w' := { w with au := removeActive w.au us }; (w', "ok " ++ showState w')
      | none => (w, "bad-op")
  | "get" :: var :: nm :: rest =>
      match parseVariant? var, w.find nm, parseKey w rest with
      | some v, some a, some (.ok k, []) =>
          (w, match getItem v w.au a k with
              | .ok (.vals vs) => "ok vals=" ++ showVals vs
              | .ok (.one x) => "ok one=" ++ showVal x
              | .error e => showErr e)
      | some _, some _, some (.error e, []) => (w, showErr e)
      | _, _, _ => (w, "bad-op")
  | "set" :: var :: nm :: rest =>
      -- the rhs is the last two tokens
      let nr := rest.length
      if nr < 3 then (w, "bad-op") else
      match parseVariant? var, w.find nm, parseKey w (rest.take (nr - 2)), parseRhs? (rest.drop (nr - 2)) with
      | some v, some a, some (.ok k, []), some rhs =>
          match setItem v w.au a k rhs with
          | .ok a' => let w' := w.put nm a'; (w', "ok " ++ showArr nm a')
          | .error e => (w, showErr e)
      | some _, some _, some (.error e, []), some _ => (w, showErr e)
      | _, _, _, _ => (w, "bad-op")
  | "view" :: rest =>
      match evalExpr w rest with
      | some (.ok a, []) => (w, "ok " ++ showView w a ++ s!" raw={showVals a.raw}")
      | some (.error e, []) => (w, showErr e)
      | _ => (w, "bad-op")
  | ["notnanvals", nm] =>
      match w.find nm with
      | some a => (w, "ok vals=" ++ showVals (notnanvals w.au a))
      | none => (w, "bad-op")
  | ["iter", nm] =>
      match w.find nm with
      | some a => (w, "ok vals=" ++ showVals (values w.au a))
      | none => (w, "bad-op")
  | "split" :: rest =>
      match evalExpr w rest with
      | some (.ok a, []) => let (t, f) := split w.au a; (w, s!"ok true={showNats t} false={showNats f}")
      | some (.error e, []) => (w, showErr e)
      | _ => (w, "bad-op")
  | ["setnan", nm, l] =>
      match w.find nm, parseNatList? l with
      | some a, some us =>
          match setNan a us with
          | .ok a' => let w' := w.put nm a'; (w', "ok " ++ showArr nm a')
          | .error e => (w, showErr e)
      | _, _ => (w, "bad-op")
  | "usetb" :: op :: a :: rest =>
      -- a uid-set operator whose right operand is a BoolArr: its true uids
      match parseNatList? a, evalExpr w rest with
      | some a, some (.ok b, []) =>
          let bu := trueUids w.au b
          match op with
          | "remove" => (w, "ok " ++ showNats (Uids.remove a bu))
          | "intersect" => (w, "ok " ++ showNats (Uids.intersect a bu))
          | "union" => (w, "ok " ++ showNats (Uids.union a bu))
          | "xor" => (w, "ok " ++ showNats (Uids.xor a bu))
          | _ => (w, "bad-op")
      | some _, some (.error e, []) => (w, showErr e)
      | _, _ => (w, "bad-op")
  | ["reduce", nm] =>
      match w.find nm with
      | some a => (w, s!"ok len={len w.au a} count={count w.au a} sum={showVal (sum w.au a)} mean={showOptVal (mean w.au a)} min={showOptVal (minV w.au a)} max={showOptVal (maxV w.au a)} any={showBool (anyV w.au a)} all={showBool (allV w.au a)}")
      | none => (w, "bad-op")
  | ["uset", op, a, b] =>
      match parseNatList? a, parseNatList? b with
      | some a, some b =>
          match op with
          | "concat" => (w, "ok " ++ showNats (Uids.concat a b))
          | "remove" => (w, "ok " ++ showNats (Uids.remove a b))
          | "intersect" => (w, "ok " ++ showNats (Uids.intersect a b))
          | "union" => (w, "ok " ++ showNats (Uids.union a b))
          | "xor" => (w, "ok " ++ showNats (Uids.xor a b))
          | "unique" => (w, "ok " ++ showNats (Uids.unique a))
          | _ => (w, "bad-op")
      | _, _ => (w, "bad-op")
  | "ucat" :: ls =>
      match ls.mapM parseNatList? with
      | some ls => (w, "ok " ++ showNats (Uids.cat ls))
      | none => (w, "bad-op")
  | ["state"] => (w, "ok " ++ showState w)
  | _ => (w, "bad-op")

def main : IO Unit := mainLoop stepLine World.empty
