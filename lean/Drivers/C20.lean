import StarsimModel.Model.Intervention
import StarsimModel.Model.Proto
open StarsimModel StarsimModel.Intervention StarsimModel.Proto

/-
Line protocol for C20 (one operation per line, one canonical answer per line; `bad-op` for anything not understood).

  reset
  clear <code|none>               syph_treatment: state array cleared for the treated after the treat_num step
  reslen <n|none>                 length of the module's own result arrays (screening writes results[sim.ti])
  hascov 0|1                      whether the delivery class created self.coverage_dist (routine: 1, campaign: 0)
  gate ti|own|t                    which gate the step uses (extracted from the source by the harness)
  hioff <int>                     constant added to max_capacity in the queue slice (extracted)
  routine <thr> <fineSub> <coarse> <vecPerTimepoint> <yearvec> <simStart> <simStop> <years|none> <sy|none> <ey|none> <prob> <annual> <dt>
  campaign <timevec> <years> <prob>
  flags <s> <uids>                disease state array number s is true exactly on these uids
  setrs <u:rat,...>               external change of rel_sus
  vx <inert|leaky|aon> <eff> <fail positions> <sim ti> <own ti> <active> <all|mask|uids|bad> <elig> <draws u:num53,...>
  dx <nres> <states>              the Dx product: number of results, state index per (disease,state) block
  screen <sim ti> <own ti> <active> <kind> <elig> <draws> <picks k:u:r,...>
  triage <sim ti> <own ti> <active> <kind> <elig> <draws> <picks>
  tx <pre:eff:post,...>           the Tx product, one block per state in table order
  treat <cap|none> <p> <active> <kind> <elig> <draws> <effdraws k:u:num53,...>
-/

def ratToFloat (r : Rat) : Float := Float.ofInt r.num / Float.ofNat r.den

/-- exact value of a finite double -/
def floatToRat (f : Float) : Rat :=
  if f == 0 then 0 else
  let neg := f < 0
  let a := if neg then -f else f
  let (m, e) := a.frExp
  let mant : Nat := (m * 9007199254740992.0).toUInt64.toNat
  let ex : Int := e - 53
  let r : Rat := if ex ≥ 0 then (mant : Rat) * ((2 : Rat) ^ ex.toNat) else (mant : Rat) / ((2 : Rat) ^ ((-ex).toNat))
  if neg then -r else r

/-- the code's `1 - (1 - p) ** dt` in IEEE double, returned as the exact rational of the result -/
def convFloat (dt : Rat) (p : Rat) : Rat :=
  floatToRat (1 - Float.pow (1 - ratToFloat p) (ratToFloat dt))

structure D where
  sched : Sched := ⟨[], [], false, 1⟩
  gate : Gate := .onTi
  hasCov : Bool := true
  resLen : Option Nat := none
  clear : Option Nat := none
  hiOff : Int := 0
  known : List Nat := []
  vx : VxRec := ⟨fun _ => false, fun _ => 0, fun _ => none, fun _ => 1⟩
  test : TestRec := ⟨fun _ => false, fun _ => 0, fun _ => none, []⟩
  flags : Flags := fun _ _ => false
  dx : DxProduct := ⟨1, []⟩
  tx : List TxRow := []
  treat : TreatState := ⟨[], fun _ _ => false, [], []⟩

def showErr : Err → String
  | .value => "E:Value" | .index => "E:Index" | .type => "E:Type" | .attr => "E:Attr"

def two53 : Rat := 9007199254740992

def parseOptRat? (s : String) : Option (Option Rat) :=
  if s = "none" then some none else (parseRat? s).map some

def parseOptRatList? (s : String) : Option (Option (List Rat)) :=
  if s = "none" then some none else (parseRatList? s).map some

/-- `u:v,...` pairs -/
def parsePairs? {α} (f : String → Option α) (s : String) : Option (List (Nat × α)) :=
  if s = "-" then some [] else
  (s.splitOn ",").mapM (fun t => match t.splitOn ":" with
    | [a, b] => do some ((← a.toNat?), (← f b))
    | _ => none)

def parseTriples? {α} (f : String → Option α) (s : String) : Option (List (Nat × Nat × α)) :=
  if s = "-" then some [] else
  (s.splitOn ",").mapM (fun t => match t.splitOn ":" with
    | [a, b, c] => do some ((← a.toNat?), (← b.toNat?), (← f c))
    | _ => none)

def lookupD {α} (l : List (Nat × α)) (d : α) (u : Nat) : α :=
  match l.find? (fun p => p.1 == u) with
  | some p => p.2
  | none => d

def lookup2D {α} (l : List (Nat × Nat × α)) (d : α) (k u : Nat) : α :=
  match l.find? (fun p => p.1 == k && p.2.1 == u) with
  | some p => p.2.2
  | none => d

def drawOf (l : List (Nat × Nat)) : Nat → Rat := fun u =>
  match l.find? (fun p => p.1 == u) with
  | some p => (p.2 : Rat) / two53
  | none => 1

def drawOf2 (l : List (Nat × Nat × Nat)) : Nat → Nat → Rat := fun k u =>
  match l.find? (fun p => p.1 == k && p.2.1 == u) with
  | some p => (p.2.2 : Rat) / two53
  | none => 1

def parseElig? (kind : String) (l : String) : Option Elig :=
  match kind with
  | "all" => some .everyone
  | "mask" => (parseNatList? l).map (fun m => Elig.mask (fun u => m.contains u))
  | "uids" => (parseNatList? l).map Elig.uids
  | "bad" => some .bad
  | _ => none

def addKnown (known : List Nat) (l : List Nat) : List Nat :=
  l.foldl (fun k u => if k.contains u then k else k ++ [u]) known

def sortedKnown (d : D) : List Nat := sortU d.known

def showSched (s : Sched) : String :=
  let conv := convFloat s.dt
  let step := s.prob.map (fun p => if s.convert then conv p else p)
  s!"ok tp={showList toString s.timepoints} prob={showList showRat s.prob} conv={showBool s.convert} step={showList showRat step}"

def showPairs {α} (f : α → String) (l : List (Nat × α)) : String :=
  showList (fun (p : Nat × α) => s!"{p.1}:{f p.2}") l

def showVx (d : D) (acc : List Nat) : String :=
  let ks := sortedKnown d
  let vacc := ks.filter d.vx.vaccinated
  let doses := (ks.filter (fun u => d.vx.nDoses u ≠ 0)).map (fun u => (u, d.vx.nDoses u))
  let tiv := ks.filterMap (fun u => (d.vx.tiVacc u).map (fun t => (u, t)))
  let rs := (ks.filter (fun u => d.vx.relSus u ≠ 1)).map (fun u => (u, d.vx.relSus u))
  s!"ok acc={showList toString acc} vacc={showList toString vacc} doses={showPairs toString doses} tiv={showPairs toString tiv} rs={showPairs showRat rs}"

def showOutcomes (o : List (List Nat)) : String :=
  if o.isEmpty then "-" else "|".intercalate (o.map (showList toString))

def showTest (d : D) (acc : List Nat) : String :=
  let ks := sortedKnown d
  let scr := ks.filter d.test.screened
  let n := (ks.filter (fun u => d.test.screens u ≠ 0)).map (fun u => (u, d.test.screens u))
  let tis := ks.filterMap (fun u => (d.test.tiScreened u).map (fun t => (u, t)))
  s!"ok acc={showList toString acc} screened={showList toString scr} screens={showPairs toString n} tis={showPairs toString tis} out={showOutcomes d.test.outcomes}"

def showTreat (d : D) (treated : List Nat) : String :=
  let ks := sortedKnown d
  let states := sortU (d.tx.foldl (fun l r => r.pre :: r.post :: l) (d.clear.toList))
  let fl := "|".intercalate (states.map (fun s => s!"{s}={showList toString (ks.filter (d.treat.flags s))}"))
  s!"ok treated={showList toString treated} queue={showList toString d.treat.queue} succ={showList toString d.treat.successful} unsucc={showList toString d.treat.unsuccessful} flags={fl}"

def parseTxRows? (s : String) : Option (List TxRow) :=
  if s = "-" then some [] else
  (s.splitOn ",").mapM (fun t => match t.splitOn ":" with
    | [a, b, c] => do some ⟨(← a.toNat?), (← parseRat? b), (← c.toNat?)⟩
    | _ => none)

def stepLine (d : D) (line : String) : D × String :=
  let bad := (d, "bad-op")
  match words line with
  | ["reset"] => ({ gate := d.gate, hiOff := d.hiOff }, "ok")
  | ["clear", n] => match parseOptNat? n with
      | some n => ({ d with clear := n }, "ok")
      | none => bad
  | ["reslen", n] => match parseOptNat? n with
      | some n => ({ d with resLen := n }, "ok")
      | none => bad
  | ["hascov", b] => match parseBool? b with
      | some b => ({ d with hasCov := b }, "ok")
      | none => bad
  | ["gate", g] => if g = "ti" then ({ d with gate := .onTi }, "ok") else if g = "own" then ({ d with gate := .onOwnTi }, "ok") else if g = "t" then ({ d with gate := .onTimeObj }, "ok") else bad
  | ["hioff", k] => match parseInt? k with
      | some k => ({ d with hiOff := k }, "ok")
      | none => bad
  | ["routine", thr, fs, co, vpt, yv, s0, s1, ys, sy, ey, pr, an, dt] =>
      match parseRat? thr, parseInt? fs, parseInt? co, parseRatList? yv, parseRat? s0, parseRat? s1,
            parseOptRatList? ys, parseOptRat? sy with
      | some thr, some fs, some co, some yv, some s0, some s1, some ys, some sy =>
        match parseOptRat? ey, parseRatList? pr, parseBool? an, parseRat? dt, parseBool? vpt with
        | some ey, some pr, some an, some dt, some vpt =>
          match routineInit ⟨thr, fs, co, vpt⟩ ⟨yv, s0, s1, ys, sy, ey, pr, an, dt, Tols.lib⟩ with
          | .error e => (d, showErr e)
          | .ok s => ({ d with sched := s }, showSched s)
        | _, _, _, _, _ => bad
      | _, _, _, _, _, _, _, _ => bad
  | ["campaign", tv, ys, pr] =>
      match parseRatList? tv, parseRatList? ys, parseRatList? pr with
      | some tv, some ys, some pr =>
        match campaignInit tv ys pr with
        | .error e => (d, showErr e)
        | .ok s => ({ d with sched := s }, showSched s)
      | _, _, _ => bad
  | ["flags", s, us] =>
      match parseNat? s, parseNatList? us with
      | some s, some us =>
        let fl : Flags := fun s' u => if s' = s then us.contains u else d.flags s' u
        let tfl : Flags := fun s' u => if s' = s then us.contains u else d.treat.flags s' u
        ({ d with flags := fl, treat := { d.treat with flags := tfl }, known := addKnown d.known us }, "ok")
      | _, _ => bad
  | ["setrs", ps] =>
      match parsePairs? parseRat? ps with
      | some ps =>
        let rs := fun u => match ps.find? (fun p => p.1 == u) with
          | some p => p.2
          | none => d.vx.relSus u
        ({ d with vx := { d.vx with relSus := rs }, known := addKnown d.known (ps.map (·.1)) }, "ok")
      | none => bad
  | ["vx", kind, eff, fails, ti, oti, active, ek, el, draws] =>
      match parseRat? eff, parseNatList? fails, parseInt? ti, parseInt? oti, parseNatList? active, parseElig? ek el,
            parsePairs? (·.toNat?) draws with
      | some eff, some fails, some ti, some oti, some active, some e, some draws =>
        let v? : Option Vaccine := match kind with
          | "inert" => some .inert
          | "leaky" => some (.leaky eff)
          | "aon" => some (.allOrNothing eff (fun u => fails.contains u))
          | _ => none
        match v? with
        | none => bad
        | some v =>
          let d := { d with known := addKnown d.known active }
          match vxStep d.gate (convFloat d.sched.dt) d.sched v ⟨ti, oti⟩ active e (drawOf draws) d.vx with
          | .error err => (d, showErr err)
          | .ok (acc, r) =>
            let d := { d with vx := r, known := addKnown d.known acc }
            (d, showVx d acc)
      | _, _, _, _, _, _, _ => bad
  | ["dx", nres, states] =>
      match parseNat? nres, parseNatList? states with
      | some nres, some states => ({ d with dx := ⟨nres, states.map (fun s => ⟨s⟩)⟩ }, "ok")
      | _, _ => bad
  | ["screen", ti, oti, active, ek, el, draws, picks] =>
      match parseInt? ti, parseInt? oti, parseNatList? active, parseElig? ek el, parsePairs? (·.toNat?) draws,
            parseTriples? (·.toNat?) picks with
      | some ti, some oti, some active, some e, some draws, some picks =>
        let d := { d with known := addKnown d.known active }
        match screenStep d.hasCov d.gate (convFloat d.sched.dt) d.sched d.dx d.flags ⟨ti, oti⟩ active (checkEligibility active e)
                (drawOf draws) (lookup2D picks (d.dx.nres - 1)) d.test d.resLen with
        | .error err => (d, showErr err)
        | .ok (acc, r) =>
          let d := { d with test := r, known := addKnown d.known acc }
          (d, showTest d acc)
      | _, _, _, _, _, _ => bad
  | ["triage", ti, oti, active, ek, el, draws, picks] =>
      match parseInt? ti, parseInt? oti, parseNatList? active, parseElig? ek el, parsePairs? (·.toNat?) draws,
            parseTriples? (·.toNat?) picks with
      | some ti, some oti, some active, some e, some draws, some picks =>
        match triageStep d.hasCov d.gate (convFloat d.sched.dt) d.sched d.dx d.flags ⟨ti, oti⟩ active (checkEligibility active e)
                (drawOf draws) (lookup2D picks (d.dx.nres - 1)) with
        | .error err => (d, showErr err)
        | .ok (acc, out) => (d, s!"ok acc={showList toString acc} out={showOutcomes out}")
      | _, _, _, _, _, _ => bad
  | ["tx", rows] =>
      match parseTxRows? rows with
      | some rows => ({ d with tx := rows }, "ok")
      | none => bad
  | ["treat", cap, p, active, ek, el, draws, effdraws] =>
      match parseOptNat? cap, parseRat? p, parseNatList? active, parseElig? ek el, parsePairs? (·.toNat?) draws,
            parseTriples? (·.toNat?) effdraws with
      | some cap, some p, some active, some e, some draws, some effdraws =>
        match checkEligibility active e with
        | .error err => (d, showErr err)
        | .ok el =>
          let d := { d with known := addKnown d.known active }
          let (treated, st) := match d.clear with
            | none => treatNumStep d.hiOff cap p d.tx active el el (drawOf draws) (drawOf2 effdraws) d.treat
            | some c => syphTreatStep c d.hiOff cap p d.tx active el el (drawOf draws) (drawOf2 effdraws) d.treat
          let d := { d with treat := st, known := addKnown (addKnown d.known treated) st.queue }
          (d, showTreat d treated)
      | _, _, _, _, _, _ => bad
  | _ => bad

def main : IO Unit := mainLoop stepLine {}
