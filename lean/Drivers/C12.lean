/-
Line-protocol driver for C12 (Model/Transmission.lean).  One operation per line, one canonical output line per line.

  state <sus bits> <inf bits> <relSus rats> <relTrans rats>        agent arrays by raw uid (bits: string of 0/1)
  clearnets
  net <isNetwork 0|1> <plain|sexual|raw> <b0> <b1> <p1> <p2> <beta> <acts> <r0> <r1> <nb0> <nb1>
                                                                     one route, appended; lists `-` = empty / defaults
  infect                 -> T=<targets> S=<sources> N=<route indices>
  calls                  -> one item per executed kernel call: <route>:<dir>:<targets>:<sources>
  events                 -> concatenated events before unique: T=… S=… N=…
  pool <beta> <src> <dst> <contacts (dst order)> <r (dst order)>     -> C=<new cases> trans=<rat> P=<p per dst>
  netbeta plain <edge beta> <β> | netbeta sexual <edge beta> <β> <acts·dt>
  validate scalar <β> <keys> | validate dict <k=s:β;k=l:b0,b1;…|-> <keys> | validate invalid <keys>
  pair <k=b0,b1;…> <key>
  outcomes <ages by uid>  -> congenital / prognosis split of `infect` and the step's log (sources, targets)
  unique <targets> <sources>   -> keepFirst + sort (`uids.unique(return_index=True)`), N = kept indices
  netbetaf <β> <dt> <edge betas> <acts>  -> IEEE bits of SexualNetwork.net_beta per edge (doubles, any acts·dt)
  agnew <id> <low> <high|-> <doCache 0|1>                          a new AgeGroup object in slot <id>
  agcall <id> <ti> <auids> <ages (auids order)>                     -> U=<returned uids> tc=<ti_cache>   (AgeGroup.__call__)
  gremove <explicit uids> <dead>                                    -> explicit group after MixingPool.remove_uids
  poolg <beta> <src group> <dst group> <ti> <auids> <ages (auids order)> <contacts by uid> <r by uid>
        group = all | age:<id> | fn:<uids> | uids:<uids>            -> C=<new cases> SRC=<resolved> DST=<resolved> SPECSRC=… SPECDST=…
Numbers: `p/q`, integers, or `m@e` (= m / 2^e, the exact value of a binary float).
-/
import StarsimModel.Model.Transmission
import StarsimModel.Model.Proto
open StarsimModel StarsimModel.Transmission StarsimModel.Proto

def parseNum? (s : String) : Option Rat :=
  match s.splitOn "@" with
  | [m, e] => do
      let mi ← m.toInt?
      let en ← e.toNat?
      some ((mi : Rat) / ((2 ^ en : Nat) : Rat))
  | _ => parseRat? s

def parseNums? (s : String) : Option (Array Rat) :=
  if s = "-" then some #[] else ((s.splitOn ",").mapM parseNum?).map List.toArray

def parseNats? (s : String) : Option (Array Nat) :=
  if s = "-" then some #[] else ((s.splitOn ",").mapM String.toNat?).map List.toArray

def parseBits? (s : String) : Option (Array Bool) :=
  if s = "-" then some #[] else
  s.toList.foldl (fun acc c => match acc with
    | none => none
    | some a => if c = '1' then some (a.push true) else if c = '0' then some (a.push false) else none) (some #[])

structure St where
  sus : Array Bool := #[]
  inf : Array Bool := #[]
  rs : Array Rat := #[]
  rt : Array Rat := #[]
  nets : Array Net := #[]
  ags : List (Nat × AgeGroup) := []

def St.dstate (st : St) : DState :=
  { susceptible := fun u => st.sus.getD u false
    infectious := fun u => st.inf.getD u false
    relSus := fun u => st.rs.getD u 0
    relTrans := fun u => st.rt.getD u 0 }

def showNats (l : List Nat) : String := showList toString l

def showEvents (evs : List Event) : String :=
  s!"T={showNats (evs.map (·.target))} S={showNats (evs.map (·.source))} N={showNats (evs.map (·.net))}"

def parseKind? : String → Option NetKind
  | "plain" => some .plain | "sexual" => some .sexual | "raw" => some .raw | _ => none

def mkEdges (p1 p2 : Array Nat) (beta : Array Rat) (acts : Array Nat) (r0 r1 nb0 nb1 : Array Rat) : Option (List Edge) :=
  if p1.size ≠ p2.size then none else
  some ((List.range p1.size).map (fun i =>
    { p1 := p1.getD i 0, p2 := p2.getD i 0, beta := beta.getD i 1, acts := acts.getD i 0,
      r0 := r0.getD i 0, r1 := r1.getD i 0, nb0 := nb0.getD i 0, nb1 := nb1.getD i 0 }))

def callsOf (s : DState) (nets : List Net) : List String :=
  (nets.zipIdx).flatMap (fun (n, i) =>
    if n.active then
      [Dir.fwd, Dir.bwd].filterMap (fun d =>
        if n.b d = 0 then none else
          let evs := dirEvents s i n d
          some s!"{i}:{match d with | .fwd => 0 | .bwd => 1}:{showNats (evs.map (·.target))}:{showNats (evs.map (·.source))}")
    else [])

def showErr : Err → String
  | .keyMismatch => "E:KeyMismatch" | .invalidType => "E:InvalidType" | .index => "E:Index"

def showMap (m : List (String × List Rat)) : String :=
  if m.isEmpty then "-" else ";".intercalate (m.map (fun kv => s!"{kv.1}={showList showRat kv.2}"))

def parseKeys (s : String) : List String := if s = "-" then [] else s.splitOn ","

def parseEntry? (s : String) : Option (String × BetaEntry) :=
  match s.splitOn "=" with
  | [k, v] =>
    match v.splitOn ":" with
    | ["s", x] => (parseNum? x).map (fun β => (k, .scalar β))
    | ["l", xs] => (parseNums? xs).map (fun l => (k, .list l.toList))
    | _ => none
  | _ => none

def parseMap? (s : String) : Option (List (String × List Rat)) :=
  if s = "-" then some [] else
  (s.splitOn ";").mapM (fun kv => match kv.splitOn "=" with
    | [k, v] => (parseNums? v).map (fun l => (k, l.toList))
    | _ => none)

def mkPeople (auids : Array Nat) (ages : Array Rat) : People :=
  { auids := auids.toList
    age := fun u => match auids.toList.idxOf? u with | some i => ages.getD i 0 | none => 0 }

def St.setAg (st : St) (id : Nat) (g : AgeGroup) : St :=
  { st with ags := (id, g) :: st.ags.filter (fun kv => kv.1 ≠ id) }

def parseGroup? (st : St) (s : String) : Option (Group × Option Nat) :=
  if s = "all" then some (.all, none) else
  match s.splitOn ":" with
  | ["age", id] => do
      let i ← id.toNat?
      let g ← st.ags.lookup i
      some (.age g, some i)
  | ["fn", l] => (parseNats? l).map (fun a => (.fn (fun _ => a.toList), none))
  | ["uids", l] => (parseNats? l).map (fun a => (.explicit a.toList, none))
  | _ => none

/-- write the cache state of a resolved age group back to its slot (the Python objects are mutable and may be shared) -/
def St.writeBack (st : St) (slot : Option Nat) (g : Group) : St :=
  match slot, g with
  | some i, .age a => st.setAg i a
  | _, _ => st

def stepLine (st : St) (line : String) : St × String :=
  match words line with
  | ["agnew", id, low, high, dc] =>
    match id.toNat?, parseNum? low, (if high = "-" then some none else (parseNum? high).map some), parseBool? dc with
    | some id, some low, some high, some dc => (st.setAg id { low := low, high := high, doCache := dc }, "ok")
    | _, _, _, _ => (st, "bad-op")
  | ["agcall", id, ti, auids, ages] =>
    match id.toNat?, ti.toInt?, parseNats? auids, parseNums? ages with
    | some id, some ti, some auids, some ages =>
      if auids.size ≠ ages.size then (st, "bad-op") else
      match st.ags.lookup id with
      | some g =>
        let res := g.call ti (mkPeople auids ages)
        (st.setAg id res.1, s!"U={showNats res.2} tc={res.1.tiCache}")
      | none => (st, "bad-op")
    | _, _, _, _ => (st, "bad-op")
  | ["gremove", l, dead] =>
    match parseNats? l, parseNats? dead with
    | some l, some dead =>
      (st, match (Group.explicit l.toList).remove dead.toList with | .explicit l' => showNats l' | _ => "bad-op")
    | _, _ => (st, "bad-op")
  | ["poolg", beta, src, dst, ti, auids, ages, contacts, r] =>
    match parseNum? beta, ti.toInt?, parseNats? auids, parseNums? ages, parseNums? contacts, parseNums? r with
    | some beta, some ti, some auids, some ages, some contacts, some r =>
      if auids.size ≠ ages.size then (st, "bad-op") else
      -- `src` is resolved first; a shared AgeGroup object (same slot) sees the cache the first resolution left
      match parseGroup? st src with
      | none => (st, "bad-op")
      | some (gs, slotS) =>
        let p := mkPeople auids ages
        let st1 := st.writeBack slotS (gs.resolve ti p).1
        match parseGroup? st1 dst with
        | none => (st, "bad-op")
        | some (gd, slotD) =>
          let pg : PoolG := { src := gs, dst := gd, beta := beta, contacts := fun u => contacts.getD u 0 }
          let res := poolStepG st.dstate pg ti p (fun u => r.getD u 0)
          let st2 := (st1.writeBack slotD res.1.dst)
          (st2, s!"C={showNats res.2} SRC={showNats (gs.resolve ti p).2} DST={showNats (gd.resolve ti p).2} SPECSRC={showNats (gs.spec p)} SPECDST={showNats (gd.spec p)}")
    | _, _, _, _, _, _ => (st, "bad-op")
  | ["state", su, inf, rs, rt] =>
    match parseBits? su, parseBits? inf, parseNums? rs, parseNums? rt with
    | some su, some inf, some rs, some rt => ({ st with sus := su, inf := inf, rs := rs, rt := rt }, "ok")
    | _, _, _, _ => (st, "bad-op")
  | ["clearnets"] => ({ st with nets := #[] }, "ok")
  | ["net", isn, kind, b0, b1, p1, p2, beta, acts, r0, r1, nb0, nb1] =>
    match parseBool? isn, parseKind? kind, parseNum? b0, parseNum? b1, parseNats? p1, parseNats? p2, parseNums? beta,
          parseNats? acts, parseNums? r0, parseNums? r1, parseNums? nb0, parseNums? nb1 with
    | some isn, some kind, some b0, some b1, some p1, some p2, some beta, some acts, some r0, some r1, some nb0, some nb1 =>
      match mkEdges p1 p2 beta acts r0 r1 nb0 nb1 with
      | some edges =>
        let n : Net := { isNetwork := isn, kind := kind, edges := edges, b0 := b0, b1 := b1 }
        ({ st with nets := st.nets.push n }, s!"ok n={st.nets.size}")
      | none => (st, "bad-op")
    | _, _, _, _, _, _, _, _, _, _, _, _ => (st, "bad-op")
  | ["infect"] => (st, showEvents (infect st.dstate st.nets.toList))
  | ["outcomes", ages] =>
    match parseNums? ages with
    | some ages =>
      let age : Nat → Rat := fun u => ages.getD u 1
      let evs := infect st.dstate st.nets.toList
      let lg := stepLog 0 age st.dstate st.nets.toList
      (st, s!"C={showNats ((congenitalCases age evs).map (·.target))} P={showNats ((prognosisCases age evs).map (·.target))} LS={showNats (lg.map (·.source))} LT={showNats (lg.map (·.target))}")
    | none => (st, "bad-op")
  | ["unique", ts, ss] =>
    match parseNats? ts, parseNats? ss with
    | some ts, some ss =>
      if ts.size ≠ ss.size then (st, "bad-op") else
      let evs : List Event := (List.range ts.size).map (fun i => ⟨ts.getD i 0, ss.getD i 0, i⟩)
      (st, showEvents (sortByTarget (keepFirst evs)))
    | _, _ => (st, "bad-op")
  | ["netbetaf", β, dt, ebs, acts] =>
    match parseNum? β, parseNum? dt, parseNums? ebs, parseNums? acts with
    | some β, some dt, some ebs, some acts =>
      if ebs.size ≠ acts.size then (st, "bad-op") else
      let f : Rat → Float := fun r => Float.ofInt r.num / Float.ofNat r.den
      (st, showList (fun i => toString (netBetaSexualF (f (ebs.getD i 0)) (f β) (f (acts.getD i 0)) (f dt)).toBits) (List.range ebs.size))
    | _, _, _, _ => (st, "bad-op")
  | ["events"] => (st, showEvents (allEvents st.dstate st.nets.toList))
  | ["calls"] =>
    let cs := callsOf st.dstate st.nets.toList
    (st, if cs.isEmpty then "-" else " ".intercalate cs)
  | ["pool", beta, src, dst, contacts, r] =>
    match parseNum? beta, parseNats? src, parseNats? dst, parseNums? contacts, parseNums? r with
    | some beta, some src, some dst, some contacts, some r =>
      if contacts.size ≠ dst.size ∨ r.size ≠ dst.size then (st, "bad-op") else
      let idx : Nat → Option Nat := fun u => dst.toList.idxOf? u
      let cf : Nat → Rat := fun u => match idx u with | some i => contacts.getD i 0 | none => 0
      let rf : Nat → Rat := fun u => match idx u with | some i => r.getD i 0 | none => 0
      let pl : Pool := { src := src.toList, dst := dst.toList, beta := beta, contacts := cf }
      let s := st.dstate
      let cases := poolStep s pl rf
      let tr := if src.isEmpty then "-" else showRat (poolTrans s pl.src)
      let ps := if src.isEmpty then "-" else showList showRat (pl.dst.map (poolP s pl))
      (st, s!"C={showNats cases} trans={tr} P={ps}")
    | _, _, _, _, _ => (st, "bad-op")
  | ["setbeta", old, new] =>      -- `TimePar.set(v=new)` on a beta whose base value is `old`; `-` = argument not supplied
    match parseNum? old with
    | some o =>
      if new == "-" then (st, showRat (setBase o none))
      else match parseNum? new with
        | some x => (st, showRat (setBase o (some x)))
        | none => (st, "bad-op")
    | none => (st, "bad-op")
  | ["scalebeta", old, f] =>      -- `beta *= f` / `beta * f`
    match parseNum? old, parseNum? f with
    | some o, some f => (st, showRat (scaleBase o f))
    | _, _ => (st, "bad-op")
  | ["netbeta", "plain", eb, β] =>
    match parseNum? eb, parseNum? β with
    | some eb, some β => (st, showRat (netBeta .plain { p1 := 0, p2 := 0, beta := eb } β .fwd))
    | _, _ => (st, "bad-op")
  | ["netbeta", "sexual", eb, β, n] =>
    match parseNum? eb, parseNum? β, n.toNat? with
    | some eb, some β, some n => (st, showRat (netBeta .sexual { p1 := 0, p2 := 0, beta := eb, acts := n } β .fwd))
    | _, _, _ => (st, "bad-op")
  | ["validate", "scalar", β, keys] =>
    match parseNum? β with
    | some β => (st, match validateBeta (.scalar β) (parseKeys keys) with | .ok m => "ok " ++ showMap m | .error e => showErr e)
    | none => (st, "bad-op")
  | ["validate", "dict", entries, keys] =>
    match (if entries = "-" then some [] else (entries.splitOn ";").mapM parseEntry?) with
    | some es => (st, match validateBeta (.perNet es) (parseKeys keys) with | .ok m => "ok " ++ showMap m | .error e => showErr e)
    | none => (st, "bad-op")
  | ["validate", "invalid", keys] =>
    (st, match validateBeta .invalid (parseKeys keys) with | .ok m => "ok " ++ showMap m | .error e => showErr e)
  | ["pair", m, k] =>
    match parseMap? m with
    | some m => (st, match betaPair m k with | .ok (a, b) => s!"ok {showRat a},{showRat b}" | .error e => showErr e)
    | none => (st, "bad-op")
  | _ => (st, "bad-op")

def main : IO Unit := mainLoop stepLine {}
