import StarsimModel.Model.Hazard
import StarsimModel.Model.Proto
open StarsimModel StarsimModel.TimePar StarsimModel.Hazard StarsimModel.Proto

/-! Line-protocol driver for Model/Hazard.lean (exact rationals).  Tokens as in Drivers/C06.lean:
    `~` = None, units raw strings, numbers `p/q`, values `s:<num>` / `a:<num>,<num>`. -/

def showErr : Err → String
  | .value => "E:Value" | .key => "E:Key" | .zeroDiv => "E:ZeroDiv" | .attr => "E:Attr" | .type => "E:Type"
def parseKind? : String → Option Kind
  | "dur" => some .dur | "rate" => some .rate | "time_prob" => some .timeProb | "rate_prob" => some .rateProb
  | "beta" => some .beta | _ => none
def parseUnit (s : String) : UnitT := if s = "~" then none else some s
def parseORat? (s : String) : Option (Option Rat) := if s = "~" then some none else (parseRat? s).map some
def showVal : Val Rat → String
  | .scalar a => "s:" ++ showRat a
  | .array l => "a:" ++ showList showRat l
def parseVal? (s : String) : Option (Val Rat) :=
  if s.startsWith "s:" then (parseRat? (s.drop 2).toString).map .scalar
  else if s.startsWith "a:" then (parseRatList? (s.drop 2).toString).map .array
  else none
def parseOVal? (s : String) : Option (Option (Val Rat)) := if s = "~" then some none else (parseVal? s).map some

def showR : Except Err Rat → String
  | .ok r => "ok " ++ showRat r | .error e => showErr e
def showV : Except Err (Val Rat) → String
  | .ok v => "ok " ++ showVal v | .error e => showErr e

def parseTP? (ws : List String) : Option (TP Rat) :=
  match ws with
  | [k, u, pu, pdt, sdt, fac, ini, v, vals] => do
      let k ← parseKind? k; let v ← parseVal? v; let vals ← parseOVal? vals
      let pdt ← parseORat? pdt; let sdt ← parseORat? sdt; let fac ← parseORat? fac; let ini ← parseBool? ini
      if k = .dur ∨ k = .rate then
        some { kind := k, v := v, unit := parseUnit u, parentUnit := parseUnit pu, parentDt := pdt, selfDt := sdt,
               factor := fac, values := vals, initialized := ini }
      else none
  | _ => none

def parseForm? : String → Option Form
  | "plain" => some .plain | "inside" => some .inside | "wrapped" => some .wrapped | _ => none
def showUnit : UnitT → String
  | some u => u | none => "~"
def showORat : Option Rat → String
  | some r => showRat r | none => "~"
def showOVal : Option (Val Rat) → String
  | some v => showVal v | none => "~"
/-- any kind, state as observed (no conversion is run on it) -/
def parseTPAny? (ws : List String) : Option (TP Rat) :=
  match ws with
  | [k, u, pu, pdt, sdt, fac, ini, v, vals] => do
      let k ← parseKind? k; let v ← parseVal? v; let vals ← parseOVal? vals
      let pdt ← parseORat? pdt; let sdt ← parseORat? sdt; let fac ← parseORat? fac; let ini ← parseBool? ini
      some { kind := k, v := v, unit := parseUnit u, parentUnit := parseUnit pu, parentDt := pdt, selfDt := sdt,
             factor := fac, values := vals, initialized := ini }
  | _ => none

def stepLine (_ : Unit) (line : String) : Unit × String :=
  ((), match words line with
  | ["number", which, u, dt, su, sdt, r, ru, rel] =>
      (match parseORat? dt, parseORat? sdt, parseRat? r, parseRat? ru, parseRat? rel with
      | some dt, some sdt, some r, some ru, some rel =>
          if which = "births" then showR (birthsNumber (parseUnit u) dt (parseUnit su) sdt r ru rel)
          else if which = "deaths" then showR (deathsNumber (parseUnit u) dt (parseUnit su) sdt r ru rel)
          else "bad-op"
      | _, _, _, _, _ => "bad-op")
  | "timepar" :: which :: u :: dt :: su :: sdt :: ru :: rel :: tp =>
      (match parseORat? dt, parseORat? sdt, parseRat? ru, parseRat? rel, parseTP? tp with
      | some dt, some sdt, some ru, some rel, some t =>
          if which = "births" then showV (birthsTimePar (parseUnit u) dt (parseUnit su) sdt t ru rel)
          else if which = "deaths" then showV (deathsTimePar (parseUnit u) dt (parseUnit su) sdt t ru rel)
          else "bad-op"
      | _, _, _, _, _ => "bad-op")
  | ["fert", u, dt, su, sdt, r, ru, rel, age, mn, mx, fec] =>
      (match parseORat? dt, parseORat? sdt, parseRat? r, parseRat? ru, parseRat? rel, parseRat? age, parseRat? mn, parseRat? mx, parseBool? fec with
      | some dt, some sdt, some r, some ru, some rel, some age, some mn, some mx, some fec =>
          showR (fertilityNumber (parseUnit u) dt (parseUnit su) sdt r ru rel age mn mx fec)
      | _, _, _, _, _, _, _, _, _ => "bad-op")
  | ["fertyear", index, now, dp] =>
      (match parseRatList? index, parseRat? now, parseRat? dp with
      | some ix, some now, some dp => "ok " ++ toString (fertilityYear ix now dp)
      | _, _, _ => "bad-op")
  | ["rescale", r, n, ninf] =>
      (match parseRat? r, parseNat? n, parseNat? ninf with
      | some r, some n, some ninf => "ok " ++ showRat (rescaleRate r n ninf)
      | _, _, _ => "bad-op")
  | ["lerp", y0, r0, y1, r1, y] =>
      (match parseRat? y0, parseRat? r0, parseRat? y1, parseRat? r1, parseRat? y with
      | some y0, some r0, some y1, some r1, some y => if y0 = y1 then "bad-op" else "ok " ++ showRat (lerp y0 r0 y1 r1 y)
      | _, _, _, _, _ => "bad-op")
  | ["edge", d, dt, n] =>
      (match parseRat? d, parseRat? dt, parseNat? n with
      | some d, some dt, some n => "ok " ++ showRat (edgeDurAfter d dt n) ++ " " ++ showBool (edgeActive d dt n)
      | _, _, _ => "bad-op")
  | ["netbeta", acts, dt] =>
      (match parseRat? acts, parseRat? dt with
      | some a, some dt => "ok " ++ showRat (netBetaExponent a dt)
      | _, _ => "bad-op")
  | ["agebin", bins, age] =>
      (match parseRatList? bins, parseRat? age with
      | some b, some a => "ok " ++ toString (ageBin b a)
      | _, _ => "bad-op")
  | ["nearest", years, y] =>
      (match parseRatList? years, parseRat? y with
      | some ys, some y => "ok " ++ toString (nearest ys y) ++ " " ++ (match nearestVal ys y with | some v => showRat v | none => "~")
      | _, _ => "bad-op")
  | ["ageinc", u, dt] =>
      (match parseORat? dt with | some dt => showR (ageIncrement (parseUnit u) dt) | none => "bad-op")
  | ["delivexp", u, dt] =>
      (match parseORat? dt with | some dt => showR (deliveryExponent Gen.deliveryDt (parseUnit u) dt) | none => "bad-op")
  | ["decl", form, kind, v, du, pu, pdt] =>
      (match parseForm? form, parseKind? kind, parseVal? v, parseORat? pdt with
      | some f, some k, some v, some pdt =>
          let alg := (k == .dur) || (k == .rate)
          (match declareInit Gen.wrapLost f k v (parseUnit du) (parseUnit pu) pdt alg with
          | .ok t => "ok " ++ showUnit t.unit ++ " " ++ showUnit t.parentUnit ++ " " ++ showORat t.parentDt ++ " " ++ showORat t.factor ++ " " ++ showOVal t.values
          | .error e => showErr e)
      | _, _, _, _ => "bad-op")
  | ["override", kind, v0, du, form, x, xu, pu, pdt] =>
      (match parseKind? kind, parseVal? v0, parseRat? x, parseORat? pdt with
      | some k, some v0, some x, some pdt =>
          let alg := (k == .dur) || (k == .rate)
          let new : Option NewVal := if form = "number" then some (.number x) else if form = "list" then some (.list x (parseUnit xu)) else none
          (match new with
          | none => "bad-op"
          | some nv =>
            if updHandler Gen.updDispatch Gen.updAtomic != "_update_timepar" then "ok direct" else
            (match overrideInit Gen.updBranches k v0 (parseUnit du) nv (parseUnit pu) pdt alg with
            | .ok (.tp t) => "ok tp " ++ showUnit t.unit ++ " " ++ showUnit t.parentUnit ++ " " ++ showORat t.parentDt ++ " " ++ showORat t.factor ++ " " ++ showOVal t.values
            | .ok (.raw r) => "ok raw " ++ showRat r
            | .error e => showErr e))
      | _, _, _, _ => "bad-op")
  | ["shortcut", name] =>
      (match shortcutOf Gen.shortcuts name with
      | some (cls, unit) => "ok " ++ cls ++ " " ++ unit
      | none => "E:Key")
  | "pool" :: trans :: acq :: tp =>
      (match parseRat? trans, parseRat? acq, parseTPAny? tp with
      | some tr, some ac, some t => showV (poolProb Gen.poolBetaField t tr ac)
      | _, _, _ => "bad-op")
  | ["dtyear", numeric, u, dt] =>
      (match parseBool? numeric, parseORat? dt with
      | some nm, some dt => showR (dtYear nm (parseUnit u) dt)
      | _, _ => "bad-op")
  | ["recover", dis, m, s, d, k] =>
      (match parseRat? m, parseRat? s, parseRat? d, parseNat? k with
      | some m, some s, some d, some k =>
          let r := if dis = "sis" then some (recoveredAt Gen.sisSchedClock Gen.sisRecoverClock m s d k)
                   else if dis = "sir" then some (recoveredAt Gen.sirSchedClock Gen.sirRecoverClock m s d k) else none
          (match r with
          | some (.ok b) => "ok " ++ showBool b
          | some (.error e) => showErr e
          | none => "bad-op")
      | _, _, _, _ => "bad-op")
  | _ => "bad-op")

def main : IO Unit := mainLoop stepLine ()
