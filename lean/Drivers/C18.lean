import StarsimModel.Model.MultiRun
import StarsimModel.Model.Proto
open StarsimModel StarsimModel.MultiRun StarsimModel.Proto

/-
Line protocol of the C18 driver.  Configurations are identified by a natural number; the "results" of
running configuration `c` alone with seed `s` are the pair `(c, s)` (the harness runs the real thing).

  run <spec|asis> <msim|parallel|initrun> <single|list> <members> <nruns> <reseed> <iseeds> <icfgs> <simseed> <simcfg> <dorun> <mode> <inplace> <chunk> <ident> <sched>
      api     : msim = MultiSim(...).run() / multi_run; parallel = ss.parallel(*members); initrun = MultiSim(..., initialize=True).run()
      members : `cfg:seed:init:ran` joined by `,`   (init = `none` or the seed at `sim.init()`; ran = 0/1)
      reseed  : none | 0 | 1        iseeds : none | comma list of ints (`-` = empty)     icfgs : likewise (naturals)
      ident   : `-` (all list entries distinct objects) or per entry the index of the first entry that is the same object
      mode    : parallel | serial | debug         sched : `worker:task` joined by `,` or `-`
   -> ok callers=<sims> sims=<sims>     with a sim shown as cfg:seed:eff:init  (eff = seed the results were run with, `-` = not run; init = initialised 0/1)
      or E:AlreadyRun | E:KeyNotFound | E:Type | E:Value
  chunk <n> <workers>                           -> ok <poolChunk>
  reduceargs <bounds|none> <qlo,qhi|none>        -> ok <k> <qlo> <qhi>   (the values reduce() uses)
  reduce <spec|asis> <npts> <usemean> <bounds|none> <qlo,qhi|none> <members>    members: rows of rationals joined by `;`
   -> ok <centre,low,high,var>;...   per time point, with sqrt := id (so low/high of the mean branch are mean ∓ k·variance)
  summarize <spec|asis> <mean|median|all> <qs> <vals>
  grun <members> <reseed> <dorun> <private|chunk:c> <sched> <w0>
      the tasks of a list of members (ind = position) run by workers whose process-global generators start in the states
      `host w0[i]` (comma list of naturals, worker i; others `host 0`); runs READ that state (Model: singleRunG / execParG)
   -> ok <cfg:seed:eff:G>,...   G = S<seed> (steps started from the generators freshly seeded with <seed>) | H (from whatever the
      hosting process held) | - (not run)         or E:...
  gserial <members> <reseed> <dorun> <g0>         the serial loop in one process starting from `host g0`
  summary <default|mean|median|last> <key> <series>                 -> ok <sim.summarize(how)[key]>
  rsummary <usemean> <bounds|none> <qlo,qhi|none> <key> <members>    -> ok <msim.summary[key] after reduce>
  msummarize <spec|asis> <mean|median|all> <qs> <how> <key> <members>   (members: rows of the members' series) -> as summarize
-/

abbrev K := Nat
abbrev R := Nat × Int

def simulateId (c : K) (s : Int) : R := (c, s)

def showErr : Err → String
  | .alreadyRun => "E:AlreadyRun" | .keyNotFound => "E:KeyNotFound" | .typeErr => "E:Type" | .valueErr => "E:Value"

def showSim (s : Sim K R) : String :=
  let eff := match s.results with
    | some r => toString r.2
    | none => "-"
  s!"{s.cfg}:{s.seed}:{eff}:{if s.initSeed.isSome then 1 else 0}"

def showSims (l : List (Sim K R)) : String := if l.isEmpty then "-" else ",".intercalate (l.map showSim)

def parseMember (s : String) : Option (Sim K R) :=
  match s.splitOn ":" with
  | [c, sd, ini, ran] => do
      let c ← c.toNat?
      let sd ← sd.toInt?
      let ini ← parseOptInt? ini
      let ran ← parseBool? ran
      some { cfg := c, seed := sd, initSeed := ini, results := if ran then some (c, ini.getD sd) else none }
  | _ => none

def parseMembers (s : String) : Option (List (Sim K R)) :=
  if s = "-" then some [] else (s.splitOn ",").mapM parseMember

def parseOptBool? (s : String) : Option (Option Bool) :=
  if s = "none" then some none else (parseBool? s).map some

def parseOptIntList? (s : String) : Option (Option (List Int)) :=
  if s = "none" then some none else (parseIntList? s).map some

def parseOptNatList? (s : String) : Option (Option (List Nat)) :=
  if s = "none" then some none else (parseNatList? s).map some

def parseVariant (s : String) : Option Variant :=
  if s = "spec" then some .spec else if s = "asis" then some .asis else none

def parseMode (s : String) : Option Mode :=
  if s = "parallel" then some .parallel else if s = "serial" then some .serial
  else if s = "debug" then some .debug else none

def parseEvent (s : String) : Option (Nat × Nat) :=
  match s.splitOn ":" with
  | [w, i] => do some ((← w.toNat?), (← i.toNat?))
  | _ => none

def parseSched (s : String) : Option (List (Nat × Nat)) :=
  if s = "-" then some [] else (s.splitOn ",").mapM parseEvent

def parseRows (s : String) : Option (List (List Rat)) :=
  if s = "-" then some [] else (s.splitOn ";").mapM parseRatList?

def parseOptNat'? (s : String) : Option (Option Nat) :=
  if s = "none" then some none else (s.toNat?).map some

def parseOptRat? (s : String) : Option (Option Rat) :=
  if s = "none" then some none else (parseRat? s).map some

def parseOptRatPair? (s : String) : Option (Option (Rat × Rat)) :=
  if s = "none" then some none else
    match s.splitOn "," with
    | [a, b] => do some (some ((← parseRat? a), (← parseRat? b)))
    | _ => none

def doRun (ws : List String) : Option String :=
  match ws with
  | [v, api, tg, members, nruns, reseed, iseeds, icfgs, simseed, simcfg, dorun, mode, inplace, chunk, ident, sched] => do
      let v ← parseVariant v
      let ms ← parseMembers members
      let target : Target K R ← (if tg = "single" then (match ms with | [s] => some (.single s) | _ => none)
                                  else if tg = "list" then some (.list ms) else none)
      let a : Args K := { nRuns := ← nruns.toNat?, reseed := ← parseOptBool? reseed, iterSeeds := ← parseOptIntList? iseeds,
                          iterCfgs := ← parseOptNatList? icfgs, simSeed := ← parseOptInt? simseed,
                          simCfg := ← parseOptNat'? simcfg, doRun := ← parseBool? dorun,
                          ident := ← (if ident = "-" then some id else do
                            let l ← parseNatList? ident
                            some (fun i => l.getD i i)) }
      let mode ← parseMode mode
      let inplace ← parseBool? inplace
      let chunk ← chunk.toNat?
      let sched ← parseSched sched
      let res ← (if api = "msim" then some (msimRun simulateId v target a mode inplace chunk sched)
        else if api = "parallel" then some (parallelCall simulateId v ms a mode inplace chunk sched)
        else if api = "initrun" then
          let n := match target with
            | .single _ => (match nRunsOf a with | .ok n => n | .error _ => 0)
            | .list l => l.length
          some (msimInitRun simulateId v target a mode inplace chunk ((List.range n).map fun i => (0, i)) sched)
        else none)
      match res with
      | .error e => some (showErr e)
      | .ok o => some s!"ok callers={showSims o.callers} sims={showSims o.sims}"
  | _ => none

def showBand (b : Band) (var : Rat) : String :=
  s!"{showRat b.centre},{showRat b.low},{showRat b.high},{showRat var}"

def doReduce (ws : List String) : Option String :=
  match ws with
  | [v, npts, um, bounds, quant, rows] => do
      let v ← parseVariant v
      let npts ← npts.toNat?
      let um ← parseBool? um
      let bounds ← parseOptRat? bounds
      let quant ← parseOptRatPair? quant
      let members ← parseRows rows
      match reduceCall v npts id um bounds quant members with
      | .error e => some (showErr e)
      | .ok bands =>
      let vars := match members with
        | [] => []
        | m :: _ => (List.range m.length).map fun t => variance 0 (rowAt members t)
      some ("ok " ++ (if bands.isEmpty then "-" else ";".intercalate ((bands.zip vars).map fun (b, v) => showBand b v)))
  | _ => none

def doSummarize (ws : List String) : Option String :=
  match ws with
  | [v, m, qs, vals] => do
      let v ← parseVariant v
      let m : SumMethod ← (if m = "mean" then some .mean else if m = "median" then some .median
                            else if m = "all" then some .all else none)
      let qs ← parseRatList? qs
      let vals ← parseRatList? vals
      match summarize v m qs vals with
      | .error e => some (showErr e)
      | .ok (.meanStd mu var sem2) => some s!"ok mean={showRat mu} var={showRat var} sem2={showRat sem2}"
      | .ok (.quantiles l) => some s!"ok q={showList showRat l}"
      | .ok (.all l) => some s!"ok all={showList showRat l}"
  | _ => none

/-! host-state model -/
abbrev RG := Nat × Int × GState

def envG : GEnv K RG := ⟨fun c s g => (c, s, g), fun _ s _ => .host (1000 + s.natAbs), fun _ => .host 999⟩

def showG : GState → String
  | .seeded s => s!"S{s}"
  | .host _ => "H"

def showSimG (s : Sim K RG) : String :=
  match s.results with
  | some r => s!"{s.cfg}:{s.seed}:{r.2.1}:{showG r.2.2}"
  | none => s!"{s.cfg}:{s.seed}:-:-"

def parseMemberG (s : String) : Option (Sim K RG) :=
  match s.splitOn ":" with
  | [c, sd, ini, ran] => do
      let c ← c.toNat?
      let sd ← sd.toInt?
      let ini ← parseOptInt? ini
      let ran ← parseBool? ran
      some { cfg := c, seed := sd, initSeed := ini, results := if ran then some (c, ini.getD sd, .host 0) else none }
  | _ => none

def tasksG (ms : List (Sim K RG)) (reseed doRun : Bool) : List (Task K RG) :=
  (List.range ms.length).zip ms |>.map fun (i, s) => { sim := s, ind := i, reseed := reseed, seedArg := none, cfgArg := none, doRun := doRun }

def showOutG (r : Except Err (List (Sim K RG))) : String :=
  match r with
  | .error e => showErr e
  | .ok l => "ok " ++ (if l.isEmpty then "-" else ",".intercalate (l.map showSimG))

def doGRun (ws : List String) : Option String :=
  match ws with
  | [members, reseed, dorun, share, sched, w0] => do
      let ms ← (if members = "-" then some [] else (members.splitOn ",").mapM parseMemberG)
      let reseed ← parseBool? reseed
      let dorun ← parseBool? dorun
      let share : Nat → Nat ← (if share = "private" then some sharePrivate else
        match share.splitOn ":" with
        | ["chunk", c] => do some (shareChunk (← c.toNat?))
        | _ => none)
      let sched ← parseSched sched
      let w0 ← parseNatList? w0
      some (showOutG (execParG envG (tasksG ms reseed dorun) share sched (fun w => .host (w0.getD w 0))))
  | _ => none

def doGSerial (ws : List String) : Option String :=
  match ws with
  | [members, reseed, dorun, g0] => do
      let ms ← (if members = "-" then some [] else (members.splitOn ",").mapM parseMemberG)
      let reseed ← parseBool? reseed
      let dorun ← parseBool? dorun
      let g0 ← g0.toNat?
      some (showOutG ((execSerialG envG (tasksG ms reseed dorun) (.host g0)).map Prod.fst))
  | _ => none

def parseHow (s : String) : Option How :=
  if s = "default" then some .default else if s = "mean" then some (.all .mean)
  else if s = "median" then some (.all .median) else if s = "last" then some (.all .last) else none

def doMSummarize (ws : List String) : Option String :=
  match ws with
  | [v, m, qs, how, key, rows] => do
      let v ← parseVariant v
      let m : SumMethod ← (if m = "mean" then some .mean else if m = "median" then some .median
                            else if m = "all" then some .all else none)
      let qs ← parseRatList? qs
      let how ← parseHow how
      let members ← parseRows rows
      match msimSummarize v m qs how key members with
      | .error e => some (showErr e)
      | .ok (.meanStd mu var sem2) => some s!"ok mean={showRat mu} var={showRat var} sem2={showRat sem2}"
      | .ok (.quantiles l) => some s!"ok q={showList showRat l}"
      | .ok (.all l) => some s!"ok all={showList showRat l}"
  | _ => none

def stepLine (u : Unit) (line : String) : Unit × String :=
  let r := match words line with
    | "run" :: ws => doRun ws
    | ["chunk", n, w] => do some s!"ok {poolChunk (← n.toNat?) (← w.toNat?)}"
    | "reduce" :: ws => doReduce ws
    | ["reduceargs", b, q] => do
        let b ← parseOptRat? b
        let q ← parseOptRatPair? q
        some s!"ok {showRat (Gen.boundsArg b)} {showRat (Gen.quantilesArg q).1} {showRat (Gen.quantilesArg q).2}"
    | "summarize" :: ws => doSummarize ws
    | "grun" :: ws => doGRun ws
    | "gserial" :: ws => doGSerial ws
    | "msummarize" :: ws => doMSummarize ws
    | ["summary", how, key, series] => do
        let how ← parseHow how
        let l ← parseRatList? series
        some s!"ok {showRat (simSummary how key l)}"
    | ["rsummary", um, bounds, quant, key, rows] => do
        let um ← parseBool? um
        let bounds ← parseOptRat? bounds
        let quant ← parseOptRatPair? quant
        let members ← parseRows rows
        some s!"ok {showRat (reducedSummary id um (Gen.boundsArg bounds) (Gen.quantilesArg quant).1 (Gen.quantilesArg quant).2 key members)}"
    | _ => none
  (u, r.getD "bad-op")

def main : IO Unit := mainLoop stepLine ()
