import StarsimModel.Model.MultiRun
import StarsimModel.Model.Proto
open StarsimModel StarsimModel.MultiRun StarsimModel.Proto

/-
Line protocol of the C18 driver.  Configurations are identified by a natural number; the "results" of
running configuration `c` alone with seed `s` are the pair `(c, s)` (the harness runs the real thing).

  run <spec|asis> <msim|parallel|initrun> <single|list> <members> <nruns> <reseed> <iseeds> <icfgs> <simseed> <simcfg> <dorun> <mode> <inplace> <chunk> <ident> <sched>
      api     : msim = MultiSim(...).run() / multi_run; parallel = ss.parallel(*members); initrun = MultiSim(..., initialize=True).run()
      members : `cfg:seed:init:ran` joined by `,`   (init = `none` or the seed at `sim.init()`; ran = 0/1)
      reseed  : none | 0 | 1        iseeds : none | comma list of ints (`-` = empty)     icfgs : likewise (naturals)
      ident   : `-` (all list entries distinct objects) or per entry the index of the first entry that is the same object
      mode    : parallel | serial | debug         sched : `worker:task` joined by `,` or `-`
   -> ok callers=<sims> sims=<sims>     with a sim shown as cfg:seed:eff:init  (eff = seed the results were run with, `-` = not run; init = initialised 0/1)
      or E:AlreadyRun | E:KeyNotFound | E:Type | E:Value
  chunk <n> <workers>                           -> ok <poolChunk>
  reduceargs <bounds|none> <qlo,qhi|none>        -> ok <k> <qlo> <qhi>   (the values reduce() uses)
  reduce <spec|asis> <npts> <usemean> <bounds|none> <qlo,qhi|none> <members>    members: rows of rationals joined by `;`
   -> ok <centre,low,high,var>;...   per time point, with sqrt := id (so low/high of the mean branch are mean ∓ k·variance)
  summarize <spec|asis> <mean|median|all> <qs> <vals>
-/

abbrev K := Nat
abbrev R := Nat × Int

def simulateId (c : K) (s : Int) : R := (c, s)

def showErr : Err → String
  | .alreadyRun => "E:AlreadyRun" | .keyNotFound => "E:KeyNotFound" | .typeErr => "E:Type" | .valueErr => "E:Value"

def showSim (s : Sim K R) : String :=
  let eff := match s.results with
    | some r => toString r.2
    | none => "-"
  s!"{s.cfg}:{s.seed}:{eff}:{if s.initSeed.isSome then 1 else 0}"

def showSims (l : List (Sim K R)) : String := if l.isEmpty then "-" else ",".intercalate (l.map showSim)

def parseMember (s : String) : Option (Sim K R) :=
  match s.splitOn ":" with
  | [c, sd, ini, ran] => do
      let c ← c.toNat?
      let sd ← sd.toInt?
      let ini ← parseOptInt? ini
      let ran ← parseBool? ran
      some { cfg := c, seed := sd, initSeed := ini, results := if ran then some (c, ini.getD sd) else none }
  | _ => none

def parseMembers (s : String) : Option (List (Sim K R)) :=
  if s = "-" then some [] else (s.splitOn ",").mapM parseMember

def parseOptBool? (s : String) : Option (Option Bool) :=
  if s = "none" then some none else (parseBool? s).map some

def parseOptIntList? (s : String) : Option (Option (List Int)) :=
  if s = "none" then some none else (parseIntList? s).map some

def parseOptNatList? (s : String) : Option (Option (List Nat)) :=
  if s = "none" then some none else (parseNatList? s).map some

def parseVariant (s : String) : Option Variant :=
  if s = "spec" then some .spec else if s = "asis" then some .asis else none

def parseMode (s : String) : Option Mode :=
  if s = "parallel" then some .parallel else if s = "serial" then some .serial
  else if s = "debug" then some .debug else none

def parseEvent (s : String) : Option (Nat × Nat) :=
  match s.splitOn ":" with
  | [w, i] => do some ((← w.toNat?), (← i.toNat?))
  | _ => none

def parseSched (s : String) : Option (List (Nat × Nat)) :=
  if s = "-" then some [] else (s.splitOn ",").mapM parseEvent

def parseRows (s : String) : Option (List (List Rat)) :=
  if s = "-" then some [] else (s.splitOn ";").mapM parseRatList?

def parseOptNat'? (s : String) : Option (Option Nat) :=
  if s = "none" then some none else (s.toNat?).map some

def parseOptRat? (s : String) : Option (Option Rat) :=
  if s = "none" then some none else (parseRat? s).map some

def parseOptRatPair? (s : String) : Option (Option (Rat × Rat)) :=
  if s = "none" then some none else
    match s.splitOn "," with
    | [a, b] => do some (some ((← parseRat? a), (← parseRat? b)))
    | _ => none

def doRun (ws : List String) : Option String :=
  match ws with
  | [v, api, tg, members, nruns, reseed, iseeds, icfgs, simseed, simcfg, dorun, mode, inplace, chunk, ident, sched] => do
      let v ← parseVariant v
      let ms ← parseMembers members
      let target : Target K R ← (if tg = "single" then (match ms with | [s] => some (.single s) | _ => none)
                                  else if tg = "list" then some (.list ms) else none)
      let a : Args K := { nRuns := ← nruns.toNat?, reseed := ← parseOptBool? reseed, iterSeeds := ← parseOptIntList? iseeds,
                          iterCfgs := ← parseOptNatList? icfgs, simSeed := ← parseOptInt? simseed,
                          simCfg := ← parseOptNat'? simcfg, doRun := ← parseBool? dorun,
                          ident := ← (if ident = "-" then some id else do
                            let l ← parseNatList? ident
                            some (fun i => l.getD i i)) }
      let mode ← parseMode mode
      let inplace ← parseBool? inplace
      let chunk ← chunk.toNat?
      let sched ← parseSched sched
      let res ← (if api = "msim" then some (msimRun simulateId v target a mode inplace chunk sched)
        else if api = "parallel" then some (parallelCall simulateId v ms a mode inplace chunk sched)
        else if api = "initrun" then
          let n := match target with
            | .single _ => (match nRunsOf a with | .ok n => n | .error _ => 0)
            | .list l => l.length
          some (msimInitRun simulateId v target a mode inplace chunk ((List.range n).map fun i => (0, i)) sched)
        else none)
      match res with
      | .error e => some (showErr e)
      | .ok o => some s!"ok callers={showSims o.callers} sims={showSims o.sims}"
  | _ => none

def showBand (b : Band) (var : Rat) : String :=
  s!"{showRat b.centre},{showRat b.low},{showRat b.high},{showRat var}"

def doReduce (ws : List String) : Option String :=
  match ws with
  | [v, npts, um, bounds, quant, rows] => do
      let v ← parseVariant v
      let npts ← npts.toNat?
      let um ← parseBool? um
      let bounds ← parseOptRat? bounds
      let quant ← parseOptRatPair? quant
      let members ← parseRows rows
      match reduceCall v npts id um bounds quant members with
      | .error e => some (showErr e)
      | .ok bands =>
      let vars := match members with
        | [] => []
        | m :: _ => (List.range m.length).map fun t => variance 0 (rowAt members t)
      some ("ok " ++ (if bands.isEmpty then "-" else ";".intercalate ((bands.zip vars).map fun (b, v) => showBand b v)))
  | _ => none

def doSummarize (ws : List String) : Option String :=
  match ws with
  | [v, m, qs, vals] => do
      let v ← parseVariant v
      let m : SumMethod ← (if m = "mean" then some .mean else if m = "median" then some .median
                            else if m = "all" then some .all else none)
      let qs ← parseRatList? qs
      let vals ← parseRatList? vals
      match summarize v m qs vals with
      | .error e => some (showErr e)
      | .ok (.meanStd mu var sem2) => some s!"ok mean={showRat mu} var={showRat var} sem2={showRat sem2}"
      | .ok (.quantiles l) => some s!"ok q={showList showRat l}"
      | .ok (.all l) => some s!"ok all={showList showRat l}"
  | _ => none

def stepLine (u : Unit) (line : String) : Unit × String :=
  let r := match words line with
    | "run" :: ws => doRun ws
    | ["chunk", n, w] => do some s!"ok {poolChunk (← n.toNat?) (← w.toNat?)}"
    | "reduce" :: ws => doReduce ws
    | ["reduceargs", b, q] => do
        let b ← parseOptRat? b
        let q ← parseOptRatPair? q
        some s!"ok {showRat (Gen.boundsArg b)} {showRat (Gen.quantilesArg q).1} {showRat (Gen.quantilesArg q).2}"
    | "summarize" :: ws => doSummarize ws
    | _ => none
  (u, r.getD "bad-op")

def main : IO Unit := mainLoop stepLine ()
