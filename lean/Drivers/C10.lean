import StarsimModel.Model.People
import StarsimModel.Model.Proto
open StarsimModel StarsimModel.Arr StarsimModel.People StarsimModel.Proto

/-! Line-protocol driver for C10 (Model/People.lean).  One canonical output line per input line. -/

def showVal : Val → String
  | .num r => showRat r
  | .bool b => if b then "T" else "F"
  | .nan => "nan"
  | .undef => "_"

def showVals (l : List Val) : String := showList showVal l
def showNats (l : List Nat) : String := showList toString l

def showErr : Err → String
  | .index => "E:Index" | .value => "E:Value" | .ambiguous => "E:Ambiguous" | .boolOp => "E:BoolOp"

def parseVal? (s : String) : Option Val :=
  if s = "T" then some (.bool true) else if s = "F" then some (.bool false)
  else if s = "nan" then some .nan else if s = "_" then some .undef
  else (parseRat? s).map .num

def parseValList? (s : String) : Option (List Val) :=
  if s = "-" then some [] else (s.splitOn ",").mapM parseVal?

def lens (a : Arr) : String := s!"{a.lenUsed}:{a.lenTot}"

def showPairs (l : List (Int × Nat)) : String := showList (fun p => s!"{p.1}:{p.2}") l

def showPeople (p : People) : String :=
  s!"n={p.n} ti={p.ti} au={showNats p.auids} uid={lens p.uid}:{showVals p.uid.raw} slot={lens p.slot}:{showVals p.slot.raw} parent={lens p.parent}:{showVals p.parent.raw} alive={lens p.alive}:{showVals p.alive.raw} tidead={lens p.tiDead}:{showVals p.tiDead.raw} states={showList lens p.states} nalive={showPairs p.nAlive} newdeaths={showPairs p.newDeaths}"

def genericState : Arr := fresh .float .nan .unset

def apply (st : Option People) (r : Except Err People) (extra : String := "") : Option People × String :=
  match r with
  | .ok p => (some p, "ok " ++ extra ++ showPeople p)
  | .error e => (st, showErr e)

def stepLine (st : Option People) (line : String) : Option People × String :=
  match words line, st with
  | ["init", n, m], _ =>
      match parseNat? n, parseNat? m with
      | some n, some m => apply st (init n (List.replicate m genericState))
      | _, _ => (st, "bad-op")
  | ["grow", k], some p =>
      match parseNat? k with
      | some k => apply st (growPeople p k none)
      | none => (st, "bad-op")
  | ["grow", k, slots], some p =>
      match parseNat? k, parseNatList? slots with
      | some k, some s => apply st (growPeople p k (some s))
      | _, _ => (st, "bad-op")
  | ["request", us], some p =>
      match parseNatList? us with
      | some us => apply st (requestDeath p us)
      | none => (st, "bad-op")
  | ["stepdie"], some p => apply st (stepDie p) s!"died={showNats (deathUids p)} "
  | ["results"], some p => apply st (.ok (updateResults p))
  | ["removedead"], some p => apply st (removeDead p)
  | ["finish"], some p => apply st (finishStep p)
  | ["register"], some p => apply st (registerState p genericState)
  | ["state"], some p => (st, "ok " ++ showPeople p)
  | ["age", dt, ages], some p =>
      -- `People.update_post()`: `age[alive.uids] += dt` on the observed age storage
      match parseRat? dt, parseValList? ages with
      | some dt, some raw =>
          let ageArr : Arr := { raw := raw, lenUsed := p.n, lenTot := raw.length, nan := Val.nan, default := Default.unset, kind := Kind.float }
          match agePost p.auids p.alive ageArr dt with
          | .ok a' => (st, "ok age=" ++ showVals a'.raw)
          | .error e => (st, showErr e)
      | _, _ => (st, "bad-op")
  | ["load", n, ti, au, alive, tidead, m], _ =>
      -- adopt an observed population (used when a generated sim has already grown during initialisation)
      match parseNat? n, parseInt? ti, parseNatList? au, parseValList? alive, parseValList? tidead, parseNat? m with
      | some n, some ti, some au, some al, some td, some m =>
          let tot := al.length
          let ids : List Val := (List.range tot).map (fun (i : Nat) => if i < n then Val.num (i : Rat) else Val.num (-1))
          let mk (k : Kind) (nv : Val) (d : Default) (raw : List Val) : Arr :=
            { raw := raw, lenUsed := n, lenTot := tot, nan := nv, default := d, kind := k }
          let neg : Val := Val.num (-1)
          let uidA := mk Kind.index neg Default.unset ids
          let parA := mk Kind.index neg Default.unset (List.replicate tot neg)
          let alA := mk Kind.bool (Val.bool false) (Default.const (Val.bool true)) al
          let tdA := mk Kind.float Val.nan Default.unset td
          let stA := mk Kind.float Val.nan Default.unset (List.replicate tot Val.nan)
          let p : People := { uid := uidA, slot := uidA, parent := parA, auids := au, alive := alA, tiDead := tdA,
                              states := List.replicate m stA, ti := ti, nAlive := [], newDeaths := [] }
          if td.length = tot then (some p, "ok " ++ showPeople p) else (st, "bad-op")
      | _, _, _, _, _, _ => (st, "bad-op")
  | ["finalize", sc], some p =>
      -- `Sim.finalize`: the recorded series expressed in people (x pop_scale), as the code's mode / dtypes make them
      match parseRat? sc with
      | some sc =>
          let showS : List (Int × Rat) → String := showList (fun e => s!"{e.1}:{showRat e.2}")
          (st, s!"ok nalive={showS (finalizeSeries "n_alive" sc p.nAlive)} newdeaths={showS (finalizeSeries "new_deaths" sc p.newDeaths)}")
      | none => (st, "bad-op")
  | ["plan", bits], _ =>
      -- the rows of the regenerated loop plan scheduled in a sim whose module set gives the distinct non-empty guards
      -- (in order of first occurrence) the truth values `bits`; the population operations one pass issues
      match parseNatList? bits with
      | some bs =>
          let guards := ((Gen.planRows.map (fun r => r.2.2)).filter (fun s => s ≠ "")).eraseDups
          let g : String → Bool := fun s => (bs.getD (guards.idxOf s) 0) == 1
          let rows := scheduled g Gen.planRows
          let showRow : PlanRow → String := fun r => r.1 ++ "/" ++ r.2.1
          let opName : Op → String := fun o => match o with
            | .stepDie => "stepdie" | .updateResults => "results" | .finishStep => "finish" | .removeDead => "removedead"
            | .grow _ _ => "grow" | .requestDeath _ => "request"
          (st, s!"ok guards={guards.length} rows={showList showRow rows} ops={showList opName (planOps (fun _ _ => []) rows)} pre={showList showRow (preRows rows)} post={showList showRow (postRows rows)}")
      | none => (st, "bad-op")
  | _, _ => (st, "bad-op")

def main : IO Unit := mainLoop stepLine none
