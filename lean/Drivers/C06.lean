import StarsimModel.Model.TimePar
import StarsimModel.Model.Proto
open StarsimModel StarsimModel.TimePar StarsimModel.Proto

/-! Line-protocol driver for Model/TimePar.lean.
    `<mode> <op> <args…>` with mode `Q` (exact rationals; dur/rate only) or `F` (IEEE doubles; every kind).
    Tokens: `~` = None; units are raw strings; numbers `p/q`; values `s:<num>` / `a:<num>,<num>` / `a:-`.
    Output: `<outcome>|<state of the current object>|<result>`; doubles are printed as `b<bits>`. -/

def showErr : Err → String
  | .value => "E:Value" | .key => "E:Key" | .zeroDiv => "E:ZeroDiv" | .attr => "E:Attr" | .type => "E:Type"

def showUnit : UnitT → String
  | none => "~" | some s => s
def showORat : Option Rat → String
  | none => "~" | some q => showRat q
def showKind : Kind → String
  | .dur => "dur" | .rate => "rate" | .timeProb => "time_prob" | .rateProb => "rate_prob" | .beta => "beta"
def parseKind? : String → Option Kind
  | "dur" => some .dur | "rate" => some .rate | "time_prob" => some .timeProb | "rate_prob" => some .rateProb
  | "beta" => some .beta | _ => none
def parseUnit (s : String) : UnitT := if s = "~" then none else some s
def parseORat? (s : String) : Option (Option Rat) := if s = "~" then some none else (parseRat? s).map some

def showVal {α} (sh : α → String) : Val α → String
  | .scalar a => "s:" ++ sh a
  | .array l => "a:" ++ showList sh l
def showOVal {α} (sh : α → String) : Option (Val α) → String
  | none => "~" | some v => showVal sh v

def parseVal? {α} (o : NumOps α) (s : String) : Option (Val α) :=
  if s.startsWith "s:" then (parseRat? (s.drop 2).toString).map (fun q => .scalar (o.ofRat q))
  else if s.startsWith "a:" then (parseRatList? (s.drop 2).toString).map (fun l => .array (l.map o.ofRat))
  else none
def parseOVal? {α} (o : NumOps α) (s : String) : Option (Option (Val α)) :=
  if s = "~" then some none else (parseVal? o s).map some

def showTP {α} (sh : α → String) (t : TP α) : String :=
  s!"{showKind t.kind} {showUnit t.unit} {showUnit t.parentUnit} {showORat t.parentDt} {showORat t.selfDt} {showORat t.factor} {showBool t.initialized} {showVal sh t.v} {showOVal sh t.values}"

structure Sess (α : Type) where
  cur : Option (TP α)
  last : Option (TP α)

def showRes : Res → String
  | .ok () => "ok" | .error e => showErr e

def out {α} (sh : α → String) (r : String) (s : Sess α) (extra : String) : String :=
  r ++ "|" ++ (match s.cur with | none => "-" | some t => showTP sh t) ++ "|" ++ extra

/-- an op that mutates the current object -/
def mutate {α} (sh : α → String) (s : Sess α) (f : TP α → TP α × Res) : Sess α × String :=
  match s.cur with
  | none => (s, "no-object")
  | some t => let (t', r) := f t; let s' := { s with cur := some t' }; (s', out sh (showRes r) s' "-")

/-- an op that returns a new object -/
def produce {α} (sh : α → String) (s : Sess α) (f : TP α → Except Err (TP α)) : Sess α × String :=
  match s.cur with
  | none => (s, "no-object")
  | some t =>
    match f t with
    | .ok n => let s' := { s with last := some n }; (s', out sh "ok" s' ("tp " ++ showTP sh n))
    | .error e => let s' := { s with last := none }; (s', out sh (showErr e) s' "-")

/-- an op that returns plain numbers -/
def compute {α} (sh : α → String) (s : Sess α) (f : TP α → Except Err (Val α)) : Sess α × String :=
  match s.cur with
  | none => (s, "no-object")
  | some t =>
    match f t with
    | .ok v => (s, out sh "ok" s ("val " ++ showVal sh v))
    | .error e => (s, out sh (showErr e) s "-")

def opt {β} (x : Option β) (k : β → Sess α × String) (s : Sess α) : Sess α × String :=
  match x with | some b => k b | none => (s, "bad-op")

def stepSess {α} (o : NumOps α) (sh : α → String) (allow : Kind → Bool) (s : Sess α) (ws : List String) : Sess α × String :=
  match ws with
  | ["new", k, v, u, pu, pdt, sdt] =>
      opt (parseKind? k) (fun k => opt (parseVal? o v) (fun v => opt (parseORat? pdt) (fun pdt => opt (parseORat? sdt) (fun sdt =>
        if ¬ allow k then (s, "bad-op") else
        match mk k v (parseUnit u) (parseUnit pu) pdt sdt with
        | .ok t => let s' : Sess α := { cur := some t, last := none }; (s', out sh "ok" s' "-")
        | .error e => let s' : Sess α := { cur := none, last := none }; (s', out sh (showErr e) s' "-")) s) s) s) s
  | ["load", k, u, pu, pdt, sdt, fac, ini, v, vals] =>
      -- re-synchronise the model to an observed implementation state (not an API call)
      opt (parseKind? k) (fun k => opt (parseVal? o v) (fun v => opt (parseOVal? o vals) (fun vals => opt (parseORat? pdt) (fun pdt =>
        opt (parseORat? sdt) (fun sdt => opt (parseORat? fac) (fun fac => opt (parseBool? ini) (fun ini =>
        if ¬ allow k then (s, "bad-op") else
        let t : TP α := { kind := k, v := v, unit := parseUnit u, parentUnit := parseUnit pu, parentDt := pdt, selfDt := sdt,
                          factor := fac, values := vals, initialized := ini }
        let s' : Sess α := { cur := some t, last := none }; (s', out sh "ok" s' "-")) s) s) s) s) s) s) s
  | ["init", vp, pu, pdt, ex, uv, die] =>
      opt (parseBool? vp) (fun vp => opt (parseORat? pdt) (fun pdt => opt (parseORat? ex) (fun ex => opt (parseBool? uv) (fun uv =>
        opt (parseBool? die) (fun die => mutate sh s (fun t => init o t vp (parseUnit pu) pdt ex uv die)) s) s) s) s) s
  | ["set", v, u, pu, pdt, sdt, force] =>
      opt (parseOVal? o v) (fun v => opt (parseORat? pdt) (fun pdt => opt (parseORat? sdt) (fun sdt => opt (parseBool? force) (fun force =>
        mutate sh s (fun t => setPars o t v (parseUnit u) (parseUnit pu) pdt sdt force)) s) s) s) s
  | ["to", u, dt] => opt (parseORat? dt) (fun dt => produce sh s (fun t => convertTo o t (parseUnit u) dt)) s
  | ["toparent"] => produce sh s (fun t => toParent o t)
  | ["mul", c] => opt (parseRat? c) (fun c => produce sh s (fun t => mulC o t (o.ofRat c))) s
  | ["rmul", c] => opt (parseRat? c) (fun c => produce sh s (fun t => rmulC o t (o.ofRat c))) s
  | ["div", c] => opt (parseRat? c) (fun c => produce sh s (fun t => divC o t (o.ofRat c))) s
  | ["neg"] => produce sh s (fun t => negT o t)
  | ["add", c] => opt (parseRat? c) (fun c => compute sh s (fun t => addC o t (o.ofRat c))) s
  | ["sub", c] => opt (parseRat? c) (fun c => compute sh s (fun t => subC o t (o.ofRat c))) s
  | ["rsub", c] => opt (parseRat? c) (fun c => compute sh s (fun t => rsubC o t (o.ofRat c))) s
  | ["rdiv", c] => opt (parseRat? c) (fun c => compute sh s (fun t => rdivC o t (o.ofRat c))) s
  | ["pow", n] => opt (parseNat? n) (fun n => compute sh s (fun t => powN o t n)) s
  | ["powr", c] => opt (parseRat? c) (fun c => if allow .timeProb then compute sh s (fun t => powC o t (o.ofRat c)) else (s, "bad-op")) s
  | ["rpowr", c] => opt (parseRat? c) (fun c => if allow .timeProb then compute sh s (fun t => rpowC o t (o.ofRat c)) else (s, "bad-op")) s
  | ["draws", l] => opt (parseRatList? l) (fun l => mutate sh s (fun t => scaleDraws o t (l.map o.ofRat))) s
  | ["idraws", l] => opt (parseIntList? l) (fun l => mutate sh s (fun t => postprocess o t (.ints l))) s
  | ["param", v] => opt (parseVal? o v) (fun v => mutate sh s (fun t => convertParam o t v)) s
  | ["iadd", c] => opt (parseRat? c) (fun c => mutate sh s (fun t => isetV o t (fun x => o.add x (o.ofRat c)))) s
  | ["isub", c] => opt (parseRat? c) (fun c => mutate sh s (fun t => isetV o t (fun x => o.sub x (o.ofRat c)))) s
  | ["imul", c] => opt (parseRat? c) (fun c => mutate sh s (fun t => isetV o t (fun x => o.mul x (o.ofRat c)))) s
  | ["idiv", c] => opt (parseRat? c) (fun c =>
      if o.beq (o.ofRat c) o.zero then (s, "bad-op") else mutate sh s (fun t => isetV o t (fun x => o.div x (o.ofRat c)))) s
  | ["adopt"] => match s.last with
      | some n => let s' : Sess α := { cur := some n, last := none }; (s', out sh "ok" s' "-")
      | none => (s, "no-object")
  | _ => (s, "bad-op")

structure St where
  q : Sess Rat
  f : Sess Float
  a : Store Float × ARef

def showFloat (x : Float) : String := "b" ++ toString x.toBits.toNat

/-- `A` lines: array identity (Model/TimePar.lean `Store`/`ARef`/`AOp`), IEEE doubles.
    Output: `ok|<vId> <valuesId>|<contents of v>|<contents of values>` -/
def showA (x : Store Float × ARef) : String :=
  let vals := match x.2.valuesId with | none => "~" | some j => showVal showFloat (.array (readBuf x.1 j))
  s!"ok|{x.2.vId} {match x.2.valuesId with | none => "~" | some j => toString j}|{showVal showFloat (.array (readBuf x.1 x.2.vId))}|{vals}"

def parseFloats? (s : String) : Option (List Float) :=
  if s.startsWith "a:" then (parseRatList? (s.drop 2).toString).map (fun l => l.map floatOps.ofRat) else none

def stepA (x : Store Float × ARef) (ws : List String) : Option (Store Float × ARef) :=
  let conv (k : Kind) (f : Rat) : Float → Float := convElem floatOps k (floatOps.ofRat f)
  match ws with
  | ["new", l] => (parseFloats? l).map newArr
  | ["sync", v, vals] =>
      -- re-synchronise the CONTENTS of the current object's arrays to the observed ones (not an API call; identities are kept)
      (parseFloats? v).bind fun v => (parseFloats? vals).map fun vals =>
        let s1 := x.1.set x.2.vId v
        (match x.2.valuesId with | some j => if j = x.2.vId then s1 else s1.set j vals | none => s1, x.2)
  | ["upd", k, f] => (parseKind? k).bind fun k => (parseRat? f).map fun f => AOp.step x.1 x.2 (.upd (conv k f))
  | ["setv", k, f, l] => (parseKind? k).bind fun k => (parseRat? f).bind fun f => (parseFloats? l).map fun l => AOp.step x.1 x.2 (.setV l (conv k f))
  | ["conv", k, f] => (parseKind? k).bind fun k => (parseRat? f).map fun f => AOp.step x.1 x.2 (.conv (conv k f))
  | ["arith", k, f, c] => (parseKind? k).bind fun k => (parseRat? f).bind fun f => (parseRat? c).map fun c =>
      AOp.step x.1 x.2 (.arith (fun t => floatOps.mul t (floatOps.ofRat c)) (conv k f))
  | _ => none

def stepLine (st : St) (line : String) : St × String :=
  match words line with
  | ["Q", "ratio", u1, d1, u2, d2] =>
      match parseORat? d1, parseORat? d2 with
      | some d1, some d2 =>
        (st, match timeRatio (parseUnit u1) d1 (parseUnit u2) d2 with | .ok r => "ok " ++ showRat r | .error e => showErr e)
      | _, _ => (st, "bad-op")
  | ["Q", "ratioint", u1, d1, u2, d2] =>
      match parseORat? d1, parseORat? d2 with
      | some d1, some d2 =>
        (st, match timeRatioInt (parseUnit u1) d1 (parseUnit u2) d2 with | .ok r => "ok " ++ toString r | .error e => showErr e)
      | _, _ => (st, "bad-op")
  | ["Q", "norm", u] => (st, match canonUnit (parseUnit u) with | .ok r => "ok " ++ showUnit r | .error e => showErr e)
  | "Q" :: ws => let (q, o) := stepSess ratOps showRat (fun k => k = .dur ∨ k = .rate) st.q ws; ({ st with q := q }, o)
  | "F" :: ws => let (f, o) := stepSess floatOps showFloat (fun _ => true) st.f ws; ({ st with f := f }, o)
  | "A" :: ws => match stepA st.a ws with
      | some a => ({ st with a := a }, showA a)
      | none => (st, "bad-op")
  | _ => (st, "bad-op")

def main : IO Unit := mainLoop stepLine { q := ⟨none, none⟩, f := ⟨none, none⟩, a := ([], { vId := 0, valuesId := none }) }
