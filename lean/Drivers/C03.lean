import StarsimModel.Model.Slots
import StarsimModel.Model.History
import StarsimModel.Model.Link
import StarsimModel.Generated.DistLink
import StarsimModel.Model.Proto
open StarsimModel StarsimModel.Slots StarsimModel.Proto

def showOptNat : Option Nat → String
  | some n => toString n
  | none => "x"

def showP (p : Hist.P) : String := s!"{p.1}:{showList toString p.2}"

/-- `c<n>` call of size n, `r<k>` reset(k), `j<t>` jump(to=t) -/
def parseHistOp? (t : String) : Option Hist.Op :=
  match t.toList with
  | 'c' :: r => (String.ofList r).toNat?.map Hist.Op.call
  | 'r' :: r => (String.ofList r).toNat?.map Hist.Op.reset
  | 'j' :: r => (String.ofList r).toNat?.map Hist.Op.jump
  | _ => none

def stepLine (_ : Unit) (line : String) : Unit × String :=
  match words line with
  | ["rvs", sl] =>
      match parseNatList? sl with
      | some slots => ((), s!"size={reqSize slots} idx={showList showOptNat (rvsCode id slots)}")
      | none => ((), "bad-op")
  | ["filter", uids, sl, us, ps] =>
      match parseNatList? uids, parseNatList? sl, parseRatList? us, parseRatList? ps with
      | some uids, some slots, some us, some ps =>
          if uids.length ≠ slots.length ∨ uids.length ≠ ps.length then ((), "bad-op") else
          let u : Nat → Rat := fun i => us.getD i (-1)
          let req := List.zip uids (List.zip slots ps)
          if us.length < reqSize slots then ((), "bad-op")
          else ((), s!"sel={showList toString (filterCode u req)}")
      | _, _, _, _ => ((), "bad-op")
  | ["hist", ops] =>
      match (ops.splitOn ",").mapM parseHistOp? with
      | some ops =>
          let d := Hist.run Hist.advP Hist.jumpedP (Hist.init (0, [])) ops
          ((), s!"len={d.hist.length} cur={showP d.cur} hist={String.intercalate ";" (d.hist.map showP)}")
      | none => ((), "bad-op")
  | ["link", ops] =>
      -- `i` = Dist.init, `s` = anything that leaves the references alone; on the REGENERATED statement list of Dist.init
      match (ops.toList.mapM (fun c => if c == 'i' then some Link.Op.init else if c == 's' then some Link.Op.sample else none)) with
      | some ops =>
          let d := Link.run Gen.distInitProg Link.fresh ops
          ((), s!"linked={decide (d.link = d.rng)} made={d.made} rng={d.rng}")
      | none => ((), "bad-op")
  | ["combine", as, bs] =>
      match parseNatList? as, parseNatList? bs with
      | some as, some bs =>
          if as.length ≠ bs.length then ((), "bad-op")
          else ((), s!"out={showList toString (List.zipWith combineBits as bs)}")
      | _, _ => ((), "bad-op")
  | _ => ((), "bad-op")

def main : IO Unit := mainLoop stepLine ()
