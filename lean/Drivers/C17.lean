import StarsimModel.Model.Pars
import StarsimModel.Model.ParsDeep
import StarsimModel.Model.ParsRefs
import StarsimModel.Generated.ParsRefs
import StarsimModel.Model.ParsSim
import StarsimModel.Generated.ParsSimLevel
import StarsimModel.Model.ParsTime
import StarsimModel.Generated.ParsTimePar
import StarsimModel.Model.ParsModTime
import StarsimModel.Generated.ParsModTime
import StarsimModel.Model.Proto
open StarsimModel StarsimModel.Pars StarsimModel.Proto StarsimModel.ParsRefs StarsimModel.ParsSim

/-! Line-protocol driver for C17 (Model/Pars.lean).  One operation per line, one canonical line out. -/

def showP0 : Par0 → String
  | .plain => "plain" | .dur => "dur" | .nondur => "nondur"

def showO : OKind → String
  | .num => "num" | .str => "str" | .list => "list" | .array => "array" | .series => "series"
  | .dataframe => "dataframe" | .nil => "nil" | .pars => "pars" | .ndictEmpty => "ndictEmpty"
  | .ndictFull => "ndictFull" | .module => "module"
  | .timepar d => if d then "timeparD" else "timeparN"
  | .beta => "beta"
  | .dist b p => (if b then "bern_" else "dist_") ++ showP0 p
  | .callable => "callable" | .dict => "dict" | .other => "other"

def showN : NKind → String
  | .number => "number" | .list => "list" | .listLong => "listLong" | .dictNoType => "dictNoType"
  | .dictNoTypeBad => "dictNoTypeBad"
  | .dictType b => if b then "dictTypeBern" else "dictTypeDist"
  | .dictTypeBad => "dictTypeBad"
  | .dist b => if b then "bern" else "dist"
  | .timepar d => if d then "timeparD" else "timeparN"
  | .series => "series" | .dataframe => "dataframe" | .func => "func" | .nil => "nil" | .str => "str"
  | .cls => "cls" | .array => "array"

def parseO? (s : String) : Option OKind := OKind.all.find? (fun o => showO o == s)
def parseN? (s : String) : Option NKind := NKind.all.find? (fun n => showN n == s)

def allCls : List (String × Cls) :=
  [("str", .str), ("number", .number), ("list", .list), ("ndarray", .ndarray), ("series", .series),
   ("dataframe", .dataframe), ("noneType", .noneType), ("pars", .pars), ("ndict", .ndict), ("module", .module),
   ("timePar", .timePar), ("dist", .dist), ("dict", .dict), ("beta", .beta), ("bernoulli", .bernoulli), ("dur", .dur)]

def parseCls? (s : String) : Option Cls := (allCls.find? (fun p => p.1 == s)).map (·.2)

def showErr : Err → String
  | .type => "E:Type" | .value => "E:Value" | .keyNotFound => "E:KeyNotFound" | .other => "E:Other"

def showAction : Action → String
  | .set => "set" | .recurse => "recurse" | .oldSet => "oldSet" | .oldSetArgs => "oldSetArgs"
  | .oldSetKwargs => "oldSetKwargs" | .makeDist => "makeDist" | .ndictItems => "ndictItems"
  | .moduleItem => "moduleItem" | .raise e => showErr e | .ignore => "ignore"

def showEff : Eff Nat → String
  | .isNew v => s!"isNew:{v}" | .oldFirst v => s!"oldFirst:{v}" | .oldArgs v => s!"oldArgs:{v}"
  | .oldNamed v => s!"oldNamed:{v}" | .made v => s!"made:{v}" | .nested v => s!"nested:{v}"
  | .stray v => s!"stray:{v}" | .kept => "kept"

def parseVar? (s : String) : Option Variant :=
  if s = "spec" then some .spec else if s = "asis" then some .asis else none

/-- `key:okind,key:okind` — existing slots; tokens are 1000 + position -/
def parseLeaves? (s : String) : Option Leaves :=
  if s = "-" then some [] else
  let parts := s.splitOn ","
  (parts.zipIdx.mapM (fun (p, i) =>
    match p.splitOn ":" with
    | [k, o] => (parseO? o).map (fun o => (k, (⟨o, .isNew (1000 + i)⟩ : Slot)))
    | _ => none))

/-- `key:nkind:tok,...` -/
def parseItems? (s : String) : Option (List Item) :=
  if s = "-" then some [] else
  (s.splitOn ",").mapM (fun p =>
    match p.splitOn ":" with
    | [k, n, t] => do some (k, ← parseN? n, ← t.toNat?)
    | _ => none)

def showLeaves (p : Leaves) : String :=
  showList (fun (kv : String × Slot) => s!"{kv.1}:{showO kv.2.kind}:{showEff kv.2.eff}") p

def showToks (p : List (String × Nat)) : String :=
  showList (fun (kv : String × Nat) => s!"{kv.1}:{kv.2}") p

def showMod (ms : ModState) : String := s!"{showLeaves ms.pars} {showToks ms.metad} {showToks ms.time}"

/-- `atom/<nkind>/<tok>` or `dict/<nkind>/<tok>/<items>` -/
def parseMVal? (s : String) : Option MVal :=
  match s.splitOn "/" with
  | ["atom", n, t] => do some (.atom (← parseN? n) (← t.toNat?))
  | ["dict", n, t, items] => do some (.dict (← parseN? n) (← parseItems? items) (← t.toNat?))
  | _ => none

def parseModKey? (s : String) : Option ModKey :=
  match s with
  | "networks" => some .networks | "demographics" => some .demographics | "diseases" => some .diseases
  | "interventions" => some .interventions | "analyzers" => some .analyzers | "connectors" => some .connectors
  | _ => none

/-- registry state built by `regname` / `regexp` / `regcls` lines -/
structure RegData where
  names : List (ModKey × String × Nat) := []
  expected : List (ModKey × Nat) := []
  classes : List (Nat × Leaves) := []

def RegData.toRegistry (d : RegData) : Registry :=
  { byName := fun mk s => (d.names.find? (fun e => e.1 == mk && e.2.1 == s)).map (·.2.2),
    inVals := fun mk c => d.names.any (fun e => e.1 == mk && e.2.2 == c),
    expected := fun mk c => d.expected.any (fun e => e.1 == mk && e.2 == c),
    fresh := fun c => ⟨((d.classes.find? (fun e => e.1 == c)).map (·.2)).getD [], [], []⟩ }

def parseSpec? (d : RegData) (s : String) : Option Spec :=
  match s.splitOn "|" with
  | ["str", n] => some (.str n)
  | ["dictname", n, items] => do some (.dict (some (.name n)) (← parseItems? items))
  | ["dictcls", c, items] => do some (.dict (some (.cls (← c.toNat?))) (← parseItems? items))
  | ["dictnone", items] => do some (.dict none (← parseItems? items))
  | ["cls", c] => do some (.cls (← c.toNat?))
  | ["inst", c, i] => do
      let c ← c.toNat?
      let i ← i.toNat?
      match construct .asis d.toRegistry c [] i with
      | .ok m => some m
      | .error _ => none
  | ["func"] => some (.func 0)
  | ["other"] => some .other
  | _ => none

def showSpecRes : Except Err Spec → String
  | .error e => showErr e
  | .ok (.inst c ms i) => s!"ok inst {c} {i} {showMod ms}"
  | .ok (.funcInst _) => "ok funcinst"
  | .ok _ => "ok unconverted"

def exc {α} (f : α → String) : Except Err α → String
  | .error e => showErr e
  | .ok a => "ok " ++ f a


/-- round 3: `scalar:<tok>` | `bad` | `dict:<key>=s=<tok>;<key>=p=<tok>=<tok>;...` (`dict:-` = empty dict) -/
def parseBeta? (s : String) : Option (Beta Nat) :=
  if s = "bad" then some .bad else
  match s.splitOn ":" with
  | ["scalar", t] => t.toNat?.map .scalar
  | ["dict", items] =>
      if items = "-" then some (.dict []) else
      ((items.splitOn ";").mapM (fun (p : String) =>
        match p.splitOn "=" with
        | [k, "s", t] => t.toNat?.map (fun t => (k, Entry.scalar t))
        | [k, "p", a, b] => do some (k, Entry.pair (← a.toNat?) (← b.toNat?))
        | _ => none)).map .dict
  | _ => none

def showServed (m : List (String × Option (Nat × Nat))) : String :=
  showList (fun (kv : String × Option (Nat × Nat)) =>
    match kv.2 with
    | some (a, b) => s!"{kv.1}:{a}/{b}"
    | none => s!"{kv.1}:none") m

def showDistUpd : DistUpd → String
  | .made m => s!"made:{m.type}:" ++ showList (fun (kv : String × Nat) => s!"{kv.1}={kv.2}") m.pars
  | .oldSet ps => "oldSet:" ++ showList (fun (kv : String × Nat) => s!"{kv.1}={kv.2}") ps
  | .failed e => showErr e

def parseToks? (s : String) : Option (List (String × Nat)) :=
  if s = "-" then some [] else
  (s.splitOn ",").mapM (fun (p : String) =>
    match p.splitOn ":" with
    | [k, t] => t.toNat?.map (fun t => (k, t))
    | _ => none)


/-- round 4: a demographics module `b=<rate|->` | `d=<rate|->` | `o=<id>` -/
def parseDMod? (s : String) : Option DMod :=
  match s.splitOn "=" with
  | ["b", r] => (parseOptNat? r).map DMod.births
  | ["d", r] => (parseOptNat? r).map DMod.deaths
  | ["o", i] => i.toNat?.map DMod.other
  | _ => none

def parseDIn? (s : String) : Option DIn :=
  if s = "empty" then some .empty else if s = "true" then some .flagTrue else
  match s.splitOn ":" with
  | ["mods", l] => if l = "-" then some (.mods []) else ((l.splitOn ",").mapM parseDMod?).map DIn.mods
  | _ => none

def showOptNat : Option Nat → String
  | some n => toString n
  | none => "none"

def showDMod : DMod → String
  | .births r => "b=" ++ showOptNat r
  | .deaths r => "d=" ++ showOptNat r
  | .other i => s!"o={i}"

def showOut (o : Out) : String :=
  showList showDMod o.mods ++ " " ++ (match o.aging with | some b => showBool b | none => "-")

/-- round 5: time-parameter fields.  Unit tokens: `-` = None, anything else = the (rendered) value -/
def parseUVal (s : String) : Option String := if s = "-" then none else some s
def parseOptI? (s : String) : Option (Option Int) := if s = "-" then some none else s.toInt?.map some
def showUVal : Option String → String
  | none => "-" | some s => s
def showOptI : Option Int → String
  | none => "-" | some i => toString i
def showTErr : StarsimModel.ParsTime.Err → String
  | .value => "E:Value" | .keyNotFound => "E:KeyNotFound" | .type => "E:Type"
def showTP (t : StarsimModel.ParsTime.TP) : String :=
  s!"ok {t.v} {showUVal t.unit} {showUVal t.parentUnit} {showOptI t.parentDt} {showOptI t.selfDt}"
def tpEnv : StarsimModel.ParsTime.Env := ⟨Gen.unitTable, Gen.timeUnitNames, Gen.tpValidated⟩
def parseTArgs? (v u pu pd sd f : String) : Option StarsimModel.ParsTime.Args := do
  let v ← parseOptI? v
  let pd ← parseOptI? pd
  let sd ← parseOptI? sd
  let f ← parseBool? f
  some { v := v, unit := parseUVal u, parentUnit := parseUVal pu, parentDt := pd, selfDt := sd, force := f }
def showTRes : Except StarsimModel.ParsTime.Err StarsimModel.ParsTime.TP → String
  | .ok t => showTP t | .error e => showTErr e

def stepLine (d : RegData) (line : String) : RegData × String :=
  match words line with
  | ["tpset", ini, ov, ou, opu, opd, osd, "|", v, u, pu, pd, sd, f] => (d,
      match parseBool? ini, ov.toInt?, parseOptI? opd, parseOptI? osd, parseTArgs? v u pu pd sd f with
      | some ini, some ov, some opd, some osd, some a =>
          showTRes (StarsimModel.ParsTime.tpSet Gen.tpSetSteps tpEnv ⟨ov, parseUVal ou, parseUVal opu, opd, osd, ini⟩ a)
      | _, _, _, _, _ => "bad-op")
  | ["tpctor", v, u, pu, pd, sd] => (d,
      match parseTArgs? v u pu pd sd "0" with
      | some a => showTRes (StarsimModel.ParsTime.tpCtor Gen.tpCtorSteps tpEnv a)
      | none => "bad-op")
  | ["modtime", u, dt, su, sdt] => (d,
      let odt : Option (Option Rat) := if dt = "-" then some none else (parseRat? dt).map some
      match odt, parseRat? sdt with
      | some odt, some sdt =>
          (match StarsimModel.ParsModTime.timeInit Gen.unitTable Gen.timeMismatchDt ⟨parseUVal su, sdt⟩ Gen.timeInitSteps ⟨parseUVal u, odt⟩ with
           | .ok m => s!"ok {showUVal m.unit} {match m.dt with | some x => showRat x | none => "-"}"
           | .err e => showTErr e)
      | _, _ => "bad-op")
  | ["unitlookup", u] => (d,
      match StarsimModel.ParsTime.lookup Gen.unitTable (parseUVal u) with
      | some c => "ok " ++ showUVal c
      | none => "E:Key")
  | ["demog", dm, b, dth, ag] => (d, match parseDIn? dm, parseOptNat? b, parseOptNat? dth with
      | some dm, some b, some dth =>
          let ag : Option (Option Bool) := if ag = "-" then some none else (parseBool? ag).map some
          (match ag with
           | some ag => exc showOut (validateDemog Gen.demogSteps ⟨dm, b, dth, ag⟩)
           | none => "bad-op")
      | _, _, _ => "bad-op")
  | ["betamap", nets, beta] => (d, match parseBeta? beta with
      | some b =>
          let ns := if nets = "-" then [] else nets.splitOn ","
          exc showServed (resolve (stdKey Gen.netkeyLower Gen.netkeySuffix) ⟨Gen.betaMissingRaises, Gen.betaExtraRaises⟩
            Gen.betaBadType ns b)
      | none => "bad-op")
  | ["stdkey", k] => (d, "ok " ++ stdKey Gen.netkeyLower Gen.netkeySuffix k)
  | ["usetwice", spec] => (d, match parseToks? spec with
      | some sp =>
          let r := useTwice ((lookupFlag "make_dist" Gen.argMutated).getD true) sp
          s!"ok {showDistUpd r.1} {showDistUpd r.2.1} " ++ (if r.2.2 = sp then "unchanged" else "changed")
      | none => "bad-op")
  | ["argmutated", fn] => (d, match lookupFlag fn Gen.argMutated with
      | some b => "ok " ++ showBool b
      | none => "bad-op")
  | ["isa", "o", o, c] => (d, match parseO? o, parseCls? c with
      | some o, some c => showBool (o.isA c) | _, _ => "bad-op")
  | ["isa", "n", n, c] => (d, match parseN? n, parseCls? c with
      | some n, some c => showBool (n.isA c) | _, _ => "bad-op")
  | ["callable", "o", o] => (d, match parseO? o with | some o => showBool o.isCallable | _ => "bad-op")
  | ["callable", "n", n] => (d, match parseN? n with | some n => showBool n.isCallable | _ => "bad-op")
  | ["isfunc", n] => (d, match parseN? n with | some n => showBool n.isFunc | _ => "bad-op")
  | ["atomic", c] => (d, match parseCls? c with | some c => showBool (Gen.atomicClasses.contains c) | _ => "bad-op")
  | ["dispatch", o, n] => (d, match parseO? o, parseN? n with
      | some o, some n => showAction (dispatch o n) | _, _ => "bad-op")
  | ["outcome", v, o, n] => (d, match parseVar? v, parseO? o, parseN? n with
      | some v, some o, some n =>
          (match outcome v o n with
           | .error e => showErr e
           | .ok a => s!"ok {showAction a} {showO (kindAfter a o n)} {showEff (leafEff v a o n 7)}")
      | _, _, _ => "bad-op")
  | ["newkey", n] => (d, match parseN? n with | some n => showAction (newKeyAction n) | _ => "bad-op")
  | ["keymismatch", b] => (d, match parseBool? b with | some b => showAction (keyMismatch b) | _ => "bad-op")
  | ["update", v, c, p, items] => (d, match parseVar? v, parseBool? c, parseLeaves? p, parseItems? items with
      | some v, some c, some p, some items => exc showLeaves (updateLeaves v c p items)
      | _, _, _, _ => "bad-op")
  | ["updatepars", v, p, items] => (d, match parseVar? v, parseLeaves? p, parseItems? items with
      | some v, some p, some items => exc showMod (updatePars v ⟨p, [], []⟩ items)
      | _, _, _ => "bad-op")
  | ["sub", v, c, p, m] => (d, match parseVar? v, parseBool? c, parseLeaves? p, parseMVal? m with
      | some v, some c, some p, some m =>
          (match applyTop v c (.sub p) (.one m) with
           | .error e => showErr e
           | .ok (.sub p') => "ok sub " ++ showLeaves p'
           | .ok (.leaf s) => s!"ok leaf {showO s.kind}:{showEff s.eff}"
           | .ok (.mods _) => "ok mods")
      | _, _, _, _ => "bad-op")
  | ["mods", v, c, name, p, name2, m] => (d, match parseVar? v, parseBool? c, parseLeaves? p, parseMVal? m with
      | some v, some c, some p, some m =>
          (match applyTop v c (.mods [(name, p)]) (.dict2 [(name2, m)] 0) with
           | .error e => showErr e
           | .ok (.mods [(_, p')]) => "ok mods " ++ showLeaves p'
           | .ok (.leaf s) => s!"ok leaf {showO s.kind}:{showEff s.eff}"
           | .ok _ => "ok other")
      | _, _, _, _ => "bad-op")
  | ["modsatom", v, c, name, p, n] => (d, match parseVar? v, parseBool? c, parseLeaves? p, parseN? n with
      | some v, some c, some p, some n =>
          (match applyTop v c (.mods [(name, p)]) (.one (.atom n 7)) with
           | .error e => showErr e
           | .ok (.leaf s) => s!"ok leaf {showO s.kind}:{showEff s.eff}"
           | .ok _ => "ok other")
      | _, _, _, _ => "bad-op")
  | ["regname", mk, name, c] => (match parseModKey? mk, c.toNat? with
      | some mk, some c => ({ d with names := d.names ++ [(mk, name, c)] }, "ok")
      | _, _ => (d, "bad-op"))
  | ["regexp", mk, c] => (match parseModKey? mk, c.toNat? with
      | some mk, some c => ({ d with expected := d.expected ++ [(mk, c)] }, "ok")
      | _, _ => (d, "bad-op"))
  | ["regcls", c, p] => (match c.toNat?, parseLeaves? p with
      | some c, some p => ({ d with classes := d.classes ++ [(c, p)] }, "ok")
      | _, _ => (d, "bad-op"))
  | ["convert", v, mk, id, spec] => (d, match parseVar? v, parseModKey? mk, id.toNat?, parseSpec? d spec with
      | some v, some mk, some id, some spec => showSpecRes (convert v d.toRegistry mk id spec)
      | _, _, _, _ => "bad-op")
  | ["convert2", v, mk, id, spec] => (d, match parseVar? v, parseModKey? mk, id.toNat?, parseSpec? d spec with
      | some v, some mk, some id, some spec =>
          (match convert v d.toRegistry mk id spec with
           | .error e => showErr e
           | .ok m => showSpecRes (convert v d.toRegistry mk (id + 1) m))
      | _, _, _, _ => "bad-op")
  | ["siminput", c, fresh, user] => (d, match fresh.toNat?, user.toNat? with
      | some f, some u =>
          let copy : Option (Option Bool) := if c = "default" then some none else (parseBool? c).map some
          (match copy with
           | some copy => (match (simInput copy f (.inst 0 ⟨[], [], []⟩ u)).ident with
               | some i => s!"ok {i}" | none => "ok -")
           | none => "bad-op")
      | _, _ => "bad-op")
  | ["timector", v, kw, pars] => (d, match parseVar? v, parseItems? kw, parseItems? pars with
      | some v, some kw, some pars => exc showToks (timeCtor v kw pars)
      | _, _, _ => "bad-op")
  | ["mergekw", pars, kw] => (d, match parseItems? pars, parseItems? kw with
      | some pars, some kw =>
          "ok " ++ showList (fun (it : Item) => s!"{it.1}:{showN it.2.1}:{it.2.2}") (mergeParsKw pars kw)
      | _, _ => "bad-op")
  | ["mergesim", pars, args, kw] => (d, match parseItems? pars, parseItems? args, parseItems? kw with
      | some pars, some args, some kw =>
          "ok " ++ showList (fun (it : Item) => s!"{it.1}:{showN it.2.1}:{it.2.2}") (mergeSim pars args kw)
      | _, _, _ => "bad-op")
  | ["updateparskw", v, p, pars, kw] => (d, match parseVar? v, parseLeaves? p, parseItems? pars, parseItems? kw with
      | some v, some p, some pars, some kw => exc showMod (updateParsKw v ⟨p, [], []⟩ pars kw)
      | _, _, _, _ => "bad-op")
  | ["ndict", names] => (d,
      let ns := if names = "-" then [] else names.splitOn ","
      exc (showList id) (buildNdict [] ns))
  | ["deep", v, c, name, p, name2, items] => (d, match parseVar? v, parseBool? c, parseLeaves? p, parseItems? items with
      | some v, some c, some p, some items =>
          -- sim-level pars ⊃ `diseases` container ⊃ module `name` ⊃ leaves `p`;  update {diseases: {name2: {items}}}
          let stored : List (String × PT 3) :=
            [("n_agents", .inl ⟨.num, .isNew 999⟩),
             ("diseases", .inr (.mods, [(name, .inr (.pars, p.map (fun (kv : String × Slot) => (kv.1, (.inl kv.2 : PT 1)))))]))]
          let new : List (String × NT 3) :=
            [("diseases", .inr (.dictNoType, 0, [(name2, .inr (.dictNoType, 0,
                items.map (fun (it : Item) => (it.1, (.inl it.2 : NT 1)))))]))]
          (match updateN 3 v c stored new with
           | .error e => showErr e
           | .ok p' =>
               (match lookup "diseases" p' with
                | some (.inr (_, [(_, .inr (_, leaves))])) =>
                    "ok " ++ showList (fun (kv : String × PT 1) =>
                      match kv.2 with
                      | .inl s => s!"{kv.1}:{showO s.kind}:{showEff s.eff}"
                      | .inr _ => s!"{kv.1}:container") leaves
                | _ => "ok other"))
      | _, _, _, _ => "bad-op")
  | ["facts"] => (d, s!"strict={showBool Gen.strictUnlessCreate} simStrict={showBool Gen.simStrictUpdate} copyDefault={showBool Gen.simCopyDefault} copyFwd={showBool Gen.simCopyForwarded} metaChecked={showBool Gen.metadataTypeChecked} moduleArgs={showList id Gen.moduleArgs} timeArgs={showList id Gen.timeArgs}")
  | _ => (d, "bad-op")

def main : IO Unit := mainLoop stepLine {}
