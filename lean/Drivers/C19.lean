import StarsimModel.Model.Pregnancy
import StarsimModel.Model.Fertility
import StarsimModel.Model.Proto
/-!
Line-protocol driver for C19.  Every line is self-contained:  `<op> key=value …`
  state keys (lists aligned with uid 0 … n-1; `x` = NaN/none):
      active alive female age parent ptd fecund pregnant postpartum child tipreg tidel tipp timd durpp
      pre post      edges `p1:p2:beta:dur:start:stop` separated by `;`  (`-` = none)
  parameter keys: g (dur_pregnancy in steps) gy (in years) dty minage maxage prenatal postnatal
  ops:  check                                   -> ok excl=… links=… preg=… prenatal=… postnatal=…
        dostep ti= simti= conceive= durpp= matdead= girl=   (lists aligned with `conceive`)  -> state
        finish ti= neo=                          -> state
        burnsteps                                -> ok <list>
-/
open StarsimModel StarsimModel.Pregnancy StarsimModel.Proto

abbrev KV := List (String × String)

def parseKV (ws : List String) : Option KV :=
  ws.mapM (fun w => match w.splitOn "=" with
    | [k, v] => some (k, v)
    | _ => none)

def getS (kv : KV) (k : String) : Option String := (kv.find? (·.1 == k)).map (·.2)

def splitList (v : String) : List String := if v = "-" then [] else v.splitOn ","

def optRat? (s : String) : Option (Option Rat) := if s = "x" then some none else (parseRat? s).map some
def optNat? (s : String) : Option (Option Nat) := if s = "x" then some none else (parseNat? s).map some

def getList {α} (kv : KV) (k : String) (f : String → Option α) : Option (List α) :=
  match getS kv k with
  | none => some []
  | some v => (splitList v).mapM f

def parseEdge (s : String) : Option Edge :=
  match s.splitOn ":" with
  | [a, b, be, d, st, sp] => do
      pure { p1 := ← parseNat? a, p2 := ← parseNat? b, beta := ← parseRat? be, dur := ← parseRat? d,
             start := ← parseRat? st, stop := ← parseRat? sp }
  | _ => none

def getEdges (kv : KV) (k : String) : Option (List Edge) :=
  match getS kv k with
  | none => some []
  | some v => if v = "-" then some [] else (v.splitOn ";").mapM parseEdge

def buildAgents (kv : KV) : Option (List Agent) := do
  let active ← getList kv "active" parseBool?
  let alive ← getList kv "alive" parseBool?
  let female ← getList kv "female" parseBool?
  let age ← getList kv "age" parseRat?
  let parent ← getList kv "parent" optNat?
  let ptd ← getList kv "ptd" optRat?
  let fecund ← getList kv "fecund" parseBool?
  let pregnant ← getList kv "pregnant" parseBool?
  let postpartum ← getList kv "postpartum" parseBool?
  let child ← getList kv "child" optNat?
  let tipreg ← getList kv "tipreg" optRat?
  let tidel ← getList kv "tidel" optRat?
  let tipp ← getList kv "tipp" optRat?
  let timd ← getList kv "timd" optRat?
  let durpp ← getList kv "durpp" optRat?
  let n := active.length
  if alive.length ≠ n ∨ female.length ≠ n ∨ age.length ≠ n ∨ parent.length ≠ n ∨ ptd.length ≠ n ∨ fecund.length ≠ n ∨
     pregnant.length ≠ n ∨ postpartum.length ≠ n ∨ child.length ≠ n ∨ tipreg.length ≠ n ∨ tidel.length ≠ n ∨
     tipp.length ≠ n ∨ timd.length ≠ n ∨ durpp.length ≠ n then none
  else
    pure ((List.range n).map (fun i =>
      ({ active := active.getD i false, alive := alive.getD i false, female := female.getD i false, age := age.getD i 0,
         parent := parent.getD i none, pTiDead := ptd.getD i none, fecund := fecund.getD i false,
         pregnant := pregnant.getD i false, postpartum := postpartum.getD i false, child := child.getD i none,
         tiPregnant := tipreg.getD i none, tiDelivery := tidel.getD i none, tiPostpartum := tipp.getD i none,
         tiMatDead := timd.getD i none, durPostpartum := durpp.getD i none } : Agent)))

def buildPars (kv : KV) : Option Pars := do
  pure { durPreg := ← (getS kv "g").bind parseRat?, durPregYear := ← (getS kv "gy").bind parseRat?,
         dtYear := ← (getS kv "dty").bind parseRat?, minAge := ← (getS kv "minage").bind parseRat?,
         maxAge := ← (getS kv "maxage").bind parseRat?, prenatal := ← (getS kv "prenatal").bind parseBool?,
         postnatal := ← (getS kv "postnatal").bind parseBool?, burnin := false }

def showO {α} (f : α → String) : Option α → String
  | none => "x"
  | some v => f v

def showEdges (l : List Edge) : String :=
  if l.isEmpty then "-" else ";".intercalate (l.map (fun e =>
    s!"{e.p1}:{e.p2}:{showRat e.beta}:{showRat e.dur}:{showRat e.start}:{showRat e.stop}"))

def showState (s : State) : String :=
  let a := s.agents
  s!"ok n={a.length} active={showList showBool (a.map (·.active))} alive={showList showBool (a.map (·.alive))} female={showList showBool (a.map (·.female))} age={showList showRat (a.map (·.age))} parent={showList (showO toString) (a.map (·.parent))} ptd={showList (showO showRat) (a.map (·.pTiDead))} fecund={showList showBool (a.map (·.fecund))} pregnant={showList showBool (a.map (·.pregnant))} postpartum={showList showBool (a.map (·.postpartum))} child={showList (showO toString) (a.map (·.child))} tipreg={showList (showO showRat) (a.map (·.tiPregnant))} tidel={showList (showO showRat) (a.map (·.tiDelivery))} tipp={showList (showO showRat) (a.map (·.tiPostpartum))} timd={showList (showO showRat) (a.map (·.tiMatDead))} durpp={showList (showO showRat) (a.map (·.durPostpartum))} pre={showEdges s.pre} post={showEdges s.post}"

def showErr : Err → String
  | .conceptionInPregnant => "E:ConceptionInPregnant" | .mothersMismatch => "E:MothersMismatch"

/-- the value aligned with mother `u` in the list of conceiving mothers -/
def pick {α} (con : List Nat) (l : List α) (dflt : α) (u : Nat) : α :=
  match con.idxOf? u with
  | some i => l.getD i dflt
  | none => dflt

/-- `fertprob`: the probability vector of make_fertility_prob_fn for the uids whose ages / fecund flags are given -/
def fertLine (kv : KV) : Option String := do
  let rat := fun k => (getS kv k).bind parseRat?
  let fd : FertData ← match getS kv "kind" with
    | some "scalar" => (rat "r").map FertData.scalar
    | some "table" => do
        let bins ← getList kv "bins" parseRat?
        let years ← getList kv "years" parseRat?
        let rows ← match getS kv "rows" with
          | none => none
          | some v => (v.splitOn ";").mapM (fun r => (splitList r).mapM parseRat?)
        some (FertData.table { bins := bins, years := years, rows := rows })
    | _ => none
  let p : Pars := { durPreg := 0, durPregYear := 0, dtYear := 0, minAge := ← rat "minage", maxAge := ← rat "maxage",
                    prenatal := false, postnatal := false, burnin := false }
  let ages ← getList kv "ages" parseRat?
  let fec ← getList kv "fecundl" parseBool?
  let wa ← getList kv "wages" parseRat?
  let ia ← getList kv "iages" parseRat?
  let units ← rat "units"
  let tf ← rat "tf"
  let target ← rat "target"
  let probs := (ages.zip fec).map (fun af => fertilityProbOf p fd units tf target wa ia ({ age := af.1, fecund := af.2 } : Agent))
  pure s!"ok {showList showRat probs}"

def stepLine (_ : Unit) (line : String) : Unit × String :=
  match words line with
  | [] => ((), "bad-op")
  | "fertprob" :: rest =>
    match parseKV rest with
    | none => ((), "bad-op")
    | some kv => ((), (fertLine kv).getD "bad-op")
  | op :: rest =>
    match parseKV rest with
    | none => ((), "bad-op")
    | some kv =>
      let r : Option String := do
        let agents ← buildAgents kv
        let s : State := { agents := agents, pre := ← getEdges kv "pre", post := ← getEdges kv "post" }
        match op with
        | "check" =>
            pure s!"ok excl={showBool s.exclusive} links={showBool s.linksOK} preg={showBool s.pregnantOK} prenatal={showBool s.prenatalOK} postnatal={showBool s.postnatalOK}"
        | "dostep" => do
            let p ← buildPars kv
            let ti ← (getS kv "ti").bind parseRat?
            let simti ← (getS kv "simti").bind parseRat?
            let con ← getList kv "conceive" parseNat?
            let dpp ← getList kv "cdurpp" parseRat?
            let md ← getList kv "matdead" parseBool?
            let girl ← getList kv "girl" parseBool?
            let d : Draws := { rate := fun _ => 1, draw := fun u => if con.contains u then 0 else 1,
                               durPP := pick con dpp 0, matDead := pick con md false, girl := pick con girl false }
            pure (match doStep p ti simti d s with
              | .ok s' => showState s'
              | .error e => showErr e)
        | "finish" => do
            let ti ← (getS kv "ti").bind parseRat?
            let neo ← getList kv "neo" parseNat?
            pure (showState (finishStep ti (fun u => neo.contains u) s))
        | "burnsteps" => do
            let p ← buildPars kv
            pure s!"ok {showList toString (burnSteps p)}"
        | _ => none
      ((), r.getD "bad-op")

def main : IO Unit := mainLoop stepLine ()
