/-
The probability kinds of Model/TimePar.lean over `ℝ`: the SAME generic definitions (`NumOps.tpFormula`,
`NumOps.rpFormula`, `convScalar`, `convVal`) instantiated with `Real.exp` / `Real.log`.
-/
import StarsimModel.Lemmas.TimePar
import Mathlib.Analysis.SpecialFunctions.Pow.Real

namespace StarsimModel.TimePar
open Classical

/-- the carrier of the theorems that need `exp`/`log` -/
noncomputable def realOps : NumOps ℝ :=
  { ofRat := fun q => (q : ℝ), add := (· + ·), sub := (· - ·), mul := (· * ·), div := (· / ·), neg := (- ·),
    exp := Real.exp, log := Real.log, powr := fun a b => a ^ b,
    beq := fun a b => decide (a = b), le := fun a b => decide (a ≤ b), lt := fun a b => decide (a < b) }

@[simp] theorem realOps_zero : realOps.zero = 0 := by simp [NumOps.zero, realOps]
@[simp] theorem realOps_one : realOps.one = 1 := by simp [NumOps.one, realOps]

theorem realOps_lawful : LawfulOrd realOps where
  beq_iff := by intro a b; simp [realOps]
  le_iff_not_lt := by intro a b; simp [realOps]
  lt_iff := by intro a b; simp [realOps]; exact lt_iff_le_and_ne
  zero_lt_one := by simp [realOps, NumOps.zero, NumOps.one]

/-- `time_prob`: the source's `1 - exp(-(-log(1-v))/factor)` -/
theorem tp_real (v f : ℝ) : realOps.tpFormula v f = 1 - Real.exp (Real.log (1 - v) / f) := by
  simp [NumOps.tpFormula, realOps, NumOps.one]

/-- `rate_prob`: the source's `1 - exp(-v/factor)` -/
theorem rp_real (v f : ℝ) : realOps.rpFormula v f = 1 - Real.exp (-v / f) := by
  simp [NumOps.rpFormula, realOps, NumOps.one]

/-- as a real power: `1 - (1-v)^(1/factor)` -/
theorem tp_real_rpow {v : ℝ} (hv : v < 1) (f : ℝ) : realOps.tpFormula v f = 1 - (1 - v) ^ (1 / f) := by
  rw [tp_real, Real.rpow_def_of_pos (by linarith)]
  congr 2
  ring

theorem tp_compound {v f : ℝ} (hv : v < 1) (hf : f ≠ 0) : 1 - (1 - realOps.tpFormula v f) ^ f = v := by
  rw [tp_real]
  have h1 : (1 : ℝ) - (1 - Real.exp (Real.log (1 - v) / f)) = Real.exp (Real.log (1 - v) / f) := by ring
  rw [h1, ← Real.exp_mul, div_mul_cancel₀ _ hf, Real.exp_log (by linarith)]
  ring

theorem tp_range {v f : ℝ} (h0 : 0 ≤ v) (hv : v < 1) (hf : 0 < f) :
    0 ≤ realOps.tpFormula v f ∧ realOps.tpFormula v f < 1 := by
  rw [tp_real]
  have hL : Real.log (1 - v) ≤ 0 := Real.log_nonpos (by linarith) (by linarith)
  have hq : Real.log (1 - v) / f ≤ 0 := div_nonpos_of_nonpos_of_nonneg hL hf.le
  have h1 : Real.exp (Real.log (1 - v) / f) ≤ 1 := Real.exp_le_one_iff.mpr hq
  have h2 : 0 < Real.exp (Real.log (1 - v) / f) := Real.exp_pos _
  constructor <;> linarith

/-- a larger factor (= a shorter parent step) gives a smaller per-step probability -/
theorem tp_antitone_factor {v f1 f2 : ℝ} (h0 : 0 ≤ v) (hv : v < 1) (hf1 : 0 < f1) (h12 : f1 ≤ f2) :
    realOps.tpFormula v f2 ≤ realOps.tpFormula v f1 := by
  rw [tp_real, tp_real]
  have hL : Real.log (1 - v) ≤ 0 := Real.log_nonpos (by linarith) (by linarith)
  have hf2 : 0 < f2 := lt_of_lt_of_le hf1 h12
  have : Real.log (1 - v) / f1 ≤ Real.log (1 - v) / f2 := by
    rw [div_le_div_iff₀ hf1 hf2]
    nlinarith
  have := Real.exp_le_exp.mpr this
  linarith

theorem tp_roundtrip {v f : ℝ} (hv : v < 1) (hf : f ≠ 0) : realOps.tpFormula (realOps.tpFormula v f) (1 / f) = v := by
  rw [tp_real (realOps.tpFormula v f), tp_real v f]
  have h1 : (1 : ℝ) - (1 - Real.exp (Real.log (1 - v) / f)) = Real.exp (Real.log (1 - v) / f) := by ring
  rw [h1, Real.log_exp]
  have : Real.log (1 - v) / f / (1 / f) = Real.log (1 - v) := by field_simp
  rw [this, Real.exp_log (by linarith)]
  ring

theorem rp_lt_one (v f : ℝ) : realOps.rpFormula v f < 1 := by
  rw [rp_real]
  have := Real.exp_pos (-v / f)
  linarith

theorem rp_nonneg {v f : ℝ} (hv : 0 ≤ v) (hf : 0 < f) : 0 ≤ realOps.rpFormula v f := by
  rw [rp_real]
  have : -v / f ≤ 0 := div_nonpos_of_nonpos_of_nonneg (by linarith) hf.le
  have := Real.exp_le_one_iff.mpr this
  linarith

/-- the scalar branch of `time_prob.update_values` over ℝ, inside (0,1) -/
theorem convScalar_tp_real {k : Kind} (hk : k.isTimeProb = true) {v f : ℝ} (h0 : 0 < v) (h1 : v < 1) (hf : f ≠ 0) :
    convScalar realOps k f v = .ok (realOps.tpFormula v f) := by
  have hv0 : v ≠ 0 := ne_of_gt h0
  have hv1 : v ≠ 1 := ne_of_lt h1
  cases k <;> simp [Kind.isTimeProb] at hk <;>
    simp [convScalar, realOps, NumOps.zero, NumOps.one, hv0, hv1, hf, h0.le, h1.le]

theorem convScalar_rp_real {v f : ℝ} (h0 : 0 < v) (hf : f ≠ 0) :
    convScalar realOps .rateProb f v = .ok (realOps.rpFormula v f) := by
  have hv0 : v ≠ 0 := ne_of_gt h0
  simp [convScalar, realOps, NumOps.zero, hv0, hf, h0]

end StarsimModel.TimePar
