/-
Calendar lemmas for C07: the day-number functions of Model/Calendar.lean are mutually inverse on valid dates and
strictly monotone.  Core tactics only (`omega`, `decide`).
-/
import StarsimModel.Model.Calendar

namespace StarsimModel.Calendar

/-! ### within a year: finite checks -/

theorem monthOfDoy_spec : ∀ leap : Bool, ∀ doy0, doy0 < (if leap then 366 else 365) →
    1 ≤ (monthOfDoy leap doy0).1 ∧ (monthOfDoy leap doy0).1 ≤ 12 ∧ 1 ≤ (monthOfDoy leap doy0).2 ∧
    (monthOfDoy leap doy0).2 ≤ monthLenL leap (monthOfDoy leap doy0).1 ∧
    daysBeforeMonth leap (monthOfDoy leap doy0).1 + (monthOfDoy leap doy0).2 = doy0 + 1 := by
  decide +kernel

theorem monthOfDoy_inv : ∀ leap : Bool, ∀ m, m < 13 → ∀ d, d < 32 → (1 ≤ m ∧ 1 ≤ d ∧ d ≤ monthLenL leap m) →
    monthOfDoy leap (daysBeforeMonth leap m + d - 1) = (m, d) := by
  decide +kernel

theorem daysBeforeMonth_succ : ∀ leap : Bool, ∀ m, m < 13 → (1 ≤ m) →
    daysBeforeMonth leap m + monthLenL leap m = daysBeforeMonth leap (m + 1) := by
  decide +kernel

theorem daysBeforeMonth_mono : ∀ leap : Bool, ∀ m1, m1 < 14 → ∀ m2, m2 < 14 → (1 ≤ m1 ∧ m1 ≤ m2) →
    daysBeforeMonth leap m1 ≤ daysBeforeMonth leap m2 := by
  decide +kernel

theorem daysBeforeMonth_13 (leap : Bool) : daysBeforeMonth leap 13 = if leap then 366 else 365 := by
  cases leap <;> decide

theorem monthLenL_le : ∀ leap : Bool, ∀ m, m < 13 → monthLenL leap m ≤ 31 := by decide +kernel


/-! ### years: 400/100/4/1-year digits -/

theorem isLeap_iff (y : Nat) : isLeap y = true ↔ (y % 4 = 0 ∧ (y % 100 ≠ 0 ∨ y % 400 = 0)) := by
  simp [isLeap]

/-- days before a year written in 400/100/4/1-year digits -/
theorem dby_digits (a b c e : Nat) (hb : b ≤ 3) (hc : c ≤ 24) (he : e ≤ 3) :
    daysBeforeYear (400 * a + 100 * b + 4 * c + e + 1) = 146097 * a + 36524 * b + 1461 * c + 365 * e := by
  unfold daysBeforeYear
  have h4 : (400 * a + 100 * b + 4 * c + e + 1 - 1) / 4 = 100 * a + 25 * b + c := by omega
  have h100 : (400 * a + 100 * b + 4 * c + e + 1 - 1) / 100 = 4 * a + b := by omega
  have h400 : (400 * a + 100 * b + 4 * c + e + 1 - 1) / 400 = a := by omega
  simp only [h4, h100, h400]
  omega

theorem isLeap_digits (a b c e : Nat) (hb : b ≤ 3) (hc : c ≤ 24) (he : e ≤ 3) :
    isLeap (400 * a + 100 * b + 4 * c + e + 1) = true ↔ (e = 3 ∧ (c < 24 ∨ b = 3)) := by
  rw [isLeap_iff]
  omega

theorem year_digits (y : Nat) (hy : 1 ≤ y) :
    ∃ a b c e, b ≤ 3 ∧ c ≤ 24 ∧ e ≤ 3 ∧ y = 400 * a + 100 * b + 4 * c + e + 1 :=
  ⟨(y - 1) / 400, (y - 1) % 400 / 100, (y - 1) % 100 / 4, (y - 1) % 4, by omega, by omega, by omega, by omega⟩

/-- `fromOrdinal` in terms of its five digit extractions -/
theorem fromOrdinal_eq (n n400 n100 n4 n1 r4 : Nat)
    (h400 : (n - 1) / 146097 = n400) (h100 : (n - 1) % 146097 / 36524 = n100)
    (h4 : (n - 1) % 146097 % 36524 / 1461 = n4) (h1 : (n - 1) % 146097 % 36524 % 1461 / 365 = n1)
    (hr : (n - 1) % 146097 % 36524 % 1461 % 365 = r4) :
    fromOrdinal n =
      if n1 = 4 ∨ n100 = 4 then ⟨400 * n400 + 100 * n100 + 4 * n4 + n1 + 1 - 1, 12, 31⟩
      else ⟨400 * n400 + 100 * n100 + 4 * n4 + n1 + 1,
            (monthOfDoy (isLeap (400 * n400 + 100 * n100 + 4 * n4 + n1 + 1)) r4).1,
            (monthOfDoy (isLeap (400 * n400 + 100 * n100 + 4 * n4 + n1 + 1)) r4).2⟩ := by
  subst h400 h100 h4 h1 hr
  rfl

/-- day `t < 365` (zero-based) of the year with digits `a b c e` -/
theorem fromOrdinal_digits (a b c e t : Nat) (hb : b ≤ 3) (hc : c ≤ 24) (he : e ≤ 3) (ht : t < 365) :
    fromOrdinal (146097 * a + 36524 * b + 1461 * c + 365 * e + t + 1) =
      ⟨400 * a + 100 * b + 4 * c + e + 1,
       (monthOfDoy (isLeap (400 * a + 100 * b + 4 * c + e + 1)) t).1,
       (monthOfDoy (isLeap (400 * a + 100 * b + 4 * c + e + 1)) t).2⟩ := by
  have hn : 146097 * a + 36524 * b + 1461 * c + 365 * e + t + 1 - 1 = 146097 * a + 36524 * b + 1461 * c + 365 * e + t := by omega
  have h1 : (146097 * a + 36524 * b + 1461 * c + 365 * e + t) / 146097 = a := by omega
  have h2 : (146097 * a + 36524 * b + 1461 * c + 365 * e + t) % 146097 = 36524 * b + 1461 * c + 365 * e + t := by omega
  have h3 : (36524 * b + 1461 * c + 365 * e + t) / 36524 = b := by omega
  have h4 : (36524 * b + 1461 * c + 365 * e + t) % 36524 = 1461 * c + 365 * e + t := by omega
  have h5 : (1461 * c + 365 * e + t) / 1461 = c := by omega
  have h6 : (1461 * c + 365 * e + t) % 1461 = 365 * e + t := by omega
  have h7 : (365 * e + t) / 365 = e := by omega
  have h8 : (365 * e + t) % 365 = t := by omega
  rw [fromOrdinal_eq _ a b c e t (by rw [hn, h1]) (by rw [hn, h2, h3]) (by rw [hn, h2, h4, h5])
    (by rw [hn, h2, h4, h6, h7]) (by rw [hn, h2, h4, h6, h8])]
  have : ¬ (e = 4 ∨ b = 4) := by omega
  rw [if_neg this]

/-- the last day (zero-based day 365) of a leap year with digits `a b c 3` -/
theorem fromOrdinal_digits_last (a b c : Nat) (hb : b ≤ 3) (hc : c ≤ 24) (h : c < 24 ∨ b = 3) :
    fromOrdinal (146097 * a + 36524 * b + 1461 * c + 365 * 3 + 365 + 1) = ⟨400 * a + 100 * b + 4 * c + 3 + 1, 12, 31⟩ := by
  have hn : 146097 * a + 36524 * b + 1461 * c + 365 * 3 + 365 + 1 - 1 = 146097 * a + 36524 * b + 1461 * c + 1460 := by omega
  have h1 : (146097 * a + 36524 * b + 1461 * c + 1460) / 146097 = a := by omega
  have h2 : (146097 * a + 36524 * b + 1461 * c + 1460) % 146097 = 36524 * b + 1461 * c + 1460 := by omega
  by_cases hc24 : c < 24
  · have h3 : (36524 * b + 1461 * c + 1460) / 36524 = b := by omega
    have h4 : (36524 * b + 1461 * c + 1460) % 36524 = 1461 * c + 1460 := by omega
    have h5 : (1461 * c + 1460) / 1461 = c := by omega
    have h6 : (1461 * c + 1460) % 1461 = 1460 := by omega
    rw [fromOrdinal_eq _ a b c 4 0 (by rw [hn, h1]) (by rw [hn, h2, h3]) (by rw [hn, h2, h4, h5])
      (by rw [hn, h2, h4, h6]) (by rw [hn, h2, h4, h6])]
    rw [if_pos (Or.inl rfl)]
    congr 1
  · have hb3 : b = 3 := by omega
    have hc' : c = 24 := by omega
    subst hb3 hc'
    have h3 : (36524 * 3 + 1461 * 24 + 1460) / 36524 = 4 := by decide
    have h4 : (36524 * 3 + 1461 * 24 + 1460) % 36524 = 0 := by decide
    rw [fromOrdinal_eq _ a 4 0 0 0 (by rw [hn, h1]) (by rw [hn, h2, h3]) (by rw [hn, h2, h4])
      (by rw [hn, h2, h4]) (by rw [hn, h2, h4])]
    rw [if_pos (Or.inr rfl)]
    congr 1

/-! ### day of year of a valid date -/

theorem valid_iff (t : Date) : t.valid = true ↔
    (1 ≤ t.y ∧ 1 ≤ t.m ∧ t.m ≤ 12 ∧ 1 ≤ t.d ∧ t.d ≤ monthLenL (isLeap t.y) t.m) := by
  simp only [Date.valid, monthLen, Bool.and_eq_true, decide_eq_true_eq, and_assoc]
  constructor
  · rintro ⟨h1, h2, h3, h4, h5⟩; exact ⟨h1, h2, h3, h4, of_decide_eq_true h5⟩
  · rintro ⟨h1, h2, h3, h4, h5⟩; exact ⟨h1, h2, h3, h4, decide_eq_true h5⟩

theorem doy_bound (leap : Bool) (m d : Nat) (hm1 : 1 ≤ m) (hm : m ≤ 12) (hd : d ≤ monthLenL leap m) :
    daysBeforeMonth leap m + d ≤ (if leap then 366 else 365) := by
  have h1 := daysBeforeMonth_succ leap m (by omega) hm1
  have h2 := daysBeforeMonth_mono leap (m + 1) (by omega) 13 (by omega) ⟨by omega, by omega⟩
  rw [daysBeforeMonth_13] at h2
  omega

/-- **Round trip 1**: `fromOrdinal (toOrdinal t) = t` for every valid date -/
theorem fromOrdinal_toOrdinal (t : Date) (h : t.valid = true) : fromOrdinal (toOrdinal t) = t := by
  obtain ⟨y, m, d⟩ := t
  rw [valid_iff] at h
  obtain ⟨hy, hm1, hm, hd1, hd⟩ := h
  simp only at hy hm1 hm hd1 hd
  obtain ⟨a, b, c, e, hb, hc, he, rfl⟩ := year_digits y hy
  have hbound := doy_bound _ m d hm1 hm hd
  have hinv := monthOfDoy_inv (isLeap (400 * a + 100 * b + 4 * c + e + 1)) m (by omega) d
    (by have := monthLenL_le (isLeap (400 * a + 100 * b + 4 * c + e + 1)) m (by omega); omega) ⟨hm1, hd1, hd⟩
  simp only [toOrdinal]
  rw [dby_digits a b c e hb hc he]
  generalize hL : isLeap (400 * a + 100 * b + 4 * c + e + 1) = L at *
  generalize ht : daysBeforeMonth L m + d - 1 = t at hinv
  have hdoy : daysBeforeMonth L m + d = t + 1 := by omega
  by_cases hlt : t < 365
  · have := fromOrdinal_digits a b c e t hb hc he hlt
    rw [hL, hinv] at this
    rw [show 146097 * a + 36524 * b + 1461 * c + 365 * e + daysBeforeMonth L m + d
          = 146097 * a + 36524 * b + 1461 * c + 365 * e + t + 1 by omega, this]
  · -- day 366 of a leap year
    have hLt : L = true := by
      cases L with
      | true => rfl
      | false => simp at hbound; omega
    subst hLt
    have ht365 : t = 365 := by simp at hbound; omega
    subst ht365
    have hmd : ((12 : Nat), (31 : Nat)) = (m, d) := by
      rw [← hinv]; decide
    have hm12 : m = 12 := by have := congrArg Prod.fst hmd; simp at this; omega
    have hd31 : d = 31 := by have := congrArg Prod.snd hmd; simp at this; omega
    subst hm12 hd31
    obtain ⟨he3, hcb⟩ := (isLeap_digits a b c e hb hc he).1 hL
    subst he3
    have := fromOrdinal_digits_last a b c hb hc hcb
    rw [show 146097 * a + 36524 * b + 1461 * c + 365 * 3 + daysBeforeMonth true 12 + 31
          = 146097 * a + 36524 * b + 1461 * c + 365 * 3 + 365 + 1 by
            have : daysBeforeMonth true 12 = 335 := by decide
            omega, this]

/-- **Round trip 2**: every day number `n ≥ 1` is the ordinal of a valid date, namely `fromOrdinal n` -/
theorem toOrdinal_fromOrdinal (n : Nat) (hn : 1 ≤ n) :
    (fromOrdinal n).valid = true ∧ toOrdinal (fromOrdinal n) = n := by
  have hdec : n - 1 = 146097 * ((n - 1) / 146097) + 36524 * ((n - 1) % 146097 / 36524)
      + 1461 * ((n - 1) % 146097 % 36524 / 1461) + 365 * ((n - 1) % 146097 % 36524 % 1461 / 365)
      + (n - 1) % 146097 % 36524 % 1461 % 365 := by omega
  generalize ha : (n - 1) / 146097 = a at hdec
  generalize hb : (n - 1) % 146097 / 36524 = b at hdec
  generalize hc : (n - 1) % 146097 % 36524 / 1461 = c at hdec
  generalize he : (n - 1) % 146097 % 36524 % 1461 / 365 = e at hdec
  generalize hr : (n - 1) % 146097 % 36524 % 1461 % 365 = r4 at hdec
  have hb4 : b ≤ 4 := by omega
  have hc24 : c ≤ 24 := by omega
  have he4 : e ≤ 4 := by omega
  have hr4 : r4 < 365 := by omega
  rw [fromOrdinal_eq n a b c e r4 ha hb hc he hr]
  by_cases hb4' : b = 4
  · -- last day of a 400-year cycle
    subst hb4'
    have hc0 : c = 0 := by omega
    have he0 : e = 0 := by omega
    have hr0 : r4 = 0 := by omega
    subst hc0 he0 hr0
    rw [if_pos (Or.inr rfl)]
    have hy : 400 * a + 100 * 4 + 4 * 0 + 0 + 1 - 1 = 400 * a + 100 * 3 + 4 * 24 + 3 + 1 := by omega
    rw [hy]
    have hleap := (isLeap_digits a 3 24 3 (by omega) (by omega) (by omega)).2 ⟨rfl, Or.inr rfl⟩
    refine ⟨?_, ?_⟩
    · rw [valid_iff]; simp only [hleap]; refine ⟨by omega, by omega, by omega, by omega, by decide⟩
    · simp only [toOrdinal, hleap]
      rw [dby_digits a 3 24 3 (by omega) (by omega) (by omega)]
      have : daysBeforeMonth true 12 = 335 := by decide
      omega
  · by_cases he4' : e = 4
    · -- last day of a 4-year cycle
      subst he4'
      have hr0 : r4 = 0 := by omega
      have hc23 : c < 24 := by omega
      subst hr0
      rw [if_pos (Or.inl rfl)]
      have hy : 400 * a + 100 * b + 4 * c + 4 + 1 - 1 = 400 * a + 100 * b + 4 * c + 3 + 1 := by omega
      rw [hy]
      have hleap := (isLeap_digits a b c 3 (by omega) (by omega) (by omega)).2 ⟨rfl, Or.inl hc23⟩
      refine ⟨?_, ?_⟩
      · rw [valid_iff]; simp only [hleap]; refine ⟨by omega, by omega, by omega, by omega, by decide⟩
      · simp only [toOrdinal, hleap]
        rw [dby_digits a b c 3 (by omega) (by omega) (by omega)]
        have : daysBeforeMonth true 12 = 335 := by decide
        omega
    · have hb3 : b ≤ 3 := by omega
      have he3 : e ≤ 3 := by omega
      rw [if_neg (by omega)]
      have hspec := monthOfDoy_spec (isLeap (400 * a + 100 * b + 4 * c + e + 1)) r4
        (by cases isLeap (400 * a + 100 * b + 4 * c + e + 1) <;> simp <;> omega)
      obtain ⟨h1, h2, h3, h4, h5⟩ := hspec
      refine ⟨?_, ?_⟩
      · rw [valid_iff]; exact ⟨Nat.le_add_left 1 _, h1, h2, h3, h4⟩
      · simp only [toOrdinal]
        rw [dby_digits a b c e hb3 hc24 he3]
        omega

/-! ### monotonicity -/

theorem daysBeforeYear_succ (y : Nat) (hy : 1 ≤ y) :
    daysBeforeYear (y + 1) = daysBeforeYear y + yearLen y := by
  obtain ⟨a, b, c, e, hb, hc, he, rfl⟩ := year_digits y hy
  rw [dby_digits a b c e hb hc he]
  unfold yearLen
  by_cases hL : isLeap (400 * a + 100 * b + 4 * c + e + 1) = true
  · rw [if_pos hL]
    obtain ⟨he3, hcb⟩ := (isLeap_digits a b c e hb hc he).1 hL
    subst he3
    -- the next year starts a new 4-year digit
    by_cases hc23 : c < 24
    · have : 400 * a + 100 * b + 4 * c + 3 + 1 + 1 = 400 * a + 100 * b + 4 * (c + 1) + 0 + 1 := by omega
      rw [this, dby_digits a b (c + 1) 0 hb (by omega) (by omega)]; omega
    · have hb3 : b = 3 := by omega
      have hc' : c = 24 := by omega
      subst hb3 hc'
      have : 400 * a + 100 * 3 + 4 * 24 + 3 + 1 + 1 = 400 * (a + 1) + 100 * 0 + 4 * 0 + 0 + 1 := by omega
      rw [this, dby_digits (a + 1) 0 0 0 (by omega) (by omega) (by omega)]; omega
  · rw [if_neg hL]
    have hnl : ¬ (e = 3 ∧ (c < 24 ∨ b = 3)) := fun h => hL ((isLeap_digits a b c e hb hc he).2 h)
    by_cases he3 : e = 3
    · -- a common year divisible by 4: c = 24, b < 3
      subst he3
      have hc' : c = 24 := by omega
      have hb' : b < 3 := by omega
      subst hc'
      have : 400 * a + 100 * b + 4 * 24 + 3 + 1 + 1 = 400 * a + 100 * (b + 1) + 4 * 0 + 0 + 1 := by omega
      rw [this, dby_digits a (b + 1) 0 0 (by omega) (by omega) (by omega)]; omega
    · have : 400 * a + 100 * b + 4 * c + e + 1 + 1 = 400 * a + 100 * b + 4 * c + (e + 1) + 1 := by omega
      rw [this, dby_digits a b c (e + 1) hb hc (by omega)]; omega

theorem daysBeforeYear_mono (y : Nat) (hy : 1 ≤ y) (k : Nat) :
    daysBeforeYear y + yearLen y ≤ daysBeforeYear (y + 1 + k) := by
  induction k with
  | zero => rw [daysBeforeYear_succ y hy]; exact Nat.le_refl _
  | succ k ih =>
      have := daysBeforeYear_succ (y + 1 + k) (by omega)
      rw [show y + 1 + (k + 1) = y + 1 + k + 1 by omega, this]
      omega

/-- **Monotone**: the day number is strictly increasing in (year, month, day) on valid dates -/
theorem toOrdinal_lt (s t : Date) (hs : s.valid = true) (ht : t.valid = true) (h : Date.lt s t) :
    toOrdinal s < toOrdinal t := by
  rw [valid_iff] at hs ht
  obtain ⟨hsy, hsm1, hsm, hsd1, hsd⟩ := hs
  obtain ⟨hty, htm1, htm, htd1, htd⟩ := ht
  unfold toOrdinal
  rcases h with hy | ⟨hy, hm | ⟨hm, hd⟩⟩
  · have h1 := daysBeforeYear_mono s.y hsy (t.y - s.y - 1)
    rw [show s.y + 1 + (t.y - s.y - 1) = t.y by omega] at h1
    have h2 := doy_bound (isLeap s.y) s.m s.d hsm1 hsm hsd
    unfold yearLen at h1
    cases hL : isLeap s.y <;> simp [hL] at h1 h2 <;> omega
  · rw [hy] at hsd ⊢
    have h1 := daysBeforeMonth_succ (isLeap t.y) s.m (by omega) hsm1
    have h2 := daysBeforeMonth_mono (isLeap t.y) (s.m + 1) (by omega) t.m (by omega) ⟨by omega, by omega⟩
    omega
  · rw [hy, hm]; omega

end StarsimModel.Calendar
