/-
Helper lemmas for C19 (Model/Pregnancy.lean).
-/
import StarsimModel.Model.Pregnancy

namespace StarsimModel.Pregnancy

/-! ### indexed maps -/

theorem getElem?_mapIdx {α β : Type} (f : Nat → α → β) : ∀ (l : List α) (i k : Nat),
    (mapIdx f l i)[k]? = (l[k]?).map (f (i + k))
  | [], i, k => by simp [mapIdx]
  | a :: as, i, 0 => by simp [mapIdx]
  | a :: as, i, k + 1 => by
      simp only [mapIdx, List.getElem?_cons_succ]
      rw [getElem?_mapIdx f as (i + 1) k]
      congr 2; omega

theorem length_mapIdx {α β : Type} (f : Nat → α → β) : ∀ (l : List α) (i : Nat), (mapIdx f l i).length = l.length
  | [], i => rfl
  | a :: as, i => by simp [mapIdx, length_mapIdx f as (i + 1)]

theorem mem_mapIdx {α β : Type} {f : Nat → α → β} {l : List α} {b : β} (h : b ∈ mapIdx f l 0) :
    ∃ k a, l[k]? = some a ∧ b = f k a := by
  obtain ⟨k, hk⟩ := List.getElem?_of_mem h
  rw [getElem?_mapIdx] at hk
  cases hl : l[k]? with
  | none => simp [hl] at hk
  | some a => simp [hl] at hk; exact ⟨k, a, hl, hk.symm⟩

theorem mem_uidsWhere {f : Nat → Agent → Bool} {l : List Agent} {u : Nat} :
    u ∈ uidsWhere f l ↔ ∃ a, l[u]? = some a ∧ f u a = true := by
  simp only [uidsWhere, List.mem_filterMap]
  constructor
  · rintro ⟨x, hx, hu⟩
    obtain ⟨k, a, hk, rfl⟩ := mem_mapIdx hx
    by_cases hf : f k a = true
    · simp [hf] at hu; subst hu; exact ⟨a, hk, hf⟩
    · simp [hf] at hu
  · rintro ⟨a, ha, hf⟩
    refine ⟨(u, f u a), ?_, by simp [hf]⟩
    apply List.mem_of_getElem? (i := u)
    rw [getElem?_mapIdx]; simp [ha]

theorem getA_of_getElem? {l : List Agent} {u : Nat} {a : Agent} (h : l[u]? = some a) : getA l u = a := by
  simp [getA, List.getD_eq_getElem?_getD, h]

/-! ### per-agent facts -/

theorem excl_deliver (ti : Rat) (a : Agent) (h : a.excl = true) : (a.deliver ti).excl = true := by
  unfold Agent.deliver; split
  · simp [Agent.excl]
  · exact h

theorem excl_endPostpartum (ti : Rat) (a : Agent) (h : a.excl = true) : (a.endPostpartum ti).excl = true := by
  unfold Agent.endPostpartum; split
  · rename_i hc
    simp only [Bool.and_eq_true] at hc
    have hp := hc.1.2
    revert h; simp only [Agent.excl, hp]; cases a.fecund <;> cases a.pregnant <;> simp
  · exact h

theorem excl_maternalDeath (ti st : Rat) (a : Agent) (h : a.excl = true) : (a.maternalDeath ti st).excl = true := by
  unfold Agent.maternalDeath; split <;> exact h

theorem excl_ageBy (dt : Rat) (a : Agent) (h : a.excl = true) : (a.ageBy dt).excl = true := by
  unfold Agent.ageBy; split <;> exact h

theorem clip01_nonneg (x : Rat) : 0 ≤ clip01 x := by
  unfold clip01; split
  · exact Rat.le_refl
  · split
    · decide
    · rename_i h _; exact Rat.not_lt.mp h

/-- a woman conceives only if her probability is positive, hence only if eligible (draws are ≥ 0) -/
theorem conceives_eligible {p : Pars} {d : Draws} {u : Nat} {a : Agent} (hd : 0 ≤ d.draw u)
    (h : a.conceives p d u = true) :
    a.active = true ∧ a.female = true ∧ a.fecund = true ∧ p.minAge ≤ a.age ∧ a.age ≤ p.maxAge := by
  simp only [Agent.conceives, Bool.and_eq_true, decide_eq_true_eq] at h
  obtain ⟨⟨ha, hf⟩, hlt⟩ := h
  unfold Agent.fertilityProb at hlt
  split at hlt
  · exact absurd hlt (by grind)
  · rename_i hc
    simp only [Bool.or_eq_true, Bool.not_eq_eq_eq_not, Bool.not_true, decide_eq_true_eq, not_or, Bool.not_eq_false,
      Rat.not_lt] at hc
    exact ⟨ha, hf, hc.1.1, hc.1.2, hc.2⟩

theorem excl_setPrognoses {p : Pars} {ti : Rat} {d : Draws} {u : Nat} {a : Agent} (c : Option Nat)
    (h : a.excl = true) (hf : a.fecund = true) : ({ a.setPrognoses p ti d u with child := c } : Agent).excl = true := by
  revert h; simp only [Agent.excl, Agent.setPrognoses, hf]; cases a.pregnant <;> cases a.postpartum <;> simp

theorem excl_embryo (p : Pars) (ti : Rat) (d : Draws) (m : Nat) : (embryo p ti d m).excl = true := by
  simp [embryo, Agent.excl]

/-! ### exclusivity through the steps -/

def Excl (s : State) : Prop := ∀ a ∈ s.agents, a.excl = true

/-- every draw of the step is ≥ 0 (uniform variates) -/
def Draws.ok (d : Draws) : Prop := ∀ u, 0 ≤ d.draw u

theorem updateStates_excl {p : Pars} {ti st : Rat} {s s' : State} (h : updateStates p ti st s = .ok s') (e : Excl s) :
    Excl s' := by
  unfold updateStates at h
  dsimp only at h
  split at h
  · simp at h
  · simp only [Except.ok.injEq] at h; subst h
    intro a ha
    simp only [List.mem_map] at ha
    obtain ⟨a3, ⟨a2, ⟨a1, h1, rfl⟩, rfl⟩, rfl⟩ := ha
    exact excl_maternalDeath _ _ _ (excl_endPostpartum _ _ (excl_deliver _ _ (e a1 h1)))

theorem conceive_excl {p : Pars} {ti : Rat} {d : Draws} {s s' : State} (hd : d.ok) (h : conceive p ti d s = .ok s')
    (e : Excl s) : Excl s' := by
  unfold conceive at h
  dsimp only at h
  split at h
  · simp at h
  · simp only [Except.ok.injEq] at h; subst h
    intro a ha
    simp only [List.mem_append, List.mem_map] at ha
    rcases ha with ha | ⟨m, _, rfl⟩
    · obtain ⟨k, b, hk, rfl⟩ := mem_mapIdx ha
      have hb := e b (List.mem_of_getElem? hk)
      split
      · rename_i hc
        have hm : k ∈ uidsWhere (fun u a => a.conceives p d u) s.agents := by simpa using hc
        obtain ⟨b', hb', hcon⟩ := mem_uidsWhere.mp hm
        rw [hk] at hb'; cases hb'
        exact excl_setPrognoses _ hb (conceives_eligible (hd k) hcon).2.2.1
      · exact hb
    · exact excl_embryo _ _ _ _

theorem doStep_excl {p : Pars} {ti st : Rat} {d : Draws} {s s' : State} (hd : d.ok) (h : doStep p ti st d s = .ok s')
    (e : Excl s) : Excl s' := by
  unfold doStep at h
  split at h
  · simp at h
  · rename_i s1 h1
    exact conceive_excl hd h (updateStates_excl h1 e)

theorem Draws.default_ok : ({} : Draws).ok := by intro u; show (0 : Rat) ≤ 1; decide

theorem runBurn_excl {p : Pars} {st : Rat} : ∀ (ts : List Int) (ds : List Draws) {s s' : State},
    (∀ d ∈ ds, d.ok) → runBurn p st ts ds s = .ok s' → Excl s → Excl s'
  | [], _, s, s', _, h, e => by simp only [runBurn, Except.ok.injEq] at h; subst h; exact e
  | t :: ts, ds, s, s', hd, h, e => by
      simp only [runBurn] at h
      split at h
      · simp at h
      · rename_i s1 h1
        have hhead : (ds.headD {}).ok := by
          cases ds with
          | nil => exact Draws.default_ok
          | cons d _ => exact hd d (by simp)
        exact runBurn_excl ts ds.tail (fun d hm => hd d (List.mem_of_mem_tail hm)) h (doStep_excl hhead h1 e)

theorem mapIdx_excl {f : Nat → Agent → Agent} {l : List Agent} (hf : ∀ k a, a.excl = true → (f k a).excl = true)
    (e : ∀ a ∈ l, a.excl = true) : ∀ a ∈ mapIdx f l 0, a.excl = true := by
  intro a ha
  obtain ⟨k, b, hk, rfl⟩ := mem_mapIdx ha
  exact hf k b (e b (List.mem_of_getElem? hk))

def StepIn.ok (i : StepIn) : Prop := i.draws.ok ∧ ∀ d ∈ i.burn, d.ok

theorem simStep_excl {p : Pars} {ti : Nat} {i : StepIn} {s s' : State} (hi : i.ok) (h : simStep p ti i s = .ok s')
    (e : Excl s) : Excl s' := by
  unfold simStep at h
  split at h
  · simp at h
  · rename_i s1 h1
    simp only [Except.ok.injEq] at h; subst h
    unfold stepToTransmission at h1
    split at h1
    · simp at h1
    · rename_i s0 h0
      simp only [Except.ok.injEq] at h1; subst h1
      -- request_death keeps exclusivity
      have e0 : Excl (requestDeath ti i.deaths s) := by
        intro a ha
        exact mapIdx_excl (fun k a h => by split <;> exact h) e a ha
      have e1 : Excl s0 := by
        unfold pregStep at h0
        split at h0
        · split at h0
          · simp at h0
          · rename_i sb hb
            exact doStep_excl hi.1 h0 (runBurn_excl _ _ hi.2 hb e0)
        · exact doStep_excl hi.1 h0 e0
      -- matStep, stepDie, finishStep, removeDead, ageing
      intro a ha
      simp only [stepFinish, ageing, removeDead, List.mem_map] at ha
      obtain ⟨a2, ⟨a1, ha1, rfl⟩, rfl⟩ := ha
      apply excl_ageBy
      have : a1.excl = true := by
        simp only [finishStep] at ha1
        refine mapIdx_excl (fun k a h => ?_) (mapIdx_excl (fun k a h => ?_) ?_) a1 ha1
        · split
          · simp [Agent.excl]
          · exact h
        · split <;> exact h
        · intro b hb
          simp only [stepDie, matStep, List.mem_map] at hb
          obtain ⟨b0, hb0, rfl⟩ := hb
          split <;> exact e1 b0 hb0
      split <;> exact this

theorem run_excl {p : Pars} : ∀ (ins : List StepIn) (ti : Nat) {s s' : State}, (∀ i ∈ ins, i.ok) →
    run p ti ins s = .ok s' → Excl s → Excl s'
  | [], _, s, s', _, h, e => by simp only [run, Except.ok.injEq] at h; subst h; exact e
  | i :: is, ti, s, s', hi, h, e => by
      simp only [run] at h
      split at h
      · simp at h
      · rename_i s1 h1
        exact run_excl is (ti + 1) (fun j hj => hi j (by simp [hj])) h (simStep_excl (hi i (by simp)) h1 e)

/-! ### ceilings -/

theorem ceil_shift (g : Rat) (tc t : Int) : ((tc : Rat) + g ≤ (t : Rat)) ↔ (tc + g.ceil ≤ t) := by
  have h1 : ((tc : Rat) + g ≤ (t : Rat)) ↔ (g ≤ ((t - tc : Int) : Rat)) := by
    rw [Rat.intCast_sub]; constructor <;> intro h <;> grind
  rw [h1, ← Rat.ceil_le_iff]; omega

theorem le_ceil (g : Rat) : g ≤ (g.ceil : Rat) := Rat.ceil_le_iff.mp (Int.le_refl _)

theorem ceil_lt_add_one (g : Rat) : (g.ceil : Rat) < g + 1 := by
  have h : (g.ceil - 1 : Int) < g.ceil := by omega
  have := Rat.lt_ceil_iff.mp h
  rw [Rat.intCast_sub] at this
  have h1 : ((1 : Int) : Rat) = 1 := rfl
  rw [h1] at this
  grind

end StarsimModel.Pregnancy

namespace StarsimModel.Pregnancy

/-! ### whole-history link invariants -/

/-- per-agent part: exclusive flags, a child link only while pregnant or post-partum, and every pregnancy has one -/
def Agent.ok (a : Agent) : Bool :=
  a.excl && (a.child.isNone || a.pregnant || a.postpartum) && (!a.pregnant || a.child.isSome)

/-- relational part: `child_uid[m] = c` implies `parent[c] = m` -/
def Links (l : List Agent) : Prop :=
  ∀ (m : Nat) (a : Agent) (c : Nat), l[m]? = some a → a.child = some c → ∃ b : Agent, l[c]? = some b ∧ b.parent = some m

/-- every maternal edge joins a mother and her child -/
def EdgesJoin (l : List Agent) (es : List Edge) : Prop :=
  ∀ e ∈ es, ∃ b : Agent, l[e.p2]? = some b ∧ b.parent = some e.p1

/-- a per-agent update that keeps `parent` and keeps or clears `child` -/
def Gentle (f : Nat → Agent → Agent) : Prop :=
  ∀ k a, (f k a).parent = a.parent ∧ ((f k a).child = a.child ∨ (f k a).child = none)

theorem Links_mapIdx {f : Nat → Agent → Agent} {l : List Agent} (hf : Gentle f) (h : Links l) : Links (mapIdx f l 0) := by
  intro m a' c hm hc
  rw [getElem?_mapIdx] at hm
  cases hl : l[m]? with
  | none => simp [hl] at hm
  | some a =>
      simp only [hl, Option.map_some, Nat.zero_add, Option.some.injEq] at hm; subst hm
      have hca : a.child = some c := by
        rcases (hf m a).2 with h1 | h1
        · rw [← h1]; exact hc
        · rw [h1] at hc; cases hc
      obtain ⟨b, hb, hp⟩ := h m a c hl hca
      exact ⟨f c b, by rw [getElem?_mapIdx, hb]; simp, by rw [(hf c b).1]; exact hp⟩

theorem map_eq_mapIdx {α β : Type} (g : α → β) : ∀ (l : List α) (i : Nat), l.map g = mapIdx (fun _ => g) l i
  | [], _ => rfl
  | a :: as, i => by simp [mapIdx, map_eq_mapIdx g as (i + 1)]

theorem Links_map {g : Agent → Agent} {l : List Agent} (hg : Gentle (fun _ => g)) (h : Links l) : Links (l.map g) := by
  rw [map_eq_mapIdx g l 0]; exact Links_mapIdx hg h

theorem EdgesJoin_mapIdx {f : Nat → Agent → Agent} {l : List Agent} {es : List Edge} (hf : Gentle f) (h : EdgesJoin l es) :
    EdgesJoin (mapIdx f l 0) es := by
  intro e he
  obtain ⟨b, hb, hp⟩ := h e he
  exact ⟨f e.p2 b, by rw [getElem?_mapIdx, hb]; simp, by rw [(hf e.p2 b).1]; exact hp⟩

theorem EdgesJoin_map {g : Agent → Agent} {l : List Agent} {es : List Edge} (hg : Gentle (fun _ => g)) (h : EdgesJoin l es) :
    EdgesJoin (l.map g) es := by
  rw [map_eq_mapIdx g l 0]; exact EdgesJoin_mapIdx hg h

theorem EdgesJoin_sub {l : List Agent} {es es' : List Edge} (h : EdgesJoin l es) (hs : ∀ e ∈ es', e ∈ es) : EdgesJoin l es' :=
  fun e he => h e (hs e he)

theorem gentle_deliver (ti : Rat) : Gentle (fun _ => Agent.deliver ti) := by
  intro k a
  show (Agent.deliver ti a).parent = a.parent ∧ ((Agent.deliver ti a).child = a.child ∨ (Agent.deliver ti a).child = none)
  unfold Agent.deliver; split <;> simp
theorem gentle_endPostpartum (ti : Rat) : Gentle (fun _ => Agent.endPostpartum ti) := by
  intro k a
  show (Agent.endPostpartum ti a).parent = a.parent ∧ ((Agent.endPostpartum ti a).child = a.child ∨ (Agent.endPostpartum ti a).child = none)
  unfold Agent.endPostpartum; split <;> simp
theorem gentle_maternalDeath (ti st : Rat) : Gentle (fun _ => Agent.maternalDeath ti st) := by
  intro k a
  show (Agent.maternalDeath ti st a).parent = a.parent ∧ ((Agent.maternalDeath ti st a).child = a.child ∨ (Agent.maternalDeath ti st a).child = none)
  unfold Agent.maternalDeath; split <;> simp
theorem gentle_ageBy (dt : Rat) : Gentle (fun _ => Agent.ageBy dt) := by
  intro k a
  show (Agent.ageBy dt a).parent = a.parent ∧ ((Agent.ageBy dt a).child = a.child ∨ (Agent.ageBy dt a).child = none)
  unfold Agent.ageBy; split <;> simp

/-- the whole-state invariant -/
structure Inv (s : State) : Prop where
  ok : ∀ a ∈ s.agents, a.ok = true
  links : Links s.agents
  pre : EdgesJoin s.agents s.pre
  post : EdgesJoin s.agents s.post

theorem ok_excl {a : Agent} (h : a.ok = true) : a.excl = true := by
  simp only [Agent.ok, Bool.and_eq_true] at h; exact h.1.1

theorem ok_deliver (ti : Rat) (a : Agent) (h : a.ok = true) : (a.deliver ti).ok = true := by
  unfold Agent.deliver; split
  · revert h; simp only [Agent.ok, Agent.excl]; cases a.child <;> simp
  · exact h

theorem ok_endPostpartum (ti : Rat) (a : Agent) (h : a.ok = true) : (a.endPostpartum ti).ok = true := by
  unfold Agent.endPostpartum; split
  · rename_i hc
    simp only [Bool.and_eq_true] at hc
    have hp := hc.1.2
    revert h; simp only [Agent.ok, Agent.excl, hp]; cases a.fecund <;> cases a.pregnant <;> cases a.child <;> simp
  · exact h

theorem ok_maternalDeath (ti st : Rat) (a : Agent) (h : a.ok = true) : (a.maternalDeath ti st).ok = true := by
  unfold Agent.maternalDeath; split <;> exact h

theorem ok_ageBy (dt : Rat) (a : Agent) (h : a.ok = true) : (a.ageBy dt).ok = true := by
  unfold Agent.ageBy; split <;> exact h

theorem ok_setPrognoses {p : Pars} {ti : Rat} {d : Draws} {u : Nat} {a : Agent} (c : Nat)
    (h : a.ok = true) (hf : a.fecund = true) : ({ a.setPrognoses p ti d u with child := some c } : Agent).ok = true := by
  revert h; simp only [Agent.ok, Agent.excl, Agent.setPrognoses, hf]; cases a.pregnant <;> cases a.postpartum <;> simp

theorem ok_embryo (p : Pars) (ti : Rat) (d : Draws) (m : Nat) : (embryo p ti d m).ok = true := by
  simp [embryo, Agent.ok, Agent.excl]

theorem updateStates_inv {p : Pars} {ti st : Rat} {s s' : State} (h : updateStates p ti st s = .ok s') (i : Inv s) : Inv s' := by
  unfold updateStates at h
  dsimp only at h
  have hg : ∀ (l : List Agent), Links l → Links (((l.map (Agent.deliver ti)).map (Agent.endPostpartum ti)).map (Agent.maternalDeath ti st)) :=
    fun l hl => Links_map (gentle_maternalDeath ti st) (Links_map (gentle_endPostpartum ti) (Links_map (gentle_deliver ti) hl))
  have he : ∀ (l : List Agent) (es : List Edge), EdgesJoin l es →
      EdgesJoin (((l.map (Agent.deliver ti)).map (Agent.endPostpartum ti)).map (Agent.maternalDeath ti st)) es :=
    fun l es hl => EdgesJoin_map (gentle_maternalDeath ti st) (EdgesJoin_map (gentle_endPostpartum ti) (EdgesJoin_map (gentle_deliver ti) hl))
  split at h
  · simp at h
  · rename_i pre' post' hmoved
    simp only [Except.ok.injEq] at h; subst h
    have hok : ∀ a ∈ ((s.agents.map (Agent.deliver ti)).map (Agent.endPostpartum ti)).map (Agent.maternalDeath ti st), a.ok = true := by
      intro a ha
      simp only [List.mem_map] at ha
      obtain ⟨a3, ⟨a2, ⟨a1, h1, rfl⟩, rfl⟩, rfl⟩ := ha
      exact ok_maternalDeath _ _ _ (ok_endPostpartum _ _ (ok_deliver _ _ (i.ok a1 h1)))
    split at hmoved
    · split at hmoved
      · simp only [Except.ok.injEq, Prod.mk.injEq] at hmoved
        obtain ⟨rfl, rfl⟩ := hmoved
        refine ⟨hok, hg _ i.links, he _ _ (EdgesJoin_sub i.pre (fun e he => (List.mem_filter.mp he).1)), ?_⟩
        apply he
        intro e hme
        rcases List.mem_append.mp hme with hme | hme
        · exact i.post e hme
        · simp only [List.mem_map, List.mem_filter] at hme
          obtain ⟨e0, ⟨he0, _⟩, rfl⟩ := hme
          exact i.pre e0 he0
      · simp at hmoved
    · simp only [Except.ok.injEq, Prod.mk.injEq] at hmoved
      obtain ⟨rfl, rfl⟩ := hmoved
      exact ⟨hok, hg _ i.links, he _ _ i.pre, he _ _ i.post⟩

theorem mem_mapIdx_gen {α β : Type} {f : Nat → α → β} {l : List α} {b : β} (h : b ∈ mapIdx f l 0) :
    ∃ k a, l[k]? = some a ∧ b = f k a := by
  obtain ⟨k, hk⟩ := List.getElem?_of_mem h
  rw [getElem?_mapIdx] at hk
  cases hl : l[k]? with
  | none => simp [hl] at hk
  | some a => simp [hl] at hk; exact ⟨k, a, hl, hk.symm⟩

theorem conceive_inv {p : Pars} {ti : Rat} {d : Draws} {s s' : State} (hd : d.ok) (h : conceive p ti d s = .ok s')
    (i : Inv s) : Inv s' := by
  unfold conceive at h
  dsimp only at h
  split at h
  · simp at h
  · simp only [Except.ok.injEq] at h; subst h
    -- abbreviations
    generalize hM : uidsWhere (fun u a => a.conceives p d u) s.agents = mothers
    have hlen : (mapIdx (fun u a => if mothers.contains u then
        ({ a.setPrognoses p ti d u with child := some (s.agents.length + List.idxOf u mothers) } : Agent) else a) s.agents 0).length
        = s.agents.length := length_mapIdx _ _ _
    -- where things are in the new list
    have hold : ∀ u (a : Agent), s.agents[u]? = some a →
        (mapIdx (fun u a => if mothers.contains u then
          ({ a.setPrognoses p ti d u with child := some (s.agents.length + List.idxOf u mothers) } : Agent) else a) s.agents 0 ++
          mothers.map (embryo p ti d))[u]? =
        some (if mothers.contains u then
          ({ a.setPrognoses p ti d u with child := some (s.agents.length + List.idxOf u mothers) } : Agent) else a) := by
      intro u a ha
      have hlt : u < s.agents.length := (List.getElem?_eq_some_iff.mp ha).1
      rw [List.getElem?_append_left (by rw [hlen]; exact hlt), getElem?_mapIdx, ha]; simp
    have hkid : ∀ k m, mothers[k]? = some m →
        (mapIdx (fun u a => if mothers.contains u then
          ({ a.setPrognoses p ti d u with child := some (s.agents.length + List.idxOf u mothers) } : Agent) else a) s.agents 0 ++
          mothers.map (embryo p ti d))[s.agents.length + k]? = some (embryo p ti d m) := by
      intro k m hk
      rw [List.getElem?_append_right (by rw [hlen]; omega), hlen, Nat.add_sub_cancel_left, List.getElem?_map, hk]; rfl
    have hparent : ∀ u (a : Agent), (if mothers.contains u then
          ({ a.setPrognoses p ti d u with child := some (s.agents.length + List.idxOf u mothers) } : Agent) else a).parent = a.parent := by
      intro u a; split <;> rfl
    refine ⟨?_, ?_, ?_, ?_⟩
    · intro a ha
      simp only [List.mem_append, List.mem_map] at ha
      rcases ha with ha | ⟨m, _, rfl⟩
      · obtain ⟨k, b, hk, rfl⟩ := mem_mapIdx ha
        have hb := i.ok b (List.mem_of_getElem? hk)
        split
        · rename_i hc
          have hm : k ∈ uidsWhere (fun u a => a.conceives p d u) s.agents := by rw [hM]; simpa using hc
          obtain ⟨b', hb', hcon⟩ := mem_uidsWhere.mp hm
          rw [hk] at hb'; cases hb'
          exact ok_setPrognoses _ hb (conceives_eligible (hd k) hcon).2.2.1
        · exact hb
      · exact ok_embryo _ _ _ _
    · intro m a' c hm hc
      by_cases hlt : m < s.agents.length
      · obtain ⟨a, ha⟩ : ∃ a, s.agents[m]? = some a := ⟨s.agents[m], List.getElem?_eq_getElem hlt⟩
        rw [hold m a ha] at hm
        simp only [Option.some.injEq] at hm; subst hm
        by_cases hmo : mothers.contains m = true
        · simp only [hmo, ↓reduceIte, Option.some.injEq] at hc; subst hc
          have hmem : m ∈ mothers := by simpa using hmo
          have hidx := List.idxOf_lt_length_of_mem hmem
          refine ⟨embryo p ti d m, hkid _ m ?_, by simp [embryo]⟩
          rw [List.getElem?_eq_getElem hidx]; simp [List.getElem_idxOf]
        · simp only [hmo, Bool.false_eq_true, ↓reduceIte] at hc
          obtain ⟨b, hb, hp⟩ := i.links m a c ha hc
          exact ⟨_, hold c b hb, by rw [hparent]; exact hp⟩
      · have hge : s.agents.length ≤ m := Nat.le_of_not_lt hlt
        rw [List.getElem?_append_right (by rw [hlen]; exact hge), hlen, List.getElem?_map] at hm
        cases hmk : mothers[m - s.agents.length]? with
        | none => simp [hmk] at hm
        | some mm => simp [hmk] at hm; subst hm; simp [embryo] at hc
    · intro e he
      rcases List.mem_append.mp he with he | he
      · obtain ⟨b, hb, hp⟩ := i.pre e he
        exact ⟨_, hold e.p2 b hb, by rw [hparent]; exact hp⟩
      · split at he
        · obtain ⟨k, m, hk, rfl⟩ := mem_mapIdx_gen he
          simp only [Nat.zero_add] at *
          exact ⟨embryo p ti d m, hkid k m hk, by simp [embryo]⟩
        · simp at he
    · intro e he
      obtain ⟨b, hb, hp⟩ := i.post e he
      exact ⟨_, hold e.p2 b hb, by rw [hparent]; exact hp⟩

theorem doStep_inv {p : Pars} {ti st : Rat} {d : Draws} {s s' : State} (hd : d.ok) (h : doStep p ti st d s = .ok s')
    (i : Inv s) : Inv s' := by
  unfold doStep at h
  split at h
  · simp at h
  · rename_i s1 h1
    exact conceive_inv hd h (updateStates_inv h1 i)

theorem runBurn_inv {p : Pars} {st : Rat} : ∀ (ts : List Int) (ds : List Draws) {s s' : State},
    (∀ d ∈ ds, d.ok) → runBurn p st ts ds s = .ok s' → Inv s → Inv s'
  | [], _, s, s', _, h, e => by simp only [runBurn, Except.ok.injEq] at h; subst h; exact e
  | t :: ts, ds, s, s', hd, h, e => by
      simp only [runBurn] at h
      split at h
      · simp at h
      · rename_i s1 h1
        have hhead : (ds.headD {}).ok := by
          cases ds with
          | nil => exact Draws.default_ok
          | cons d _ => exact hd d (by simp)
        exact runBurn_inv ts ds.tail (fun d hm => hd d (List.mem_of_mem_tail hm)) h (doStep_inv hhead h1 e)

/-- a gentle per-agent update that also keeps `Agent.ok` preserves the invariant (edges unchanged or filtered) -/
theorem Inv_mapIdx {f : Nat → Agent → Agent} {s : State} {pre' post' : List Edge} (hf : Gentle f)
    (hok : ∀ k a, a.ok = true → (f k a).ok = true) (hpre : ∀ e ∈ pre', e ∈ s.pre) (hpost : ∀ e ∈ post', e ∈ s.post)
    (i : Inv s) : Inv { agents := mapIdx f s.agents 0, pre := pre', post := post' } :=
  ⟨fun a ha => by obtain ⟨k, b, hk, rfl⟩ := mem_mapIdx ha; exact hok k b (i.ok b (List.mem_of_getElem? hk)),
   Links_mapIdx hf i.links, EdgesJoin_mapIdx hf (EdgesJoin_sub i.pre hpre), EdgesJoin_mapIdx hf (EdgesJoin_sub i.post hpost)⟩

theorem Inv_map {g : Agent → Agent} {s : State} {pre' post' : List Edge} (hg : Gentle (fun _ => g))
    (hok : ∀ a, a.ok = true → (g a).ok = true) (hpre : ∀ e ∈ pre', e ∈ s.pre) (hpost : ∀ e ∈ post', e ∈ s.post)
    (i : Inv s) : Inv { agents := s.agents.map g, pre := pre', post := post' } := by
  rw [map_eq_mapIdx g s.agents 0]; exact Inv_mapIdx hg (fun _ a h => hok a h) hpre hpost i

theorem Inv_edges {s : State} {pre' post' : List Edge} (hpre : EdgesJoin s.agents pre') (hpost : EdgesJoin s.agents post')
    (i : Inv s) : Inv { s with pre := pre', post := post' } := ⟨i.ok, i.links, hpre, hpost⟩

theorem simStep_inv {p : Pars} {ti : Nat} {inp : StepIn} {s s' : State} (hi : inp.ok) (h : simStep p ti inp s = .ok s')
    (i : Inv s) : Inv s' := by
  unfold simStep at h
  split at h
  · simp at h
  · rename_i s1 h1
    simp only [Except.ok.injEq] at h; subst h
    unfold stepToTransmission at h1
    split at h1
    · simp at h1
    · rename_i s0 h0
      simp only [Except.ok.injEq] at h1; subst h1
      have i0 : Inv (requestDeath ti inp.deaths s) :=
        Inv_mapIdx (s := s) (fun k a => by first | (split <;> simp) | (simp only []; split <;> simp)) (fun k a h => by first | (split <;> exact h) | (simp only []; split <;> exact h)) (fun e he => he) (fun e he => he) i
      have i1 : Inv s0 := by
        unfold pregStep at h0
        split at h0
        · split at h0
          · simp at h0
          · rename_i sb hb
            exact doStep_inv hi.1 h0 (runBurn_inv _ _ hi.2 hb i0)
        · exact doStep_inv hi.1 h0 i0
      -- MaternalNet.step only rewrites beta
      have i2 : Inv (matStep ti s0) := by
        refine Inv_edges (s := s0) ?_ ?_ i1
        · intro e he
          simp only [List.mem_map] at he
          obtain ⟨e0, he0, rfl⟩ := he
          obtain ⟨b, hb, hp⟩ := i1.pre e0 he0
          exact ⟨b, by split <;> exact hb, by split <;> exact hp⟩
        · intro e he
          simp only [List.mem_map] at he
          obtain ⟨e0, he0, rfl⟩ := he
          obtain ⟨b, hb, hp⟩ := i1.post e0 he0
          exact ⟨b, by split <;> exact hb, by split <;> exact hp⟩
      have i3 : Inv (stepDie ti (matStep ti s0)) :=
        Inv_map (s := matStep ti s0) (fun k a => by first | (split <;> simp) | (simp only []; split <;> simp)) (fun a h => by first | (split <;> exact h) | (simp only []; split <;> exact h))
          (fun e he => he) (fun e he => he) i2
      have i4 : Inv (finishStep ti inp.neo (stepDie ti (matStep ti s0))) := by
        unfold finishStep
        dsimp only
        have ia := Inv_mapIdx (s := stepDie ti (matStep ti s0))
          (f := fun u a => if ((uidsWhere (fun _ a => (a.active && leO a.pTiDead (ti + 1)) && a.pregnant) (stepDie ti (matStep ti s0)).agents).filterMap
              (fun m => (getA (stepDie ti (matStep ti s0)).agents m).child)).filter inp.neo |>.contains u then { a with pTiDead := some (ti : Rat) } else a)
          (fun k a => by first | (split <;> simp) | (simp only []; split <;> simp)) (fun k a h => by first | (split <;> exact h) | (simp only []; split <;> exact h)) (fun e he => he) (fun e he => he) i3
        exact Inv_mapIdx (s := _) (fun k a => by first | (split <;> simp) | (simp only []; split <;> simp))
          (fun k a h => by
            first
              | (split
                 · simp [Agent.ok, Agent.excl]
                 · exact h)
              | (simp only []
                 split
                 · simp [Agent.ok, Agent.excl]
                 · exact h)) (fun e he => he) (fun e he => he) ia
      have i5 : Inv (removeDead (finishStep ti inp.neo (stepDie ti (matStep ti s0)))) :=
        Inv_map (s := finishStep ti inp.neo (stepDie ti (matStep ti s0))) (fun k a => by first | (split <;> simp) | (simp only []; split <;> simp))
          (fun a h => by first | (split <;> exact h) | (simp only []; split <;> exact h)) (fun e he => (List.mem_filter.mp he).1) (fun e he => (List.mem_filter.mp he).1) i4
      exact Inv_map (s := removeDead _) (gentle_ageBy p.dtYear) (fun a h => ok_ageBy _ a h) (fun e he => he) (fun e he => he) i5

theorem run_inv {p : Pars} : ∀ (ins : List StepIn) (ti : Nat) {s s' : State}, (∀ i ∈ ins, i.ok) →
    run p ti ins s = .ok s' → Inv s → Inv s'
  | [], _, s, s', _, h, e => by simp only [run, Except.ok.injEq] at h; subst h; exact e
  | i :: is, ti, s, s', hi, h, e => by
      simp only [run] at h
      split at h
      · simp at h
      · rename_i s1 h1
        exact run_inv is (ti + 1) (fun j hj => hi j (by simp [hj])) h (simStep_inv (hi i (by simp)) h1 e)

/-- re-parameterised histories: the invariant survives whatever parameters each step is run with -/
theorem runP_inv : ∀ (ins : List (Pars × StepIn)) (ti : Nat) {s s' : State}, (∀ i ∈ ins, i.2.ok) →
    runP ti ins s = .ok s' → Inv s → Inv s'
  | [], _, s, s', _, h, e => by simp only [runP, Except.ok.injEq] at h; subst h; exact e
  | (p, i) :: is, ti, s, s', hi, h, e => by
      simp only [runP] at h
      split at h
      · simp at h
      · rename_i s1 h1
        exact runP_inv is (ti + 1) (fun j hj => hi j (by simp [hj])) h (simStep_inv (hi (p, i) (by simp)) h1 e)

/-- a history with constant parameters is the special case -/
theorem runP_const (p : Pars) : ∀ (ins : List StepIn) (ti : Nat) (s : State),
    runP ti (ins.map (fun i => (p, i))) s = run p ti ins s
  | [], _, _ => rfl
  | i :: is, ti, s => by
      simp only [List.map_cons, runP, run]
      cases simStep p ti i s with
      | error e => rfl
      | ok s1 => exact runP_const p is (ti + 1) s1

end StarsimModel.Pregnancy
