/-
Helper lemmas for C19 (Model/Pregnancy.lean).
-/
import StarsimModel.Model.Pregnancy

namespace StarsimModel.Pregnancy

/-! ### indexed maps -/

theorem getElem?_mapIdx {α β : Type} (f : Nat → α → β) : ∀ (l : List α) (i k : Nat),
    (mapIdx f l i)[k]? = (l[k]?).map (f (i + k))
  | [], i, k => by simp [mapIdx]
  | a :: as, i, 0 => by simp [mapIdx]
  | a :: as, i, k + 1 => by
      simp only [mapIdx, List.getElem?_cons_succ]
      rw [getElem?_mapIdx f as (i + 1) k]
      congr 2; omega

theorem length_mapIdx {α β : Type} (f : Nat → α → β) : ∀ (l : List α) (i : Nat), (mapIdx f l i).length = l.length
  | [], i => rfl
  | a :: as, i => by simp [mapIdx, length_mapIdx f as (i + 1)]

theorem mem_mapIdx {α β : Type} {f : Nat → α → β} {l : List α} {b : β} (h : b ∈ mapIdx f l 0) :
    ∃ k a, l[k]? = some a ∧ b = f k a := by
  obtain ⟨k, hk⟩ := List.getElem?_of_mem h
  rw [getElem?_mapIdx] at hk
  cases hl : l[k]? with
  | none => simp [hl] at hk
  | some a => simp [hl] at hk; exact ⟨k, a, hl, hk.symm⟩

theorem mem_uidsWhere {f : Nat → Agent → Bool} {l : List Agent} {u : Nat} :
    u ∈ uidsWhere f l ↔ ∃ a, l[u]? = some a ∧ f u a = true := by
  simp only [uidsWhere, List.mem_filterMap]
  constructor
  · rintro ⟨x, hx, hu⟩
    obtain ⟨k, a, hk, rfl⟩ := mem_mapIdx hx
    by_cases hf : f k a = true
    · simp [hf] at hu; subst hu; exact ⟨a, hk, hf⟩
    · simp [hf] at hu
  · rintro ⟨a, ha, hf⟩
    refine ⟨(u, f u a), ?_, by simp [hf]⟩
    apply List.mem_of_getElem? (i := u)
    rw [getElem?_mapIdx]; simp [ha]

theorem getA_of_getElem? {l : List Agent} {u : Nat} {a : Agent} (h : l[u]? = some a) : getA l u = a := by
  simp [getA, List.getD_eq_getElem?_getD, h]

/-! ### per-agent facts -/

theorem excl_deliver (ti : Rat) (a : Agent) (h : a.excl = true) : (a.deliver ti).excl = true := by
  unfold Agent.deliver; split
  · simp [Agent.excl]
  · exact h

theorem excl_endPostpartum (ti : Rat) (a : Agent) (h : a.excl = true) : (a.endPostpartum ti).excl = true := by
  unfold Agent.endPostpartum; split
  · rename_i hc
    simp only [Bool.and_eq_true] at hc
    have hp := hc.1.2
    revert h; simp only [Agent.excl, hp]; cases a.fecund <;> cases a.pregnant <;> simp
  · exact h

theorem excl_maternalDeath (ti st : Rat) (a : Agent) (h : a.excl = true) : (a.maternalDeath ti st).excl = true := by
  unfold Agent.maternalDeath; split <;> exact h

theorem excl_ageBy (dt : Rat) (a : Agent) (h : a.excl = true) : (a.ageBy dt).excl = true := by
  unfold Agent.ageBy; split <;> exact h

theorem clip01_nonneg (x : Rat) : 0 ≤ clip01 x := by
  unfold clip01; split
  · exact Rat.le_refl
  · split
    · decide
    · rename_i h _; exact Rat.not_lt.mp h

/-- a woman conceives only if her probability is positive, hence only if eligible (draws are ≥ 0) -/
theorem conceives_eligible {p : Pars} {d : Draws} {u : Nat} {a : Agent} (hd : 0 ≤ d.draw u)
    (h : a.conceives p d u = true) :
    a.active = true ∧ a.female = true ∧ a.fecund = true ∧ p.minAge ≤ a.age ∧ a.age ≤ p.maxAge := by
  simp only [Agent.conceives, Bool.and_eq_true, decide_eq_true_eq] at h
  obtain ⟨⟨ha, hf⟩, hlt⟩ := h
  unfold Agent.fertilityProb at hlt
  split at hlt
  · exact absurd hlt (by grind)
  · rename_i hc
    simp only [Bool.or_eq_true, Bool.not_eq_eq_eq_not, Bool.not_true, decide_eq_true_eq, not_or, Bool.not_eq_false,
      Rat.not_lt] at hc
    exact ⟨ha, hf, hc.1.1, hc.1.2, hc.2⟩

theorem excl_setPrognoses {p : Pars} {ti : Rat} {d : Draws} {u : Nat} {a : Agent} (c : Option Nat)
    (h : a.excl = true) (hf : a.fecund = true) : ({ a.setPrognoses p ti d u with child := c } : Agent).excl = true := by
  revert h; simp only [Agent.excl, Agent.setPrognoses, hf]; cases a.pregnant <;> cases a.postpartum <;> simp

theorem excl_embryo (p : Pars) (ti : Rat) (d : Draws) (m : Nat) : (embryo p ti d m).excl = true := by
  simp [embryo, Agent.excl]

/-! ### exclusivity through the steps -/

def Excl (s : State) : Prop := ∀ a ∈ s.agents, a.excl = true

/-- every draw of the step is ≥ 0 (uniform variates) -/
def Draws.ok (d : Draws) : Prop := ∀ u, 0 ≤ d.draw u

theorem updateStates_excl {p : Pars} {ti st : Rat} {s s' : State} (h : updateStates p ti st s = .ok s') (e : Excl s) :
    Excl s' := by
  unfold updateStates at h
  dsimp only at h
  split at h
  · simp at h
  · simp only [Except.ok.injEq] at h; subst h
    intro a ha
    simp only [List.mem_map] at ha
    obtain ⟨a3, ⟨a2, ⟨a1, h1, rfl⟩, rfl⟩, rfl⟩ := ha
    exact excl_maternalDeath _ _ _ (excl_endPostpartum _ _ (excl_deliver _ _ (e a1 h1)))

theorem conceive_excl {p : Pars} {ti : Rat} {d : Draws} {s s' : State} (hd : d.ok) (h : conceive p ti d s = .ok s')
    (e : Excl s) : Excl s' := by
  unfold conceive at h
  dsimp only at h
  split at h
  · simp at h
  · simp only [Except.ok.injEq] at h; subst h
    intro a ha
    simp only [List.mem_append, List.mem_map] at ha
    rcases ha with ha | ⟨m, _, rfl⟩
    · obtain ⟨k, b, hk, rfl⟩ := mem_mapIdx ha
      have hb := e b (List.mem_of_getElem? hk)
      split
      · rename_i hc
        have hm : k ∈ uidsWhere (fun u a => a.conceives p d u) s.agents := by simpa using hc
        obtain ⟨b', hb', hcon⟩ := mem_uidsWhere.mp hm
        rw [hk] at hb'; cases hb'
        exact excl_setPrognoses _ hb (conceives_eligible (hd k) hcon).2.2.1
      · exact hb
    · exact excl_embryo _ _ _ _

theorem doStep_excl {p : Pars} {ti st : Rat} {d : Draws} {s s' : State} (hd : d.ok) (h : doStep p ti st d s = .ok s')
    (e : Excl s) : Excl s' := by
  unfold doStep at h
  split at h
  · simp at h
  · rename_i s1 h1
    exact conceive_excl hd h (updateStates_excl h1 e)

theorem Draws.default_ok : ({} : Draws).ok := by intro u; show (0 : Rat) ≤ 1; decide

theorem runBurn_excl {p : Pars} {st : Rat} : ∀ (ts : List Int) (ds : List Draws) {s s' : State},
    (∀ d ∈ ds, d.ok) → runBurn p st ts ds s = .ok s' → Excl s → Excl s'
  | [], _, s, s', _, h, e => by simp only [runBurn, Except.ok.injEq] at h; subst h; exact e
  | t :: ts, ds, s, s', hd, h, e => by
      simp only [runBurn] at h
      split at h
      · simp at h
      · rename_i s1 h1
        have hhead : (ds.headD {}).ok := by
          cases ds with
          | nil => exact Draws.default_ok
          | cons d _ => exact hd d (by simp)
        exact runBurn_excl ts ds.tail (fun d hm => hd d (List.mem_of_mem_tail hm)) h (doStep_excl hhead h1 e)

theorem mapIdx_excl {f : Nat → Agent → Agent} {l : List Agent} (hf : ∀ k a, a.excl = true → (f k a).excl = true)
    (e : ∀ a ∈ l, a.excl = true) : ∀ a ∈ mapIdx f l 0, a.excl = true := by
  intro a ha
  obtain ⟨k, b, hk, rfl⟩ := mem_mapIdx ha
  exact hf k b (e b (List.mem_of_getElem? hk))

def StepIn.ok (i : StepIn) : Prop := i.draws.ok ∧ ∀ d ∈ i.burn, d.ok

theorem simStep_excl {p : Pars} {ti : Nat} {i : StepIn} {s s' : State} (hi : i.ok) (h : simStep p ti i s = .ok s')
    (e : Excl s) : Excl s' := by
  unfold simStep at h
  split at h
  · simp at h
  · rename_i s1 h1
    simp only [Except.ok.injEq] at h; subst h
    unfold stepToTransmission at h1
    split at h1
    · simp at h1
    · rename_i s0 h0
      simp only [Except.ok.injEq] at h1; subst h1
      -- request_death keeps exclusivity
      have e0 : Excl (requestDeath ti i.deaths s) := by
        intro a ha
        exact mapIdx_excl (fun k a h => by split <;> exact h) e a ha
      have e1 : Excl s0 := by
        unfold pregStep at h0
        split at h0
        · split at h0
          · simp at h0
          · rename_i sb hb
            exact doStep_excl hi.1 h0 (runBurn_excl _ _ hi.2 hb e0)
        · exact doStep_excl hi.1 h0 e0
      -- matStep, stepDie, finishStep, removeDead, ageing
      intro a ha
      simp only [stepFinish, ageing, removeDead, List.mem_map] at ha
      obtain ⟨a2, ⟨a1, ha1, rfl⟩, rfl⟩ := ha
      apply excl_ageBy
      have : a1.excl = true := by
        simp only [finishStep] at ha1
        refine mapIdx_excl (fun k a h => ?_) (mapIdx_excl (fun k a h => ?_) ?_) a1 ha1
        · split
          · simp [Agent.excl]
          · exact h
        · split <;> exact h
        · intro b hb
          simp only [stepDie, matStep, List.mem_map] at hb
          obtain ⟨b0, hb0, rfl⟩ := hb
          split <;> exact e1 b0 hb0
      split <;> exact this

theorem run_excl {p : Pars} : ∀ (ins : List StepIn) (ti : Nat) {s s' : State}, (∀ i ∈ ins, i.ok) →
    run p ti ins s = .ok s' → Excl s → Excl s'
  | [], _, s, s', _, h, e => by simp only [run, Except.ok.injEq] at h; subst h; exact e
  | i :: is, ti, s, s', hi, h, e => by
      simp only [run] at h
      split at h
      · simp at h
      · rename_i s1 h1
        exact run_excl is (ti + 1) (fun j hj => hi j (by simp [hj])) h (simStep_excl (hi i (by simp)) h1 e)

/-! ### ceilings -/

theorem ceil_shift (g : Rat) (tc t : Int) : ((tc : Rat) + g ≤ (t : Rat)) ↔ (tc + g.ceil ≤ t) := by
  have h1 : ((tc : Rat) + g ≤ (t : Rat)) ↔ (g ≤ ((t - tc : Int) : Rat)) := by
    rw [Rat.intCast_sub]; constructor <;> intro h <;> grind
  rw [h1, ← Rat.ceil_le_iff]; omega

theorem le_ceil (g : Rat) : g ≤ (g.ceil : Rat) := Rat.ceil_le_iff.mp (Int.le_refl _)

theorem ceil_lt_add_one (g : Rat) : (g.ceil : Rat) < g + 1 := by
  have h : (g.ceil - 1 : Int) < g.ceil := by omega
  have := Rat.lt_ceil_iff.mp h
  rw [Rat.intCast_sub] at this
  have h1 : ((1 : Int) : Rat) = 1 := rfl
  rw [h1] at this
  grind

end StarsimModel.Pregnancy
