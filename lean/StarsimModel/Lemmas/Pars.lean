/-
Helper lemmas for C17 (Model/Pars.lean): completeness of the kind enumerations, association-list facts,
and the per-item invariants of `Pars.update` on a flat parameter set.  Core Lean only.
-/
import StarsimModel.Model.Pars

namespace StarsimModel.Pars

/-! ### The kind enumerations are complete -/

theorem OKind.mem_all (o : OKind) : o ∈ OKind.all := by
  cases o with
  | timepar d => cases d <;> simp [OKind.all]
  | dist b p => cases b <;> cases p <;> simp [OKind.all]
  | _ => simp [OKind.all]

theorem NKind.mem_all (n : NKind) : n ∈ NKind.all := by
  cases n with
  | dictType b => cases b <;> simp [NKind.all]
  | dist b => cases b <;> simp [NKind.all]
  | timepar d => cases d <;> simp [NKind.all]
  | _ => simp [NKind.all]

/-- A decidable statement checked on the complete enumeration holds for every pair of kinds. -/
theorem forall_kinds {P : OKind → NKind → Prop}
    (h : ∀ o ∈ OKind.all, ∀ n ∈ NKind.all, P o n) : ∀ o n, P o n :=
  fun o n => h o (OKind.mem_all o) n (NKind.mem_all n)

theorem forall_nkinds {P : NKind → Prop} (h : ∀ n ∈ NKind.all, P n) : ∀ n, P n :=
  fun n => h n (NKind.mem_all n)

theorem forall_okinds {P : OKind → Prop} (h : ∀ o ∈ OKind.all, P o) : ∀ o, P o :=
  fun o => h o (OKind.mem_all o)

/-! ### Association lists -/

theorem lookup_replace_same {β} (k : String) (v : β) : ∀ (p : List (String × β)) (s : β),
    lookup k p = some s → lookup k (replace k v p) = some v
  | [], _, h => by simp [lookup] at h
  | (k', v') :: rest, s, h => by
      by_cases hk : k' = k
      · simp [replace, lookup, hk]
      · simp only [lookup, hk, ↓reduceIte] at h
        simp [replace, lookup, hk, lookup_replace_same k v rest s h]

theorem lookup_replace_other {β} (k k' : String) (v : β) (hne : k' ≠ k) : ∀ (p : List (String × β)),
    lookup k' (replace k v p) = lookup k' p
  | [] => by simp [replace]
  | (k'', v'') :: rest => by
      by_cases hk : k'' = k
      · subst hk
        have : ¬ (k'' = k') := fun h => hne h.symm
        simp [replace, lookup, this]
      · by_cases hk2 : k'' = k'
        · subst hk2
          simp [replace, lookup, hk]
        · simp [replace, lookup, hk, hk2, lookup_replace_other k k' v hne rest]

theorem lookup_append_new {β} (k : String) (v : β) : ∀ (p : List (String × β)),
    lookup k p = none → lookup k (p ++ [(k, v)]) = some v
  | [], _ => by simp [lookup]
  | (k', v') :: rest, h => by
      by_cases hk : k' = k
      · simp [lookup, hk] at h
      · simp only [lookup, hk, ↓reduceIte] at h
        simp [lookup, hk, lookup_append_new k v rest h]

theorem lookup_append_other {β} (k k' : String) (v : β) (hne : k' ≠ k) : ∀ (p : List (String × β)),
    lookup k' (p ++ [(k, v)]) = lookup k' p
  | [] => by
      have : ¬ (k = k') := fun h => hne h.symm
      simp [lookup, this]
  | (k'', v'') :: rest => by
      by_cases hk : k'' = k'
      · simp [lookup, hk]
      · simp [lookup, hk, lookup_append_other k k' v hne rest]

theorem lookup_none_iff {β} (k : String) : ∀ (p : List (String × β)), lookup k p = none ↔ k ∉ keysOf p
  | [] => by simp [lookup, keysOf]
  | (k', v') :: rest => by
      by_cases hk : k' = k
      · simp [lookup, keysOf, hk]
      · have ih := lookup_none_iff k rest
        have hk' : ¬ (k = k') := fun h => hk h.symm
        simp only [lookup, hk, ↓reduceIte, keysOf, List.map_cons, List.mem_cons, hk', false_or] at ih ⊢
        exact ih

/-! ### The strict check -/

theorem strict_on : Gen.strictUnlessCreate = true := by decide

theorem keyMismatch_true : keyMismatch true = .raise .keyNotFound := by decide

theorem keyMismatch_false : keyMismatch false = .ignore := by decide

theorem any_unknown (keys newKeys : List String) (h : ∃ k ∈ newKeys, k ∉ keys) :
    newKeys.any (fun k => !keys.contains k) = true := by
  obtain ⟨k, hk, hn⟩ := h
  simp only [List.any_eq_true]
  exact ⟨k, hk, by simpa using hn⟩

theorem all_known (keys newKeys : List String) (h : ∀ k ∈ newKeys, k ∈ keys) :
    newKeys.any (fun k => !keys.contains k) = false := by
  simp only [List.any_eq_false]
  intro k hk
  simpa using h k hk

theorem strictCheck_unknown (keys newKeys : List String) (h : ∃ k ∈ newKeys, k ∉ keys) :
    strictCheck false keys newKeys = .error .keyNotFound := by
  unfold strictCheck
  rw [any_unknown keys newKeys h, keyMismatch_true, strict_on]
  rfl

theorem strictCheck_known (create : Bool) (keys newKeys : List String) (h : ∀ k ∈ newKeys, k ∈ keys) :
    strictCheck create keys newKeys = .ok () := by
  unfold strictCheck
  rw [all_known keys newKeys h, keyMismatch_false, strict_on]
  cases create <;> rfl

theorem strictCheck_create (keys newKeys : List String) : strictCheck true keys newKeys = .ok () := by
  simp [strictCheck]

/-! ### One item -/

/-- The only (variant, old kind, new kind) combination in which a supplied value is accepted without being in effect:
    the unchanged code's `Dist.set(**{unknown name})`. -/
def strayCase (var : Variant) (o : OKind) (n : NKind) : Bool :=
  var = .asis && n = .dictNoTypeBad && o.isA .dist

/-- what `outcome` may return on success: an applying action -/
def outcomeApplies (var : Variant) (o : OKind) (n : NKind) : Bool :=
  match outcome var o n with
  | .ok .ignore => false
  | .ok (.raise _) => false
  | _ => true

theorem outcome_applies_table :
    ∀ var ∈ [Variant.spec, Variant.asis], ∀ o ∈ OKind.all, ∀ n ∈ NKind.all,
      strayCase var o n = false → outcomeApplies var o n = true := by
  decide

theorem outcome_applies (var : Variant) (o : OKind) (n : NKind) (h : strayCase var o n = false) :
    outcomeApplies var o n = true :=
  outcome_applies_table var (by cases var <;> simp) o (OKind.mem_all o) n (NKind.mem_all n) h

theorem leafEff_token (var : Variant) (a : Action) (o : OKind) (n : NKind) (tok : Nat)
    (hi : a ≠ .ignore) (hr : ∀ e, a ≠ .raise e) : (leafEff var a o n tok).token = some tok := by
  cases a <;> simp_all [leafEff, effect, Eff.token]

theorem applyLeaf_token (var : Variant) (s s' : Slot) (n : NKind) (tok : Nat)
    (hgood : strayCase var s.kind n = false) (h : applyLeaf var s n tok = .ok s') :
    s'.eff.token = some tok := by
  have hap := outcome_applies var s.kind n hgood
  unfold applyLeaf at h
  unfold outcomeApplies at hap
  cases ho : outcome var s.kind n with
  | error e => simp [ho] at h
  | ok a =>
      simp only [ho] at h hap
      have hs : s' = ⟨kindAfter a s.kind n, leafEff var a s.kind n tok⟩ := by
        injection h with h; exact h.symm
      subst hs
      apply leafEff_token
      · intro hia; subst hia; simp at hap
      · intro e hra; subst hra; simp at hap

theorem newKey_set : ∀ n, newKeyAction n = .set := by
  apply forall_nkinds; decide

/-- Items none of which is the stray case against the slot it meets.  (Stated on kinds of the *current* slot.) -/
def itemGood (var : Variant) (it : Item) : Bool :=
  !(var = .asis && it.2.1 = .dictNoTypeBad)

theorem strayCase_of_itemGood (var : Variant) (o : OKind) (it : Item) (h : itemGood var it = true) :
    strayCase var o it.2.1 = false := by
  unfold itemGood at h; unfold strayCase
  cases var <;> simp_all

/-- `setLeaf` puts the supplied token in effect under its key and leaves every other key alone. -/
theorem setLeaf_spec (var : Variant) (p p' : Leaves) (it : Item) (hg : itemGood var it = true)
    (h : setLeaf var p it = .ok p') :
    (∃ s, lookup it.1 p' = some s ∧ s.eff.token = some it.2.2) ∧
    (∀ k, k ≠ it.1 → lookup k p' = lookup k p) := by
  unfold setLeaf at h
  cases hl : lookup it.1 p with
  | none =>
      simp only [hl, newKey_set] at h
      injection h with h
      subst h
      refine ⟨⟨_, lookup_append_new _ _ p hl, ?_⟩, fun k hk => lookup_append_other _ _ _ hk p⟩
      simp [leafEff, effect, Eff.token]
  | some s =>
      simp only [hl] at h
      cases ha : applyLeaf var s it.2.1 it.2.2 with
      | error e => simp [ha] at h
      | ok s' =>
          simp only [ha] at h
          injection h with h
          subst h
          refine ⟨⟨s', lookup_replace_same _ _ p s hl, ?_⟩, fun k hk => lookup_replace_other _ _ _ hk p⟩
          exact applyLeaf_token var s s' _ _ (strayCase_of_itemGood var s.kind it hg) ha

theorem setLeaves_spec (var : Variant) : ∀ (items : List Item) (p p' : Leaves),
    (∀ it ∈ items, itemGood var it = true) → (keysOf items).Nodup → setLeaves var p items = .ok p' →
    (∀ it ∈ items, ∃ s, lookup it.1 p' = some s ∧ s.eff.token = some it.2.2) ∧
    (∀ k, k ∉ keysOf items → lookup k p' = lookup k p)
  | [], p, p', _, _, h => by
      simp only [setLeaves] at h
      injection h with h
      subst h
      simp
  | it :: rest, p, p', hg, hnd, h => by
      simp only [setLeaves] at h
      cases h1 : setLeaf var p it with
      | error e => simp [h1] at h
      | ok p1 =>
          simp only [h1] at h
          have hnd' : it.1 ∉ keysOf rest ∧ (keysOf rest).Nodup := by
            simpa [keysOf] using hnd
          obtain ⟨hhead, hother⟩ := setLeaf_spec var p p1 it (hg it (List.mem_cons_self ..)) h1
          obtain ⟨hrest, hframe⟩ := setLeaves_spec var rest p1 p'
            (fun x hx => hg x (List.mem_cons_of_mem _ hx)) hnd'.2 h
          refine ⟨?_, ?_⟩
          · intro x hx
            rcases List.mem_cons.mp hx with rfl | hx
            · rw [hframe _ hnd'.1]; exact hhead
            · exact hrest x hx
          · intro k hk
            have hk' : k ≠ it.1 ∧ k ∉ keysOf rest := by
              simpa [keysOf] using hk
            rw [hframe k hk'.2, hother k hk'.1]

/-! ### update_pars: invariants that do not depend on the order of the steps -/

theorem keysOf_replace {β} (k : String) (v : β) : ∀ (p : List (String × β)), keysOf (replace k v p) = keysOf p
  | [] => by simp [replace, keysOf]
  | (k', v') :: rest => by
      have ih := keysOf_replace k v rest
      by_cases hk : k' = k
      · simp [replace, keysOf, hk]
      · simp only [keysOf] at ih
        simp [replace, keysOf, hk, ih]

theorem strictCheck_false_ok (keys newKeys : List String) (h : strictCheck false keys newKeys = .ok ()) :
    ∀ k ∈ newKeys, k ∈ keys := by
  intro k hk
  by_cases hin : k ∈ keys
  · exact hin
  · rw [strictCheck_unknown keys newKeys ⟨k, hk, hin⟩] at h
    cases h

theorem setLeaves_keys (var : Variant) : ∀ (items : List Item) (p p' : Leaves),
    (∀ k ∈ keysOf items, k ∈ keysOf p) → setLeaves var p items = .ok p' → keysOf p' = keysOf p
  | [], p, p', _, h => by
      simp only [setLeaves] at h
      injection h with h
      rw [h]
  | it :: rest, p, p', hk, h => by
      simp only [setLeaves] at h
      cases h1 : setLeaf var p it with
      | error e => simp [h1] at h
      | ok p1 =>
          simp only [h1] at h
          have hit : it.1 ∈ keysOf p := hk it.1 (by simp [keysOf])
          have hp1 : keysOf p1 = keysOf p := by
            unfold setLeaf at h1
            cases hl : lookup it.1 p with
            | none => exact absurd hit ((lookup_none_iff it.1 p).mp hl)
            | some s =>
                simp only [hl] at h1
                cases ha : applyLeaf var s it.2.1 it.2.2 with
                | error e => simp [ha] at h1
                | ok s' =>
                    simp only [ha] at h1
                    injection h1 with h1
                    rw [← h1, keysOf_replace]
          have := setLeaves_keys var rest p1 p' (fun k hk' => by
            rw [hp1]; exact hk k (by simp only [keysOf, List.map_cons, List.mem_cons] at hk' ⊢; exact Or.inr hk')) h
          rw [this, hp1]

theorem updateLeaves_false_keys (var : Variant) (p p' : Leaves) (items : List Item)
    (h : updateLeaves var false p items = .ok p') : keysOf p' = keysOf p := by
  unfold updateLeaves at h
  cases hs : strictCheck false (keysOf p) (keysOf items) with
  | error e => simp [hs] at h
  | ok u =>
      simp only [hs] at h
      exact setLeaves_keys var items p p' (strictCheck_false_ok _ _ (by cases u; exact hs)) h

/-- the offending item is still waiting in `rest` and is not a parameter of the module -/
def LeftInv (it : Item) (us : UState) : Prop := it ∈ us.rest ∧ it.1 ∉ keysOf us.ms.pars

theorem uStep_inv (var : Variant) (it : Item) (us us' : UState) (s : UStep)
    (hi : LeftInv it us) (h : uStep var us s = .ok us') : LeftInv it us' := by
  obtain ⟨hr, hp⟩ := hi
  cases s with
  | merge => simp only [uStep] at h; injection h with h; subst h; exact ⟨hr, hp⟩
  | matchPop =>
      simp only [uStep] at h; injection h with h; subst h
      refine ⟨?_, hp⟩
      simp only [List.mem_filter]
      exact ⟨hr, by simpa using hp⟩
  | parsUpdate =>
      simp only [uStep] at h
      cases hu : updateLeaves var false us.ms.pars us.matched with
      | error e => simp [hu] at h
      | ok p1 =>
          simp only [hu] at h; injection h with h; subst h
          refine ⟨hr, ?_⟩
          show it.1 ∉ keysOf p1
          rw [updateLeaves_false_keys var _ _ _ hu]; exact hp
  | setMetadata =>
      simp only [uStep] at h
      cases hu : setArgs Gen.metadataTypeChecked us Gen.moduleArgs us.ms.metad with
      | error e => simp [hu] at h
      | ok m1 => simp only [hu] at h; injection h with h; subst h; exact ⟨hr, hp⟩
  | timeUpdate =>
      simp only [uStep] at h
      cases hu : setArgs false us Gen.timeArgs us.ms.time with
      | error e => simp [hu] at h
      | ok m1 => simp only [hu] at h; injection h with h; subst h; exact ⟨hr, hp⟩
  | leftover a =>
      simp only [uStep] at h
      split at h
      · injection h with h; subst h; exact ⟨hr, hp⟩
      · cases a <;> first | (injection h with h; subst h; exact ⟨hr, hp⟩) | (simp at h)

theorem leftover_raises (var : Variant) (it : Item) (us : UState) (e : Err)
    (hi : LeftInv it us) (ha : it.1 ∉ Gen.moduleArgs ++ Gen.timeArgs) :
    uStep var us (.leftover (.raise e)) = .error e := by
  have : (us.rest.filter (fun it => !(Gen.moduleArgs ++ Gen.timeArgs).contains it.1)).isEmpty = false := by
    rw [List.isEmpty_eq_false_iff_exists_mem]
    exact ⟨it, by simp only [List.mem_filter]; exact ⟨hi.1, by simpa using ha⟩⟩
  simp only [uStep, this]
  rfl

theorem uSteps_leftover (var : Variant) (it : Item) (e : Err) (ha : it.1 ∉ Gen.moduleArgs ++ Gen.timeArgs) :
    ∀ (steps : List UStep) (us : UState), LeftInv it us → UStep.leftover (.raise e) ∈ steps →
      ∀ us', uSteps var us steps ≠ .ok us'
  | [], _, _, hm, _ => by simp at hm
  | s :: rest, us, hi, hm, us' => by
      simp only [uSteps]
      cases h1 : uStep var us s with
      | error e' => simp
      | ok us1 =>
          simp only []
          rcases List.mem_cons.mp hm with hs | hrest
          · subst hs
            rw [leftover_raises var it us e hi ha] at h1
            cases h1
          · exact uSteps_leftover var it e ha rest us1 (uStep_inv var it us us1 s hi h1) hrest us'

theorem uSteps_error_of_step (var : Variant) (us : UState) (s : UStep) (rest : List UStep) (e : Err)
    (h : uStep var us s = .error e) : uSteps var us (s :: rest) = .error e := by
  simp [uSteps, h]

end StarsimModel.Pars
