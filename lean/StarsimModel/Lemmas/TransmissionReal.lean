/-
`SexualNetwork.net_beta` over the reals, for ARBITRARY (fractional) `acts·dt`: the regenerated source expression
`Gen.netBetaSexualG` instantiated with `Real.rpow`.  The executable model uses the same expression at `Float`
(`netBetaSexualF`) and, for whole `acts·dt`, at `Rat` (`Gen.netBetaSexual`); `netBetaSexualR_nat` links the two.
-/
import StarsimModel.Lemmas.Transmission
import Mathlib.Analysis.SpecialFunctions.Pow.Real

namespace StarsimModel.Transmission

noncomputable def netBetaSexualR (edgeBeta diseaseBeta acts dt : ℝ) : ℝ :=
  Gen.netBetaSexualG (fun x y => x ^ y) edgeBeta diseaseBeta acts dt

theorem netBetaSexualR_eq (eb β acts dt : ℝ) :
    netBetaSexualR eb β acts dt = eb * (1 - (1 - β) ^ (acts * dt)) := by
  unfold netBetaSexualR Gen.netBetaSexualG
  ring_nf

theorem netBetaSexualR_zero (eb acts dt : ℝ) : netBetaSexualR eb 0 acts dt = 0 := by
  rw [netBetaSexualR_eq]; simp

theorem netBetaSexualR_mono {eb β β' acts dt : ℝ} (he : 0 ≤ eb) (hle : β ≤ β') (h1 : β' ≤ 1) (hx : 0 ≤ acts * dt) :
    netBetaSexualR eb β acts dt ≤ netBetaSexualR eb β' acts dt := by
  rw [netBetaSexualR_eq, netBetaSexualR_eq]
  have hp : (1 - β') ^ (acts * dt) ≤ (1 - β) ^ (acts * dt) :=
    Real.rpow_le_rpow (by linarith) (by linarith) hx
  exact mul_le_mul_of_nonneg_left (by linarith) he

theorem netBetaSexualR_range {eb β acts dt : ℝ} (he : 0 ≤ eb) (h0 : 0 ≤ β) (h1 : β ≤ 1) (hx : 0 ≤ acts * dt) :
    0 ≤ netBetaSexualR eb β acts dt ∧ netBetaSexualR eb β acts dt ≤ eb := by
  rw [netBetaSexualR_eq]
  have hb0 : 0 ≤ (1 - β) ^ (acts * dt) := Real.rpow_nonneg (by linarith) _
  have hb1 : (1 - β) ^ (acts * dt) ≤ 1 := Real.rpow_le_one (by linarith) (by linarith) hx
  constructor
  · exact mul_nonneg he (by linarith)
  · calc eb * (1 - (1 - β) ^ (acts * dt)) ≤ eb * 1 := mul_le_mul_of_nonneg_left (by linarith) he
      _ = eb := mul_one eb


/-- a partnership without acts in the step has zero per-step transmissibility, whatever beta and weight -/
theorem netBetaSexualR_zero_acts (eb β dt : ℝ) : netBetaSexualR eb β 0 dt = 0 := by
  rw [netBetaSexualR_eq]; simp

theorem netBetaSexualR_zero_dt (eb β acts : ℝ) : netBetaSexualR eb β acts 0 = 0 := by
  rw [netBetaSexualR_eq]; simp

/-- more acts in the step never lower the per-step transmissibility -/
theorem netBetaSexualR_mono_acts {eb β x y dt dt' : ℝ} (he : 0 ≤ eb) (h0 : 0 ≤ β) (h1 : β ≤ 1) (hx : 0 ≤ x * dt)
    (hxy : x * dt ≤ y * dt') : netBetaSexualR eb β x dt ≤ netBetaSexualR eb β y dt' := by
  rw [netBetaSexualR_eq, netBetaSexualR_eq]
  have hp : (1 - β) ^ (y * dt') ≤ (1 - β) ^ (x * dt) :=
    Real.rpow_le_rpow_of_exponent_ge' (by linarith) (by linarith) hx hxy
  exact mul_le_mul_of_nonneg_left (by linarith) he

/-- with at most one act per step the per-step transmissibility is at most `w·β` (so flooring `acts·dt` at 1 overstates it) -/
theorem netBetaSexualR_le_linear {eb β acts dt : ℝ} (he : 0 ≤ eb) (h0 : 0 ≤ β) (h1 : β ≤ 1) (hx : 0 ≤ acts * dt)
    (hx1 : acts * dt ≤ 1) : netBetaSexualR eb β acts dt ≤ eb * β := by
  have h := netBetaSexualR_mono_acts (y := 1) (dt' := 1) he h0 h1 hx (by simpa using hx1)
  rw [netBetaSexualR_eq eb β 1 1] at h
  simpa using h

/-- for whole `acts·dt` the real-valued expression is the rational one of the executable model -/
theorem netBetaSexualR_nat (eb β : ℚ) (n : ℕ) :
    netBetaSexualR (eb : ℝ) (β : ℝ) (n : ℝ) 1 = ((Gen.netBetaSexual eb β n : ℚ) : ℝ) := by
  rw [netBetaSexualR_eq, gen_netBetaSexual]
  simp only [mul_one, Real.rpow_natCast]
  push_cast
  ring

end StarsimModel.Transmission
