/-
Helper lemmas for C08's calendar-instant model (Model/LoopInstant.lean).  Core Lean only.
-/
import StarsimModel.Model.LoopInstant
import StarsimModel.Model.Loop

namespace StarsimModel.LoopInstant
open StarsimModel.Loop

theorem yearLen_cases (y : Nat) : yearLen y = 365 ∨ yearLen y = 366 := by
  unfold yearLen; split <;> simp

theorem Reading.lt_trichotomy (a b : Reading) : a = b ∨ a.lt b ∨ b.lt a := by
  rcases a with ⟨ay, ad⟩
  rcases b with ⟨by_, bd⟩
  simp only [Reading.lt, Reading.mk.injEq]
  omega

theorem Reading.lt_trans {a b c : Reading} (h1 : a.lt b) (h2 : b.lt c) : a.lt c := by
  simp only [Reading.lt] at *
  omega

/-- Two different dates are at least one day of a leap year (2732 eps) apart, the later date later — also across
    31 December / 1 January and between years of different length. -/
theorem yearEps_gap {a b : Reading} (ha : a.Valid) (hb : b.Valid) (h : a.lt b) :
    yearEps a + minGap ≤ yearEps b := by
  rcases a with ⟨ay, ad⟩
  rcases b with ⟨by_, bd⟩
  simp only [Reading.Valid, Reading.lt, yearEps, perYear, minGap] at *
  rcases yearLen_cases ay with ea | ea <;> rcases yearLen_cases by_ with eb | eb <;>
    rw [ea] at ha ⊢ <;> rw [eb] at hb ⊢ <;> rcases h with h | ⟨h1, h2⟩ <;>
    first
      | omega
      | (subst h1; omega)

theorem instEps_gap (y0 : Int) {a b : Reading} (ha : a.Valid) (hb : b.Valid) (h : a.lt b) :
    instEps y0 a + (minGap : Int) ≤ instEps y0 b := by
  have := yearEps_gap ha hb h
  simp only [instEps]
  omega

/-- Same instant ⇔ same date. -/
theorem instEps_inj (y0 : Int) {a b : Reading} (ha : a.Valid) (hb : b.Valid) (h : instEps y0 a = instEps y0 b) :
    a = b := by
  rcases Reading.lt_trichotomy a b with e | l | l
  · exact e
  · have := instEps_gap y0 ha hb l; simp only [minGap] at this; omega
  · have := instEps_gap y0 hb ha l; simp only [minGap] at this; omega

/-- The instant is monotone in the calendar: an earlier instant is an earlier date. -/
theorem lt_of_instEps_lt (y0 : Int) {a b : Reading} (ha : a.Valid) (hb : b.Valid)
    (h : instEps y0 a < instEps y0 b) : a.lt b := by
  rcases Reading.lt_trichotomy a b with e | l | l
  · subst e; omega
  · exact l
  · have := instEps_gap y0 hb ha l; simp only [minGap] at this; omega

theorem increasingB_sound : ∀ {rs : List Reading}, increasingB rs = true →
    rs.Pairwise Reading.lt ∧ ∀ r ∈ rs, r.Valid
  | [], _ => ⟨List.Pairwise.nil, by simp⟩
  | [a], h => by
      simp only [increasingB, decide_eq_true_eq] at h
      exact ⟨List.pairwise_singleton _ _, by simpa using h⟩
  | a :: b :: r, h => by
      simp only [increasingB, Bool.and_eq_true, decide_eq_true_eq] at h
      obtain ⟨⟨hv, hlt⟩, hr⟩ := h
      obtain ⟨hp, hall⟩ := increasingB_sound hr
      refine ⟨List.pairwise_cons.2 ⟨?_, hp⟩, ?_⟩
      · intro c hc
        rcases List.mem_cons.1 hc with e | hc'
        · subst e; exact hlt
        · exact Reading.lt_trans hlt ((List.pairwise_cons.1 hp).1 c hc')
      · intro c hc
        rcases List.mem_cons.1 hc with e | hc'
        · subst e; exact hv
        · exact hall c hc'

/-- The time vector of a date-based owner whose dates increase is strictly increasing, at least `minGap` per step. -/
theorem instVec_pairwise (y0 : Int) {rs : List Reading} (hp : rs.Pairwise Reading.lt) (hv : ∀ r ∈ rs, r.Valid) :
    (instVec y0 rs).Pairwise (fun x y => x + (minGap : Int) ≤ y) := by
  unfold instVec
  rw [List.pairwise_map]
  exact hp.imp_of_mem (fun {a b} ha hb h => instEps_gap y0 (hv a ha) (hv b hb) h)

/-- Every owner's clock shows calendar dates `R m k`, and its time vector is their instants. -/
def CalendarTimes (T : Times) (y0 : Int) (R : Nat → Nat → Reading) : Prop :=
  (∀ m k, k < T.npts m → (R m k).Valid ∧ T.tv m k = instEps y0 (R m k)) ∧
  (∀ m i j, i < j → j < T.npts m → (R m i).lt (R m j))

theorem calendar_strictMono {T : Times} {y0 : Int} {R : Nat → Nat → Reading} (h : CalendarTimes T y0 R) :
    T.StrictMono := by
  intro m i j hij hj
  obtain ⟨hvi, hti⟩ := h.1 m i (by omega)
  obtain ⟨hvj, htj⟩ := h.1 m j hj
  have := instEps_gap y0 hvi hvj (h.2 m i j hij hj)
  simp only [minGap] at this
  omega

theorem calendar_separated {T : Times} {y0 : Int} {R : Nat → Nat → Reading} (h : CalendarTimes T y0 R)
    (fl : List Func) {n : Nat} (hn : n ≤ minGap) : Separated T fl n := by
  intro f _ g _ i hi j hj hlt
  obtain ⟨hvi, hti⟩ := h.1 f.owner i hi
  obtain ⟨hvj, htj⟩ := h.1 g.owner j hj
  rw [hti, htj] at hlt ⊢
  have := instEps_gap y0 hvi hvj (lt_of_instEps_lt y0 hvi hvj hlt)
  omega

theorem getD_map_instVec (y0 : Int) (rss : List (List Reading)) (m : Nat) :
    (rss.map (instVec y0)).getD m [] = instVec y0 (rss.getD m []) := by
  simp only [List.getD_eq_getElem?_getD, List.getElem?_map]
  cases rss[m]? <;> simp [instVec]

theorem getD_of_lt {α} (l : List α) (k : Nat) (d : α) (hk : k < l.length) : l.getD k d = l[k] := by
  simp [List.getD_eq_getElem?_getD, List.getElem?_eq_getElem hk]

/-- Time vectors built as the instants of increasing dates are `CalendarTimes`. -/
theorem calendarTimes_ofLists (y0 : Int) (rss : List (List Reading)) (h : ∀ rs ∈ rss, increasingB rs = true) :
    CalendarTimes (Times.ofLists (rss.map (instVec y0))) y0 (fun m k => (rss.getD m []).getD k ⟨0, 0⟩) := by
  have hinc : ∀ m, increasingB (rss.getD m []) = true := by
    intro m
    simp only [List.getD_eq_getElem?_getD]
    cases hm : rss[m]? with
    | none => simp [increasingB]
    | some rs => simpa using h rs (List.mem_of_getElem? hm)
  have hnp : ∀ m, (Times.ofLists (rss.map (instVec y0))).npts m = (rss.getD m []).length := by
    intro m
    show ((rss.map (instVec y0)).getD m []).length = _
    rw [getD_map_instVec]; simp [instVec]
  have htv : ∀ m k, (Times.ofLists (rss.map (instVec y0))).tv m k = (instVec y0 (rss.getD m [])).getD k 0 := by
    intro m k
    show ((rss.map (instVec y0)).getD m []).getD k 0 = _
    rw [getD_map_instVec]
  refine ⟨?_, ?_⟩
  · intro m k hk
    rw [hnp] at hk
    rw [htv]
    obtain ⟨_, hv⟩ := increasingB_sound (hinc m)
    show ((rss.getD m []).getD k ⟨0, 0⟩).Valid ∧ _ = instEps y0 ((rss.getD m []).getD k ⟨0, 0⟩)
    generalize rss.getD m [] = rs at hk hv ⊢
    rw [getD_of_lt rs k _ hk]
    refine ⟨hv _ (List.getElem_mem hk), ?_⟩
    have hk' : k < (instVec y0 rs).length := by simpa [instVec] using hk
    rw [getD_of_lt _ k _ hk']
    simp [instVec]
  · intro m i j hij hj
    rw [hnp] at hj
    obtain ⟨hp, _⟩ := increasingB_sound (hinc m)
    show ((rss.getD m []).getD i ⟨0, 0⟩).lt ((rss.getD m []).getD j ⟨0, 0⟩)
    generalize rss.getD m [] = rs at hj hp ⊢
    have hi : i < rs.length := by omega
    rw [getD_of_lt rs i _ hi, getD_of_lt rs j _ hj]
    exact (List.pairwise_iff_getElem.1 hp) i j hi hj hij

end StarsimModel.LoopInstant
