/-
Helper lemmas for C20 (Model/Intervention.lean): sorted-unique lists, first index, integer ranges, slices,
Bernoulli filter, frame lemmas for the treatment blocks.
-/
import StarsimModel.Model.Intervention
import Mathlib.Tactic.Linarith
import Mathlib.Tactic.FieldSimp

namespace StarsimModel.Intervention

/-! ### sortU -/

theorem mem_insertU (x a : Nat) (l : List Nat) : a ∈ insertU x l ↔ a = x ∨ a ∈ l := by
  induction l with
  | nil => simp [insertU]
  | cons y ys ih =>
    simp only [insertU]
    by_cases h1 : x < y
    · simp [h1]
    · by_cases h2 : x = y
      · subst h2; simp
      · simp only [h1, h2, ↓reduceIte, List.mem_cons, ih]
        constructor
        · rintro (h | h | h)
          · exact Or.inr (Or.inl h)
          · exact Or.inl h
          · exact Or.inr (Or.inr h)
        · rintro (h | h | h)
          · exact Or.inr (Or.inl h)
          · exact Or.inl h
          · exact Or.inr (Or.inr h)

theorem length_insertU_le (x : Nat) (l : List Nat) : (insertU x l).length ≤ l.length + 1 := by
  induction l with
  | nil => simp [insertU]
  | cons y ys ih =>
    simp only [insertU]
    by_cases h1 : x < y
    · simp [h1]
    · by_cases h2 : x = y
      · simp [h2]
      · simp only [h1, h2, ↓reduceIte, List.length_cons]; omega

theorem mem_sortU (a : Nat) (l : List Nat) : a ∈ sortU l ↔ a ∈ l := by
  induction l with
  | nil => simp [sortU]
  | cons y ys ih =>
    have : sortU (y :: ys) = insertU y (sortU ys) := rfl
    rw [this, mem_insertU, ih]; simp

theorem length_sortU_le (l : List Nat) : (sortU l).length ≤ l.length := by
  induction l with
  | nil => simp [sortU]
  | cons y ys ih =>
    have : sortU (y :: ys) = insertU y (sortU ys) := rfl
    rw [this]
    have := length_insertU_le y (sortU ys)
    simp only [List.length_cons]; omega

theorem sortU_isEmpty (l : List Nat) : (sortU l).isEmpty = true → ∀ a, a ∉ l := by
  intro h a ha
  have : a ∈ sortU l := (mem_sortU a l).2 ha
  cases hs : sortU l with
  | nil => rw [hs] at this; cases this
  | cons x xs => rw [hs] at h; cases h

/-! ### findFirst, intRange -/

theorem findFirst_getElem {α} [DecidableEq α] (x : α) (l : List α) (k : Nat) :
    findFirst x l = some k → l[k]? = some x := by
  induction l generalizing k with
  | nil => simp [findFirst]
  | cons y ys ih =>
    simp only [findFirst]
    by_cases h : y = x
    · simp only [h, ↓reduceIte, Option.some.injEq]
      intro hk; subst hk; simp
    · simp only [h, ↓reduceIte, Option.map_eq_some_iff]
      rintro ⟨j, hj, rfl⟩
      simpa using ih j hj

theorem findFirst_none {α} [DecidableEq α] (x : α) (l : List α) : findFirst x l = none ↔ x ∉ l := by
  induction l with
  | nil => simp [findFirst]
  | cons y ys ih =>
    simp only [findFirst]
    by_cases h : y = x
    · subst h; simp
    · have h' : ¬ x = y := fun e => h e.symm
      simp [h, h', ih]

theorem mem_intRange (t a : Int) (n : Nat) : t ∈ intRange a n ↔ a ≤ t ∧ t < a + n := by
  induction n generalizing a with
  | zero => simp [intRange]
  | succ n ih =>
    simp only [intRange, List.mem_cons, ih]
    constructor
    · rintro (h | ⟨h1, h2⟩)
      · subst h; constructor <;> omega
      · constructor <;> omega
    · rintro ⟨h1, h2⟩
      by_cases h : t = a
      · exact Or.inl h
      · right; constructor <;> omega

/-! ### slices and candidates -/

theorem pySliceTo_zero_off (c : Nat) (q : List Nat) : pySliceTo ((c : Int) + 0) q = q.take c := by
  simp [pySliceTo]

theorem getCandidates_eq_take (c : Nat) (q : List Nat) : getCandidates 0 (some c) q = q.take c := by
  unfold getCandidates
  by_cases hq : q.isEmpty = true
  · have : q = [] := by simpa using hq
    subst this; simp
  · simp only [hq]
    by_cases hc : c > q.length
    · simp [hc, List.take_of_length_le (Nat.le_of_lt hc)]
    · simp [hc, pySliceTo]

theorem getCandidates_none (hiOff : Int) (q : List Nat) : getCandidates hiOff none q = q := by
  unfold getCandidates
  by_cases hq : q.isEmpty = true
  · have : q = [] := by simpa using hq
    subst this; simp
  · simp [hq]

/-! ### Bernoulli filter -/

theorem mem_bernoulliFilter (p : Rat) (draw : Nat → Rat) (uids : List Nat) (u : Nat) :
    u ∈ bernoulliFilter p draw uids ↔ u ∈ uids ∧ draw u < p := by
  simp [bernoulliFilter]

theorem bernoulliFilter_sublist (p : Rat) (draw : Nat → Rat) (uids : List Nat) :
    (bernoulliFilter p draw uids).Sublist uids := by
  unfold bernoulliFilter; exact List.filter_sublist

/-! ### eligibility -/

theorem checkEligibility_active (active : List Nat) (e : Elig) (el : List Nat)
    (h : checkEligibility active e = .ok el) (hk : ∀ l, e ≠ .uids l) : ∀ u ∈ el, u ∈ active := by
  cases e with
  | everyone => simp [checkEligibility] at h; subst h; exact fun u hu => hu
  | mask m =>
    simp [checkEligibility] at h; subst h
    intro u hu; exact (List.mem_filter.mp hu).1
  | uids l => exact absurd rfl (hk l)
  | bad => simp [checkEligibility] at h

/-! ### treatment blocks: frame -/

theorem txBlock_succ_sub (row : TxRow) (j : Nat) (active uids : List Nat) (effDraw : Nat → Nat → Rat) (fl : Flags) :
    ∀ u ∈ (txBlock row j active uids effDraw fl).1, u ∈ uids ∧ u ∈ active ∧ fl row.pre u = true ∧ effDraw j u < row.eff := by
  intro u hu
  simp only [txBlock, mem_bernoulliFilter, List.mem_filter, Bool.and_eq_true, decide_eq_true_eq] at hu
  exact ⟨hu.1.1, hu.1.2.1, hu.1.2.2, hu.2⟩

theorem txBlock_frame (row : TxRow) (j : Nat) (active uids : List Nat) (effDraw : Nat → Nat → Rat) (fl : Flags)
    (u : Nat) (hu : u ∉ (txBlock row j active uids effDraw fl).1) (s : Nat) :
    (txBlock row j active uids effDraw fl).2 s u = fl s u := by
  simp only [txBlock] at hu ⊢
  simp [hu]

theorem txBlocks_succ_sub (rows : List TxRow) : ∀ (j : Nat) (active uids : List Nat) (effDraw : Nat → Nat → Rat) (fl : Flags),
    ∀ u ∈ (txBlocks rows j active uids effDraw fl).1, u ∈ uids ∧ u ∈ active := by
  induction rows with
  | nil => intro j active uids effDraw fl u hu; simp [txBlocks] at hu
  | cons row rest ih =>
    intro j active uids effDraw fl u hu
    simp only [txBlocks, List.mem_append] at hu
    rcases hu with h | h
    · have := txBlock_succ_sub row j active uids effDraw fl u h
      exact ⟨this.1, this.2.1⟩
    · exact ih _ _ _ _ _ u h

theorem txBlocks_frame (rows : List TxRow) : ∀ (j : Nat) (active uids : List Nat) (effDraw : Nat → Nat → Rat) (fl : Flags)
    (u : Nat), (u ∉ uids ∨ u ∉ active) → ∀ s, (txBlocks rows j active uids effDraw fl).2 s u = fl s u := by
  induction rows with
  | nil => intro j active uids effDraw fl u _ s; simp [txBlocks]
  | cons row rest ih =>
    intro j active uids effDraw fl u hu s
    simp only [txBlocks]
    rw [ih _ _ _ _ _ u hu s]
    apply txBlock_frame
    intro hmem
    have := txBlock_succ_sub row j active uids effDraw fl u hmem
    rcases hu with h | h
    · exact h this.1
    · exact h this.2.1

/-! ### window arithmetic (exact rationals) -/

/-- the spec / fine-step adjustment never reaches a whole year -/
theorem adj_fine_lt_one (dt : Rat) (hdt : 0 < dt) :
    (((1 / dt).floor - 1 : Int) : Rat) * dt < 1 := by
  have h1 : ((1 / dt).floor : Rat) ≤ 1 / dt := Rat.floor_le _
  have h2 : ((1 / dt).floor : Rat) * dt ≤ 1 := by
    have := mul_le_mul_of_nonneg_right h1 (le_of_lt hdt)
    have hne : dt ≠ 0 := ne_of_gt hdt
    have e : 1 / dt * dt = 1 := by field_simp
    rwa [e] at this
  push_cast
  nlinarith

theorem adj_fine_nonneg (dt : Rat) (hdt : 0 < dt) (h1 : dt < 1) : 0 ≤ (1 / dt).floor - 1 := by
  have h : (1 : Rat) < 1 / dt := by
    rw [lt_div_iff₀ hdt]; linarith
  have h2 : (1 / dt) < (((1 / dt).floor + 1 : Int) : Rat) := Rat.lt_floor_add_one _
  have h3 : (1 : Rat) < (((1 / dt).floor + 1 : Int) : Rat) := lt_trans h h2
  have h4 : (1 : Int) < (1 / dt).floor + 1 := by exact_mod_cast h3
  omega

end StarsimModel.Intervention
