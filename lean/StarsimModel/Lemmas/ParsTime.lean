/-
C17 (round 5) — helper lemmas about Model/ParsTime.lean (`TimePar.set` / constructor / `validate_units` over the regenerated
statement lists and name table of Generated/ParsTimePar.lean).
-/
import StarsimModel.Model.ParsTime
import StarsimModel.Generated.ParsTimePar
namespace StarsimModel.ParsTime

/-- the regenerated environment: name table, `time_units`, validated fields -/
def genEnv : Env := ⟨Gen.unitTable, Gen.timeUnitNames, Gen.tpValidated⟩
/-- `old.set(...)` as regenerated -/
def genSet (st : TP) (a : Args) : Except Err TP := tpSet Gen.tpSetSteps genEnv st a
/-- `type(old)(...)` as regenerated -/
def genCtor (a : Args) : Except Err TP := tpCtor Gen.tpCtorSteps genEnv a

theorem lookup_mem (tbl : List (UVal × List UVal)) (u c : UVal) (h : lookup tbl u = some c) :
    ∃ ns, (c, ns) ∈ tbl ∧ u ∈ ns := by
  induction tbl with
  | nil => simp [lookup] at h
  | cons e rest ih =>
    obtain ⟨k, ns⟩ := e
    simp only [lookup] at h
    cases hr : lookup rest u with
    | some c' =>
      rw [hr] at h; simp at h; subst h
      obtain ⟨ns', hm, hu⟩ := ih hr
      exact ⟨ns', List.mem_cons_of_mem _ hm, hu⟩
    | none =>
      rw [hr] at h
      by_cases hu : u ∈ ns
      · simp [hu] at h; subst h; exact ⟨ns, List.mem_cons_self, hu⟩
      · simp [hu] at h

theorem stepSet_assign (E : Env) (a : Args) (st : TP) (f : Field) : stepSet E a st (.assignIfGiven f) = .ok (assignField f a st) := rfl
theorem stepSet_store (E : Env) (a : Args) (st : TP) (f : Field) : stepSet E a st (.store f) = .ok (storeField f a st) := rfl

theorem cached_ok (E : Env) (a : Args) (st st' : TP) (h : stepSet E a st .updateCachedIfLive = .ok st') : st' = st := by
  simp only [stepSet] at h
  split at h
  · split at h <;> simp_all
  · simp_all

theorem cached_idle (E : Env) (a : Args) (st : TP) (h1 : st.initialized = false) (h2 : a.force = false) :
    stepSet E a st .updateCachedIfLive = .ok st := by
  simp [stepSet, h1, h2]

theorem validate_ok (tbl : List (UVal × List UVal)) (st st' : TP)
    (h : validateFields tbl [.unit, .parentUnit] st = .ok st') :
    lookup tbl st.unit = some st'.unit ∧ lookup tbl st.parentUnit = some st'.parentUnit ∧ st'.v = st.v ∧
    st'.selfDt = st.selfDt ∧ st'.parentDt = st.parentDt ∧ st'.initialized = st.initialized := by
  simp only [validateFields] at h
  split at h
  · rename_i c hc
    split at h
    · rename_i c' hc'
      simp at h; subst h; simp_all
    · simp at h
  · simp at h

/-- the object after the five guarded assignments of `set()` -/
def assigned (st : TP) (a : Args) : TP :=
  assignField .selfDt a (assignField .parentDt a (assignField .parentUnit a (assignField .unit a (assignField .v a st))))

theorem assigned_fields (st : TP) (a : Args) :
    (assigned st a).v = a.v.getD st.v ∧ (assigned st a).unit = a.unit.orElse (fun _ => st.unit) ∧
    (assigned st a).parentUnit = a.parentUnit.orElse (fun _ => st.parentUnit) ∧
    (assigned st a).parentDt = a.parentDt.orElse (fun _ => st.parentDt) ∧
    (assigned st a).selfDt = a.selfDt.orElse (fun _ => st.selfDt) ∧ (assigned st a).initialized = st.initialized := by
  obtain ⟨av, au, apu, apd, asd, af⟩ := a
  cases av <;> cases au <;> cases apu <;> cases apd <;> cases asd <;> simp [assigned, assignField]

/-- what `set()` as regenerated does: the guarded assignments, the cached factor when live, the name table last -/
theorem genSet_ok (st st' : TP) (a : Args) (h : genSet st a = .ok st') :
    validateFields Gen.unitTable [.unit, .parentUnit] (assigned st a) = .ok st' := by
  unfold genSet tpSet at h
  simp only [Gen.tpSetSteps, runSteps, stepSet_assign] at h
  change (match stepSet genEnv a (assigned st a) .updateCachedIfLive with
          | .ok s => (match stepSet genEnv a s .validate with | .ok s' => Except.ok s' | .error e => .error e)
          | .error e => .error e) = .ok st' at h
  cases hc : stepSet genEnv a (assigned st a) .updateCachedIfLive with
  | error e => rw [hc] at h; simp at h
  | ok s =>
    rw [hc] at h
    have := cached_ok _ _ _ _ hc; subst this
    simp only [stepSet, genEnv, Gen.tpValidated] at h
    split at h
    · rename_i s' hs; simp at h; subst h; exact hs
    · simp at h

end StarsimModel.ParsTime
