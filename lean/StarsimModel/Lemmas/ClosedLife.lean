/-
ClosedLife — the closed composed model (Lemmas/Closed.lean: transmission produced by the transmission model of C12 inside
the composed step of Model/SimCore.lean): infection needs an infectious source, and a population without infected agents
stays without infected agents for ever, whatever the networks, betas, random numbers, births, deaths and prognosis draws.

  * `closedCall_needs_source`: every target of the step's `set_prognoses` call has an ACTIVE, INFECTIOUS source in the
    state transmission read;
  * `closedCall_nil`: no infected agent → the call is empty;
  * `closedStep_noInf` / `closedRun_noInf`: "nobody infected" is preserved by every closed step and every closed run, and
    every row recorded from such a state has `n_infected = 0` (and prevalence numerator 0);
  * `closedRun_length` / `closedRun_life`: the hypothesis-free identifier / life-status theorems of SimCoreLife carried to
    closed runs.
-/
import StarsimModel.Lemmas.Closed
import StarsimModel.Lemmas.SimCoreLife

namespace StarsimModel.SimCore
open StarsimModel.Transmission StarsimModel.Compartments Gen.Sir

/-- nobody in the identifier space is flagged infected -/
def NoInf (pop : List Agent) : Prop := ∀ a ∈ pop, a.fl.infected = false

theorem stepState_noInf_flags : ∀ (s : Flags) (g : StepStateG), s.infected = false → (stepState s g).infected = false := by
  decide
theorem stepDie_noInf_flags : ∀ (s : Flags), s.infected = false → (stepDie s ⟨true⟩).infected = false := by decide

/-- **Infection needs an infectious source**: every target of the call made by the closed step was reached from an agent
    that is active and infectious in the state transmission read. -/
theorem closedCall_needs_source (s : Sim) (x : ClosedEv) (hr : NonnegRands x.nets) (e : Inf) (he : e ∈ closedCall s x) :
    ∃ (u : Nat) (a : Agent), (preInfect s x).pop[u]? = some a ∧ a.present = true ∧ a.fl.infected = true := by
  unfold closedCall at he
  obtain ⟨ev, hev, _⟩ := List.mem_map.mp he
  obtain ⟨n, hn, _, d, _, ed, hed, ht, _, _⟩ := mem_allEvents.mp (mem_infect_allEvents hev)
  have hmem : n ∈ x.nets := List.mem_of_getElem? hn
  have hsrc := (transmitsDir_factors ht (hr n hmem ed hed d)).1
  simp only [dstate] at hsrc
  cases hp : (preInfect s x).pop[ed.src d]? with
  | none => rw [hp] at hsrc; cases hsrc
  | some a =>
      rw [hp] at hsrc
      simp only [Bool.and_eq_true] at hsrc
      exact ⟨ed.src d, a, hp, hsrc.1, hsrc.2⟩

theorem closedCall_nil (s : Sim) (x : ClosedEv) (hr : NonnegRands x.nets) (h : NoInf (preInfect s x).pop) :
    closedCall s x = [] := by
  apply List.eq_nil_iff_forall_not_mem.mpr
  intro e he
  obtain ⟨u, a, hu, _, hi⟩ := closedCall_needs_source s x hr e he
  rw [h a (List.mem_of_getElem? hu)] at hi
  cases hi

theorem demographics_noInf (ev : Events) (s : Sim) (h : NoInf s.pop) : NoInf (demographicsPhase ev s).pop := by
  intro a ha
  simp only [demographicsPhase] at ha
  rw [List.mem_mapIdx] at ha
  obtain ⟨i, hi, rfl⟩ := ha
  have hmem : (s.pop ++ List.replicate ev.births newborn)[i] ∈ s.pop ++ List.replicate ev.births newborn :=
    List.getElem_mem _
  have hc : ((s.pop ++ List.replicate ev.births newborn)[i]).fl.infected = false := by
    rcases List.mem_append.mp hmem with h1 | h1
    · exact h _ h1
    · rw [(List.mem_replicate.mp h1).2]; rfl
  by_cases hb : i ∈ ev.background
  · simp only [hb, if_true, requestDeath]; exact hc
  · simp only [hb, if_false]; exact hc

theorem stepStateAgent_noInf (ti : Nat) (a : Agent) (h : a.fl.infected = false) :
    (stepStateAgent ti a).fl.infected = false := by
  unfold stepStateAgent
  by_cases hd : due a.tm.ti_dead ti = true
  · simp only [hd, if_true, requestDeath]; exact stepState_noInf_flags _ _ h
  · simp only [hd]; exact stepState_noInf_flags _ _ h

theorem mapActive_noInf (f : Agent → Agent) (hf : ∀ a, a.fl.infected = false → (f a).fl.infected = false)
    (pop : List Agent) (h : NoInf pop) : NoInf (mapActive f pop) := by
  intro a ha
  simp only [mapActive, List.mem_map] at ha
  obtain ⟨b, hb, rfl⟩ := ha
  by_cases hp : b.present = true
  · simp only [hp, if_true]; exact hf b (h b hb)
  · simp only [hp]; exact h b hb

theorem dieAgent_noInf (ti : Nat) (a : Agent) (h : a.fl.infected = false) : (dieAgent ti a).fl.infected = false := by
  unfold dieAgent
  by_cases hd : due a.pDead ti = true
  · rw [if_pos hd]; exact stepDie_noInf_flags _ h
  · rw [if_neg hd]; exact h

theorem infectEmpty_noInf (ti : Nat) (pop : List Agent) (h : NoInf pop) : NoInf (pop.mapIdx (infectAgent ti [])) := by
  intro a ha
  rw [List.mem_mapIdx] at ha
  obtain ⟨i, hi, rfl⟩ := ha
  have : (infectAgent ti [] i pop[i]).fl = pop[i].fl := by
    simp only [infectAgent, findInf, List.reverse_nil, List.find?_nil]
    exact setPrognoses_untargeted _
  rw [this]; exact h _ (List.getElem_mem _)

theorem countActive_noInf (pop : List Agent) (h : NoInf pop) : countActive (·.fl.infected) pop = 0 := by
  unfold countActive
  rw [List.length_eq_zero_iff, List.filter_eq_nil_iff]
  intro a ha
  have := h a ha
  simp [this]

/-- the mid-step population of a closed step from a state without infected agents has no infected agents -/
theorem closedMid_noInf (s : Sim) (x : ClosedEv) (hr : NonnegRands x.nets) (h : NoInf s.pop) :
    NoInf (midPop s ⟨x.births, x.background, [closedCall s x]⟩) := by
  have hpre : NoInf (preInfect s x).pop :=
    mapActive_noInf _ (stepStateAgent_noInf _) _ (demographics_noInf ⟨x.births, x.background, []⟩ s h)
  have hnil := closedCall_nil s x hr hpre
  rw [hnil]
  show NoInf (mapActive (dieAgent _) (infectPhase ⟨x.births, x.background, [[]]⟩ (preInfect s x)).pop)
  apply mapActive_noInf _ (dieAgent_noInf _)
  show NoInf ((preInfect s x).pop.mapIdx (infectAgent (preInfect s x).ti []))
  exact infectEmpty_noInf _ _ hpre

/-- **Without infected agents there are no new infections, one step**: the state stays free of infected agents and the row
    recorded by the step has `n_infected = 0`. -/
theorem closedStep_noInf (s : Sim) (x : ClosedEv) (hr : NonnegRands x.nets) (h : NoInf s.pop) :
    NoInf (closedStep s x).pop ∧ ∃ r : Row, (closedStep s x).rows = s.rows ++ [r] ∧ r.nI = 0 := by
  have hmid := closedMid_noInf s x hr h
  constructor
  · intro a ha
    unfold closedStep at ha
    rw [simStep_pop] at ha
    obtain ⟨b, hb, rfl⟩ := List.mem_map.mp ha
    exact hmid b hb
  · obtain ⟨r, hrows, _, _, _, hI, _⟩ := simStep_rows s ⟨x.births, x.background, [closedCall s x]⟩
    exact ⟨r, hrows, by rw [hI]; exact countActive_noInf _ hmid⟩

/-- **The disease-free state is absorbing over whole closed runs**: from any population in which nobody is flagged infected,
    over any networks, betas, non-negative random numbers, births, deaths and prognosis draws and any number of steps, nobody
    is ever infected again and every recorded row has `n_infected = 0`. -/
theorem closedRun_noInf (xs : List ClosedEv) : ∀ (s : Sim), NoInf s.pop → (∀ x ∈ xs, NonnegRands x.nets) →
    NoInf (closedRun s xs).pop ∧ ∃ rs : List Row, (closedRun s xs).rows = s.rows ++ rs ∧ rs.length = xs.length ∧
      ∀ r ∈ rs, r.nI = 0 := by
  induction xs with
  | nil => intro s h _; exact ⟨h, [], by simp [closedRun], rfl, by intro r hr; cases hr⟩
  | cons x xs ih =>
      intro s h hr
      obtain ⟨h1, r, hrows, hI⟩ := closedStep_noInf s x (hr x (List.mem_cons_self ..)) h
      obtain ⟨h2, rs, hrs, hlen, hall⟩ := ih (closedStep s x) h1 (fun y hy => hr y (List.mem_cons_of_mem _ hy))
      refine ⟨h2, r :: rs, ?_, by simp [hlen], ?_⟩
      · show (closedRun (closedStep s x) xs).rows = _
        rw [hrs, hrows, List.append_assoc]; rfl
      · intro r' hr'
        rcases List.mem_cons.mp hr' with h3 | h3
        · rw [h3]; exact hI
        · exact hall r' h3

/-! ### Identifiers and life status carried to closed runs (no hypotheses) -/

theorem closedRun_length (xs : List ClosedEv) : ∀ s : Sim,
    (closedRun s xs).pop.length = s.pop.length + sumNat (xs.map (·.births)) := by
  induction xs with
  | nil => intro s; simp [closedRun, sumNat]
  | cons x xs ih =>
      intro s
      show (closedRun (closedStep s x) xs).pop.length = _
      rw [ih, List.map_cons, sumNat_cons]
      unfold closedStep
      rw [simStep_length]
      show s.pop.length + x.births + _ = _
      omega

theorem closedRun_life (xs : List ClosedEv) : ∀ (s : Sim) (i : Nat) (a : Agent), s.pop[i]? = some a →
    ∃ a', (closedRun s xs).pop[i]? = some a' ∧ (a.alive = false → a'.alive = false) ∧
      (a.present = false → a'.present = false) := by
  induction xs with
  | nil => intro s i a h; exact ⟨a, h, fun x => x, fun x => x⟩
  | cons x xs ih =>
      intro s i a h
      obtain ⟨a1, g1, l1, p1, _, _⟩ := simStep_life s ⟨x.births, x.background, [closedCall s x]⟩ i a h
      obtain ⟨a', g', l', p'⟩ := ih (closedStep s x) i a1 g1
      exact ⟨a', g', fun y => l' (l1 y), fun y => p' (p1 y)⟩

end StarsimModel.SimCore
