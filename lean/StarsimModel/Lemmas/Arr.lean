/-
Helper lemmas about the storage primitives of Model/Arr.lean (scatter / gather / slices / sorted insertion).
Core Lean only.
-/
import StarsimModel.Model.Arr

namespace StarsimModel.Arr

/-! ### scatterConst -/

@[simp] theorem scatterConst_length (us : List Nat) (v : Val) : ∀ raw : List Val, (scatterConst raw us v).length = raw.length := by
  induction us with
  | nil => intro raw; rfl
  | cons u us ih => intro raw; simp [scatterConst, List.foldl_cons] at ih ⊢; rw [ih]; simp

theorem scatterConst_getD (us : List Nat) (v : Val) (u : Nat) :
    ∀ raw : List Val, (scatterConst raw us v).getD u .undef = if u ∈ us ∧ u < raw.length then v else raw.getD u .undef := by
  induction us with
  | nil => intro raw; simp [scatterConst]
  | cons w us ih =>
      intro raw
      have := ih (raw.set w v)
      simp only [scatterConst, List.foldl_cons] at this ⊢
      rw [this]
      simp only [List.length_set, List.mem_cons, List.getD_eq_getElem?_getD, List.getElem?_set]
      by_cases h1 : u ∈ us <;> by_cases h2 : u < raw.length <;> by_cases h3 : w = u <;> simp [h1, h2, h3] <;> grind

/-! ### scatter -/

@[simp] theorem scatter_length : ∀ (us : List Nat) (vs raw : List Val), (scatter raw us vs).length = raw.length
  | [], _, _ => by simp [scatter]
  | _ :: _, [], _ => by simp [scatter]
  | u :: us, v :: vs, raw => by simp [scatter, scatter_length us vs]

theorem scatter_getD_not_mem (u : Nat) : ∀ (us : List Nat) (vs raw : List Val), u ∉ us →
    (scatter raw us vs).getD u .undef = raw.getD u .undef
  | [], _, _, _ => by simp [scatter]
  | _ :: _, [], _, _ => by simp [scatter]
  | w :: us, v :: vs, raw, h => by
      simp only [List.mem_cons, not_or] at h
      simp only [scatter]
      rw [scatter_getD_not_mem u us vs _ h.2]
      have hw : ¬ w = u := fun hw => h.1 hw.symm
      simp [List.getD_eq_getElem?_getD, List.getElem?_set, hw]

theorem scatter_getD_nodup : ∀ (us : List Nat) (vs raw : List Val), us.Nodup → us.length = vs.length →
    ∀ (i : Nat) (hi : i < us.length) (hv : i < vs.length), us[i] < raw.length →
    (scatter raw us vs).getD us[i] .undef = vs[i]
  | [], _, _, _, _, i, hi, _, _ => by simp at hi
  | _ :: _, [], _, _, hl, _, _, _, _ => by simp at hl
  | w :: us, v :: vs, raw, hnd, hl, i, hi, hv, hr => by
      simp only [List.nodup_cons] at hnd
      simp only [scatter]
      cases i with
      | zero =>
          simp only [List.getElem_cons_zero] at hr ⊢
          rw [scatter_getD_not_mem w us vs _ hnd.1]
          simp [List.getD_eq_getElem?_getD, hr]
      | succ j =>
          simp only [List.getElem_cons_succ] at hr ⊢
          exact scatter_getD_nodup us vs _ hnd.2 (by simpa using hl) j (by simpa using hi) (by simpa using hv) (by simpa using hr)

/-! ### assignRaw -/

@[simp] theorem assignRaw_length (raw : List Val) (us : List Nat) (rhs : Rhs) : (assignRaw raw us rhs).length = raw.length := by
  cases rhs with
  | scalar v => simp [assignRaw]
  | list vs =>
      simp only [assignRaw]
      split
      · simp
      · split <;> simp

theorem assignRaw_getD_not_mem (raw : List Val) (us : List Nat) (rhs : Rhs) (u : Nat) (h : u ∉ us) :
    (assignRaw raw us rhs).getD u .undef = raw.getD u .undef := by
  cases rhs with
  | scalar v => simp only [assignRaw]; rw [scatterConst_getD]; simp [h]
  | list vs =>
      simp only [assignRaw]
      split
      · exact scatter_getD_not_mem u us vs raw h
      · split
        · rw [scatterConst_getD]; simp [h]
        · rfl

theorem assignRaw_scalar_getD (raw : List Val) (us : List Nat) (v : Val) (u : Nat) (h : u ∈ us) (hr : u < raw.length) :
    (assignRaw raw us (.scalar v)).getD u .undef = v := by
  simp only [assignRaw]; rw [scatterConst_getD]; simp [h, hr]

/-! ### scatter is the storage image of pointwise map update -/

theorem getD_set_eq (raw : List Val) (u : Nat) (v : Val) (hu : u < raw.length) :
    (fun y => (raw.set u v).getD y Val.undef) = (fun y => if y = u then v else raw.getD y Val.undef) := by
  funext y
  simp only [List.getD_eq_getElem?_getD, List.getElem?_set]
  by_cases h : u = y
  · subst h; simp [hu]
  · have h' : ¬ y = u := fun e => h e.symm
    simp [h, h']

theorem scatter_eq_updMany : ∀ (us : List Nat) (vs raw : List Val), (∀ u ∈ us, u < raw.length) →
    ∀ x, (scatter raw us vs).getD x .undef = updMany (fun y => raw.getD y .undef) us vs x
  | [], _, _, _, _ => by simp [scatter, updMany]
  | _ :: _, [], _, _, _ => by simp [scatter, updMany]
  | u :: us, v :: vs, raw, h, x => by
      have hu : u < raw.length := h u (List.mem_cons_self ..)
      have hrest : ∀ w ∈ us, w < (raw.set u v).length := by
        intro w hw; simpa using h w (List.mem_cons_of_mem _ hw)
      have ih := scatter_eq_updMany us vs (raw.set u v) hrest x
      simp only [scatter, updMany]
      rw [ih, getD_set_eq raw u v hu]

theorem scatterConst_eq_scatter (v : Val) : ∀ (us : List Nat) (raw : List Val),
    scatterConst raw us v = scatter raw us (List.replicate us.length v)
  | [], _ => by simp [scatterConst, scatter]
  | u :: us, raw => by
      have ih := scatterConst_eq_scatter v us (raw.set u v)
      simp only [scatterConst, List.foldl_cons, List.length_cons, List.replicate_succ, scatter] at ih ⊢
      exact ih

theorem rhsVals_length (us : List Nat) (rhs : Rhs) (h : rhsOk us rhs = true) : (rhsVals us.length rhs).length = us.length := by
  cases rhs with
  | scalar v => simp [rhsVals]
  | list vs =>
      simp only [rhsOk, Bool.or_eq_true, beq_iff_eq] at h
      simp only [rhsVals]
      by_cases h1 : vs.length = us.length
      · simp [h1]
      · have h2 : vs.length = 1 := by cases h with | inl h => exact absurd h h1 | inr h => exact h
        match vs, h2 with
        | [v], _ =>
            have h1' : ¬ 1 = us.length := by simpa using h1
            simp [h1']

theorem assignRaw_eq_scatter (raw : List Val) (us : List Nat) (rhs : Rhs) (h : rhsOk us rhs = true) :
    assignRaw raw us rhs = scatter raw us (rhsVals us.length rhs) := by
  cases rhs with
  | scalar v => simp [assignRaw, rhsVals, scatterConst_eq_scatter]
  | list vs =>
      simp only [rhsOk, Bool.or_eq_true, beq_iff_eq] at h
      simp only [assignRaw, rhsVals]
      by_cases h1 : vs.length = us.length
      · simp [h1]
      · have h2 : vs.length = 1 := by cases h with | inl h => exact absurd h h1 | inr h => exact h
        match vs, h2 with
        | [v], _ =>
            have h1' : ¬ 1 = us.length := by simpa using h1
            simp [h1', scatterConst_eq_scatter]

theorem assignRaw_eq_updMany (raw : List Val) (us : List Nat) (rhs : Rhs) (h : rhsOk us rhs = true)
    (hr : ∀ u ∈ us, u < raw.length) (x : Nat) :
    (assignRaw raw us rhs).getD x .undef = updMany (fun y => raw.getD y .undef) us (rhsVals us.length rhs) x := by
  rw [assignRaw_eq_scatter raw us rhs h]
  exact scatter_eq_updMany us _ raw hr x

/-! ### updMany -/

theorem updMany_congr (u : Nat) : ∀ (us : List Nat) (vs : List Val) (m1 m2 : Nat → Val),
    (m1 u = m2 u ∨ u ∈ (us.zip vs).map Prod.fst) → updMany m1 us vs u = updMany m2 us vs u
  | [], _, m1, m2, h => by simpa [updMany] using h
  | _ :: _, [], m1, m2, h => by simpa [updMany] using h
  | w :: us, v :: vs, m1, m2, h => by
      simp only [updMany]
      apply updMany_congr u us vs
      by_cases hw : u = w
      · left; simp [hw]
      · rcases h with h | h
        · left; simp [hw, h]
        · right; simpa [hw] using h

theorem updMany_not_mem (u : Nat) : ∀ (us : List Nat) (vs : List Val) (m : Nat → Val), u ∉ us → updMany m us vs u = m u
  | [], _, _, _ => by simp [updMany]
  | _ :: _, [], _, _ => by simp [updMany]
  | w :: us, v :: vs, m, h => by
      simp only [List.mem_cons, not_or] at h
      simp only [updMany]
      rw [updMany_not_mem u us vs _ h.2]
      simp [h.1]

theorem updMany_nodup : ∀ (us : List Nat) (vs : List Val) (m : Nat → Val), us.Nodup →
    ∀ (i : Nat) (hi : i < us.length) (hv : i < vs.length), updMany m us vs us[i] = vs[i]
  | [], _, _, _, i, hi, _ => by simp at hi
  | _ :: _, [], _, _, _, _, hv => by simp at hv
  | w :: us, v :: vs, m, hnd, i, hi, hv => by
      simp only [List.nodup_cons] at hnd
      simp only [updMany]
      cases i with
      | zero => simp only [List.getElem_cons_zero]; rw [updMany_not_mem w us vs _ hnd.1]; simp
      | succ j => simp only [List.getElem_cons_succ]; exact updMany_nodup us vs _ hnd.2 j (by simpa using hi) (by simpa using hv)

theorem zip_fst_of_length_eq {α β} : ∀ (l : List α) (r : List β), l.length = r.length → (l.zip r).map Prod.fst = l
  | [], _, _ => by simp
  | _ :: _, [], h => by simp at h
  | a :: l, b :: r, h => by simp [zip_fst_of_length_eq l r (by simpa using h)]

/-! ### new identifiers -/

theorem mem_newIds (n k u : Nat) : u ∈ newIds n k ↔ n ≤ u ∧ u < n + k := by
  simp only [newIds, List.mem_map, List.mem_range]
  constructor
  · rintro ⟨i, hi, rfl⟩; omega
  · intro h; exact ⟨u - n, by omega, by omega⟩

@[simp] theorem newIds_length (n k : Nat) : (newIds n k).length = k := by simp [newIds]

theorem newIds_nodup (n k : Nat) : (newIds n k).Nodup := by
  unfold newIds
  rw [List.Nodup, List.pairwise_map]
  exact (List.nodup_range (n := k)).imp (fun h => by omega)

theorem newIds_getElem (n k i : Nat) (h : i < (newIds n k).length) : (newIds n k)[i] = n + i := by
  simp [newIds]; omega

/-! ### growth -/

/-- the storage after the reallocation step of `grow`, before the new values are written -/
def growStore (a : Arr) (nNew : Nat) : Arr :=
  let lenUsed' := a.lenUsed + nNew
  if Gen.needsRealloc a.lenUsed nNew a.lenTot then
    let nGrow := Gen.growAmount nNew a.lenTot
    let raw1 := a.raw ++ List.replicate nGrow .undef
    let lenTot' := raw1.length
    let raw2 := if Gen.nanFillTail nGrow nNew
      then scatterConst raw1 ((List.range (lenTot' - lenUsed')).map (· + lenUsed')) a.nan
      else raw1
    { a with raw := raw2, lenUsed := lenUsed', lenTot := lenTot' }
  else { a with lenUsed := lenUsed' }

theorem grow_eq (a : Arr) (us : List Nat) (nv : Option Rhs) :
    grow a us nv =
      (let a1 := growStore a us.length
       let rhs := match nv with | some r => r | none => defaultRhs a us
       if !rhsOk us rhs then .error .value
       else if !inRange a1 us then .error .index
       else .ok { a1 with raw := assignRaw a1.raw us rhs }) := by
  rfl

theorem growAmount_ge (nNew lenTot : Nat) : nNew ≤ Gen.growAmount nNew lenTot := by
  simp only [Gen.growAmount, Nat.max_def]; split <;> omega

theorem getD_append_replicate_undef (raw : List Val) (g x : Nat) :
    (raw ++ List.replicate g Val.undef).getD x .undef = raw.getD x .undef := by
  simp only [List.getD_eq_getElem?_getD]
  by_cases h : x < raw.length
  · rw [List.getElem?_append_left h]
  · rw [List.getElem?_append_right (by omega)]
    simp [List.getElem?_replicate]
    have : raw[x]? = none := by simp; omega
    simp [this]
    split <;> rfl

theorem growStore_spec (a : Arr) (n k : Nat) (h : WF n a) :
    WF (n + k) (growStore a k) ∧ (growStore a k).nan = a.nan ∧ (growStore a k).default = a.default ∧
    (growStore a k).kind = a.kind ∧ ∀ x, x < n + k → (growStore a k).cell x = a.cell x := by
  obtain ⟨hu, ht, hle⟩ := h
  unfold growStore
  by_cases hr : Gen.needsRealloc a.lenUsed k a.lenTot = true
  · have hg := growAmount_ge k a.lenTot
    simp only [hr, ↓reduceIte]
    by_cases hn : Gen.nanFillTail (Gen.growAmount k a.lenTot) k = true
    · simp only [hn, ↓reduceIte]
      refine ⟨⟨by simp [hu], by simp, by simp; omega⟩, by first | rfl | trivial, by first | rfl | trivial, by first | rfl | trivial, ?_⟩
      intro x hx
      simp only [Arr.cell]
      rw [scatterConst_getD]
      have : ¬ (x ∈ List.map (fun x => x + (a.lenUsed + k)) (List.range ((a.raw ++ List.replicate (Gen.growAmount k a.lenTot) Val.undef).length - (a.lenUsed + k)))) := by
        simp only [List.mem_map, List.mem_range, not_exists, not_and]
        intro i _ hi; omega
      simp only [this, false_and, ↓reduceIte]
      exact getD_append_replicate_undef ..
    · simp only [hn]
      refine ⟨⟨by simp [hu], by simp, by simp; omega⟩, by first | rfl | trivial, by first | rfl | trivial, by first | rfl | trivial, ?_⟩
      intro x _
      simp only [Arr.cell]
      exact getD_append_replicate_undef ..
  · simp only [hr]
    have : ¬ (a.lenUsed + k > a.lenTot) := by simpa [Gen.needsRealloc] using hr
    refine ⟨⟨by simp [hu], by simpa using ht, by simp; omega⟩, by first | rfl | trivial, by first | rfl | trivial, by first | rfl | trivial, ?_⟩
    intro x _; rfl



theorem rhsOk_of_vals_length (us : List Nat) (rhs : Rhs) (h : (rhsVals us.length rhs).length = us.length) : rhsOk us rhs = true := by
  cases rhs with
  | scalar v => rfl
  | list vs =>
      simp only [rhsOk, Bool.or_eq_true, beq_iff_eq]
      simp only [rhsVals] at h
      by_cases h1 : vs.length = us.length
      · exact Or.inl h1
      · right
        have h1' : ¬ (vs.length == us.length) = true := by simpa using h1
        simp only [h1'] at h
        match vs, h with
        | [], h => simp at h; exact absurd (by simpa using h) h1
        | [v], _ => rfl
        | _ :: _ :: _, h => simp at h; exact absurd (by simpa using h) h1

/-- `grow` with explicit or default values, for the fresh identifiers `n … n+k-1` of a well-formed array -/
theorem grow_spec' (a : Arr) (n k : Nat) (h : WF n a) (nv : Option Rhs) (rhs : Rhs)
    (hrhs : rhs = (match nv with | some r => r | none => defaultRhs a (newIds n k)))
    (hok : rhsOk (newIds n k) rhs = true) :
    ∃ a', grow a (newIds n k) nv = .ok a' ∧ WF (n + k) a' ∧ a'.nan = a.nan ∧ a'.default = a.default ∧ a'.kind = a.kind ∧
      ∀ x, x < n + k → a'.cell x = updMany a.cell (newIds n k) (rhsVals k rhs) x := by
  obtain ⟨hwf, hnan, hdef, hkind, hcell⟩ := growStore_spec a n k h
  have hin : ∀ u ∈ newIds n k, u < (growStore a k).raw.length := by
    intro u hu; have := (mem_newIds n k u).mp hu; have := hwf.le; omega
  have hin' : inRange (growStore a k) (newIds n k) = true := by
    simp only [inRange, List.all_eq_true, decide_eq_true_eq]; exact hin
  refine ⟨{ growStore a k with raw := assignRaw (growStore a k).raw (newIds n k) rhs }, ?_, ?_, hnan, hdef, hkind, ?_⟩
  · rw [grow_eq]; simp only [newIds_length, ← hrhs]; simp [hok, hin']
  · exact ⟨hwf.used, by simpa using hwf.tot, by simpa using hwf.le⟩
  · intro x hx
    simp only [Arr.cell]
    rw [assignRaw_eq_updMany _ _ _ hok hin]
    simp only [newIds_length]
    apply updMany_congr
    left
    exact hcell x hx

theorem grow_spec (a : Arr) (n k : Nat) (h : WF n a) (hd : (defaultVals a (newIds n k)).length = k) :
    ∃ a', grow a (newIds n k) none = .ok a' ∧ WF (n + k) a' ∧ a'.nan = a.nan ∧ a'.default = a.default ∧ a'.kind = a.kind ∧
      ∀ x, x < n + k → a'.cell x = updMany a.cell (newIds n k) (defaultVals a (newIds n k)) x := by
  obtain ⟨hwf, hnan, hdef, hkind, hcell⟩ := growStore_spec a n k h
  have hok : rhsOk (newIds n k) (defaultRhs a (newIds n k)) = true :=
    rhsOk_of_vals_length _ _ (by simpa [defaultVals] using hd)
  have hin : ∀ u ∈ newIds n k, u < (growStore a k).raw.length := by
    intro u hu; have := (mem_newIds n k u).mp hu; have := hwf.le; omega
  have hin' : inRange (growStore a k) (newIds n k) = true := by
    simp only [inRange, List.all_eq_true, decide_eq_true_eq]; exact hin
  refine ⟨{ growStore a k with raw := assignRaw (growStore a k).raw (newIds n k) (defaultRhs a (newIds n k)) }, ?_, ?_, hnan, hdef, hkind, ?_⟩
  · rw [grow_eq]; simp [hok, hin']
  · exact ⟨hwf.used, by simpa using hwf.tot, by simpa using hwf.le⟩
  · intro x hx
    simp only [Arr.cell]
    rw [assignRaw_eq_updMany _ _ _ hok hin]
    have e : defaultVals a (newIds n k) = rhsVals (newIds n k).length (defaultRhs a (newIds n k)) := rfl
    rw [e]
    apply updMany_congr
    left
    exact hcell x hx



/-! ### slices -/

theorem walkUp_lt (stop step : Int) (hs : 0 < step) : ∀ (fuel : Nat) (i : Int), 0 ≤ i →
    ∀ x ∈ walkUp stop step fuel i, (x : Int) < stop
  | 0, _, _, x, hx => by simp [walkUp] at hx
  | fuel + 1, i, hi, x, hx => by
      simp only [walkUp] at hx
      split at hx
      · rcases List.mem_cons.mp hx with rfl | hx
        · omega
        · exact walkUp_lt stop step hs fuel (i + step) (by omega) x hx
      · simp at hx

theorem walkDown_lt (stop step : Int) (hs : step < 0) (n : Int) (hstop : -1 ≤ stop) : ∀ (fuel : Nat) (i : Int), i < n →
    ∀ x ∈ walkDown stop step fuel i, (x : Int) < n
  | 0, _, _, x, hx => by simp [walkDown] at hx
  | fuel + 1, i, hi, x, hx => by
      simp only [walkDown] at hx
      split at hx
      · rcases List.mem_cons.mp hx with rfl | hx
        · omega
        · exact walkDown_lt stop step hs n hstop fuel (i + step) (by omega) x hx
      · simp at hx

theorem sliceBound_bounds (n lower upper dflt : Int) (o : Option Int) (h : lower ≤ upper) (hu : upper ≤ n) (hl : -1 ≤ lower)
    (hl0 : lower ≤ 0) (hn : n - 1 ≤ upper) (hd : lower ≤ dflt ∧ dflt ≤ upper) :
    lower ≤ sliceBound n lower upper dflt o ∧ sliceBound n lower upper dflt o ≤ upper := by
  cases o with
  | none => exact hd
  | some s =>
      simp only [sliceBound, clampIdx]
      split <;> split <;> omega

theorem sliceIndices_lt (len : Nat) (s e st : Option Int) (idx : List Nat) (h : sliceIndices len s e st = some idx) :
    ∀ i ∈ idx, i < len := by
  unfold sliceIndices at h
  simp only at h
  by_cases h0 : st.getD 1 = 0
  · simp [h0] at h
  · by_cases hpos : st.getD 1 > 0
    · simp only [h0, hpos, ↓reduceIte, Option.some.injEq] at h
      subst h
      intro i hi
      have hstart := (sliceBound_bounds len 0 len 0 s (by omega) (by omega) (by omega) (by omega) (by omega) (by omega)).1
      have hstop := (sliceBound_bounds len 0 len len e (by omega) (by omega) (by omega) (by omega) (by omega) (by omega)).2
      have := walkUp_lt _ _ hpos len _ hstart i hi
      omega
    · simp only [h0, hpos, ↓reduceIte, Option.some.injEq] at h
      subst h
      intro i hi
      have hneg : st.getD 1 < 0 := by omega
      by_cases hlen : len = 0
      · subst hlen; simp [walkDown] at hi
      · have hstart := (sliceBound_bounds len (-1) (len - 1) (len - 1) s (by omega) (by omega) (by omega) (by omega) (by omega) (by omega)).2
        have hstop := (sliceBound_bounds len (-1) (len - 1) (-1) e (by omega) (by omega) (by omega) (by omega) (by omega) (by omega)).1
        have := walkDown_lt _ _ hneg len hstop len _ (by omega) i hi
        omega

theorem walkUp_one (n : Nat) : ∀ (fuel i : Nat), i + fuel = n → walkUp n 1 fuel i = List.range' i fuel
  | 0, _, _ => by simp [walkUp]
  | fuel + 1, i, h => by
      have hi : (i : Int) < n := by omega
      simp only [walkUp, hi, ↓reduceIte, List.range'_succ]
      have := walkUp_one n fuel (i + 1) (by omega)
      simp only [Int.toNat_natCast]
      have e : ((i : Int) + 1) = ((i + 1 : Nat) : Int) := by omega
      rw [e, this]

theorem sliceIndices_full (len : Nat) : sliceIndices len none none none = some (List.range len) := by
  have := walkUp_one len len 0 (by omega)
  simp only [Int.natCast_zero] at this
  simp [sliceIndices, sliceBound, this, List.range_eq_range']

theorem sliceUids_mem (au : List Nat) (s e st : Option Int) (us : List Nat) (h : sliceUids au s e st = some us) :
    ∀ u ∈ us, u ∈ au := by
  unfold sliceUids at h
  cases hidx : sliceIndices au.length s e st with
  | none => simp [hidx] at h
  | some idx =>
      simp only [hidx, Option.map_some, Option.some.injEq] at h
      subst h
      intro u hu
      simp only [List.mem_map] at hu
      obtain ⟨i, hi, rfl⟩ := hu
      have hlt := sliceIndices_lt _ _ _ _ _ hidx i hi
      simp [List.getD_eq_getElem?_getD, hlt]

theorem sliceUids_full (au : List Nat) : sliceUids au none none none = some au := by
  simp only [sliceUids, sliceIndices_full, Option.map_some, Option.some.injEq]
  apply List.ext_getElem
  · simp
  · intro i h1 h2
    simp at h1
    simp [List.getD_eq_getElem?_getD, h1]

/-! ### sorted insertion (np.unique) -/

namespace Uids

theorem mem_insertSorted (x y : Nat) : ∀ l : List Nat, y ∈ insertSorted x l ↔ y = x ∨ y ∈ l
  | [] => by simp [insertSorted]
  | z :: zs => by
      simp only [insertSorted]
      split
      · simp
      · split
        · rename_i h; subst h; simp
        · simp [mem_insertSorted x y zs]; grind

theorem sorted_insertSorted (x : Nat) : ∀ l : List Nat, l.Pairwise (· < ·) → (insertSorted x l).Pairwise (· < ·)
  | [], _ => by simp [insertSorted]
  | z :: zs, h => by
      simp only [insertSorted]
      have ⟨h1, h2⟩ := List.pairwise_cons.mp h
      split
      · rename_i hx
        refine List.pairwise_cons.mpr ⟨?_, h⟩
        intro a ha
        rcases List.mem_cons.mp ha with rfl | ha
        · exact hx
        · exact Nat.lt_trans hx (h1 a ha)
      · split
        · exact h
        · rename_i hx hne
          refine List.pairwise_cons.mpr ⟨?_, sorted_insertSorted x zs h2⟩
          intro a ha
          rcases (mem_insertSorted x a zs).mp ha with rfl | ha
          · omega
          · exact h1 a ha

theorem mem_unique (y : Nat) : ∀ l : List Nat, y ∈ unique l ↔ y ∈ l
  | [] => by simp [unique]
  | x :: xs => by
      have ih := mem_unique y xs
      simp only [unique, List.foldr_cons] at ih ⊢
      rw [mem_insertSorted, ih]; simp

theorem sorted_unique : ∀ l : List Nat, (unique l).Pairwise (· < ·)
  | [] => by simp [unique]
  | x :: xs => by
      have ih := sorted_unique xs
      simp only [unique, List.foldr_cons] at ih ⊢
      exact sorted_insertSorted x _ ih

end Uids



/-! ### casting -/

theorem castList_length (k : Kind) : ∀ (vs vs' : List Val), vs.mapM (castVal k) = some vs' → vs'.length = vs.length
  | [], vs', h => by simp at h; subst h; rfl
  | v :: vs, vs', h => by
      simp only [List.mapM_cons, bind, Option.bind] at h
      cases hv : castVal k v with
      | none => simp [hv] at h
      | some w =>
          simp only [hv] at h
          cases hr : vs.mapM (castVal k) with
          | none => simp [hr] at h
          | some ws =>
              simp only [hr, pure, Option.some.injEq] at h
              subst h
              simp [castList_length k vs ws hr]

theorem castVal_conforms (k : Kind) (v w : Val) (h : castVal k v = some w) : conforms k w = true := by
  cases v with
  | undef => simp [castVal] at h; subst h; cases k <;> rfl
  | num r =>
      cases k <;> simp [castVal, Val.toRat?, Val.truthy] at h <;> subst h <;> simp [conforms]
  | bool b =>
      cases k <;> simp [castVal, Val.toRat?, Val.truthy] at h <;> subst h <;> simp [conforms]
  | nan =>
      cases k <;> simp [castVal, Val.toRat?, Val.truthy] at h <;> try (subst h; simp [conforms])

/-- a value that already has the dtype is stored unchanged -/
theorem castVal_of_bool (b : Bool) : castVal .bool (.bool b) = some (.bool b) := by simp [castVal, Val.truthy]
theorem castVal_float_num (r : Rat) : castVal .float (.num r) = some (.num r) := by simp [castVal, Val.toRat?]
theorem castVal_float_nan : castVal .float .nan = some .nan := by simp [castVal, Val.toRat?]


/-! ### written values / wrapped identifiers -/

theorem updMany_mem (m : Nat → Val) : ∀ (us : List Nat) (vs : List Val) (x : Nat), updMany m us vs x = m x ∨ updMany m us vs x ∈ vs
  | [], _, _ => Or.inl (by simp [updMany])
  | _ :: _, [], _ => Or.inl (by simp [updMany])
  | u :: us, v :: vs, x => by
      simp only [updMany]
      rcases updMany_mem (fun y => if y = u then v else m y) us vs x with h | h
      · by_cases hx : x = u
        · right; rw [h]; simp [hx]
        · left; rw [h]; simp [hx]
      · right; exact List.mem_cons_of_mem _ h

theorem castList_conforms (k : Kind) : ∀ (vs ws : List Val), vs.mapM (castVal k) = some ws → ∀ w ∈ ws, conforms k w = true
  | [], ws, h, w, hw => by simp at h; subst h; simp at hw
  | v :: vs, ws, h, w, hw => by
      simp only [List.mapM_cons, bind, Option.bind] at h
      cases hv : castVal k v with
      | none => simp [hv] at h
      | some c =>
          simp only [hv] at h
          cases hr : vs.mapM (castVal k) with
          | none => simp [hr] at h
          | some cs =>
              simp only [hr, pure, Option.some.injEq] at h
              subst h
              rcases List.mem_cons.mp hw with rfl | hw
              · exact castVal_conforms k v _ hv
              · exact castList_conforms k vs cs hr w hw

theorem wrapOne_neg (len j : Nat) (h1 : 1 ≤ j) (h2 : j ≤ len) : wrapOne len (-(j : Int)) = some (len - j) := by
  unfold wrapOne
  have e1 : (-(j : Int) < 0) := by omega
  have e2 : 0 ≤ -(j : Int) + (len : Int) := by omega
  have e3 : (-(j : Int) + (len : Int)).toNat = len - j := by omega
  rw [if_pos e1, if_pos e2, e3]

theorem wrapOne_too_neg (len j : Nat) (h : len < j) : wrapOne len (-(j : Int)) = none := by
  unfold wrapOne
  have e1 : (-(j : Int) < 0) := by omega
  have e2 : ¬ (0 ≤ -(j : Int) + (len : Int)) := by omega
  rw [if_pos e1, if_neg e2]

theorem wrapOne_nat (len i : Nat) : wrapOne len (i : Int) = if i < len then some i else none := by
  unfold wrapOne
  have e1 : ¬ ((i : Int) < 0) := by omega
  rw [if_neg e1]
  by_cases h : i < len
  · have : (i : Int) < (len : Int) := by omega
    simp [h, this]
  · have : ¬ ((i : Int) < (len : Int)) := by omega
    simp [h, this]

theorem wrapIds_nat (len : Nat) : ∀ us : List Nat, (∀ u ∈ us, u < len) → wrapIds len (us.map (fun (u : Nat) => (u : Int))) = some us
  | [], _ => rfl
  | u :: us, h => by
      have hu := h u (List.mem_cons_self ..)
      have ih := wrapIds_nat len us (fun x hx => h x (List.mem_cons_of_mem _ hx))
      simp only [wrapIds] at ih ⊢
      simp only [List.map_cons, List.mapM_cons, wrapOne_nat, hu, ↓reduceIte, bind, Option.bind, ih]
      rfl


end StarsimModel.Arr
