/-
Helper lemmas for C16 about Model/Hazard.lean.
-/
import StarsimModel.Model.Hazard
import StarsimModel.Lemmas.TimePar

namespace StarsimModel.Hazard
open StarsimModel.TimePar

/-- an initialised `ss.rate` linked to a parent timeline, with canonical units of the table -/
structure RateReady (t : TP Rat) (u pu : String) (lu lpu s p : Rat) : Prop where
  kind : t.kind = .rate
  unit : t.unit = some u
  parentUnit : t.parentUnit = some pu
  selfDt : t.selfDt = some s
  parentDt : t.parentDt = some p
  init : t.initialized = true
  cu : canonUnit (some u) = .ok (some u)
  cpu : canonUnit (some pu) = .ok (some pu)
  lu : unitLen u = some lu
  lpu : unitLen pu = some lpu
  p0 : p ≠ 0
  s0 : s ≠ 0

/-- `rate * c` (`TimePar.__mul__`) on such an object: `v` is scaled, `values` recomputed with the same factor -/
theorem mulC_rate {t : TP Rat} {u pu : String} {lu lpu s p : Rat} (h : RateReady t u pu lu lpu s p) (c : Rat) :
    ∃ t', mulC ratOps t c = .ok t' ∧ RateReady t' u pu lu lpu s p ∧ t'.v = t.v.map (· * c) ∧
      t'.values = some ((t.v.map (· * c)).map (· / ((s / p) * (lu / lpu)))) := by
  obtain ⟨k, v, un, pun, pdt, sdt, fac, vals, ini⟩ := t
  have h1 := h.kind; have h2 := h.unit; have h3 := h.parentUnit; have h4 := h.selfDt; have h5 := h.parentDt; have h6 := h.init
  simp only at h1 h2 h3 h4 h5 h6
  subst h1 h2 h3 h4 h5 h6
  have huc := updateCached_rate (t := ⟨.rate, v.map (fun x => x * c), some u, some pu, some p, some s, fac, vals, true⟩)
    rfl rfl rfl rfl rfl h.lu h.lpu h.p0 h.s0 true
  refine ⟨⟨.rate, v.map (· * c), some u, some pu, some p, some s, some ((s / p) * (lu / lpu)),
           some ((v.map (· * c)).map (· / ((s / p) * (lu / lpu)))), true⟩, ?_, ?_, rfl, rfl⟩
  · unfold mulC withV setPars
    simp only [Option.getD_some, orElse_none, Bool.true_or, if_true]
    have hm : ratOps.mul = (· * ·) := rfl
    simp only [hm]
    rw [huc]
    simp only
    rw [validateUnits_of (u := some u) (pu := some pu) h.cu h.cpu]
  · exact ⟨rfl, rfl, rfl, rfl, rfl, rfl, h.cu, h.cpu, h.lu, h.lpu, h.p0, h.s0⟩

/-- the whole product chain of the hazard functions for a TimePar rate -/
theorem timeparProb_rate {t : TP Rat} {u pu : String} {lu lpu s p : Rat} (h : RateReady t u pu lu lpu s p)
    (expr : String) (unit : UnitT) (dt : Option Rat) (su : UnitT) (sd : Option Rat) {fx : Rat} (hfx : factorOf expr unit dt su sd = .ok fx) (ru rel : Rat) :
    timeparProb expr unit dt su sd t ru rel =
      .ok (((((t.v.map (· * ru)).map (· * rel)).map (· * fx)).map (· / ((s / p) * (lu / lpu)))).map clip01) := by
  obtain ⟨t1, e1, r1, v1, _⟩ := mulC_rate h ru
  obtain ⟨t2, e2, r2, v2, _⟩ := mulC_rate r1 rel
  obtain ⟨t3, e3, _, v3, w3⟩ := mulC_rate r2 fx
  unfold timeparProb
  rw [hfx]; simp only
  rw [e1]; simp only
  rw [e2]; simp only
  rw [e3]; simp only
  rw [w3, v2, v1]

theorem timeparProb_rate_scalar {t : TP Rat} {u pu : String} {lu lpu s p r : Rat} (h : RateReady t u pu lu lpu s p)
    (hv : t.v = .scalar r) (expr : String) (unit : UnitT) (dt : Option Rat) (su : UnitT) (sd : Option Rat) {fx : Rat}
    (hfx : factorOf expr unit dt su sd = .ok fx) (ru rel : Rat) :
    timeparProb expr unit dt su sd t ru rel = .ok (.scalar (clip01 (r * ru * rel * fx / ((s / p) * (lu / lpu))))) := by
  rw [timeparProb_rate h expr unit dt su sd hfx, hv]
  rfl

theorem clip01_of_mem {x : Rat} (h0 : 0 ≤ x) (h1 : x ≤ 1) : clip01 x = x := by
  unfold clip01
  have : ¬ x < 0 := not_lt.mpr h0
  have : ¬ 1 < x := not_lt.mpr h1
  simp [*]

theorem clip01_range (x : Rat) : 0 ≤ clip01 x ∧ clip01 x ≤ 1 := by
  unfold clip01
  by_cases h : x < 0
  · simp [h]
  · by_cases h' : 1 < x
    · simp [h, h']
    · simp [h, h']; exact ⟨not_lt.mp h, not_lt.mp h'⟩

/-- `np.digitize(age, bins) - 1` on increasing bin starts: the bins `≤ age` are exactly the first `ageBin` ones -/
theorem ageBin_take (age : Rat) : ∀ (bins : List Rat), bins.Pairwise (· < ·) →
    bins.filter (fun b => decide (b ≤ age)) = bins.take (ageBin bins age) ∧ ∀ b ∈ bins.drop (ageBin bins age), age < b := by
  intro bins
  induction bins with
  | nil => intro _; simp [ageBin]
  | cons b bs ih =>
    intro hp
    rw [List.pairwise_cons] at hp
    obtain ⟨hb, hbs⟩ := hp
    obtain ⟨ih1, ih2⟩ := ih hbs
    by_cases hle : b ≤ age
    · have hab : ageBin (b :: bs) age = ageBin bs age + 1 := by simp [ageBin, hle]
      rw [hab]
      constructor
      · simp [List.filter, hle, ih1]
      · simpa using ih2
    · have hall : ∀ x ∈ bs, ¬ x ≤ age := fun x hx hxa => hle (le_of_lt (lt_of_lt_of_le (hb x hx) hxa))
      have hnil : bs.filter (fun b => decide (b ≤ age)) = [] := by
        rw [List.filter_eq_nil_iff]; intro x hx; simpa using hall x hx
      have hab : ageBin (b :: bs) age = 0 := by simp [ageBin, hle, hnil]
      rw [hab]
      constructor
      · simp [List.filter, hle, hnil]
      · intro x hx
        simp at hx
        rcases hx with rfl | hx
        · exact not_le.mp hle
        · exact not_le.mp (hall x hx)

/-- the first entry at minimal distance: it is one of the years and no year is closer -/
theorem nearestValAux_spec (y : Rat) : ∀ (xs : List Rat) (b : Rat),
    (nearestValAux y xs b = b ∨ nearestValAux y xs b ∈ xs) ∧ absDiff (nearestValAux y xs b) y ≤ absDiff b y ∧
    ∀ x ∈ xs, absDiff (nearestValAux y xs b) y ≤ absDiff x y := by
  intro xs
  induction xs with
  | nil => intro b; simp [nearestValAux]
  | cons x xs ih =>
    intro b
    by_cases h : absDiff x y < absDiff b y
    · obtain ⟨h1, h2, h3⟩ := ih x
      simp only [nearestValAux, h, if_true]
      refine ⟨?_, le_trans h2 (le_of_lt h), ?_⟩
      · rcases h1 with e | m
        · right; rw [e]; exact List.mem_cons_self ..
        · right; exact List.mem_cons_of_mem _ m
      · intro z hz
        rcases List.mem_cons.mp hz with rfl | hz
        · exact h2
        · exact h3 z hz
    · obtain ⟨h1, h2, h3⟩ := ih b
      simp only [nearestValAux, h, if_false]
      refine ⟨?_, h2, ?_⟩
      · rcases h1 with e | m
        · left; exact e
        · right; exact List.mem_cons_of_mem _ m
      · intro z hz
        rcases List.mem_cons.mp hz with rfl | hz
        · exact le_trans h2 (not_lt.mp h)
        · exact h3 z hz

end StarsimModel.Hazard
