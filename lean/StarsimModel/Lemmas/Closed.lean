/-
The composed step model CLOSED under the transmission model: the `set_prognoses` call of a step is no longer an
observed event but what `Transmission.infect` (Model/Transmission.lean: `Infection.infect` over any networks, with the
kernel expressions regenerated from the source) produces from the population as it stands when transmission runs.
The admissibility hypothesis of the whole-run theorems of Lemmas/SimCore.lean (`bad = false`: every `set_prognoses`
target is active and susceptible) is then DISCHARGED by the transmission model's own guarantee (C12: a target is
susceptible whenever the compared random numbers are not negative) instead of being observed.
-/
import StarsimModel.Lemmas.Transmission
import StarsimModel.Lemmas.SimCore

namespace StarsimModel.SimCore
open StarsimModel.Transmission StarsimModel.Compartments

/-- what the transmission kernel reads, taken from the composed model's population (inactive uids read as neither
    susceptible nor infectious) -/
def dstate (pop : List Agent) (relSus relTrans : Nat → Rat) : DState :=
  { susceptible := fun u => match pop[u]? with | some a => a.present && a.fl.susceptible | none => false
    infectious := fun u => match pop[u]? with | some a => a.present && Gen.Sir.infectious a.fl | none => false
    relSus := relSus
    relTrans := relTrans }

/-- the inputs of one closed step: births, other modules' death requests, the networks with their edges, betas and the
    random numbers compared on each edge, relative factors, and the prognosis draws per agent -/
structure ClosedEv where
  births : Nat
  background : List Nat
  nets : List Net
  relSus : Nat → Rat
  relTrans : Nat → Rat
  dur : Nat → Rat
  willDie : Nat → Bool

/-- the state when transmission runs (it does not depend on the infections of the step) -/
def preInfect (s : Sim) (x : ClosedEv) : Sim :=
  stepStatePhase (demographicsPhase ⟨x.births, x.background, []⟩ s)

/-- the `set_prognoses` call that `Infection.infect` makes -/
def closedCall (s : Sim) (x : ClosedEv) : List Inf :=
  (infect (dstate (preInfect s x).pop x.relSus x.relTrans) x.nets).map
    fun ev => ⟨ev.target, x.dur ev.target, x.willDie ev.target⟩

def closedStep (s : Sim) (x : ClosedEv) : Sim := simStep s ⟨x.births, x.background, [closedCall s x]⟩

def closedRun (s : Sim) (xs : List ClosedEv) : Sim := xs.foldl closedStep s

/-- every random number compared by the kernel is ≥ 0 (uniform draws are) -/
def NonnegRands (nets : List Net) : Prop := ∀ n ∈ nets, ∀ e ∈ n.edges, ∀ d, 0 ≤ e.r d

/-- a target of `Transmission.infect` is susceptible in the state it read -/
theorem infect_target_susceptible {st : DState} {nets : List Net} {ev : Event} (hr : NonnegRands nets)
    (h : ev ∈ infect st nets) : st.susceptible ev.target = true := by
  obtain ⟨n, hn, _, d, _, e, he, ht, _, htg⟩ := mem_allEvents.mp (mem_infect_allEvents h)
  have hmem : n ∈ nets := List.mem_of_getElem? hn
  have := (transmitsDir_factors ht (hr n hmem e he d)).2.2.1
  rw [htg] at this; exact this

/-- **The transmission model only produces admissible calls.** -/
theorem closedCall_admissible (s : Sim) (x : ClosedEv) (hr : NonnegRands x.nets) :
    callAdmissible (preInfect s x).pop (closedCall s x) = true := by
  unfold callAdmissible closedCall
  rw [List.all_eq_true]
  intro e he
  obtain ⟨ev, hev, rfl⟩ := List.mem_map.mp he
  have hs := infect_target_susceptible hr hev
  simp only [dstate] at hs
  cases hp : (preInfect s x).pop[ev.target]? with
  | none => rw [hp] at hs; cases hs
  | some a => rw [hp] at hs; simpa using hs

theorem closedStep_bad (s : Sim) (x : ClosedEv) (hr : NonnegRands x.nets) : (closedStep s x).bad = s.bad := by
  unfold closedStep
  rw [simStep_bad]
  show (infectPhase _ (preInfect s x)).bad = s.bad
  simp only [infectPhase, List.foldl_cons, List.foldl_nil, infectCall, closedCall_admissible s x hr]
  show ((preInfect s x).bad || !true) = s.bad
  simp [preInfect, stepStatePhase, demographics_bad]

/-- **Closed runs need no admissibility hypothesis**: with transmission produced by the transmission model, over any
    networks, betas, random numbers, births, deaths and prognosis draws and any number of steps, no inadmissible call
    ever happens and every active agent stays alive and in exactly one of S, I, R. -/
theorem closedRun_partition (xs : List ClosedEv) : ∀ (s : Sim), (∀ a ∈ s.pop, Good a) → s.bad = false →
    (∀ x ∈ xs, NonnegRands x.nets) →
    (closedRun s xs).bad = false ∧ ∀ a ∈ (closedRun s xs).pop, Good a := by
  induction xs with
  | nil => intro s h hb _; exact ⟨hb, h⟩
  | cons x xs ih =>
      intro s h hb hr
      have hx := hr x (List.mem_cons_self ..)
      have hb' : (closedStep s x).bad = false := by rw [closedStep_bad s x hx]; exact hb
      have hinv : Inv (closedStep s x) := simStep_inv s _ (fun _ => h)
      exact ih (closedStep s x) (hinv hb') hb' (fun y hy => hr y (List.mem_cons_of_mem _ hy))

/-- … and every recorded row is balanced. -/
theorem closedRun_rows_balanced (xs : List ClosedEv) : ∀ (s : Sim), (∀ a ∈ s.pop, Good a) → s.bad = false →
    (∀ r ∈ s.rows, r.balanced) → (∀ x ∈ xs, NonnegRands x.nets) → ∀ r ∈ (closedRun s xs).rows, r.balanced := by
  induction xs with
  | nil => intro s _ _ hr _; exact hr
  | cons x xs ih =>
      intro s h hb hrows hr
      have hx := hr x (List.mem_cons_self ..)
      have hb' : (closedStep s x).bad = false := by rw [closedStep_bad s x hx]; exact hb
      have hinv : Inv (closedStep s x) := simStep_inv s _ (fun _ => h)
      obtain ⟨r, hrw, _, hbal⟩ := simStep_row_balanced s ⟨x.births, x.background, [closedCall s x]⟩ (fun _ => h) hb'
      refine ih (closedStep s x) (hinv hb') hb' ?_ (fun y hy => hr y (List.mem_cons_of_mem _ hy))
      intro r' hr'
      have : (closedStep s x).rows = s.rows ++ [r] := hrw
      rw [this, List.mem_append, List.mem_singleton] at hr'
      rcases hr' with h1 | h1
      · exact hrows r' h1
      · rw [h1]; exact hbal

/-- … and every agent only moves forward on S → I → R → (no compartment). -/
theorem closedRun_monotone (xs : List ClosedEv) : ∀ (s : Sim), (∀ a ∈ s.pop, Good a) → s.bad = false →
    (∀ x ∈ xs, NonnegRands x.nets) → ∀ (i : Nat) (a : Agent), s.pop[i]? = some a →
      ∃ a', (closedRun s xs).pop[i]? = some a' ∧ rank a.fl ≤ rank a'.fl := by
  induction xs with
  | nil => intro s _ _ _ i a h; exact ⟨a, h, Nat.le_refl _⟩
  | cons x xs ih =>
      intro s h hb hr i a hget
      have hx := hr x (List.mem_cons_self ..)
      have hb' : (closedStep s x).bad = false := by rw [closedStep_bad s x hx]; exact hb
      obtain ⟨a1, g1, r1, _⟩ := simStep_monotone s ⟨x.births, x.background, [closedCall s x]⟩ h hb' i a hget
      have hinv : ∀ b ∈ (closedStep s x).pop, Good b := simStep_inv s _ (fun _ => h) hb'
      obtain ⟨a', g', r'⟩ := ih (closedStep s x) hinv hb' (fun y hy => hr y (List.mem_cons_of_mem _ hy)) i a1 g1
      exact ⟨a', g', Nat.le_trans r1 r'⟩

end StarsimModel.SimCore
