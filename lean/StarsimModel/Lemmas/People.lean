/-
Helper lemmas for C10: the bookkeeping invariant of Model/People.lean and what each People operation does to a
population that satisfies it.  Core Lean only.
-/
import StarsimModel.Model.People
import StarsimModel.Lemmas.Arr
import StarsimModel.Props.C11
set_option maxRecDepth 2000
namespace StarsimModel.C10
open StarsimModel.Arr StarsimModel.People

theorem growAll_spec (n k : Nat) : ∀ (l : List Arr), (∀ a ∈ l, WF n a) → (∀ a ∈ l, ∀ us, (defaultVals a us).length = us.length) →
    ∃ l', growAll l (newIds n k) = .ok l' ∧ l'.length = l.length ∧ (∀ a ∈ l', WF (n + k) a) ∧
      (∀ a ∈ l', ∀ us, (defaultVals a us).length = us.length) ∧
      (∀ (i : Nat) (h1 : i < l.length) (h2 : i < l'.length), ∀ x, x < n → (l'[i]).cell x = (l[i]).cell x)
  | [], _, _ => ⟨[], rfl, rfl, by simp, by simp, by simp⟩
  | a :: rest, hwf, hd => by
      have ha := hwf a (List.mem_cons_self ..)
      have hda := hd a (List.mem_cons_self ..)
      obtain ⟨a', hg, hwf', hnan, hdef, _, hc⟩ := grow_spec a n k ha (by simpa using hda (newIds n k))
      obtain ⟨rest', hr, hlen, hwr, hdr, hcr⟩ := growAll_spec n k rest (fun b hb => hwf b (List.mem_cons_of_mem _ hb)) (fun b hb => hd b (List.mem_cons_of_mem _ hb))
      refine ⟨a' :: rest', by simp [growAll, hg, hr], by simp [hlen], ?_, ?_, ?_⟩
      · intro b hb; rcases List.mem_cons.mp hb with rfl | hb
        · exact hwf'
        · exact hwr b hb
      · intro b hb us; rcases List.mem_cons.mp hb with rfl | hb
        · have : defaultVals b us = defaultVals a us := by simp [defaultVals, defaultRhs, hnan, hdef]
          rw [this]; exact hda us
        · exact hdr b hb us
      · intro i h1 h2 x hx
        cases i with
        | zero =>
            simp only [List.getElem_cons_zero]
            rw [hc x (by omega), updMany_not_mem]
            intro hm; have := (mem_newIds n k x).mp hm; omega
        | succ j => simp only [List.getElem_cons_succ]; exact hcr j (by simpa using h1) (by simpa using h2) x hx

theorem idVals_ok (n k : Nat) (l : List Nat) (h : l.length = k) :
    rhsOk (newIds n k) (.list (l.map (fun (u : Nat) => Val.num (u : Rat)))) = true := by
  simp [rhsOk, h]


theorem upd_old (m : Nat → Val) (n k : Nat) (vs : List Val) (x : Nat) (hx : x < n) : updMany m (newIds n k) vs x = m x := by
  apply updMany_not_mem; intro hm; have := (mem_newIds n k x).mp hm; omega

theorem upd_new (m : Nat → Val) (n k : Nat) (vs : List Val) (hl : vs.length = k) (i : Nat) (hi : i < k) :
    updMany m (newIds n k) vs (n + i) = vs[i] := by
  have := updMany_nodup (newIds n k) vs m (newIds_nodup n k) i (by simpa using hi) (by omega)
  rw [newIds_getElem] at this; exact this

theorem split_new (n k u : Nat) (h : u < n + k) : u < n ∨ ∃ i, i < k ∧ u = n + i := by
  by_cases hu : u < n
  · exact Or.inl hu
  · exact Or.inr ⟨u - n, by omega, by omega⟩



/-- what `People.grow(k)` does to a population satisfying the invariant -/
theorem grow_step (p : People) (k : Nat) (slots : Option (List Nat)) (inv : Inv p) (hok : ∀ s, slots = some s → s.length = k) :
    ∃ p', growPeople p k slots = .ok p' ∧ Inv p' ∧ p'.n = p.n + k ∧ p'.auids = p.auids ++ (if k = 0 then [] else newIds p.n k) ∧
      p'.ti = p.ti ∧ p'.nAlive = p.nAlive ∧ p'.newDeaths = p.newDeaths ∧
      (∀ u, u < p.n → p'.alive.cell u = p.alive.cell u ∧ p'.tiDead.cell u = p.tiDead.cell u ∧ p'.parent.cell u = p.parent.cell u ∧
          p'.slot.cell u = p.slot.cell u) ∧
      (∀ u, p.n ≤ u → u < p.n + k → p'.alive.cell u = .bool true ∧ p'.tiDead.cell u = p.tiDead.nan ∧ p'.parent.cell u = p.parent.nan) ∧
      (∀ (i : Nat) (h1 : i < p.states.length) (h2 : i < p'.states.length), ∀ x, x < p.n → (p'.states[i]).cell x = (p.states[i]).cell x) ∧
      p'.states.length = p.states.length := by
  by_cases hk : k = 0
  · subst hk
    exact ⟨p, by simp [growPeople], inv, by simp, by simp, rfl, rfl, rfl, fun u _ => ⟨rfl, rfl, rfl, rfl⟩, fun u h1 h2 => by omega, fun i h1 h2 x _ => rfl, rfl⟩
  · let new := newIds p.n k
    let idVals : Rhs := .list (new.map (fun (u : Nat) => Val.num (u : Rat)))
    let slotVals : Rhs := slotRhs slots idVals
    have hidok : rhsOk new idVals = true := idVals_ok p.n k new (by simp [new])
    have hslok : rhsOk new slotVals = true := by
      cases slots with
      | none => exact hidok
      | some s => exact idVals_ok p.n k s (hok s rfl)
    obtain ⟨uid', hu, wu, _, _, _, cu⟩ := grow_spec' p.uid p.n k inv.uid (some idVals) idVals rfl hidok
    obtain ⟨slot', hs, ws, _, _, _, cs⟩ := grow_spec' p.slot p.n k inv.slot (some slotVals) slotVals rfl hslok
    obtain ⟨parent', hp, wp, _, _, _, cp⟩ := grow_spec' p.parent p.n k inv.parent (some (.scalar p.parent.nan)) (.scalar p.parent.nan) rfl rfl
    obtain ⟨alive', ha, wa, _, had, hak, ca⟩ := grow_spec' p.alive p.n k inv.alive none (.scalar (.bool true))
      (by simp [defaultRhs, inv.aliveKind.2]) rfl
    obtain ⟨td', ht, wt, htn, htd, htk, ct⟩ := grow_spec' p.tiDead p.n k inv.tiDead none (.scalar p.tiDead.nan)
      (by simp [defaultRhs, inv.tiDeadDefault]) rfl
    obtain ⟨st', hst, hlen, wst, dst, cst⟩ := growAll_spec p.n k p.states inv.states inv.statesDefault
    have hn : uid'.lenUsed = p.n + k := wu.used
    refine ⟨{ p with uid := uid', slot := slot', parent := parent', alive := alive', tiDead := td', states := st', auids := p.auids ++ new }, ?_, ?_, hn, by simp [hk, new], rfl, rfl, rfl, ?_, ?_, ?_, hlen⟩
    · simp only [growPeople, hk, ↓reduceIte, bind, Except.bind]
      simp only [new, idVals, slotVals] at hu hs hp ha ht hst
      simp only [hu, hs, hp, ha, ht, hst]
      rfl
    · have hn' : People.n { p with uid := uid', slot := slot', parent := parent', alive := alive', tiDead := td', states := st', auids := p.auids ++ new } = p.n + k := hn
      constructor
      · rw [hn']; exact wu
      · rw [hn']; exact ws
      · rw [hn']; exact wp
      · rw [hn']; exact wa
      · rw [hn']; exact wt
      · rw [hn']; exact wst
      · exact dst
      · rw [hn']; intro u hu'
        show uid'.cell u = _
        rw [cu u hu']
        rcases split_new p.n k u hu' with h | ⟨i, hi, rfl⟩
        · rw [upd_old _ _ _ _ _ h]; exact inv.dense u h
        · rw [upd_new _ _ _ _ (by simp [rhsVals, idVals, new]) i hi]
          rw [List.getElem_eq_iff]
          have e : rhsVals k idVals = new.map (fun (u : Nat) => Val.num (u : Rat)) := by simp [rhsVals, idVals, new]
          have hi' : i < new.length := by simpa [new] using hi
          rw [e, List.getElem?_map, List.getElem?_eq_getElem hi']
          simp only [new, newIds_getElem, Option.map_some]
      · rw [hn']; intro u hu'
        rcases List.mem_append.mp hu' with h | h
        · have := inv.active u h; omega
        · exact ((mem_newIds p.n k u).mp h).2
      · show (p.auids ++ new).Nodup
        rw [List.nodup_append]
        refine ⟨inv.nodup, newIds_nodup _ _, ?_⟩
        intro a ha' b hb hab
        have := inv.active a ha'
        have := (mem_newIds p.n k b).mp hb
        omega
      · exact ⟨by show alive'.kind = _; rw [hak]; exact inv.aliveKind.1, by show alive'.default = _; rw [had]; exact inv.aliveKind.2⟩
      · show td'.default = _; rw [htd]; exact inv.tiDeadDefault
      · show td'.kind = _; rw [htk]; exact inv.tiDeadKind
      · rw [hn']; intro u hu'
        show ∃ b, alive'.cell u = _
        rw [ca u hu']
        rcases split_new p.n k u hu' with h | ⟨i, hi, rfl⟩
        · rw [upd_old _ _ _ _ _ h]; exact inv.aliveBool u h
        · rw [upd_new _ _ _ _ (by simp [rhsVals]) i hi]; exact ⟨true, by simp [rhsVals]⟩
      · rw [hn']; intro u hu' hnot
        show alive'.cell u = _
        have hnot' : u ∉ p.auids ∧ u ∉ new := by simpa [List.mem_append] using hnot
        have hlt : u < p.n := by
          rcases split_new p.n k u hu' with h | ⟨i, hi, rfl⟩
          · exact h
          · exact absurd ((mem_newIds p.n k _).mpr ⟨by omega, by omega⟩) hnot'.2
        rw [ca u hu', upd_old _ _ _ _ _ hlt]
        exact inv.removedDead u hlt hnot'.1
    · intro u hu'
      refine ⟨?_, ?_, ?_, ?_⟩
      · show alive'.cell u = _; rw [ca u (by omega), upd_old _ _ _ _ _ hu']
      · show td'.cell u = _; rw [ct u (by omega), upd_old _ _ _ _ _ hu']
      · show parent'.cell u = _; rw [cp u (by omega), upd_old _ _ _ _ _ hu']
      · show slot'.cell u = _; rw [cs u (by omega), upd_old _ _ _ _ _ hu']
    · intro u h1 h2
      obtain ⟨i, hi, rfl⟩ : ∃ i, i < k ∧ u = p.n + i := ⟨u - p.n, by omega, by omega⟩
      refine ⟨?_, ?_, ?_⟩
      · show alive'.cell _ = _; rw [ca _ h2, upd_new _ _ _ _ (by simp [rhsVals]) i hi]; simp [rhsVals]
      · show td'.cell _ = _; rw [ct _ h2, upd_new _ _ _ _ (by simp [rhsVals]) i hi]; simp [rhsVals]
      · show parent'.cell _ = _; rw [cp _ h2, upd_new _ _ _ _ (by simp [rhsVals]) i hi]; simp [rhsVals]
    · intro i h1 h2 x hx
      exact cst i h1 h2 x hx



theorem set_scalar_spec (au : List Nat) (a : Arr) (n : Nat) (us : List Nat) (v : Val) (h : WF n a) (hus : ∀ u ∈ us, u < n)
    (hcast : castVal a.kind v = some v) :
    ∃ a', setItem codeVariant au a (.uids us) (.scalar v) = .ok a' ∧ WF n a' ∧ a'.kind = a.kind ∧ a'.default = a.default ∧
      a'.nan = a.nan ∧ ∀ x, a'.cell x = if x ∈ us then v else a.cell x := by
  have hr : inRange a us = true := by
    simp only [inRange, List.all_eq_true, decide_eq_true_eq]; intro u hu; have := hus u hu; have := h.le; omega
  refine ⟨{ a with raw := assignRaw a.raw us (.scalar v) }, ?_, ⟨h.used, by simpa using h.tot, by simpa using h.le⟩, rfl, rfl, rfl, ?_⟩
  · cases codeVariant <;> simp [setItem, convertKey, castRhs, hcast, hr, rhsOk]
  · intro x
    simp only [Arr.cell, assignRaw]
    rw [scatterConst_getD]
    by_cases hx : x ∈ us
    · have := hus x hx; have := h.le
      simp [hx]; omega
    · simp [hx]

/-- `request_death` -/
theorem request_step (p : People) (us : List Nat) (inv : Inv p) (hus : ∀ u ∈ us, u < p.n) :
    ∃ p', requestDeath p us = .ok p' ∧ Inv p' ∧ p'.n = p.n ∧ p'.auids = p.auids ∧ p'.alive = p.alive ∧ p'.ti = p.ti ∧
      p'.nAlive = p.nAlive ∧ p'.newDeaths = p.newDeaths ∧ p'.states = p.states ∧
      ∀ x, p'.tiDead.cell x = if x ∈ us then tiVal p.ti else p.tiDead.cell x := by
  obtain ⟨td, hset, wf, hkd, hd, _, hc⟩ := set_scalar_spec p.auids p.tiDead p.n us (tiVal p.ti) inv.tiDead hus
    (by rw [inv.tiDeadKind]; exact castVal_float_num _)
  refine ⟨{ p with tiDead := td }, by simp [requestDeath, hset, bind, Except.bind]; rfl, ?_, rfl, rfl, rfl, rfl, rfl, rfl, rfl, hc⟩
  exact { inv with tiDead := wf, tiDeadDefault := by show td.default = _; rw [hd]; exact inv.tiDeadDefault,
                   tiDeadKind := by show td.kind = _; rw [hkd]; exact inv.tiDeadKind }

theorem deathUids_sub (p : People) : (deathUids p).Sublist p.auids := List.filter_sublist

/-- `step_die`: exactly the active agents whose scheduled step is not in the future lose `alive`; nothing else changes -/
theorem stepDie_step (p : People) (inv : Inv p) :
    ∃ p', stepDie p = .ok p' ∧ Inv p' ∧ p'.n = p.n ∧ p'.auids = p.auids ∧ p'.tiDead = p.tiDead ∧ p'.ti = p.ti ∧
      p'.nAlive = p.nAlive ∧ p'.newDeaths = p.newDeaths ∧ p'.states = p.states ∧
      ∀ x, p'.alive.cell x = if x ∈ deathUids p then .bool false else p.alive.cell x := by
  have hus : ∀ u ∈ deathUids p, u < p.n := fun u hu => inv.active u ((deathUids_sub p).subset hu)
  obtain ⟨al, hset, wf, hk, hd, _, hc⟩ := set_scalar_spec p.auids p.alive p.n (deathUids p) (.bool false) inv.alive hus
    (by rw [inv.aliveKind.1]; exact castVal_of_bool _)
  refine ⟨{ p with alive := al }, by simp [stepDie, hset, bind, Except.bind]; rfl, ?_, rfl, rfl, rfl, rfl, rfl, rfl, rfl, hc⟩
  exact { inv with
    alive := wf
    aliveKind := ⟨by show al.kind = _; rw [hk]; exact inv.aliveKind.1, by show al.default = _; rw [hd]; exact inv.aliveKind.2⟩
    aliveBool := by
      intro u hu; show ∃ b, al.cell u = _
      rw [hc u]; split
      · exact ⟨false, rfl⟩
      · exact inv.aliveBool u hu
    removedDead := by
      intro u hu hnot; show al.cell u = _
      rw [hc u]; split
      · rfl
      · exact inv.removedDead u hu hnot }

theorem inRange_active (p : People) (inv : Inv p) : inRange p.alive p.auids = true := by
  simp only [inRange, List.all_eq_true, decide_eq_true_eq]
  intro u hu; have := inv.active u hu; have := inv.alive.le; omega

/-- `(~alive).uids` is exactly the active agents whose `alive` flag is false -/
theorem deadUids_spec (p : People) (inv : Inv p) :
    deadUids p = .ok (p.auids.filter (fun u => !(p.alive.cell u).truthy)) := by
  have hb : isBoolKind p.alive = true := by simp [isBoolKind, inv.aliveKind.1]
  have hin := inRange_active p inv
  simp only [deadUids, invert, hb, ↓reduceIte, bind, Except.bind, pure, Except.pure]
  congr 1
  simp only [trueUids]
  apply List.filter_congr
  intro u hu
  obtain ⟨i, hi, rfl⟩ := List.getElem_of_mem hu
  rw [C11.asnew_cell p.auids p.alive _ _ inv.nodup hin (by simp [values, gather]) i hi]
  obtain ⟨b, hb'⟩ := inv.aliveBool _ (inv.active _ (List.getElem_mem hi))
  simp [values, gather, notVal, hb', Val.truthy, Val.isUndef]

/-- `remove_dead`: the active index keeps exactly the active agents that are alive, in order; storage is untouched -/
theorem removeDead_step (p : People) (inv : Inv p) :
    ∃ p', removeDead p = .ok p' ∧ Inv p' ∧ p'.n = p.n ∧ p'.auids = p.auids.filter (fun u => (p.alive.cell u).truthy) ∧
      p'.alive = p.alive ∧ p'.tiDead = p.tiDead ∧ p'.ti = p.ti ∧ p'.nAlive = p.nAlive ∧ p'.newDeaths = p.newDeaths ∧ p'.states = p.states := by
  have hfilter : removeActive p.auids (Uids.unique (p.auids.filter (fun u => !(p.alive.cell u).truthy))) =
      p.auids.filter (fun u => (p.alive.cell u).truthy) := by
    simp only [removeActive]
    apply List.filter_congr
    intro u hu
    by_cases ht : (p.alive.cell u).truthy = true
    · simp [ht, Uids.mem_unique, List.mem_filter]
    · simp [ht, Uids.mem_unique, List.mem_filter, hu]
  have key : ∀ au', au' = p.auids.filter (fun u => (p.alive.cell u).truthy) → Inv { p with auids := au' } := by
    intro au' he
    exact { inv with
      active := by intro u hu; rw [he] at hu; exact inv.active u (List.mem_filter.mp hu).1
      nodup := by rw [he]; exact inv.nodup.filter _
      removedDead := by
        intro u hu hnot
        by_cases hmem : u ∈ p.auids
        · obtain ⟨b, hb⟩ := inv.aliveBool u hu
          cases b with
          | false => exact hb
          | true => exact absurd (by rw [he]; exact List.mem_filter.mpr ⟨hmem, by simp [hb, Val.truthy]⟩) hnot
        · exact inv.removedDead u hu hmem }
  by_cases hempty : (p.auids.filter (fun u => !(p.alive.cell u).truthy)).isEmpty = true
  · have hsame : p.auids = p.auids.filter (fun u => (p.alive.cell u).truthy) := by
      rw [← hfilter]
      have : p.auids.filter (fun u => !(p.alive.cell u).truthy) = [] := by simpa using hempty
      simp only [this, Uids.unique, List.foldr_nil, removeActive]
      exact (List.filter_eq_self.mpr (by simp)).symm
    refine ⟨p, by simp [removeDead, deadUids_spec p inv, bind, Except.bind, hempty, pure, Except.pure], inv, rfl, hsame, rfl, rfl, rfl, rfl, rfl, rfl⟩
  · refine ⟨{ p with auids := removeActive p.auids (Uids.unique (p.auids.filter (fun u => !(p.alive.cell u).truthy))) }, ?_, key _ hfilter, rfl, hfilter, rfl, rfl, rfl, rfl, rfl, rfl⟩
    simp [removeDead, deadUids_spec p inv, bind, Except.bind, hempty, pure, Except.pure]



theorem filter_split_length (l : List Nat) (q t : Nat → Bool) :
    (l.filter (fun x => !q x && t x)).length + (l.filter (fun x => q x && t x)).length = (l.filter t).length := by
  induction l with
  | nil => rfl
  | cons x xs ih =>
      simp only [List.filter_cons]
      by_cases hq : q x <;> by_cases ht : t x <;> simp [hq, ht] <;> omega

theorem aliveCount_eq (p : People) : aliveCount p = (p.auids.filter (fun u => (p.alive.cell u).truthy)).length :=
  (C11.C11_len_count p.auids p.alive).2


theorem cmp_eq_le (v w : Val) : (cmpVal .eq v w).truthy = true → (cmpVal .le v w).truthy = true := by
  unfold cmpVal
  split
  · simp [Val.truthy]
  · split
    · rename_i x y _ _
      simp only [Val.truthy, beq_iff_eq, decide_eq_true_eq]
      intro h; rw [h]; exact Rat.le_refl
    · simp [Val.truthy]

theorem castVal_float_arith (op : Arith) (a b : Val) : castVal .float (arithVal op a b) = some (arithVal op a b) := by
  unfold arithVal
  split
  · rfl
  · split <;> simp [castVal, Val.toRat?]

theorem castList_float_arith (op : Arith) (f : Nat → Val) (b : Val) : ∀ us : List Nat,
    (us.map (fun u => arithVal op (f u) b)).mapM (castVal .float) = some (us.map (fun u => arithVal op (f u) b))
  | [] => rfl
  | u :: us => by
      simp only [List.map_cons, List.mapM_cons, castVal_float_arith, bind, Option.bind, castList_float_arith op f b us]
      rfl

theorem wf_fresh (k : Kind) (nv : Val) (d : Default) : WF 0 (fresh k nv d) := ⟨rfl, rfl, by simp [fresh]⟩

/-- per-operation balance of the number alive (stated as `C10_balance` in Props/C10.lean) -/
theorem balance_ops (p : People) (inv : Inv p) :
    (∀ k s, OpOk p (.grow k s) → aliveCount (step p (.grow k s)) = aliveCount p + k) ∧
    aliveCount (step p .stepDie) + diedNow p = aliveCount p ∧
    (∀ us, OpOk p (.requestDeath us) → aliveCount (step p (.requestDeath us)) = aliveCount p) ∧
    aliveCount (step p .updateResults) = aliveCount p ∧
    aliveCount (step p .removeDead) = aliveCount p ∧
    aliveCount (step p .finishStep) = aliveCount p := by
  refine ⟨?_, ?_, ?_, rfl, ?_, ?_⟩
  · intro k s hok
    obtain ⟨p', h, _, _, hau, _, _, _, hold, hnew, _⟩ := grow_step p k s inv hok
    have e : step p (.grow k s) = p' := by simp [step, stepE, h]
    rw [e, aliveCount_eq, aliveCount_eq, hau, List.filter_append, List.length_append]
    congr 1
    · congr 1
      apply List.filter_congr
      intro u hu; rw [(hold u (inv.active u hu)).1]
    · by_cases hk : k = 0
      · simp [hk]
      · simp only [hk, ↓reduceIte]
        rw [List.filter_eq_self.mpr]
        · simp
        · intro u hu
          have := (mem_newIds p.n k u).mp hu
          rw [(hnew u this.1 this.2).1]; rfl
  · obtain ⟨p', h, _, _, hau, _, _, _, _, _, hal⟩ := stepDie_step p inv
    have e : step p .stepDie = p' := by simp [step, stepE, h]
    rw [e, aliveCount_eq, aliveCount_eq, hau, diedNow]
    have h1 : p.auids.filter (fun u => (p'.alive.cell u).truthy) =
        p.auids.filter (fun u => !(cmpVal .le (p.tiDead.cell u) (tiVal p.ti)).truthy && (p.alive.cell u).truthy) := by
      apply List.filter_congr
      intro u hu
      rw [hal u]
      have hin : inRange p.tiDead p.auids = true := by
        simp only [inRange, List.all_eq_true, decide_eq_true_eq]
        intro x hx; have := inv.active x hx; have := inv.tiDead.le; omega
      have hm : u ∈ deathUids p ↔ (cmpVal .le (p.tiDead.cell u) (tiVal p.ti)).truthy = true := by
        simp only [deathUids, C11.C11_compare_true p.auids p.tiDead .le (tiVal p.ti) inv.nodup hin, List.mem_filter, hu, true_and]
      by_cases hq : (cmpVal .le (p.tiDead.cell u) (tiVal p.ti)).truthy = true
      · have hd := hm.mpr hq
        simp only [hd, ↓reduceIte, hq, Bool.not_true, Bool.false_and]
        rfl
      · have : u ∉ deathUids p := fun hh => hq (hm.mp hh)
        simp [this, hq]
    have hin : inRange p.tiDead p.auids = true := by
      simp only [inRange, List.all_eq_true, decide_eq_true_eq]
      intro x hx; have := inv.active x hx; have := inv.tiDead.le; omega
    have h2 : (deathUids p).filter (fun u => (p.alive.cell u).truthy) =
        p.auids.filter (fun u => (cmpVal .le (p.tiDead.cell u) (tiVal p.ti)).truthy && (p.alive.cell u).truthy) := by
      simp only [deathUids, C11.C11_compare_true p.auids p.tiDead .le (tiVal p.ti) inv.nodup hin, List.filter_filter]
      apply List.filter_congr; intro u _; exact Bool.and_comm _ _
    rw [h1, h2]
    exact filter_split_length p.auids _ _
  · intro us hok
    obtain ⟨p', h, _, _, hau, hal, _⟩ := request_step p us inv hok
    have e : step p (.requestDeath us) = p' := by simp [step, stepE, h]
    rw [e, aliveCount, aliveCount, hau, hal]
  · obtain ⟨p', h, _, _, hau, hal, _⟩ := removeDead_step p inv
    have e : step p .removeDead = p' := by simp [step, stepE, h]
    rw [e, aliveCount_eq, aliveCount_eq, hau, hal, List.filter_filter]
    simp
  · obtain ⟨p', h, _, _, hau, hal, _⟩ := removeDead_step p inv
    have hs : stepE p .finishStep = .ok { p' with ti := p'.ti + 1 } := by simp [stepE, finishStep, h, bind, Except.bind, pure, Except.pure]
    simp only [step, hs]
    show count p'.auids p'.alive = _
    have := aliveCount_eq p'
    simp only [aliveCount] at this
    rw [this, aliveCount_eq, hau, hal, List.filter_filter]
    simp


/-! ### Whole steps of the loop: what module code (create agents / request deaths) does between the People phases -/

theorem run_append (p : People) (a b : List Op) : run p (a ++ b) = run (run p a) b := by
  simp [run, List.foldl_append]

theorem validRun_append : ∀ (a b : List Op) (p : People), ValidRun p (a ++ b) ↔ ValidRun p a ∧ ValidRun (run p a) b
  | [], b, p => by simp [ValidRun, run]
  | op :: a, b, p => by
      simp only [List.cons_append, ValidRun, run, List.foldl_cons]
      have := validRun_append a b (step p op)
      simp only [run] at this
      rw [this, and_assoc]

theorem stamped_self (ti : Int) : (cmpVal .le (tiVal ti) (tiVal ti)).truthy = true := by
  simp [cmpVal, tiVal, Val.isUndef, Val.toRat?, Val.truthy]

/-- what one operation of module code (create agents / request deaths) does to a consistent population -/
theorem moduleOp_step (p : People) (inv : Inv p) (op : Op) (hm : IsModuleOp op = true) (hok : OpOk p op) :
    Inv (step p op) ∧ (step p op).ti = p.ti ∧ (step p op).nAlive = p.nAlive ∧ p.n ≤ (step p op).n ∧
    (∀ u, u ∈ p.auids → u ∈ (step p op).auids) ∧
    (∀ u, u < p.n → Stamped p u = true → Stamped (step p op) u = true) ∧
    (∀ u, u < p.n → p.alive.cell u = .bool false → (step p op).alive.cell u = .bool false) ∧
    (∀ us, op = .requestDeath us → ∀ u ∈ us, Stamped (step p op) u = true) ∧
    aliveCount (step p op) = aliveCount p + created [op] := by
  cases op with
  | grow k s =>
      obtain ⟨p', h, i, hn, hau, hti, hna, _, hold, _⟩ := grow_step p k s inv hok
      have e : step p (.grow k s) = p' := by simp [step, stepE, h]
      have hb := (balance_ops p inv).1 k s hok
      rw [e] at hb ⊢
      refine ⟨i, hti, hna, by omega, fun u hu => by rw [hau]; exact List.mem_append_left _ hu, ?_, ?_, ?_, ?_⟩
      · intro u hu hs; simp only [Stamped, hti, (hold u hu).2.1] at hs ⊢; exact hs
      · intro u hu hd; rw [(hold u hu).1]; exact hd
      · intro us hus; cases hus
      · simpa [created] using hb
  | requestDeath us =>
      obtain ⟨p', h, i, hn, hau, hal, hti, hna, _, _, htd⟩ := request_step p us inv hok
      have e : step p (.requestDeath us) = p' := by simp [step, stepE, h]
      rw [e]
      refine ⟨i, hti, hna, by omega, fun u hu => by rw [hau]; exact hu, ?_, ?_, ?_, ?_⟩
      · intro u _ hs
        simp only [Stamped, hti, htd u] at hs ⊢
        by_cases hx : u ∈ us
        · simp only [hx, ↓reduceIte]; exact stamped_self p.ti
        · simpa [hx] using hs
      · intro u _ hd; rw [hal]; exact hd
      · intro us' hus u hu
        cases hus
        simp only [Stamped, hti, htd u, hu, ↓reduceIte]; exact stamped_self p.ti
      · simp [aliveCount, hau, hal, created]
  | stepDie => cases hm
  | updateResults => cases hm
  | removeDead => cases hm
  | finishStep => cases hm

theorem created_cons (op : Op) (ops : List Op) : created (op :: ops) = created [op] + created ops := by
  cases op <;> simp [created]

/-- ... and a whole list of them (everything the modules do between two phases of the loop) -/
theorem moduleOps_run : ∀ (ops : List Op) (p : People), Inv p → (∀ op ∈ ops, IsModuleOp op = true) → ValidRun p ops →
    Inv (run p ops) ∧ (run p ops).ti = p.ti ∧ (run p ops).nAlive = p.nAlive ∧ p.n ≤ (run p ops).n ∧
    (∀ u, u ∈ p.auids → u ∈ (run p ops).auids) ∧
    (∀ u, u < p.n → Stamped p u = true → Stamped (run p ops) u = true) ∧
    (∀ u, u < p.n → p.alive.cell u = .bool false → (run p ops).alive.cell u = .bool false) ∧
    (∀ us, .requestDeath us ∈ ops → ∀ u ∈ us, Stamped (run p ops) u = true) ∧
    aliveCount (run p ops) = aliveCount p + created ops
  | [], p, inv, _, _ => ⟨inv, rfl, rfl, Nat.le_refl _, fun _ h => h, fun _ _ h => h, fun _ _ h => h, fun _ h => (by cases h), (by simp [run, created])⟩
  | op :: ops, p, inv, hm, hv => by
      obtain ⟨i1, t1, a1, n1, m1, s1, d1, r1, c1⟩ := moduleOp_step p inv op (hm op (List.mem_cons_self ..)) hv.1
      obtain ⟨i2, t2, a2, n2, m2, s2, d2, r2, c2⟩ := moduleOps_run ops (step p op) i1 (fun o ho => hm o (List.mem_cons_of_mem _ ho)) hv.2
      have e : run p (op :: ops) = run (step p op) ops := by simp [run]
      rw [e]
      refine ⟨i2, by rw [t2, t1], by rw [a2, a1], by omega, fun u hu => m2 u (m1 u hu), fun u hu hs => s2 u (by omega) (s1 u hu hs),
        fun u hu hd => d2 u (by omega) (d1 u hu hd), ?_, by rw [c2, c1, created_cons op ops]; omega⟩
      intro us hus u hu
      rcases List.mem_cons.mp hus with h | h
      · have hlt : u < p.n := by
          have := hv.1; rw [← h] at this; exact this u hu
        exact s2 u (by omega) (r1 us h.symm u hu)
      · exact r2 us h u hu

/-- an active agent that carries a due stamp is among the agents `step_die` resolves -/
theorem stamped_dies (p : People) (inv : Inv p) (u : Nat) (hact : u ∈ p.auids) (hs : Stamped p u = true) : u ∈ deathUids p := by
  have hin : inRange p.tiDead p.auids = true := by
    simp only [inRange, List.all_eq_true, decide_eq_true_eq]
    intro x hx; have := inv.active x hx; have := inv.tiDead.le; omega
  simp only [deathUids, C11.C11_compare_true p.auids p.tiDead .le (tiVal p.ti) inv.nodup hin, List.mem_filter]
  exact ⟨hact, hs⟩


/-- module code issues module operations only, at every row that is not a People / clock row -/
theorem planOps_modules (acts : String → String → List Op) (hacts : ∀ c m, ∀ op ∈ acts c m, IsModuleOp op = true)
    (rows : List PlanRow) (h : ∀ r ∈ rows, r.1 ≠ "sim.people") : ∀ op ∈ planOps acts rows, IsModuleOp op = true := by
  intro op hop
  simp only [planOps, List.mem_flatMap] at hop
  obtain ⟨r, hr, hin⟩ := hop
  have hne := h r hr
  by_cases h1 : r.1 = "sim"
  · by_cases h2 : r.2.1 = "start_step"
    · simp [slotOf, h1, h2] at hin
    · by_cases h3 : r.2.1 = "finish_step" <;> simp [slotOf, h1, h2, h3] at hin
  · simp [slotOf, hne, h1] at hin
    exact hacts _ _ op hin

theorem scheduled_sub (g : String → Bool) (rows : List PlanRow) : ∀ r ∈ scheduled g rows, r ∈ rows :=
  fun _ hr => (List.mem_filter.mp hr).1

instance (p : People) (op : Op) : Decidable (OpOk p op) :=
  match op with
  | .grow k none => isTrue (by intro s h; cases h)
  | .grow k (some s) => decidable_of_iff (s.length = k) (by simp [OpOk])
  | .requestDeath us => (inferInstance : Decidable (∀ u ∈ us, u < p.n))
  | .stepDie => isTrue trivial
  | .updateResults => isTrue trivial
  | .removeDead => isTrue trivial
  | .finishStep => isTrue trivial

instance instDecidableValidRun : (p : People) → (ops : List Op) → Decidable (ValidRun p ops)
  | _, [] => isTrue trivial
  | p, op :: ops => @instDecidableAnd _ _ _ (instDecidableValidRun (step p op) ops)


/-- a balance of counts survives exact scaling -/
theorem scaled_balance (s : Rat) (a k c d : Nat) (h : c + d = a + k) :
    (c : Rat) * s + (d : Rat) * s = (a : Rat) * s + (k : Rat) * s := by
  rw [← Rat.add_mul, ← Rat.add_mul]
  have : ((c : Rat) + (d : Rat)) = ((a : Rat) + (k : Rat)) := by
    have := congrArg (fun n : Nat => (n : Rat)) h
    simpa [Rat.natCast_add] using this
  rw [this]


end StarsimModel.C10
