/-
Helper lemmas for property C15 (Model/Results.lean).  Core Lean only.
-/
import StarsimModel.Model.Results

namespace StarsimModel.Results

theorem zeros_succ (m : Nat) : zeros (m + 1) = 0 :: zeros m := by simp [zeros, List.replicate_succ]

theorem sum_zeros (m : Nat) : (zeros m).sum = 0 := by
  induction m with
  | zero => simp [zeros]
  | succ m ih => rw [zeros_succ, List.sum_cons, ih, Rat.add_zero]

theorem set_append_zeros (xs : List Rat) (m : Nat) (x : Rat) :
    (xs ++ zeros (m + 1)).set xs.length x = (xs ++ [x]) ++ zeros m := by
  rw [zeros_succ]
  simp

theorem length_zeros (m : Nat) : (zeros m).length = m := by simp [zeros]

/-- `np.sum((xs ++ [x] ++ 0…)[: |xs| + off])` for the two slices -/
theorem sumTo_snoc_zeros (xs : List Rat) (x : Rat) (m off : Nat) (hoff : off ≤ 1) :
    sumTo ((xs ++ [x]) ++ zeros m) (xs.length + off) = sumTo (xs ++ [x]) (xs.length + off) := by
  have h : off = 0 ∨ off = 1 := by omega
  rcases h with rfl | rfl
  · simp [sumTo]
  · have : xs.length + 1 = (xs ++ [x]).length := by simp
    rw [sumTo, sumTo, this, List.take_append_of_le_length (Nat.le_refl _)]

/-- a pointwise series after `n` own steps: the values written, then the untouched zeros -/
theorem pointRunRev_eq (npts : Nat) : ∀ (hist : List Rat), hist.length ≤ npts →
    pointRunRev npts hist = hist.reverse ++ zeros (npts - hist.length) := by
  intro hist
  induction hist with
  | nil => intro _; simp [pointRunRev]
  | cons x earlier ih =>
      intro h
      simp only [List.length_cons] at h
      have h' : earlier.length ≤ npts := by omega
      obtain ⟨m, hm⟩ : ∃ m, npts - earlier.length = m + 1 := ⟨npts - earlier.length - 1, by omega⟩
      have hm2 : npts - (earlier.length + 1) = m := by omega
      simp only [pointRunRev, ih h', hm, List.length_cons, hm2, List.reverse_cons]
      have := set_append_zeros earlier.reverse m x
      simpa using this

def prefixSums (off : Nat) (xs : List Rat) : List Rat :=
  (List.range xs.length).map (fun t => sumTo xs (t + off))

theorem prefixSums_snoc (off : Nat) (hoff : off ≤ 1) (xs : List Rat) (x : Rat) :
    prefixSums off (xs ++ [x]) = prefixSums off xs ++ [sumTo (xs ++ [x]) (xs.length + off)] := by
  simp only [prefixSums, List.length_append, List.length_cons, List.length_nil, Nat.zero_add,
    List.range_succ, List.map_append, List.map_cons, List.map_nil]
  congr 1
  apply List.map_congr_left
  intro t ht
  have : t < xs.length := by simpa using ht
  simp only [sumTo]
  rw [List.take_append_of_le_length (by omega)]

theorem length_prefixSums (off : Nat) (xs : List Rat) : (prefixSums off xs).length = xs.length := by
  simp [prefixSums]

/-- a flow and its cumulative companion after `n` own steps -/
theorem Flow.runRev_eq (off npts : Nat) (hoff : off ≤ 1) : ∀ (hist : List Rat), hist.length ≤ npts →
    Flow.runRev off npts hist =
      ⟨hist.reverse ++ zeros (npts - hist.length), prefixSums off hist.reverse ++ zeros (npts - hist.length)⟩ := by
  intro hist
  induction hist with
  | nil => intro _; simp [Flow.runRev, Flow.init, prefixSums]
  | cons x earlier ih =>
      intro h
      simp only [List.length_cons] at h
      have h' : earlier.length ≤ npts := by omega
      obtain ⟨m, hm⟩ : ∃ m, npts - earlier.length = m + 1 := ⟨npts - earlier.length - 1, by omega⟩
      have hm2 : npts - (earlier.length + 1) = m := by omega
      have e1 := set_append_zeros earlier.reverse m x
      have e2 := set_append_zeros (prefixSums off earlier.reverse) m
        (sumTo (earlier.reverse ++ [x]) (earlier.reverse.length + off))
      have e3 := sumTo_snoc_zeros earlier.reverse x m off hoff
      simp only [List.length_reverse, length_prefixSums] at e1 e2 e3
      simp only [Flow.runRev, ih h', hm, Flow.record, List.length_cons, hm2, List.reverse_cons, e1, e3,
        prefixSums_snoc off hoff, e2]
      simp


/-! ### Histories -/

/-- the values an owner writes at its own steps `0, 1, …` (newest first), `f ti snapshot` -/
def histRev {α} (f : Nat → α → Rat) : List α → List Rat
  | [] => []
  | s :: earlier => f earlier.length s :: histRev f earlier

theorem length_histRev {α} (f : Nat → α → Rat) (l : List α) : (histRev f l).length = l.length := by
  induction l with
  | nil => rfl
  | cons _ _ ih => simp [histRev, ih]

theorem histRev_reverse {α} (f : Nat → α → Rat) (hist : List α) :
    (histRev f hist).reverse = hist.reverse.zipIdx.map (fun p => f p.2 p.1) := by
  induction hist with
  | nil => rfl
  | cons x e ih => simp [histRev, ih, List.zipIdx_append]

theorem histRev_get {α} (f : Nat → α → Rat) (snaps : List α) (t : Nat) (s : α) (h : snaps[t]? = some s) :
    (histRev f snaps.reverse).reverse[t]? = some (f t s) := by
  rw [histRev_reverse, List.reverse_reverse, List.getElem?_map, List.getElem?_zipIdx, h]
  simp

theorem get_append_zeros (xs : List Rat) (m t : Nat) (v : Rat) (h : xs[t]? = some v) :
    (xs ++ zeros m)[t]? = some v := by
  have ht : t < xs.length := by
    rcases List.getElem?_eq_some_iff.mp h with ⟨h1, _⟩; exact h1
  rw [List.getElem?_append_left ht, h]

theorem prefixSums_get (off : Nat) (xs : List Rat) (t : Nat) (h : t < xs.length) :
    (prefixSums off xs)[t]? = some (sumTo xs (t + off)) := by
  simp [prefixSums, h]

/-! ### Scaling -/

theorem cumsumFrom_scale (k : Rat) : ∀ (xs : List Rat) (acc : Rat),
    cumsumFrom (acc * k) (xs.map (· * k)) = (cumsumFrom acc xs).map (· * k) := by
  intro xs
  induction xs with
  | nil => intro _; rfl
  | cons x xs ih =>
      intro acc
      simp only [List.map_cons, cumsumFrom]
      rw [← Rat.add_mul, ih]

theorem cumsum_scale (k : Rat) (xs : List Rat) : cumsum (xs.map (· * k)) = (cumsum xs).map (· * k) := by
  have := cumsumFrom_scale k xs 0
  simpa [cumsum, Rat.zero_mul] using this

theorem scaleSeries_key (fl : Bool) (k : Rat) (s : Series) : (scaleSeries fl k s).key = s.key := by
  unfold scaleSeries; split <;> rfl

theorem lookup_scaleStore (fl : Bool) (k : Rat) (st : List Series) (key : String) :
    lookup (scaleStore fl k st) key = (lookup st key).map (scaleSeries fl k) := by
  induction st with
  | nil => rfl
  | cons s st ih =>
      simp only [lookup, scaleStore, List.map_cons, List.find?_cons, scaleSeries_key] at *
      by_cases h : (s.key == key) = true
      · simp [h]
      · simp [h, ih]

/-- what `finalize` must leave in a series, stated from the RAW store:
    scalable = raw × pop_scale, non-scalable = raw, a `cumsum`-filled series = running sum of its (scaled or not) source -/
def specFinal (k : Rat) (raw : List Series) (s : Series) : Series :=
  match s.cumOf with
  | none => if s.scale then { s with vals := s.vals.map (· * k) } else s
  | some src => match lookup raw src with
    | some t => { s with vals := if t.scale then (cumsum t.vals).map (· * k) else cumsum t.vals }
    | none => if s.scale then { s with vals := s.vals.map (· * k) } else s

theorem finalStore_eq (k : Rat) (raw : List Series) :
    finalStore true k raw = raw.map (specFinal k raw) := by
  simp only [finalStore, fillDerived, scaleStore, List.map_map]
  apply List.map_congr_left
  intro s _
  have hl := lookup_scaleStore true k raw
  simp only [scaleStore] at hl
  simp only [Function.comp, specFinal]
  by_cases hs : s.scale = true
  · cases hc : s.cumOf with
    | none => simp [scaleSeries, hs, hc]
    | some src =>
        cases ht : lookup raw src with
        | none => simp [scaleSeries, hs, hc, hl, ht]
        | some t =>
            by_cases hts : t.scale = true
            · simp [scaleSeries, hs, hc, hl, ht, hts, cumsum_scale]
            · simp [scaleSeries, hs, hc, hl, ht, hts]
  · cases hc : s.cumOf with
    | none => simp [scaleSeries, hs, hc]
    | some src =>
        cases ht : lookup raw src with
        | none => simp [scaleSeries, hs, hc, hl, ht]
        | some t =>
            by_cases hts : t.scale = true
            · simp [scaleSeries, hs, hc, hl, ht, hts, cumsum_scale]
            · simp [scaleSeries, hs, hc, hl, ht, hts]

/-! ### The operation machine -/

def Op.isExport : Op → Bool
  | .write .. => false
  | .finalize => false
  | _ => true

theorem rawWrites_exports (ops : List Op) (h : ∀ op ∈ ops, op.isExport = true) (st : List Series) :
    rawWrites st ops = st ∧ countFinalize ops = 0 := by
  induction ops with
  | nil => simp [rawWrites, countFinalize, count]
  | cons op ops ih =>
      have h1 := h op (List.mem_cons_self ..)
      have h2 := ih (fun o ho => h o (List.mem_cons_of_mem _ ho))
      cases op <;> simp_all [rawWrites, countFinalize, count, Op.isExport]

/-- once `results_ready` is set, only exports are accepted and they change neither store nor flag -/
theorem runOps_ready (hg : Gen.simFinalizeGuarded = true) : ∀ (ops : List Op) (s s' : Sim),
    s.ready = true → runOps s ops = .ok s' →
    s'.store = s.store ∧ s'.ready = true ∧ s'.popScale = s.popScale ∧ ∀ op ∈ ops, op.isExport = true := by
  intro ops
  induction ops with
  | nil => intro s s' hr h; simp [runOps] at h; subst h; simp [hr]
  | cons op ops ih =>
      intro s s' hr h
      cases op with
      | write key ti v => simp [runOps, step, hr] at h
      | finalize => simp [runOps, step, hr, hg] at h
      | summarize =>
          have := ih { s with summary := summarize s.store } s' hr (by simpa [runOps, step] using h)
          simpa [Op.isExport] using this
      | toDf =>
          have := ih s s' hr (by simpa [runOps, step, hr] using h)
          simpa [Op.isExport] using this
      | toJson =>
          have := ih s s' hr (by simpa [runOps, step] using h)
          simpa [Op.isExport] using this
      | shrink =>
          have := ih s s' hr (by simpa [runOps, step] using h)
          simpa [Op.isExport] using this
      | saveLoad =>
          have := ih s s' hr (by simpa [runOps, step] using h)
          simpa [Op.isExport] using this

/-- the invariant of every accepted operation sequence -/
theorem runOps_inv (hg : Gen.simFinalizeGuarded = true) (hs : Gen.simFinalizeSetsReady = true)
    (hm : Gen.moduleScalesFlaggedOnly = true) (hS : Gen.simScalesFlaggedOnly = true) :
    ∀ (ops : List Op) (s s' : Sim), s.ready = false → runOps s ops = .ok s' →
    s'.popScale = s.popScale ∧
    ((s'.ready = false ∧ s'.store = rawWrites s.store ops ∧ countFinalize ops = 0) ∨
     (s'.ready = true ∧ s'.store = finalStore true s.popScale (rawWrites s.store ops) ∧ countFinalize ops = 1)) := by
  intro ops
  induction ops with
  | nil => intro s s' hr h; simp [runOps] at h; subst h; simp [hr, rawWrites, countFinalize, count]
  | cons op ops ih =>
      intro s s' hr h
      cases op with
      | write key ti v =>
          simp only [runOps, step, hr] at h
          cases hl : lookup s.store key with
          | none => simp [hl] at h
          | some x =>
              by_cases hti : ti < x.vals.length
              · simp only [hl, hti, ↓reduceIte] at h
                have := ih { s with store := writeStore s.store key ti v } s' hr (by simpa [hr] using h)
                simpa [rawWrites, countFinalize, count] using this
              · simp [hl, hti] at h
      | finalize =>
          simp only [runOps, step, hr, hs, hm, hS, Bool.false_and, Bool.and_self] at h
          have h' : runOps { s with ready := true, store := finalStore true s.popScale s.store,
                                    summary := summarize (finalStore true s.popScale s.store) } ops = .ok s' := by
            simpa using h
          obtain ⟨e1, e2, e3, e4⟩ := runOps_ready hg ops _ s' rfl h'
          obtain ⟨r1, r2⟩ := rawWrites_exports ops e4 s.store
          refine ⟨by simpa using e3, Or.inr ⟨e2, ?_, ?_⟩⟩
          · simp only [rawWrites, r1]; simpa using e1
          · simp only [countFinalize, count] at r2 ⊢
            simp [r2]
      | summarize =>
          have := ih { s with summary := summarize s.store } s' hr (by simpa [runOps, step] using h)
          simpa [rawWrites, countFinalize, count] using this
      | toDf => simp [runOps, step, hr] at h
      | toJson =>
          have := ih s s' hr (by simpa [runOps, step] using h)
          simpa [rawWrites, countFinalize, count] using this
      | shrink =>
          have := ih s s' hr (by simpa [runOps, step] using h)
          simpa [rawWrites, countFinalize, count] using this
      | saveLoad =>
          have := ih s s' hr (by simpa [runOps, step] using h)
          simpa [rawWrites, countFinalize, count] using this

/-! ### Rates computed in `finalize` from already scaled series -/

theorem rate_entry_scale (u d a k : Rat) (hk : 0 < k) :
    (if 0 < a * k then some (d * k / (a * k) / u) else none) = (if 0 < a then some (d / a / u) else none) := by
  have hkne : k ≠ 0 := by intro h; rw [h] at hk; exact Rat.lt_irrefl hk
  by_cases ha : 0 < a
  · have : 0 < a * k := Rat.mul_pos ha hk
    have hane : a ≠ 0 := by intro h; rw [h] at ha; exact Rat.lt_irrefl ha
    simp only [this, ha, ↓reduceIte]
    congr 2
    grind
  · have : ¬ 0 < a * k := by
      intro h
      exact ha ((Rat.mul_pos_iff_of_pos_right hk).mp h)
    simp [this, ha]

theorem rateSeries_scale (u k : Rat) (hk : 0 < k) : ∀ (new alive : List Rat),
    rateSeries u (new.map (· * k)) (alive.map (· * k)) = rateSeries u new alive := by
  intro new
  induction new with
  | nil => intro alive; simp [rateSeries]
  | cons d ds ih =>
      intro alive
      cases alive with
      | nil => simp [rateSeries]
      | cons a as =>
          have := ih as
          simp only [rateSeries] at this ⊢
          simp only [List.map_cons, List.zip_cons_cons, this, rate_entry_scale u d a k hk]

/-! ### Prevalence -/

theorem count_le_of_imp {α} (p q : α → Bool) (l : List α) (h : ∀ a ∈ l, p a = true → q a = true) :
    count p l ≤ count q l := by
  induction l with
  | nil => simp [count]
  | cons a l ih =>
      have ih' := ih (fun b hb => h b (List.mem_cons_of_mem _ hb))
      have ha := h a (List.mem_cons_self ..)
      simp only [count, List.filter_cons] at *
      by_cases hp : p a = true
      · simp [hp, ha hp]; omega
      · by_cases hq : q a = true
        · simp [hp, hq]; omega
        · simp [hp, hq]; omega

theorem natCast_div_le_one (a b : Nat) (h : a ≤ b) (hb : 0 < b) : (a : Rat) / (b : Rat) ≤ 1 := by
  have hb' : (0 : Rat) < (b : Rat) := by exact_mod_cast hb
  have hab : (a : Rat) ≤ (b : Rat) := by exact_mod_cast h
  have hinv : (0 : Rat) ≤ (b : Rat)⁻¹ := Rat.le_of_lt (Rat.inv_pos.mpr hb')
  have hne : (b : Rat) ≠ 0 := by
    intro h0; rw [h0] at hb'; exact Rat.lt_irrefl hb'
  rw [Rat.div_def]
  have := Rat.mul_le_mul_of_nonneg_right hab hinv
  rwa [Rat.mul_inv_cancel _ hne] at this

theorem natCast_div_nonneg (a b : Nat) : (0 : Rat) ≤ (a : Rat) / (b : Rat) := by
  rw [Rat.div_def]
  by_cases hb : b = 0
  · subst hb; simp
  · have hb' : (0 : Rat) < (b : Rat) := by exact_mod_cast Nat.pos_of_ne_zero hb
    exact Rat.mul_nonneg (by exact_mod_cast Nat.zero_le a) (Rat.le_of_lt (Rat.inv_pos.mpr hb'))


/-! ### Population flows -/

theorem count_add_count_not {α} (p : α → Bool) (l : List α) : count p l + count (fun a => !p a) l = l.length := by
  induction l with
  | nil => simp [count]
  | cons a l ih =>
      simp only [count, List.filter_cons] at *
      by_cases h : p a = true <;> simp [h] <;> omega

theorem count_congr {α} (p q : α → Bool) (l : List α) (h : ∀ a ∈ l, p a = q a) : count p l = count q l := by
  induction l with
  | nil => rfl
  | cons a l ih =>
      have ha := h a (List.mem_cons_self ..)
      have ih' := ih (fun b hb => h b (List.mem_cons_of_mem _ hb))
      simp only [count, List.filter_cons, ha] at *
      by_cases hq : q a = true <;> simp [hq, ih']

theorem length_markDead (ti : Nat) (sel : List Nat) (l : List Person) : (markDead ti sel l).length = l.length := by
  simp [markDead]

theorem length_resolve (ti : Nat) (l : List Person) : (resolve ti l).length = l.length := by
  simp [resolve]

theorem length_popSnapshot (ti : Nat) (act : List Person) (s : PopStep) :
    (popSnapshot ti act s).length = act.length + s.born := by
  simp [popSnapshot, length_resolve, length_markDead]

theorem mem_markDead (ti : Nat) (sel : List Nat) (l : List Person) (q : Person) (h : q ∈ markDead ti sel l) :
    ∃ p ∈ l, q = p ∨ q = { p with tiDead := some (ti : Int) } := by
  simp only [markDead, List.mem_map] at h
  obtain ⟨⟨p, i⟩, hm, rfl⟩ := h
  have hp : p ∈ l := (List.mem_zipIdx hm).2.2 ▸ List.getElem_mem _
  refine ⟨p, hp, ?_⟩
  by_cases hc : sel.contains i = true
  · right; simp only [hc, ↓reduceIte]
  · left; simp only [hc]; rfl

/-- a position-wise update that keeps the `alive` flags keeps the number of the living -/
theorem filter_alive_map_zipIdx (f : Person × Nat → Person) (hf : ∀ x, (f x).alive = x.1.alive) :
    ∀ (l : List Person) (k : Nat),
      (((l.zipIdx k).map f).filter (fun q => q.alive)).length = (l.filter (fun q => q.alive)).length := by
  intro l
  induction l with
  | nil => intro k; rfl
  | cons a l ih =>
      intro k
      simp only [List.zipIdx_cons, List.map_cons, List.filter_cons, hf]
      by_cases ha : a.alive = true <;> simp [ha, ih (k + 1)]

theorem count_alive_markDead (ti : Nat) (sel : List Nat) (l : List Person) :
    count (fun q : Person => q.alive) (markDead ti sel l) = count (fun q : Person => q.alive) l := by
  have := filter_alive_map_zipIdx
    (fun x => if sel.contains x.2 then { x.1 with tiDead := some (ti : Int) } else x.1)
    (by intro x; split <;> rfl) l 0
  simpa [count, markDead] using this

/-- the agents that stay: exactly the living ones of the snapshot, all alive -/
theorem popNext_spec (ti : Nat) (act : List Person) (s : PopStep) :
    (popNext ti act s).length = nAliveOf (popSnapshot ti act s) ∧ ∀ p ∈ popNext ti act s, p.alive = true := by
  refine ⟨?_, ?_⟩
  · have := count_alive_markDead ti s.late (popSnapshot ti act s)
    simpa [popNext, nAliveOf, count] using this
  · intro p hp
    simp only [popNext, List.mem_filter] at hp
    exact hp.2

theorem popSnapshot_balance (ti : Nat) (act : List Person) (s : PopStep) :
    nAliveOf (popSnapshot ti act s) + removedOf (popSnapshot ti act s) = act.length + s.born := by
  rw [← length_popSnapshot ti act s]
  exact count_add_count_not (fun q : Person => q.alive) _

/-- no death pending from an earlier step: alive and `ti_dead` unset -/
def NoPending (l : List Person) : Prop := ∀ p ∈ l, p.alive = true ∧ p.tiDead = none

theorem popSnapshot_elem (ti : Nat) (act : List Person) (s : PopStep) (h : NoPending act) :
    ∀ q ∈ popSnapshot ti act s,
      (q.alive = true ∧ q.tiDead = none) ∨ (q.alive = false ∧ q.tiDead = some (ti : Int)) := by
  intro q hq
  simp only [popSnapshot, resolve, List.mem_map] at hq
  obtain ⟨p', hp', rfl⟩ := hq
  obtain ⟨p, hp, hcase⟩ := mem_markDead ti s.req _ p' hp'
  have hp0 : p.alive = true ∧ p.tiDead = none := by
    rcases List.mem_append.mp hp with h1 | h2
    · exact h p h1
    · have : p = fresh := (List.mem_replicate.mp h2).2
      subst this; exact ⟨rfl, rfl⟩
  rcases hcase with rfl | rfl
  · left; simp [hp0.1, hp0.2]
  · right; simp

theorem removed_eq_newDeaths (ti : Nat) (act : List Person) (s : PopStep) (h : NoPending act) :
    removedOf (popSnapshot ti act s) = newDeathsOf ti (popSnapshot ti act s) := by
  apply count_congr
  intro q hq
  rcases popSnapshot_elem ti act s h q hq with ⟨h1, h2⟩ | ⟨h1, h2⟩ <;> simp [h1, h2]

theorem popNext_noPending (ti : Nat) (act : List Person) (s : PopStep) (h : NoPending act) (hl : s.late = []) :
    NoPending (popNext ti act s) := by
  intro p hp
  simp only [popNext, hl, List.mem_filter] at hp
  obtain ⟨hm, ha⟩ := hp
  have hq : p ∈ popSnapshot ti act s := by
    simp only [markDead, List.mem_map] at hm
    obtain ⟨⟨p0, i⟩, hm0, rfl⟩ := hm
    have hp0 : p0 ∈ popSnapshot ti act s := (List.mem_zipIdx hm0).2.2 ▸ List.getElem_mem _
    simpa using hp0
  rcases popSnapshot_elem ti act s h p hq with ⟨h1, h2⟩ | ⟨h1, _⟩
  · exact ⟨h1, h2⟩
  · rw [h1] at ha; cases ha

/-! ### Rates from the final store -/

theorem lookup_map_key (f : Series → Series) (hf : ∀ s, (f s).key = s.key) (st : List Series) (key : String) :
    lookup (st.map f) key = (lookup st key).map f := by
  induction st with
  | nil => rfl
  | cons s st ih =>
      simp only [lookup, List.map_cons, List.find?_cons, hf] at *
      by_cases h : (s.key == key) = true
      · simp [h]
      · simp [h, ih]

theorem specFinal_key (k : Rat) (raw : List Series) (s : Series) : (specFinal k raw s).key = s.key := by
  unfold specFinal
  split
  · split <;> rfl
  · split
    · rfl
    · split <;> rfl

theorem gather_scale (k : Rat) (inds : List Nat) (l : List Rat) :
    gather inds (l.map (· * k)) = (gather inds l).map (· * k) := by
  unfold gather
  by_cases h : inds.isEmpty = true
  · simp [h]
  · simp only [h, Bool.false_eq_true, ↓reduceIte, List.map_map]
    apply List.map_congr_left
    intro i _
    simp only [Function.comp, List.getD, List.getElem?_map]
    cases l[i]? <;> simp [Rat.zero_mul]

/-- a plain scalable series: written during the run, flagged `scale`, not filled by `cumsum` -/
def PlainScaled (raw : List Series) (key : String) : Prop :=
  ∃ s, lookup raw key = some s ∧ s.scale = true ∧ s.cumOf = none

theorem rateOf_final (k : Rat) (hk : 0 < k) (raw : List Series) (r : RateSpec)
    (hn : PlainScaled raw r.newKey) (ha : PlainScaled raw r.aliveKey) :
    rateOf (finalStore true k raw) r = rateOf raw r := by
  obtain ⟨n, hn1, hn2, hn3⟩ := hn
  obtain ⟨a, ha1, ha2, ha3⟩ := ha
  rw [finalStore_eq]
  simp only [rateOf, lookup_map_key _ (specFinal_key k raw), hn1, ha1, Option.map_some]
  simp only [specFinal, hn3, ha3, hn2, ha2, ↓reduceIte, gather_scale, rateSeries_scale _ k hk]

end StarsimModel.Results
