/-
Lemmas about Model/Link.lean: a statement list accepted by `endsLinked` leaves the SciPy sampler linked to the generator that
`Dist.init` has just made, from every starting state, hence after every sequence of initialisations and calls.
-/
import StarsimModel.Model.Link

namespace StarsimModel.Link

theorem exec_track (d : D) (b : Bool) (s : Stmt) (h : b = true → d.ok) (ht : track b s = true) : (exec d s).ok := by
  cases s with
  | newRng => simp [track] at ht
  | newSampler => simp [track] at ht
  | otherWrite => simp [track] at ht
  | link g =>
      cases g with
      | always => simp [exec, D.ok]
      | other => simp [track] at ht
      | firstInitOnly =>
          simp only [track] at ht
          simp only [exec]
          by_cases hi : d.initialized = true
          · simpa [hi] using h ht
          · simp [hi, D.ok]

theorem foldl_track (prog : List Stmt) : ∀ (d : D) (b : Bool), (b = true → d.ok) → prog.foldl track b = true →
    (prog.foldl exec d).ok := by
  induction prog with
  | nil => intro d b h ht; simp only [List.foldl_nil] at ht ⊢; exact h ht
  | cons s rest ih =>
      intro d b h ht
      simp only [List.foldl_cons] at ht ⊢
      exact ih (exec d s) (track b s) (fun hb => exec_track d b s h hb) ht

theorem initOnce_ok (prog : List Stmt) (hp : endsLinked prog = true) (d : D) : (initOnce prog d).ok := by
  have := foldl_track prog d false (by simp) hp
  simpa [initOnce, D.ok] using this

theorem step_ok (prog : List Stmt) (hp : endsLinked prog = true) (d : D) (op : Op) (h : d.ok) : (step prog d op).ok := by
  cases op with
  | init => exact initOnce_ok prog hp d
  | sample => exact h

theorem run_ok (prog : List Stmt) (hp : endsLinked prog = true) (ops : List Op) : ∀ d : D, d.ok → (run prog d ops).ok := by
  induction ops with
  | nil => intro d h; simpa [run] using h
  | cons op rest ih =>
      intro d h
      have := ih (step prog d op) (step_ok prog hp d op h)
      simpa [run] using this

end StarsimModel.Link
