import StarsimModel.Model.Search
/-
Frame theorem for the distribution search: adding objects to the graph searched by `Dists.init` leaves the trace (hence
the name and the seed) and the relative order of every old distribution unchanged, provided that whenever the search
follows a reference from an added object back to an old iterable one, that object has been processed before.
-/
namespace StarsimModel.Search

/-- `g1` is `g2` with objects added: old objects look the same, except that they may have additional children, all added -/
structure Extends (g1 g2 : Graph) (old : Nat → Bool) : Prop where
  iter : ∀ x, old x = true → (g1 x).iterable = (g2 x).iterable
  dist : ∀ x, old x = true → (g1 x).isDist = (g2 x).isDist
  kids : ∀ x, old x = true → (g1 x).kids.filter (fun kc => old kc.2) = (g2 x).kids
  wf   : ∀ x, (g1 x).isDist = true → (g1 x).iterable = true

/-- the simulation relation between the two searches -/
structure Rel (old : Nat → Bool) (g1 : Graph) (s1 s2 : State) : Prop where
  stack : s2.stack = s1.stack.filter (fun e => !(e.extra old))
  memo  : ∀ x, old x = true → (g1 x).iterable = true → (x ∈ s1.memo ↔ x ∈ s2.memo)
  out   : s2.out = s1.out.filter (fun o => old o.2)

theorem filter_push_old {g1 g2 : Graph} {old : Nat → Bool} (h : Extends g1 g2 old) (tr : List String) (x : Nat)
    (hx : old x = true) :
    (push g1 tr x).filter (fun e => !(e.extra old)) = push g2 tr x := by
  unfold push
  rw [← h.iter x hx]
  by_cases hi : (g1 x).iterable = true
  · simp only [hi, if_true]
    rw [← h.kids x hx, List.filter_map]
    congr 1
    apply List.filter_congr
    intro kc _
    simp [Entry.extra, hx]
  · simp [hi]

theorem filter_push_new (g1 : Graph) (old : Nat → Bool) (tr : List String) (x : Nat) (hx : old x = false) :
    (push g1 tr x).filter (fun e => !(e.extra old)) = [] := by
  unfold push
  split
  · rw [List.filter_eq_nil_iff]
    intro e he
    obtain ⟨kc, _, rfl⟩ := List.mem_map.mp he
    simp [Entry.extra, hx]
  · rfl

theorem proceed_eq {g1 g2 : Graph} {old : Nat → Bool} (hE : Extends g1 g2 old) (sk : Skips) {s1 s2 : State}
    (hR : Rel old g1 s1 s2) (key : String) (x : Nat) (hx : old x = true) :
    proceed g1 sk s1.memo key x = proceed g2 sk s2.memo key x := by
  unfold proceed
  rw [← hE.iter x hx]
  by_cases hi : (g1 x).iterable = true
  · have := hR.memo x hx hi
    have hc : s1.memo.contains x = s2.memo.contains x := by
      rw [Bool.eq_iff_iff]; simpa using this
    rw [hc]
  · simp [hi]

/-- a turn of the larger search on an entry the smaller search does not have -/
theorem step_extra {g1 g2 : Graph} {old : Nat → Bool} (hE : Extends g1 g2 old) (sk : Skips) {s1 s2 : State}
    (hR : Rel old g1 s1 s2) (e : Entry) (rest : List Entry) (hs : s1.stack = e :: rest)
    (hx : e.extra old = true) (hsafe : safeAt g1 sk old s1 = true) :
    Rel old g1 (step g1 sk s1) s2 := by
  have hstack : s2.stack = rest.filter (fun e => !(e.extra old)) := by
    rw [hR.stack, hs, List.filter_cons]; simp [hx]
  by_cases hp : proceed g1 sk s1.memo e.key e.id = true
  · -- processed: its object is an added one, or an old one that is not iterable
    have hcase : old e.id = false ∨ (old e.id = true ∧ (g1 e.id).iterable = false) := by
      by_cases ho : old e.id = true
      · right
        refine ⟨ho, ?_⟩
        have hpar : old e.par = false := by
          simp [Entry.extra, ho] at hx; exact hx
        simp only [safeAt, hs] at hsafe
        simp only [proceed, Bool.and_eq_true, Bool.not_eq_eq_eq_not, Bool.not_true] at hp
        obtain ⟨⟨hk, hi⟩, hm⟩ := hp
        by_cases hit : (g1 e.id).iterable = true
        · simp [hpar, ho, hit] at hsafe
          simp [hit] at hm
          exfalso
          have hk' : ¬ e.key ∈ sk.keys := by simpa using hk
          have hi' : ¬ e.id ∈ sk.ids := by simpa using hi
          rcases hsafe with (h | h) | h
          · exact hk' h
          · exact hi' h
          · exact hm h
        · simpa using hit
      · left; simpa using ho
    have hpush : (push g1 (e.tr ++ [e.key]) e.id).filter (fun e => !(e.extra old)) = [] := by
      rcases hcase with hn | ⟨_, hni⟩
      · exact filter_push_new g1 old _ _ hn
      · simp [push, hni]
    have hnd : old e.id = true → (g1 e.id).isDist = false := by
      intro ho
      rcases hcase with hn | ⟨_, hni⟩
      · rw [hn] at ho; cases ho
      · by_cases hd : (g1 e.id).isDist = true
        · rw [hE.wf _ hd] at hni; cases hni
        · simpa using hd
    refine ⟨?_, ?_, ?_⟩
    · simp only [step, hs, hp, if_true]
      rw [List.filter_append, hpush, List.nil_append, hstack]
    · intro x hox hix
      simp only [step, hs, hp, if_true]
      rw [← hR.memo x hox hix]
      have hne : x ≠ e.id := by
        intro h
        rcases hcase with hn | ⟨_, hni⟩
        · rw [← h, hox] at hn; cases hn
        · rw [← h, hix] at hni; cases hni
      simp [hne]
    · simp only [step, hs, hp, if_true]
      by_cases hd : (g1 e.id).isDist = true
      · have hn : old e.id = false := by
          by_cases ho : old e.id = true
          · rw [hnd ho] at hd; cases hd
          · simpa using ho
        simp only [hd, if_true, List.filter_append]
        rw [hR.out]
        simp [hn]
      · simp only [hd]
        exact hR.out
  · refine ⟨?_, ?_, ?_⟩
    · simp only [step, hs, hp]; exact hstack
    · simp only [step, hs, hp]; exact hR.memo
    · simp only [step, hs, hp]; exact hR.out

/-- a turn on an entry both searches have -/
theorem step_common {g1 g2 : Graph} {old : Nat → Bool} (hE : Extends g1 g2 old) (sk : Skips) {s1 s2 : State}
    (hR : Rel old g1 s1 s2) (e : Entry) (rest : List Entry) (hs : s1.stack = e :: rest)
    (hx : e.extra old = false) :
    Rel old g1 (step g1 sk s1) (step g2 sk s2) := by
  have hoid : old e.id = true := by
    simp [Entry.extra] at hx; exact hx.2
  have hstack : s2.stack = e :: rest.filter (fun e => !(e.extra old)) := by
    rw [hR.stack, hs, List.filter_cons]; simp [hx]
  have hpe := proceed_eq hE sk hR e.key e.id hoid
  by_cases hp : proceed g1 sk s1.memo e.key e.id = true
  · have hp2 : proceed g2 sk s2.memo e.key e.id = true := by rw [← hpe]; exact hp
    refine ⟨?_, ?_, ?_⟩
    · simp only [step, hs, hstack, hp, hp2, if_true]
      rw [List.filter_append, filter_push_old hE _ _ hoid]
    · intro x hox hix
      simp only [step, hs, hstack, hp, hp2, if_true, List.mem_cons]
      rw [hR.memo x hox hix]
    · simp only [step, hs, hstack, hp, hp2, if_true]
      rw [← hE.dist _ hoid]
      by_cases hd : (g1 e.id).isDist = true
      · simp only [hd, if_true, List.filter_append]
        rw [hR.out]
        simp [hoid]
      · simp only [hd]
        exact hR.out
  · have hp2 : ¬ proceed g2 sk s2.memo e.key e.id = true := by rw [← hpe]; exact hp
    refine ⟨?_, ?_, ?_⟩
    · simp only [step, hs, hstack, hp, hp2]; rfl
    · simp only [step, hs, hstack, hp, hp2]; exact hR.memo
    · simp only [step, hs, hstack, hp, hp2]; exact hR.out

theorem steps_final_stable (g : Graph) (sk : Skips) (n : Nat) (s : State) (h : s.final = true) :
    steps g sk n s = s := by
  induction n with
  | zero => rfl
  | succ n ih =>
      have : step g sk s = s := by
        unfold State.final at h
        unfold step
        cases hs : s.stack with
        | nil => rfl
        | cons a b => rw [hs] at h; cases h
      simp only [steps, this, ih]

/-- **Frame theorem for the search.** If the larger search finishes within `n1` turns and is safe on the way, the
    smaller one finishes within as many, and what it found is exactly what the larger one found among the old objects:
    same traces, same order. -/
theorem search_frame {g1 g2 : Graph} {old : Nat → Bool} (hE : Extends g1 g2 old) (sk : Skips) :
    ∀ (n1 : Nat) (s1 s2 : State), Rel old g1 s1 s2 → safeRun g1 sk old n1 s1 = true →
      (steps g1 sk n1 s1).final = true →
      ∃ n2, n2 ≤ n1 ∧ (steps g2 sk n2 s2).final = true ∧ Rel old g1 (steps g1 sk n1 s1) (steps g2 sk n2 s2) := by
  intro n1
  induction n1 with
  | zero =>
      intro s1 s2 hR _ hfin
      refine ⟨0, Nat.le_refl _, ?_, hR⟩
      simp only [steps, State.final] at hfin ⊢
      rw [hR.stack]
      cases hs : s1.stack with
      | nil => rfl
      | cons a b => rw [hs] at hfin; cases hfin
  | succ n ih =>
      intro s1 s2 hR hsafe hfin
      simp only [safeRun, Bool.and_eq_true] at hsafe
      simp only [steps] at hfin
      cases hs : s1.stack with
      | nil =>
          have hst : step g1 sk s1 = s1 := by unfold step; rw [hs]
          rw [hst] at hfin hsafe
          obtain ⟨n2, hle, hf, hr⟩ := ih s1 s2 hR hsafe.2 hfin
          refine ⟨n2, Nat.le_succ_of_le hle, hf, ?_⟩
          simp only [steps, hst]; exact hr
      | cons e rest =>
          by_cases hx : e.extra old = true
          · have hR' := step_extra hE sk hR e rest hs hx hsafe.1
            obtain ⟨n2, hle, hf, hr⟩ := ih _ s2 hR' hsafe.2 hfin
            exact ⟨n2, Nat.le_succ_of_le hle, hf, by simpa only [steps] using hr⟩
          · have hx' : e.extra old = false := by simpa using hx
            have hR' := step_common hE sk hR e rest hs hx'
            obtain ⟨n2, hle, hf, hr⟩ := ih _ _ hR' hsafe.2 hfin
            exact ⟨n2 + 1, Nat.succ_le_succ hle, by simpa only [steps] using hf, by simpa only [steps] using hr⟩

/-- the two searches start related when the root is an old object -/
theorem start_rel {g1 g2 : Graph} {old : Nat → Bool} (hE : Extends g1 g2 old) (root : Nat) (hr : old root = true) :
    Rel old g1 (start g1 root) (start g2 root) := by
  refine ⟨?_, ?_, ?_⟩
  · simp only [start]; rw [filter_push_old hE _ _ hr]
  · intro x _ _; simp [start]
  · simp [start]

/-- A sufficient static condition for safety: every reference from an added object to an old iterable object that the
    search would follow leads to an object already in the memo (e.g. the root: `module.sim`, `dist.sim`). -/
def backRefsIn (g : Graph) (sk : Skips) (old : Nat → Bool) (M : List Nat) : Prop :=
  ∀ x, old x = false → ∀ kc ∈ (g x).kids,
    old kc.2 = true → (g kc.2).iterable = true → sk.keys.contains kc.1 = false → sk.ids.contains kc.2 = false → kc.2 ∈ M

/-- stack invariant behind the static condition -/
def BackInv (g : Graph) (sk : Skips) (old : Nat → Bool) (s : State) : Prop :=
  ∀ e ∈ s.stack, old e.par = false → old e.id = true → (g e.id).iterable = true →
    sk.keys.contains e.key = false → sk.ids.contains e.id = false → e.id ∈ s.memo

theorem backInv_step {g : Graph} {sk : Skips} {old : Nat → Bool} {M : List Nat} (hB : backRefsIn g sk old M)
    (s : State) (hM : ∀ m ∈ M, m ∈ s.memo) (hI : BackInv g sk old s) :
    (∀ m ∈ M, m ∈ (step g sk s).memo) ∧ BackInv g sk old (step g sk s) := by
  cases hs : s.stack with
  | nil =>
      have : step g sk s = s := by unfold step; rw [hs]
      rw [this]; exact ⟨hM, hI⟩
  | cons e rest =>
      by_cases hp : proceed g sk s.memo e.key e.id = true
      · constructor
        · intro m hm
          simp only [step, hs, hp, if_true]
          exact List.mem_cons_of_mem _ (hM m hm)
        · intro e' he' h1 h2 h3 h4 h5
          simp only [step, hs, hp, if_true] at he' ⊢
          rcases List.mem_append.mp he' with hpu | hre
          · -- a child of the object just processed
            unfold push at hpu
            split at hpu
            · obtain ⟨kc, hkc, rfl⟩ := List.mem_map.mp hpu
              exact List.mem_cons_of_mem _ (hM _ (hB e.id h1 kc hkc h2 h3 h4 h5))
            · cases hpu
          · exact List.mem_cons_of_mem _ (hI e' (by rw [hs]; exact List.mem_cons_of_mem _ hre) h1 h2 h3 h4 h5)
      · constructor
        · intro m hm; simp only [step, hs, hp]; exact hM m hm
        · intro e' he' h1 h2 h3 h4 h5
          simp only [step, hs, hp] at he' ⊢
          exact hI e' (by rw [hs]; exact List.mem_cons_of_mem _ he') h1 h2 h3 h4 h5

theorem safeAt_of_backInv {g : Graph} {sk : Skips} {old : Nat → Bool} (s : State) (hI : BackInv g sk old s) :
    safeAt g sk old s = true := by
  unfold safeAt
  cases hs : s.stack with
  | nil => rfl
  | cons e rest =>
      simp only
      by_cases h1 : old e.par = false
      · by_cases h2 : old e.id = true
        · by_cases h3 : (g e.id).iterable = true
          · by_cases h4 : sk.keys.contains e.key = false
            · by_cases h5 : sk.ids.contains e.id = false
              · have := hI e (by rw [hs]; exact List.mem_cons_self) h1 h2 h3 h4 h5
                simp [this]
              · simp at h5; simp [h5]
            · simp at h4; simp [h4]
          · simp at h3; simp [h3]
        · simp at h2; simp [h2]
      · simp at h1; simp [h1]

/-- the static condition implies safety of the whole search, from any state whose memo already contains `M` -/
theorem safeRun_of_backRefs {g : Graph} {sk : Skips} {old : Nat → Bool} {M : List Nat} (hB : backRefsIn g sk old M) :
    ∀ (n : Nat) (s : State), (∀ m ∈ M, m ∈ s.memo) → BackInv g sk old s → safeRun g sk old n s = true := by
  intro n
  induction n with
  | zero => intro _ _ _; rfl
  | succ n ih =>
      intro s hM hI
      simp only [safeRun, Bool.and_eq_true]
      obtain ⟨hM', hI'⟩ := backInv_step hB s hM hI
      exact ⟨safeAt_of_backInv s hI, ih _ hM' hI'⟩

theorem backInv_start (g : Graph) (sk : Skips) (old : Nat → Bool) (root : Nat) (hr : old root = true) :
    BackInv g sk old (start g root) := by
  intro e he h1
  simp only [start, push] at he
  split at he
  · obtain ⟨kc, _, rfl⟩ := List.mem_map.mp he
    simp at h1; rw [hr] at h1; cases h1
  · cases he

end StarsimModel.Search
