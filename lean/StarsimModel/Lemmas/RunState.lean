/-
Helper lemmas for C09 (Model/RunState.lean).  Core Lean only.
-/
import StarsimModel.Model.RunState

namespace StarsimModel.RunState
open StarsimModel.Loop

variable {σ : Type}

theorem finalClocks_eq_foldl (l : List Entry) : ∀ clk, finalClocks clk l = l.foldl bump clk := by
  induction l with
  | nil => intro clk; rfl
  | cons e r ih => intro clk; simp [finalClocks, ih]

theorem finalClocks_snoc (l : List Entry) (e : Entry) (clk : Clocks) :
    finalClocks clk (l ++ [e]) = bump (finalClocks clk l) e := by
  simp [finalClocks_eq_foldl, List.foldl_append]

/-- The part of the invariant that every operation preserves: the state is the one obtained by executing exactly
    the first `index` plan functions, in order, once. -/
structure Reach (c : Cfg σ) (s : State σ) : Prop where
  le : s.index ≤ c.plan.length
  st : s.st = (c.plan.take s.index).foldl c.step c.init
  clk : s.clocks = finalClocks [] (c.plan.take s.index)
  complete : s.complete = true → s.index = c.plan.length
  adjusted : s.adjusted = s.complete

/-- …plus, when no manual `finalize` is among the operations: finalised (and rescaled) exactly once, exactly when
    complete. -/
structure ReachF (c : Cfg σ) (s : State σ) : Prop extends Reach c s where
  fin : s.complete = true → s.resultsReady = true ∧ s.nScaled = 1
  notfin : s.complete = false → s.resultsReady = false ∧ s.nScaled = 0

theorem reachF_fresh (c : Cfg σ) : ReachF c (fresh c) :=
  { le := Nat.zero_le _, st := by simp [fresh], clk := by simp [fresh, finalClocks],
    complete := by simp [fresh], adjusted := rfl, fin := by simp [fresh], notfin := by simp [fresh] }

/-- Flags a plain execution does not touch. -/
def sameFlags (s t : State σ) : Prop :=
  t.complete = s.complete ∧ t.resultsReady = s.resultsReady ∧ t.nScaled = s.nScaled ∧ t.adjusted = s.adjusted

theorem exec_list (c : Cfg σ) : ∀ (l : List Entry) (s : State σ) (rest : List Entry),
    c.plan.drop s.index = l ++ rest → s.index ≤ c.plan.length →
    s.st = (c.plan.take s.index).foldl c.step c.init →
    s.clocks = finalClocks [] (c.plan.take s.index) →
    let t := l.foldl (exec c) s
    t.index = s.index + l.length ∧ t.index ≤ c.plan.length ∧
    t.st = (c.plan.take t.index).foldl c.step c.init ∧ t.clocks = finalClocks [] (c.plan.take t.index) ∧
    sameFlags s t := by
  intro l
  induction l with
  | nil =>
      intro s rest _ hle hst hclk
      exact ⟨rfl, hle, hst, hclk, rfl, rfl, rfl, rfl⟩
  | cons e r ih =>
      intro s rest hdrop _ hst hclk
      have hlt : s.index < c.plan.length := by
        rcases Nat.lt_or_ge s.index c.plan.length with h | h
        · exact h
        · rw [List.drop_eq_nil_of_le h] at hdrop; simp at hdrop
      have hget : c.plan[s.index] = e := by
        have := List.drop_eq_getElem_cons hlt
        rw [this] at hdrop
        exact (List.cons.inj hdrop).1
      have hdrop' : c.plan.drop (s.index + 1) = r ++ rest := by
        have := List.drop_eq_getElem_cons hlt
        rw [this] at hdrop
        exact (List.cons.inj hdrop).2
      have htake : c.plan.take (s.index + 1) = c.plan.take s.index ++ [e] := by
        rw [List.take_succ_eq_append_getElem hlt, hget]
      have h1 : (exec c s e).st = (c.plan.take (exec c s e).index).foldl c.step c.init := by
        simp only [exec]; rw [htake, List.foldl_append, ← hst]; rfl
      have h2 : (exec c s e).clocks = finalClocks [] (c.plan.take (exec c s e).index) := by
        simp only [exec]; rw [htake, finalClocks_snoc, ← hclk]
      have := ih (exec c s e) rest (by simpa [exec] using hdrop') (by simp only [exec]; omega) h1 h2
      simp only [List.foldl_cons, List.length_cons]
      obtain ⟨a, b, c', d, f1, f2, f3, f4⟩ := this
      refine ⟨by rw [a]; simp only [exec]; omega, b, c', d, ?_⟩
      exact ⟨f1, f2, f3, f4⟩

/-- `Loop.run(until)` executes a prefix of the remaining plan; with no stop time, all of it.  If it stopped before the
    end, the stop condition held after the last executed function, and it held after no earlier one. -/
theorem loopRunAux_spec (c : Cfg σ) (u : Option Rat) : ∀ (rest : List Entry) (s : State σ),
    ∃ l rest', rest = l ++ rest' ∧ loopRunAux c u rest s = l.foldl (exec c) s ∧
      (rest' ≠ [] → stopNow c (l.foldl (exec c) s) u = true) ∧
      (∀ l1 l2, l = l1 ++ l2 → l1 ≠ [] → l2 ≠ [] → stopNow c (l1.foldl (exec c) s) u = false) := by
  intro rest
  induction rest with
  | nil => intro s; exact ⟨[], [], rfl, rfl, by simp, by intro l1 l2 h; simp at h; simp [h.1]⟩
  | cons e r ih =>
      intro s
      simp only [loopRunAux]
      by_cases hstop : stopNow c (exec c s e) u = true
      · refine ⟨[e], r, rfl, by simp [hstop], by intro _; simpa using hstop, ?_⟩
        intro l1 l2 h h1 h2
        cases l1 with
        | nil => exact absurd rfl h1
        | cons a l1' =>
            simp only [List.cons_append, List.cons.injEq] at h
            have : l1' ++ l2 = [] := h.2.symm
            simp at this
            exact absurd this.2 h2
      · obtain ⟨l, rest', h1, h2, h3, h4⟩ := ih (exec c s e)
        refine ⟨e :: l, rest', by simp [h1], by simp [hstop, h2], by simpa using h3, ?_⟩
        intro l1 l2 h hne1 hne2
        cases l1 with
        | nil => exact absurd rfl hne1
        | cons a l1' =>
            simp only [List.cons_append, List.cons.injEq] at h
            obtain ⟨rfl, hl⟩ := h
            by_cases hl1 : l1' = []
            · subst hl1; simpa using hstop
            · simpa using h4 l1' l2 hl hl1 hne2

theorem stopNow_none (c : Cfg σ) (s : State σ) : stopNow c s none = false := rfl

theorem loopRunAux_none (c : Cfg σ) : ∀ (rest : List Entry) (s : State σ),
    loopRunAux c none rest s = rest.foldl (exec c) s := by
  intro rest
  induction rest with
  | nil => intro s; rfl
  | cons e r ih => intro s; simp [loopRunAux, stopNow_none, ih]

/-- `Loop.run` preserves `Reach` and the flags; it ends at or before the end of the plan. -/
theorem loopRun_reach (c : Cfg σ) (u : Option Rat) (s : State σ) (h : Reach c s) :
    let t := loopRun c u s
    s.index ≤ t.index ∧ t.index ≤ c.plan.length ∧
    t.st = (c.plan.take t.index).foldl c.step c.init ∧ t.clocks = finalClocks [] (c.plan.take t.index) ∧
    sameFlags s t := by
  obtain ⟨l, rest', h1, h2, _, _⟩ := loopRunAux_spec c u (c.plan.drop s.index) s
  have := exec_list c l s rest' h1 h.le h.st h.clk
  simp only [loopRun, h2]
  obtain ⟨a, b, c', d, e⟩ := this
  exact ⟨by omega, b, c', d, e⟩

theorem loopRun_none_index (c : Cfg σ) (s : State σ) (h : Reach c s) :
    (loopRun c none s).index = c.plan.length := by
  simp only [loopRun, loopRunAux_none]
  have := exec_list c (c.plan.drop s.index) s [] (by simp) h.le h.st h.clk
  rw [this.1, List.length_drop]
  have := h.le
  omega

theorem reach_of_parts {c : Cfg σ} {s t : State σ} (h : Reach c s)
    (hle : t.index ≤ c.plan.length) (hst : t.st = (c.plan.take t.index).foldl c.step c.init)
    (hclk : t.clocks = finalClocks [] (c.plan.take t.index)) (hidx : s.index ≤ t.index) (hf : sameFlags s t) :
    Reach c t :=
  { le := hle, st := hst, clk := hclk,
    complete := by
      intro hc
      have := h.complete (hf.1 ▸ hc)
      omega
    adjusted := by rw [hf.2.2.2, hf.1]; exact h.adjusted }

theorem reachF_of_parts {c : Cfg σ} {s t : State σ} (h : ReachF c s)
    (hle : t.index ≤ c.plan.length) (hst : t.st = (c.plan.take t.index).foldl c.step c.init)
    (hclk : t.clocks = finalClocks [] (c.plan.take t.index)) (hidx : s.index ≤ t.index) (hf : sameFlags s t) :
    ReachF c t :=
  { toReach := reach_of_parts h.toReach hle hst hclk hidx hf
    fin := by intro hc; rw [hf.2.1, hf.2.2.1]; exact h.fin (hf.1 ▸ hc)
    notfin := by intro hc; rw [hf.2.1, hf.2.2.1]; exact h.notfin (hf.1 ▸ hc) }

/-- A state that satisfies `ReachF` and is complete is *the* final state. -/
theorem eq_finalState {c : Cfg σ} {s : State σ} (h : ReachF c s) (hc : s.complete = true) : s = finalState c := by
  have hi := h.complete hc
  have hst := h.st
  have hclk := h.clk
  have hadj := h.adjusted
  obtain ⟨hr, hn⟩ := h.fin hc
  rw [hi, List.take_length] at hst hclk
  cases s
  simp only [finalState] at *
  simp_all

theorem run_reachF (c : Cfg σ) (u : Option Rat) (s : State σ) (h : ReachF c s) : ReachF c (run c u s).1 := by
  unfold run
  by_cases hc : s.complete = true
  · simp [hc, h]
  · have hc' : s.complete = false := by simpa using hc
    obtain ⟨a, b, c', d, e⟩ := loopRun_reach c u s h.toReach
    have hmid : ReachF c (loopRun c u s) := reachF_of_parts h b c' d a e
    simp only [hc, Bool.false_eq_true, if_false]
    by_cases hend : (loopRun c u s).index = c.plan.length
    · simp only [hend, if_true]
      have hnr : (loopRun c u s).resultsReady = false := by rw [e.2.1]; exact (h.notfin hc').1
      have hns : (loopRun c u s).nScaled = 0 := by rw [e.2.2.1]; exact (h.notfin hc').2
      simp only [finalize, hnr, Bool.false_eq_true, if_false]
      have hst' := hmid.st
      have hclk' := hmid.clk
      rw [hend] at hst' hclk'
      exact { le := Nat.le_refl _, st := hst', clk := hclk',
              complete := fun _ => rfl, adjusted := rfl,
              fin := by intro _; simp [hns], notfin := by simp }
    · simp only [hend, if_false]; exact hmid

theorem apply_reachF (c : Cfg σ) (s : State σ) (op : Op) (hop : op.noFinalize = true) (h : ReachF c s) :
    ReachF c (apply c s op).1 := by
  cases op with
  | run u => exact run_reachF c u s h
  | simStep =>
      obtain ⟨a, b, c', d, e⟩ := loopRun_reach c (some (now c s)) s h.toReach
      exact reachF_of_parts h b c' d a e
  | loopStep =>
      simp only [apply, loopRunOneStep]
      cases hg : c.plan[s.index]? with
      | none => exact h
      | some e =>
          have hlt : s.index < c.plan.length := by
            rcases Nat.lt_or_ge s.index c.plan.length with h' | h'
            · exact h'
            · rw [List.getElem?_eq_none h'] at hg; cases hg
          have hdrop : c.plan.drop s.index = [e] ++ c.plan.drop (s.index + 1) := by
            rw [List.drop_eq_getElem_cons hlt]
            have : c.plan[s.index] = e := by
              rw [List.getElem?_eq_getElem hlt] at hg; exact Option.some.inj hg
            rw [this]; rfl
          obtain ⟨a, b, c', d, f⟩ := exec_list c [e] s _ hdrop h.le h.st h.clk
          exact reachF_of_parts (t := exec c s e) h b c' d (by simp only [List.foldl] at a; omega) f
  | restore m => exact h
  | observe => exact h
  | finalize => cases hop

theorem applyAll_reachF (c : Cfg σ) : ∀ (ops : List Op) (s : State σ), (∀ op ∈ ops, op.noFinalize = true) →
    ReachF c s → ReachF c (applyAll c s ops) := by
  intro ops
  induction ops with
  | nil => intro s _ h; exact h
  | cons op r ih =>
      intro s hops h
      simp only [applyAll, List.foldl_cons]
      exact ih _ (fun o ho => hops o (List.mem_cons_of_mem _ ho))
        (apply_reachF c s op (hops op List.mem_cons_self) h)

/-- `Reach` alone is preserved by every operation, including a manual `finalize`. -/
theorem apply_reach (c : Cfg σ) (s : State σ) (op : Op) (h : Reach c s) : Reach c (apply c s op).1 := by
  cases op with
  | run u =>
      simp only [apply, run]
      by_cases hc : s.complete = true
      · simp [hc, h]
      · obtain ⟨a, b, c', d, e⟩ := loopRun_reach c u s h
        have hmid := reach_of_parts h b c' d a e
        simp only [hc, Bool.false_eq_true, if_false]
        by_cases hend : (loopRun c u s).index = c.plan.length
        · simp only [hend, if_true, finalize]
          have hst' := hmid.st
          have hclk' := hmid.clk
          rw [hend] at hst' hclk'
          split <;>
          exact { le := Nat.le_refl _, st := hst', clk := hclk', complete := fun _ => rfl, adjusted := rfl }
        · simp only [hend, if_false]; exact hmid
  | simStep =>
      obtain ⟨a, b, c', d, e⟩ := loopRun_reach c (some (now c s)) s h
      exact reach_of_parts h b c' d a e
  | loopStep =>
      simp only [apply, loopRunOneStep]
      cases hg : c.plan[s.index]? with
      | none => exact h
      | some e =>
          have hlt : s.index < c.plan.length := by
            rcases Nat.lt_or_ge s.index c.plan.length with h' | h'
            · exact h'
            · rw [List.getElem?_eq_none h'] at hg; cases hg
          have hdrop : c.plan.drop s.index = [e] ++ c.plan.drop (s.index + 1) := by
            rw [List.drop_eq_getElem_cons hlt]
            have : c.plan[s.index] = e := by
              rw [List.getElem?_eq_getElem hlt] at hg; exact Option.some.inj hg
            rw [this]; rfl
          obtain ⟨a, b, c', d, f⟩ := exec_list c [e] s _ hdrop h.le h.st h.clk
          exact reach_of_parts (t := exec c s e) h b c' d (by simp only [List.foldl] at a; omega) f
  | restore m => exact h
  | observe => exact h
  | finalize =>
      simp only [apply, finalize]
      split
      · exact h
      · exact { le := h.le, st := h.st, clk := h.clk, complete := h.complete, adjusted := h.adjusted }

theorem runTo_reach (c : Cfg σ) (k : Nat) (s : State σ) (h : ReachF c s) :
    ReachF c (runTo c k s) ∧ (runTo c k s).index = max s.index (min k c.plan.length) := by
  have hsplit : c.plan.drop s.index =
      (c.plan.drop s.index).take (k - s.index) ++ (c.plan.drop s.index).drop (k - s.index) :=
    (List.take_append_drop _ _).symm
  obtain ⟨a, b, c', d, e⟩ := exec_list c _ s _ hsplit h.le h.st h.clk
  have hle := h.le
  refine ⟨reachF_of_parts (t := runTo c k s) h b c' d (by simp only [runTo]; omega) e, ?_⟩
  simp only [runTo]
  rw [a, List.length_take, List.length_drop]
  omega

end StarsimModel.RunState
