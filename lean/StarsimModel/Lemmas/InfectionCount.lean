/-
Helper lemmas for the infection-count theorem of C13 (core Lean only).
-/
import StarsimModel.Model.InfectionCount

namespace StarsimModel.InfectionCount

/-- counting the members of a duplicate-free sub-list inside a duplicate-free list gives its length -/
theorem filter_mem_length (pop us : List Nat) (hp : pop.Nodup) (hu : us.Nodup) (hsub : ∀ u ∈ us, u ∈ pop) :
    (pop.filter fun u => decide (u ∈ us)).length = us.length := by
  apply List.Perm.length_eq
  rw [List.perm_ext_iff_of_nodup (hp.sublist List.filter_sublist) hu]
  intro a
  simp only [List.mem_filter, decide_eq_true_eq]
  exact ⟨fun h => h.2, fun h => ⟨hsub a h, h⟩⟩

/-- all recorded infection times are before step `t` -/
def Before (m : TiMap) (t : Nat) : Prop := ∀ u k, m u = some k → k < t

theorem before_infect (m : TiMap) (t : Nat) (us : List Nat) (h : Before m t) : Before (infect m t us) (t + 1) := by
  intro u k hk
  unfold infect at hk
  by_cases hm : u ∈ us
  · simp [hm] at hk; omega
  · simp [hm] at hk; have := h u k hk; omega

theorem new_eq_events (m : TiMap) (t : Nat) (pop us : List Nat) (h : Before m t)
    (hp : pop.Nodup) (hu : us.Nodup) (hsub : ∀ u ∈ us, u ∈ pop) :
    newInfections (infect m t us) pop t = us.length := by
  unfold newInfections
  rw [← filter_mem_length pop us hp hu hsub]
  congr 1
  apply List.filter_congr
  intro u _
  unfold infect
  by_cases hm : u ∈ us
  · simp [hm]
  · simp only [hm, if_false, decide_false]
    cases hmu : m u with
    | none => simp
    | some k => have := h u k hmu; simp; omega

end StarsimModel.InfectionCount

namespace StarsimModel.InfectionCount

theorem run_eq_events (steps : List (List Nat × List Nat)) : ∀ (m : TiMap) (t : Nat), Before m t →
    (∀ p ∈ steps, p.1.Nodup ∧ p.2.Nodup ∧ ∀ u ∈ p.2, u ∈ p.1) →
    run m t steps = steps.map (fun p => p.2.length) := by
  induction steps with
  | nil => intro m t _ _; rfl
  | cons p rest ih =>
      intro m t h hs
      obtain ⟨pop, us⟩ := p
      have hp := hs (pop, us) (List.mem_cons_self ..)
      simp only [run, List.map_cons]
      rw [new_eq_events m t pop us h hp.1 hp.2.1 hp.2.2]
      rw [ih (infect m t us) (t + 1) (before_infect m t us h) (fun q hq => hs q (List.mem_cons_of_mem _ hq))]

theorem cumulative_length (xs : List Nat) : (cumulative xs).length = xs.length := by
  induction xs with
  | nil => rfl
  | cons x xs ih => simp [cumulative, ih]

theorem cumulative_getElem (xs : List Nat) : ∀ (i : Nat) (h : i < (cumulative xs).length),
    (cumulative xs)[i] = (xs.take (i + 1)).sum := by
  induction xs with
  | nil => intro i h; simp [cumulative] at h
  | cons x xs ih =>
      intro i h
      cases i with
      | zero => simp [cumulative]
      | succ j =>
          have hj : j < (cumulative xs).length := by simpa [cumulative] using h
          simp [cumulative, ih j hj]

end StarsimModel.InfectionCount

namespace StarsimModel.InfectionCount

/-- A time recorded in the future is never counted at the step of the infection: if `set_prognoses` writes
    `ti_infected = t + k + 1` (any later time), `count_nonzero(ti_infected == t)` is 0. -/
theorem new_zero_of_future (m : TiMap) (t k : Nat) (pop us : List Nat) (h : Before m t) :
    newInfections (infect m (t + k + 1) us) pop t = 0 := by
  unfold newInfections
  rw [List.length_eq_zero_iff, List.filter_eq_nil_iff]
  intro u _
  unfold infect
  by_cases hm : u ∈ us
  · simp [hm]; omega
  · simp only [hm, if_false]
    cases hmu : m u with
    | none => simp
    | some j => have := h u j hmu; simp; omega

/-- distinct agents: with permanent immunity every infection event hits a never-infected agent, so the number of agents
    ever infected equals the number of events -/
def everInfected (m : TiMap) (pop : List Nat) : Nat := (pop.filter fun u => (m u).isSome).length

end StarsimModel.InfectionCount

namespace StarsimModel.InfectionCount

/-- every infection event hits an agent with no recorded infection (what permanent immunity + "only susceptibles are
    infected" give: an infected agent never returns to susceptible) -/
def NeverBefore (m : TiMap) (t : Nat) : List (List Nat × List Nat) → Prop
  | [] => True
  | (_, us) :: rest => (∀ u ∈ us, m u = none) ∧ NeverBefore (infect m t us) (t + 1) rest

/-- all agents passed to `set_prognoses` during the run, in order -/
def allEvents (steps : List (List Nat × List Nat)) : List Nat := steps.flatMap (·.2)

theorem not_mem_events_of_recorded (steps : List (List Nat × List Nat)) : ∀ (m : TiMap) (t : Nat),
    NeverBefore m t steps → ∀ u, m u ≠ none → u ∉ allEvents steps := by
  induction steps with
  | nil => intro m t _ u _; simp [allEvents]
  | cons p rest ih =>
      intro m t h u hu
      obtain ⟨pop, us⟩ := p
      simp only [NeverBefore] at h
      simp only [allEvents, List.flatMap_cons, List.mem_append, not_or]
      refine ⟨fun hin => hu (h.1 u hin), ?_⟩
      apply ih (infect m t us) (t + 1) h.2 u
      unfold infect
      by_cases hm : u ∈ us
      · simp [hm]
      · simpa [hm] using hu

theorem events_nodup (steps : List (List Nat × List Nat)) : ∀ (m : TiMap) (t : Nat),
    NeverBefore m t steps → (∀ p ∈ steps, p.2.Nodup) → (allEvents steps).Nodup := by
  induction steps with
  | nil => intro m t _ _; simp [allEvents]
  | cons p rest ih =>
      intro m t h hn
      obtain ⟨pop, us⟩ := p
      simp only [NeverBefore] at h
      simp only [allEvents, List.flatMap_cons]
      rw [List.nodup_append]
      refine ⟨hn (pop, us) (List.mem_cons_self ..), ih (infect m t us) (t + 1) h.2 (fun q hq => hn q (List.mem_cons_of_mem _ hq)), ?_⟩
      intro a ha b hb hab
      subst hab
      have : infect m t us a ≠ none := by unfold infect; simp [ha]
      exact not_mem_events_of_recorded rest (infect m t us) (t + 1) h.2 a this hb

theorem sum_lengths_eq (steps : List (List Nat × List Nat)) :
    (steps.map (fun p => p.2.length)).sum = (allEvents steps).length := by
  induction steps with
  | nil => simp [allEvents]
  | cons p rest ih => simp [allEvents, List.flatMap_cons, List.length_append] at ih ⊢; try omega

end StarsimModel.InfectionCount
