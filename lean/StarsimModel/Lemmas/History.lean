/-
Lemmas about Model/History.lean: saved state 0 stays the initial state under every operation the code has, so an absolute
jump lands at `jumped s0 j` whatever was called before.
-/
import StarsimModel.Model.History

namespace StarsimModel.Hist

variable {σ : Type} (adv : σ → Nat → σ) (jumped : σ → Nat → σ)

theorem step_head (d : D σ) (s0 : σ) (op : Op) (hop : op.inCode = true) (h : d.hist[0]? = some s0) :
    (step adv jumped d op).hist[0]? = some s0 := by
  cases op with
  | call n =>
      simp only [step]
      cases hh : d.hist with
      | nil => simp [hh] at h
      | cons a l => simpa [hh] using h
  | reset k =>
      simp only [step]
      cases d.hist[k]? <;> simpa using h
  | jump j =>
      simp only [step]
      cases d.hist[0]? <;> simpa using h
  | trim m => simp [Op.inCode] at hop

theorem run_head (ops : List Op) : ∀ (d : D σ) (s0 : σ), (∀ op ∈ ops, op.inCode = true) → d.hist[0]? = some s0 →
    (run adv jumped d ops).hist[0]? = some s0 := by
  induction ops with
  | nil => intro d s0 _ h; simpa [run] using h
  | cons op rest ih =>
      intro d s0 hops h
      have h1 := step_head adv jumped d s0 op (hops op (List.mem_cons_self)) h
      have := ih (step adv jumped d op) s0 (fun o ho => hops o (List.mem_cons_of_mem _ ho)) h1
      simpa [run] using this

theorem run_append (d : D σ) (a b : List Op) : run adv jumped d (a ++ b) = run adv jumped (run adv jumped d a) b := by
  simp [run, List.foldl_append]

/-- every call appends exactly one saved state; nothing in the code removes one -/
theorem step_length (d : D σ) (op : Op) (hop : op.inCode = true) :
    (step adv jumped d op).hist.length = d.hist.length + (match op with | .call _ => 1 | _ => 0) := by
  cases op with
  | call n => simp [step]
  | reset k => simp only [step]; cases d.hist[k]? <;> simp
  | jump j => simp only [step]; cases d.hist[0]? <;> simp
  | trim m => simp [Op.inCode] at hop

end StarsimModel.Hist
