/-
Helper lemmas for C14 (Model/Network.lean): masks, append, the per-class shape of new edges, and the
history invariant `Good`.
-/
import StarsimModel.Model.Network

namespace StarsimModel.Network

/-! ### masks -/

theorem maskFilter_nil {α : Type} (m : List Bool) : maskFilter m ([] : List α) = [] := by
  cases m with
  | nil => rfl
  | cons b m => cases b <;> rfl

theorem maskFilter_nil_left {α : Type} (l : List α) : maskFilter [] l = [] := by
  cases l <;> rfl

theorem mask3_nil {α : Type} (f : α → Nat → Nat → Bool) (a b : List Nat) : mask3 f ([] : List α) a b = [] := by
  cases a <;> cases b <;> rfl

theorem mask3_nil2 {α : Type} (f : α → Nat → Nat → Bool) (d : List α) (b : List Nat) : mask3 f d [] b = [] := by
  cases d <;> cases b <;> rfl

theorem maskFilter_sublist {α : Type} : ∀ (m : List Bool) (l : List α), (maskFilter m l).Sublist l
  | [], l => by cases l <;> simp [maskFilter]
  | b :: m, [] => by simp [maskFilter_nil]
  | true :: m, x :: xs => by simpa [maskFilter] using maskFilter_sublist m xs
  | false :: m, x :: xs => by
      simp only [maskFilter]
      exact (maskFilter_sublist m xs).trans (List.sublist_cons_self x xs)

theorem mem_of_mem_maskFilter {α : Type} {m : List Bool} {l : List α} {x : α} (h : x ∈ maskFilter m l) : x ∈ l :=
  (maskFilter_sublist m l).subset h

theorem length_maskFilter_congr {α β : Type} : ∀ (m : List Bool) (l₁ : List α) (l₂ : List β),
    l₁.length = l₂.length → (maskFilter m l₁).length = (maskFilter m l₂).length
  | [], l₁, l₂, _ => by cases l₁ <;> cases l₂ <;> simp [maskFilter]
  | b :: m, [], [], _ => by simp [maskFilter_nil]
  | b :: m, [], y :: ys, h => by simp at h
  | b :: m, x :: xs, [], h => by simp at h
  | true :: m, x :: xs, y :: ys, h => by
      simp only [maskFilter, List.length_cons]
      rw [length_maskFilter_congr m xs ys (by simpa using h)]
  | false :: m, x :: xs, y :: ys, h => by
      simp only [maskFilter]
      exact length_maskFilter_congr m xs ys (by simpa using h)

theorem maskFilter_colLen {α β : Type} (m : List Bool) (flag : Bool) (col : List α) (p : List β)
    (h : col.length = colLen flag p.length) : (maskFilter m col).length = colLen flag (maskFilter m p).length := by
  cases flag with
  | true => simp only [colLen] at h ⊢; simpa using length_maskFilter_congr m col p (by simpa using h)
  | false =>
      simp only [colLen] at h ⊢
      have : col = [] := List.eq_nil_of_length_eq_zero (by simpa using h)
      simp [this, maskFilter_nil]

theorem Table.mask_WF (t : Table) (m : List Bool) (h : t.WF) : (t.mask m).WF := by
  obtain ⟨h2, h3, h4, h5, h6, h7⟩ := h
  refine ⟨?_, ?_, ?_, ?_, ?_, ?_⟩
  · exact length_maskFilter_congr m _ _ h2
  · exact length_maskFilter_congr m _ _ h3
  · exact maskFilter_colLen m _ _ _ h4
  · exact maskFilter_colLen m _ _ _ h5
  · exact maskFilter_colLen m _ _ _ h6
  · exact maskFilter_colLen m _ _ _ h7

theorem Table.mask_endpoints_sublist (t : Table) (m : List Bool) : (t.mask m).endpoints.Sublist t.endpoints :=
  List.Sublist.append (maskFilter_sublist m t.p1) (maskFilter_sublist m t.p2)

/-- a row kept by a `zipWith` mask satisfies the mask function (left column) -/
theorem mem_maskFilter_zipWith_left {f : Nat → Nat → Bool} : ∀ (a b : List Nat) (x : Nat),
    x ∈ maskFilter (List.zipWith f a b) a → ∃ y ∈ b, f x y = true
  | [], _, x, h => by simp [maskFilter_nil] at h
  | a :: as, [], x, h => by simp [maskFilter] at h
  | a :: as, b :: bs, x, h => by
      simp only [List.zipWith_cons_cons] at h
      cases hf : f a b with
      | true =>
          rw [hf] at h; simp only [maskFilter, List.mem_cons] at h
          rcases h with rfl | h
          · exact ⟨b, by simp, hf⟩
          · obtain ⟨y, hy, hxy⟩ := mem_maskFilter_zipWith_left as bs x h
            exact ⟨y, by simp [hy], hxy⟩
      | false =>
          rw [hf] at h; simp only [maskFilter] at h
          obtain ⟨y, hy, hxy⟩ := mem_maskFilter_zipWith_left as bs x h
          exact ⟨y, by simp [hy], hxy⟩

theorem mem_maskFilter_zipWith_right {f : Nat → Nat → Bool} : ∀ (a b : List Nat) (x : Nat),
    x ∈ maskFilter (List.zipWith f a b) b → ∃ y ∈ a, f y x = true
  | _, [], x, h => by simp [maskFilter_nil] at h
  | [], b :: bs, x, h => by simp [maskFilter] at h
  | a :: as, b :: bs, x, h => by
      simp only [List.zipWith_cons_cons] at h
      cases hf : f a b with
      | true =>
          rw [hf] at h; simp only [maskFilter, List.mem_cons] at h
          rcases h with rfl | h
          · exact ⟨a, by simp, hf⟩
          · obtain ⟨y, hy, hxy⟩ := mem_maskFilter_zipWith_right as bs x h
            exact ⟨y, by simp [hy], hxy⟩
      | false =>
          rw [hf] at h; simp only [maskFilter] at h
          obtain ⟨y, hy, hxy⟩ := mem_maskFilter_zipWith_right as bs x h
          exact ⟨y, by simp [hy], hxy⟩

/-- rows kept by a `mask3` mask satisfy the mask function -/
theorem mem_maskFilter_mask3_p1 {α : Type} {f : α → Nat → Nat → Bool} : ∀ (d : List α) (a b : List Nat) (x : Nat),
    x ∈ maskFilter (mask3 f d a b) a → ∃ dd ∈ d, ∃ y ∈ b, f dd x y = true
  | [], a, b, x, h => by simp [mask3_nil, maskFilter_nil_left] at h
  | d :: ds, [], _, x, h => by simp [maskFilter_nil] at h
  | d :: ds, a :: as, [], x, h => by simp [mask3, maskFilter] at h
  | d :: ds, a :: as, b :: bs, x, h => by
      simp only [mask3] at h
      cases hf : f d a b with
      | true =>
          rw [hf] at h; simp only [maskFilter, List.mem_cons] at h
          rcases h with rfl | h
          · exact ⟨d, by simp, b, by simp, hf⟩
          · obtain ⟨dd, hd, y, hy, hxy⟩ := mem_maskFilter_mask3_p1 ds as bs x h
            exact ⟨dd, by simp [hd], y, by simp [hy], hxy⟩
      | false =>
          rw [hf] at h; simp only [maskFilter] at h
          obtain ⟨dd, hd, y, hy, hxy⟩ := mem_maskFilter_mask3_p1 ds as bs x h
          exact ⟨dd, by simp [hd], y, by simp [hy], hxy⟩

theorem mem_maskFilter_mask3_p2 {α : Type} {f : α → Nat → Nat → Bool} : ∀ (d : List α) (a b : List Nat) (x : Nat),
    x ∈ maskFilter (mask3 f d a b) b → ∃ dd ∈ d, ∃ y ∈ a, f dd y x = true
  | [], a, b, x, h => by simp [mask3_nil, maskFilter_nil_left] at h
  | d :: ds, [], b, x, h => by simp [mask3_nil2, maskFilter_nil_left] at h
  | d :: ds, a :: as, [], x, h => by simp [maskFilter_nil] at h
  | d :: ds, a :: as, b :: bs, x, h => by
      simp only [mask3] at h
      cases hf : f d a b with
      | true =>
          rw [hf] at h; simp only [maskFilter, List.mem_cons] at h
          rcases h with rfl | h
          · exact ⟨d, by simp, a, by simp, hf⟩
          · obtain ⟨dd, hd, y, hy, hxy⟩ := mem_maskFilter_mask3_p2 ds as bs x h
            exact ⟨dd, by simp [hd], y, by simp [hy], hxy⟩
      | false =>
          rw [hf] at h; simp only [maskFilter] at h
          obtain ⟨dd, hd, y, hy, hxy⟩ := mem_maskFilter_mask3_p2 ds as bs x h
          exact ⟨dd, by simp [hd], y, by simp [hy], hxy⟩

theorem mem_maskFilter_mask3_d {α : Type} {f : α → Nat → Nat → Bool} : ∀ (d : List α) (a b : List Nat) (x : α),
    x ∈ maskFilter (mask3 f d a b) d → ∃ y ∈ a, ∃ z ∈ b, f x y z = true
  | [], _, _, x, h => by simp [maskFilter_nil] at h
  | d :: ds, [], b, x, h => by simp [mask3_nil2, maskFilter_nil_left] at h
  | d :: ds, a :: as, [], x, h => by simp [mask3, maskFilter] at h
  | d :: ds, a :: as, b :: bs, x, h => by
      simp only [mask3] at h
      cases hf : f d a b with
      | true =>
          rw [hf] at h; simp only [maskFilter, List.mem_cons] at h
          rcases h with rfl | h
          · exact ⟨a, by simp, b, by simp, hf⟩
          · obtain ⟨y, hy, z, hz, hxy⟩ := mem_maskFilter_mask3_d ds as bs x h
            exact ⟨y, by simp [hy], z, by simp [hz], hxy⟩
      | false =>
          rw [hf] at h; simp only [maskFilter] at h
          obtain ⟨y, hy, z, hz, hxy⟩ := mem_maskFilter_mask3_d ds as bs x h
          exact ⟨y, by simp [hy], z, by simp [hz], hxy⟩

/-! ### decidable helpers -/

theorem nodupB_iff : ∀ (l : List Nat), nodupB l = true ↔ l.Nodup
  | [] => by simp [nodupB]
  | x :: xs => by simp [nodupB, nodupB_iff xs]

theorem allIn_iff (l s : List Nat) : allIn l s = true ↔ ∀ x ∈ l, x ∈ s := by
  simp [allIn]

theorem isPerm_iff (a b : List Nat) : isPerm a b = true ↔ a.Perm b := by
  rw [List.perm_iff_count]
  simp only [isPerm, Bool.and_eq_true, List.all_eq_true, beq_iff_eq]
  constructor
  · rintro ⟨ha, hb⟩ x
    by_cases hxa : x ∈ a
    · exact ha x hxa
    · by_cases hxb : x ∈ b
      · exact hb x hxb
      · rw [List.count_eq_zero.mpr hxa, List.count_eq_zero.mpr hxb]
  · intro h; exact ⟨fun x _ => h x, fun x _ => h x⟩

/-! ### append -/

/-- all supplied columns that `keys` requires have length `n` -/
def Cols.shape (c : Cols) (k : Meta) (n : Nat) : Prop :=
  (∀ a, c.p1 = some a → a.length = n) ∧ (∀ a, c.p2 = some a → a.length = n) ∧
  (∀ a, c.beta = some a → a.length = n) ∧ (k.dur = true → ∀ a, c.dur = some a → a.length = n) ∧
  (k.acts = true → ∀ a, c.acts = some a → a.length = n) ∧ (k.se = true → ∀ a, c.start = some a → a.length = n) ∧
  (k.se = true → ∀ a, c.stop = some a → a.length = n)

theorem need_length {flag : Bool} {o : Option (List Rat)} {d : List Rat} {n : Nat}
    (h : need flag o = some d) (hs : flag = true → ∀ a, o = some a → a.length = n) :
    d.length = colLen flag n := by
  cases flag with
  | true => simp only [need] at h; simpa [colLen] using hs rfl d (by simpa using h)
  | false => simp only [need] at h; simp at h; subst h; simp [colLen]

theorem colLen_add (flag : Bool) (a b : Nat) : colLen flag a + colLen flag b = colLen flag (a + b) := by
  cases flag <;> simp [colLen]

theorem Table.append_spec {t t' : Table} {c : Cols} {n : Nat} (h : t.append c = .ok t') :
    ∃ a b, c.p1 = some a ∧ c.p2 = some b ∧ t'.p1 = t.p1 ++ a ∧ t'.p2 = t.p2 ++ b ∧ t'.keys = t.keys ∧
      (t.WF → c.shape t.keys n → t'.WF) := by
  unfold Table.append at h
  split at h
  · rename_i a b be d ac st sp h1 h2 h3 h4 h5 h6 h7
    simp only [Except.ok.injEq] at h
    subst h
    refine ⟨a, b, h1, h2, rfl, rfl, rfl, ?_⟩
    rintro ⟨w2, w3, w4, w5, w6, w7⟩ ⟨s1, s2, s3, s4, s5, s6, s7⟩
    have l1 := s1 a h1
    subst l1
    have l2 := s2 b h2
    have l3 := s3 be h3
    have l4 := need_length h4 s4
    have l5 := need_length h5 s5
    have l6 := need_length h6 s6
    have l7 := need_length h7 s7
    refine ⟨?_, ?_, ?_, ?_, ?_, ?_⟩ <;> simp only [List.length_append] <;>
      first | omega | (rw [← colLen_add]; omega)
  · simp at h

/-! ### the shape of new edges, per class -/

theorem resolve_spec_mem {arr : List Nat} {i : Nat} (h : i < arr.length) : resolve .spec arr i ∈ arr := by
  simp only [resolve, List.getD_eq_getElem?_getD, List.getElem?_eq_getElem h, Option.getD_some]
  exact List.getElem_mem h

theorem pairsOK_iff (pairs : List (Nat × Nat)) (n : Nat) :
    pairsOK pairs n = true ↔ ∀ ij ∈ pairs, ij.1 < ij.2 ∧ ij.2 < n := by
  simp [pairsOK]

theorem mem_available {n : Net} {p : Pop} {s : Bool} {u : Nat} :
    u ∈ n.available p s ↔ u ∈ p.auids ∧ p.female u = s ∧ n.active p u = true ∧ u ∉ n.table.p1 ∧ u ∉ n.table.p2 := by
  simp [Net.available, and_assoc]

theorem available_nodup {n : Net} {p : Pop} {s : Bool} (h : p.auids.Nodup) : (n.available p s).Nodup :=
  List.Sublist.nodup List.filter_sublist h

theorem newPairs_length {n : Net} {p : Pop} {c : Choice} {a b : List Nat}
    (h : n.newPairs p c = .ok (some (a, b))) : a.length = b.length := by
  unfold Net.newPairs at h
  cases hk : n.kind <;> simp only [hk] at h
  case static | null | maternal => simp at h
  case random =>
    split at h
    · rename_i hp
      simp only [Except.ok.injEq, Option.some.injEq, Prod.mk.injEq] at h
      obtain ⟨rfl, rfl⟩ := h
      exact ((isPerm_iff _ _).mp hp).length_eq.symm
    · simp at h
  case randomPlain =>
    split at h
    · split at h
      · rename_i hp
        simp only [Except.ok.injEq, Option.some.injEq, Prod.mk.injEq] at h
        obtain ⟨rfl, rfl⟩ := h
        exact ((isPerm_iff _ _).mp hp).length_eq.symm
      · simp at h
    · simp at h
  case erdos | disk =>
    split at h
    · simp only [Except.ok.injEq, Option.some.injEq, Prod.mk.injEq] at h
      obtain ⟨rfl, rfl⟩ := h
      simp
    · simp at h
  case mf =>
    split at h <;> split at h <;> simp only [Except.ok.injEq, Option.some.injEq, Prod.mk.injEq, reduceCtorEq] at h
    · rename_i hc; obtain ⟨rfl, rfl⟩ := h
      simp only [Bool.and_eq_true, beq_iff_eq] at hc; omega
    · rename_i hc; obtain ⟨rfl, rfl⟩ := h
      simp only [Bool.and_eq_true, beq_iff_eq] at hc; omega
  case embedding =>
    split at h
    · simp at h
    · split at h <;> simp only [Except.ok.injEq, Option.some.injEq, Prod.mk.injEq, reduceCtorEq] at h
      rename_i hc; obtain ⟨rfl, rfl⟩ := h
      simp only [Bool.and_eq_true, beq_iff_eq] at hc; omega
  case msm =>
    simp only [Except.ok.injEq, Option.some.injEq, Prod.mk.injEq] at h
    obtain ⟨rfl, rfl⟩ := h
    simp only [List.length_take, List.length_drop]
    omega

/-- `spec`-like networks: every new endpoint is an active agent -/
theorem newPairs_active {n : Net} {p : Pop} {c : Choice} {a b : List Nat}
    (hs : n.variant = .spec ∨ (n.kind ≠ .erdos ∧ n.kind ≠ .disk ∧ n.kind ≠ .randomPlain))
    (h : n.newPairs p c = .ok (some (a, b))) : ∀ u ∈ a ++ b, u ∈ p.auids := by
  unfold Net.newPairs at h
  cases hk : n.kind <;> simp only [hk] at h
  case static | null | maternal => simp at h
  case random =>
    split at h
    · rename_i hp
      simp only [Except.ok.injEq, Option.some.injEq, Prod.mk.injEq] at h
      obtain ⟨rfl, rfl⟩ := h
      have hsrc : ∀ u ∈ randomSource (p.auids.filter (fun u => p.alive u && decide (0 < p.age u))) c.nOf, u ∈ p.auids := by
        intro u hu
        simp only [randomSource, List.mem_flatMap, List.mem_filter, List.mem_replicate] at hu
        obtain ⟨v, ⟨hv, _⟩, _, rfl⟩ := hu
        exact hv
      intro u hu
      rcases List.mem_append.mp hu with hu | hu
      · exact hsrc u hu
      · exact hsrc u (((isPerm_iff _ _).mp hp).mem_iff.mp hu)
    · simp at h
  case randomPlain =>
    have hv : n.variant = .spec := by
      rcases hs with hs | hs
      · exact hs
      · exact absurd hk hs.2.2
    split at h
    · split at h
      · rename_i hp
        simp only [Except.ok.injEq, Option.some.injEq, Prod.mk.injEq] at h
        obtain ⟨rfl, rfl⟩ := h
        rw [hv] at hp ⊢
        have hsrc : ∀ u ∈ plainSource .spec (p.auids.filter (fun u => p.alive u && decide (0 < p.age u))) c.counts, u ∈ p.auids := by
          intro u hu
          simp only [plainSource, List.mem_flatMap, List.mem_replicate] at hu
          obtain ⟨ku, hku, _, rfl⟩ := hu
          exact (List.mem_filter.mp (List.of_mem_zip hku).2).1
        intro u hu
        rcases List.mem_append.mp hu with hu | hu
        · exact hsrc u hu
        · exact hsrc u (((isPerm_iff _ _).mp hp).mem_iff.mp hu)
      · simp at h
    · simp at h
  case erdos =>
    have hv : n.variant = .spec := by
      rcases hs with hs | hs
      · exact hs
      · exact absurd hk hs.1
    split at h
    · rename_i hp
      simp only [Except.ok.injEq, Option.some.injEq, Prod.mk.injEq] at h
      obtain ⟨rfl, rfl⟩ := h
      rw [pairsOK_iff] at hp
      intro u hu
      simp only [List.mem_append, List.mem_map, hv] at hu
      rcases hu with ⟨ij, hij, rfl⟩ | ⟨ij, hij, rfl⟩
      · exact (List.mem_filter.mp (resolve_spec_mem (by have := hp ij hij; omega))).1
      · exact (List.mem_filter.mp (resolve_spec_mem (hp ij hij).2)).1
    · simp at h
  case disk =>
    have hv : n.variant = .spec := by
      rcases hs with hs | hs
      · exact hs
      · exact absurd hk hs.2.1
    split at h
    · rename_i hp
      simp only [Except.ok.injEq, Option.some.injEq, Prod.mk.injEq] at h
      obtain ⟨rfl, rfl⟩ := h
      rw [pairsOK_iff] at hp
      intro u hu
      simp only [List.mem_append, List.mem_map, hv] at hu
      rcases hu with ⟨ij, hij, rfl⟩ | ⟨ij, hij, rfl⟩
      · exact resolve_spec_mem (by have := hp ij hij; omega)
      · exact resolve_spec_mem (hp ij hij).2
    · simp at h
  case mf =>
    split at h <;> split at h <;> simp only [Except.ok.injEq, Option.some.injEq, Prod.mk.injEq, reduceCtorEq] at h
    all_goals
      rename_i hc; obtain ⟨rfl, rfl⟩ := h
      simp only [Bool.and_eq_true, beq_iff_eq, allIn_iff] at hc
      intro u hu
      rcases List.mem_append.mp hu with hu | hu
      · first | exact (mem_available.mp hu).1 | exact (mem_available.mp (hc.1.2 u hu)).1
      · first | exact (mem_available.mp hu).1 | exact (mem_available.mp (hc.1.2 u hu)).1
  case embedding =>
    split at h
    · simp at h
    · split at h <;> simp only [Except.ok.injEq, Option.some.injEq, Prod.mk.injEq, reduceCtorEq] at h
      rename_i hc; obtain ⟨rfl, rfl⟩ := h
      simp only [Bool.and_eq_true, beq_iff_eq, allIn_iff] at hc
      intro u hu
      rcases List.mem_append.mp hu with hu | hu
      · exact (mem_available.mp (hc.1.1.1.2 u hu)).1
      · exact (mem_available.mp (hc.1.2 u hu)).1
  case msm =>
    simp only [Except.ok.injEq, Option.some.injEq, Prod.mk.injEq] at h
    obtain ⟨rfl, rfl⟩ := h
    intro u hu
    rcases List.mem_append.mp hu with hu | hu
    · exact (mem_available.mp (List.mem_of_mem_take hu)).1
    · exact (mem_available.mp (List.mem_of_mem_drop (List.mem_of_mem_take hu))).1

/-- partnership networks: new `p1` come from the available males, new `p2` from the available females
    (MSMNet: males) -/
theorem newPairs_available {n : Net} {p : Pop} {c : Choice} {a b : List Nat}
    (hk : n.kind.partnership = true) (h : n.newPairs p c = .ok (some (a, b))) :
    (∀ u ∈ a, u ∈ n.available p false) ∧ (∀ u ∈ b, u ∈ n.available p (decide (n.kind ≠ .msm))) := by
  unfold Net.newPairs at h
  cases hkind : n.kind <;> simp only [hkind, Kind.partnership] at h hk <;> try (simp at hk)
  case mf =>
    split at h <;> split at h <;> simp only [Except.ok.injEq, Option.some.injEq, Prod.mk.injEq, reduceCtorEq] at h
    all_goals
      rename_i hc; obtain ⟨rfl, rfl⟩ := h
      simp only [Bool.and_eq_true, beq_iff_eq, allIn_iff] at hc
      simp only [ne_eq, reduceCtorEq, not_false_eq_true, decide_true]
      first | exact ⟨fun u hu => hu, hc.1.2⟩ | exact ⟨hc.1.2, fun u hu => hu⟩
  case embedding =>
    split at h
    · simp at h
    · split at h <;> simp only [Except.ok.injEq, Option.some.injEq, Prod.mk.injEq, reduceCtorEq] at h
      rename_i hc; obtain ⟨rfl, rfl⟩ := h
      simp only [Bool.and_eq_true, beq_iff_eq, allIn_iff] at hc
      simp only [ne_eq, reduceCtorEq, not_false_eq_true, decide_true]
      exact ⟨hc.1.1.1.2, hc.1.2⟩
  case msm =>
    simp only [Except.ok.injEq, Option.some.injEq, Prod.mk.injEq] at h
    obtain ⟨rfl, rfl⟩ := h
    simp only [ne_eq, not_true_eq_false, decide_false]
    exact ⟨fun u hu => List.mem_of_mem_take hu, fun u hu => List.mem_of_mem_drop (List.mem_of_mem_take hu)⟩

theorem newPairs_nodup {n : Net} {p : Pop} {c : Choice} {a b : List Nat}
    (hk : n.kind.partnership = true) (hnd : p.auids.Nodup) (h : n.newPairs p c = .ok (some (a, b))) :
    (a ++ b).Nodup := by
  have hav := newPairs_available hk h
  unfold Net.newPairs at h
  cases hkind : n.kind <;> simp only [hkind, Kind.partnership] at h hk hav <;> try (simp at hk)
  case mf =>
    simp only [ne_eq, reduceCtorEq, not_false_eq_true, decide_true] at hav
    have hdis : ∀ x ∈ a, ∀ y ∈ b, x ≠ y := by
      intro x hx y hy hxy; subst hxy
      have h1 := (mem_available.mp (hav.1 x hx)).2.1
      have h2 := (mem_available.mp (hav.2 x hy)).2.1
      rw [h1] at h2; simp at h2
    split at h <;> split at h <;> simp only [Except.ok.injEq, Option.some.injEq, Prod.mk.injEq, reduceCtorEq] at h
    all_goals
      rename_i hc; obtain ⟨rfl, rfl⟩ := h
      simp only [Bool.and_eq_true, beq_iff_eq, nodupB_iff] at hc
      rw [List.nodup_append]
      first
        | exact ⟨available_nodup hnd, hc.1.1, hdis⟩
        | exact ⟨hc.1.1, available_nodup hnd, hdis⟩
  case embedding =>
    simp only [ne_eq, reduceCtorEq, not_false_eq_true, decide_true] at hav
    have hdis : ∀ x ∈ a, ∀ y ∈ b, x ≠ y := by
      intro x hx y hy hxy; subst hxy
      have h1 := (mem_available.mp (hav.1 x hx)).2.1
      have h2 := (mem_available.mp (hav.2 x hy)).2.1
      rw [h1] at h2; simp at h2
    split at h
    · simp at h
    · split at h <;> simp only [Except.ok.injEq, Option.some.injEq, Prod.mk.injEq, reduceCtorEq] at h
      rename_i hc; obtain ⟨rfl, rfl⟩ := h
      simp only [Bool.and_eq_true, beq_iff_eq, nodupB_iff] at hc
      rw [List.nodup_append]
      exact ⟨hc.1.1.1.1, hc.1.1.2, hdis⟩
  case msm =>
    simp only [Except.ok.injEq, Option.some.injEq, Prod.mk.injEq] at h
    obtain ⟨rfl, rfl⟩ := h
    have : (List.take ((n.available p false).length / 2) (n.available p false) ++
            List.take ((n.available p false).length / 2) (List.drop ((n.available p false).length / 2) (n.available p false))).Sublist
           (n.available p false) := by
      conv => rhs; rw [← List.take_append_drop ((n.available p false).length / 2) (n.available p false)]
      exact List.Sublist.append (List.Sublist.refl _) (List.take_sublist _ _)
    exact this.nodup (available_nodup hnd)

theorem nodup_interleave {p1 p2 a b : List Nat} (h1 : (p1 ++ p2).Nodup) (h2 : (a ++ b).Nodup)
    (hd : ∀ u ∈ a ++ b, u ∉ p1 ++ p2) : ((p1 ++ a) ++ (p2 ++ b)).Nodup := by
  have hp : ((p1 ++ a) ++ (p2 ++ b)).Perm ((p1 ++ p2) ++ (a ++ b)) := by
    rw [List.perm_iff_count]; intro x; simp only [List.count_append]; omega
  rw [hp.nodup_iff, List.nodup_append]
  exact ⟨h1, h2, fun x hx y hy hxy => hd y hy (hxy ▸ hx)⟩

/-! ### the history invariant -/

/-- the network is one whose `add_pairs` uses identifiers (every class in the `spec` variant; every class
    except ErdosRenyiNet and DiskNet as the code is today) -/
def Net.specLike (n : Net) : Prop := n.variant = .spec ∨ (n.kind ≠ .erdos ∧ n.kind ≠ .disk ∧ n.kind ≠ .randomPlain)

instance (n : Net) : Decidable n.specLike := by unfold Net.specLike; exact inferInstance

structure Good (w : World) : Prop where
  wf : w.net.table.WF
  keys : w.net.table.keys = w.net.kind.keys
  nodup : w.pop.auids.Nodup
  bound : ∀ u ∈ w.pop.auids, u < w.pop.nUids
  active : w.net.specLike → ∀ u ∈ w.net.table.endpoints, u ∈ w.pop.auids
  mono : w.net.kind.partnership = true → w.net.table.endpoints.Nodup

theorem mkCols_shape (a b : List Nat) (c : Choice) (k : Meta) (h : a.length = b.length) (hse : k.se = false) :
    (mkCols a b c).shape k a.length := by
  refine ⟨?_, ?_, ?_, ?_, ?_, ?_, ?_⟩ <;> simp [mkCols, h, hse]

theorem Kind.keys_se_of_ne_maternal {k : Kind} (h : k ≠ .maternal) : k.keys.se = false := by
  cases k <;> simp [Kind.keys] at h ⊢

theorem addPairs_good {p : Pop} {n n' : Net} {c : Choice} (g : Good ⟨p, n⟩) (h : n.addPairs p c = .ok n') :
    Good ⟨p, n'⟩ ∧ n'.kind = n.kind ∧ n'.variant = n.variant := by
  unfold Net.addPairs at h
  split at h
  · simp at h
  · simp only [Except.ok.injEq] at h; subst h; exact ⟨g, rfl, rfl⟩
  · rename_i a b hnp
    have hlen := newPairs_length hnp
    split at h
    · -- DiskNet overwrites
      rename_i hdisk
      simp only [Except.ok.injEq] at h; subst h
      refine ⟨⟨?_, g.keys, g.nodup, g.bound, ?_, ?_⟩, rfl, rfl⟩
      · obtain ⟨w2, w3, w4, w5, w6, w7⟩ := g.wf
        have hk := g.keys
        simp only [hdisk, Kind.keys] at hk
        simp only [hk, colLen] at w4 w5 w6 w7
        simp only [Bool.false_eq_true, ↓reduceIte, List.length_eq_zero_iff] at w4 w5 w6 w7
        refine ⟨hlen.symm, by simp, ?_, ?_, ?_, ?_⟩ <;> simp [hk, colLen] <;> assumption
      · intro hs u hu
        exact newPairs_active (n := n) hs hnp u hu
      · intro hp; simp [hdisk, Kind.partnership] at hp
    · rename_i hnd
      split at h
      · rename_i t hap
        simp only [Except.ok.injEq] at h; subst h
        have hne : n.kind ≠ .maternal := by
          intro hm; unfold Net.newPairs at hnp; simp [hm] at hnp
        have hse : n.table.keys.se = false := by rw [g.keys]; exact Kind.keys_se_of_ne_maternal hne
        obtain ⟨a', b', ha', hb', hp1, hp2, hkeys, hwf⟩ := Table.append_spec (n := a.length) hap
        simp only [mkCols, Option.some.injEq] at ha' hb'
        subst ha' hb'
        refine ⟨⟨hwf g.wf (mkCols_shape a b c _ hlen hse), hkeys.trans g.keys, g.nodup, g.bound, ?_, ?_⟩, rfl, rfl⟩
        · intro hs u hu
          simp only [Table.endpoints, hp1, hp2, List.mem_append] at hu
          have hact := g.active hs
          have hnew := newPairs_active (n := n) hs hnp
          simp only [Table.endpoints, List.mem_append] at hact hnew
          rcases hu with (hu | hu) | (hu | hu)
          · exact hact u (Or.inl hu)
          · exact hnew u (Or.inl hu)
          · exact hact u (Or.inr hu)
          · exact hnew u (Or.inr hu)
        · intro hp
          simp only [Table.endpoints, hp1, hp2]
          have hav := newPairs_available (n := n) hp hnp
          refine nodup_interleave (g.mono hp) (newPairs_nodup (n := n) hp g.nodup hnp) ?_
          intro u hu
          have : u ∉ n.table.p1 ∧ u ∉ n.table.p2 := by
            rcases List.mem_append.mp hu with hu | hu
            · exact (mem_available.mp (hav.1 u hu)).2.2.2
            · exact (mem_available.mp (hav.2 u hu)).2.2.2
          simp [this.1, this.2]
      · simp at h

theorem mask_good {p : Pop} {n : Net} (g : Good ⟨p, n⟩) (m : List Bool) (part : Nat → Bool) (deb : Nat → Rat) :
    Good ⟨p, { n with table := n.table.mask m, participant := part, debut := deb }⟩ :=
  ⟨Table.mask_WF _ _ g.wf, g.keys, g.nodup, g.bound,
   fun hs u hu => g.active hs u ((Table.mask_endpoints_sublist _ _).subset hu),
   fun hp => (Table.mask_endpoints_sublist _ _).nodup (g.mono hp)⟩

theorem endPairs_good {p : Pop} {n : Net} (g : Good ⟨p, n⟩) (dt : Rat) (alive : Nat → Bool) (part : Nat → Bool)
    (deb : Nat → Rat) : Good ⟨p, { n with table := n.table.endPairs dt alive, participant := part, debut := deb }⟩ := by
  have g' : Good ⟨p, { n with table := { n.table with dur := n.table.dur.map (· - dt) } }⟩ :=
    ⟨by obtain ⟨w2, w3, w4, w5, w6, w7⟩ := g.wf; exact ⟨w2, w3, by simpa using w4, w5, w6, w7⟩,
     g.keys, g.nodup, g.bound, g.active, g.mono⟩
  exact mask_good g' _ part deb

theorem Net.step_good {p : Pop} {n n' : Net} {dt ti : Rat} {c : Choice} (g : Good ⟨p, n⟩)
    (h : n.step p dt ti c = .ok n') : Good ⟨p, n'⟩ ∧ n'.kind = n.kind ∧ n'.variant = n.variant := by
  obtain ⟨kind, variant, table, part, deb⟩ := n
  unfold Net.step at h
  cases kind <;> dsimp only at h
  case static | null => simp only [Except.ok.injEq] at h; subst h; exact ⟨g, rfl, rfl⟩
  case maternal =>
    simp only [Except.ok.injEq] at h; subst h
    refine ⟨⟨?_, g.keys, g.nodup, g.bound, g.active, g.mono⟩, rfl, rfl⟩
    obtain ⟨w2, w3, w4, w5, w6, w7⟩ := g.wf
    have hkeys := g.keys
    dsimp only [Kind.keys] at hkeys w2 w3 w4 w5 w6 w7
    simp only [hkeys, colLen] at w4 w5 w6 w7
    refine ⟨w2, ?_, ?_, ?_, ?_, ?_⟩ <;> simp only [Table.matStep, hkeys, colLen, List.length_zipWith] <;>
      simp only [↓reduceIte] at * <;> omega
  case random | erdos | randomPlain =>
    have g1 := endPairs_good g dt p.alive part deb
    obtain ⟨g2, k2, v2⟩ := addPairs_good g1 h
    exact ⟨g2, k2, v2⟩
  case disk => exact addPairs_good g h
  case mf | msm | embedding =>
    have g1 := endPairs_good g dt p.alive c.participant c.debut
    obtain ⟨g2, k2, v2⟩ := addPairs_good g1 h
    exact ⟨g2, k2, v2⟩

theorem removeUids_not_mem (t : Table) (uids : List Nat) : ∀ u ∈ (t.removeUids uids).endpoints, u ∉ uids := by
  intro u hu
  simp only [Table.endpoints, Table.removeUids, Table.mask, List.mem_append] at hu
  rcases hu with hu | hu
  · obtain ⟨y, _, hy⟩ := mem_maskFilter_zipWith_left _ _ u hu
    simp at hy; exact hy.1
  · obtain ⟨y, _, hy⟩ := mem_maskFilter_zipWith_right _ _ u hu
    simp at hy; exact hy.2

theorem World.step_good {w w' : World} {op : Op} (g : Good w) (h : w.step op = .ok w') :
    Good w' ∧ w'.net.kind = w.net.kind ∧ w'.net.variant = w.net.variant := by
  cases op with
  | grow k f a =>
      simp only [World.step, Except.ok.injEq] at h; subst h
      refine ⟨⟨g.wf, g.keys, ?_, ?_, ?_, g.mono⟩, rfl, rfl⟩
      · simp only [Pop.grow]
        rw [List.nodup_append]
        refine ⟨g.nodup, ?_, ?_⟩
        · rw [List.nodup_iff_pairwise_ne, List.pairwise_map]
          exact (List.nodup_iff_pairwise_ne.mp List.nodup_range).imp (fun h => by omega)
        · intro x hx y hy
          have := g.bound x hx
          simp only [List.mem_map, List.mem_range] at hy
          obtain ⟨i, _, rfl⟩ := hy
          omega
      · intro u hu
        simp only [Pop.grow, List.mem_append, List.mem_map, List.mem_range] at hu
        simp only [Pop.grow]
        rcases hu with hu | ⟨i, hi, rfl⟩
        · have := g.bound u hu; omega
        · omega
      · intro hs u hu
        simp only [Pop.grow, List.mem_append]
        exact Or.inl (g.active hs u hu)
  | die uids =>
      simp only [World.step, Except.ok.injEq] at h; subst h
      exact ⟨⟨g.wf, g.keys, g.nodup, g.bound, g.active, g.mono⟩, rfl, rfl⟩
  | removeDead =>
      simp only [World.step, Except.ok.injEq] at h; subst h
      refine ⟨⟨Table.mask_WF _ _ g.wf, g.keys, List.Sublist.nodup List.filter_sublist g.nodup,
        fun u hu => g.bound u (List.mem_filter.mp hu).1, ?_,
        fun hp => (Table.mask_endpoints_sublist _ _).nodup (g.mono hp)⟩, rfl, rfl⟩
      intro hs u hu
      have h1 : u ∈ w.pop.auids := g.active hs u ((Table.mask_endpoints_sublist _ _).subset hu)
      have h2 := removeUids_not_mem _ _ u hu
      simp only [Pop.dropDead, List.mem_filter]
      exact ⟨h1, by simpa using h2⟩
  | setAge a =>
      simp only [World.step, Except.ok.injEq] at h; subst h
      exact ⟨⟨g.wf, g.keys, g.nodup, g.bound, g.active, g.mono⟩, rfl, rfl⟩
  | netStep dt ti c =>
      simp only [World.step] at h
      split at h
      · rename_i n hn
        simp only [Except.ok.injEq] at h; subst h
        exact Net.step_good (p := w.pop) (n := w.net) g hn
      · simp at h
  | matAdd mothers unborn durs starts =>
      simp only [World.step] at h
      split at h
      · rename_i hc
        obtain ⟨hkind, hl1, hl2, hl3, hm, hun⟩ := hc
        split at h
        · rename_i t hap
          simp only [Except.ok.injEq] at h; subst h
          obtain ⟨a', b', ha', hb', hp1, hp2, hkeys, hwf⟩ := Table.append_spec (n := mothers.length) hap
          simp only [Option.some.injEq] at ha' hb'
          subst ha' hb'
          refine ⟨⟨hwf g.wf ?_, hkeys.trans g.keys, g.nodup, g.bound, ?_, ?_⟩, rfl, rfl⟩
          · refine ⟨?_, ?_, ?_, ?_, ?_, ?_, ?_⟩ <;> simp [hl1, hl2, hl3]
          · intro hs u hu
            simp only [Table.endpoints, hp1, hp2, List.mem_append] at hu
            have hact := g.active hs
            simp only [Table.endpoints, List.mem_append] at hact
            rw [allIn_iff] at hm hun
            rcases hu with (hu' | hu') | (hu' | hu')
            · exact hact u (Or.inl hu')
            · exact hm u hu'
            · exact hact u (Or.inr hu')
            · exact hun u hu'
          · intro hp; simp [hkind, Kind.partnership] at hp
        · simp at h
      · simp at h
  | matEnd ti =>
      simp only [World.step] at h
      split at h
      · simp only [Except.ok.injEq] at h; subst h
        exact ⟨mask_good (p := w.pop) (n := w.net) g _ _ _, rfl, rfl⟩
      · simp at h

theorem World.run_good : ∀ (ops : List Op) {w w' : World}, Good w → w.run ops = .ok w' →
    Good w' ∧ w'.net.kind = w.net.kind ∧ w'.net.variant = w.net.variant
  | [], w, w', g, h => by simp only [World.run, Except.ok.injEq] at h; subst h; exact ⟨g, rfl, rfl⟩
  | op :: ops, w, w', g, h => by
      simp only [World.run] at h
      split at h
      · rename_i w1 h1
        obtain ⟨g1, k1, v1⟩ := World.step_good g h1
        obtain ⟨g2, k2, v2⟩ := World.run_good ops g1 h
        exact ⟨g2, k2.trans k1, v2.trans v1⟩
      · simp at h

end StarsimModel.Network
