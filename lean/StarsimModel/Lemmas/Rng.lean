/-
Helper lemmas for the C04 / C03 theorems about the `Dist` state machine (Model/Rng.lean).
-/
import StarsimModel.Model.Rng

namespace StarsimModel.Rng

/-- Non-strict order on positions. -/
def Pos.le (p q : Pos) : Prop := p.ind < q.ind ∨ (p.ind = q.ind ∧ p.draws.length ≤ q.draws.length)

theorem Pos.lt_irrefl (p : Pos) : ¬ Pos.lt p p := by
  unfold Pos.lt; omega

theorem Pos.lt_trans {p q r : Pos} (h1 : Pos.lt p q) (h2 : Pos.lt q r) : Pos.lt p r := by
  unfold Pos.lt at *; omega

theorem Pos.lt_of_lt_of_le {p q r : Pos} (h1 : Pos.lt p q) (h2 : Pos.le q r) : Pos.lt p r := by
  unfold Pos.lt Pos.le at *; omega

theorem Pos.le_trans {p q r : Pos} (h1 : Pos.le p q) (h2 : Pos.le q r) : Pos.le p r := by
  unfold Pos.le at *; omega

theorem Pos.le_refl (p : Pos) : Pos.le p p := by
  unfold Pos.le; omega

theorem Pos.le_of_lt {p q : Pos} (h : Pos.lt p q) : Pos.le p q := by
  unfold Pos.lt at h; unfold Pos.le; omega

theorem Pos.ne_of_lt {p q : Pos} (h : Pos.lt p q) : p ≠ q := by
  intro e; subst e; exact Pos.lt_irrefl _ h

/-- The generator is never *behind* the bookkeeping index. -/
def Coherent (d : Dist) : Prop := d.pos.ind ≤ d.ind

instance (d : Dist) : Decidable (Coherent d) := by unfold Coherent; exact inferInstance

/-- What `step_loop` says about one call, as a predicate on the result pair. -/
def StepOK (d : Dist) (r : Dist × Res) : Prop :=
  Coherent r.1 ∧ r.1.seed = d.seed ∧
  (r.2.start = none → Pos.le d.pos r.1.pos) ∧
  (∀ p, r.2.start = some p → p = d.pos ∧ Pos.lt d.pos r.1.pos)

theorem jumpTo_ok (d : Dist) (j : Int) (hc : Coherent d) : StepOK d (jumpTo d j false) := by
  unfold StepOK Coherent jumpTo at *
  by_cases h1 : d.ind ≥ j
  · simp [h1, Res.start, Pos.le]; omega
  · by_cases h2 : d.initialized
    · simp [h1, h2, Res.start, Pos.le, doJump]; omega
    · simp [h1, h2, Res.start, Pos.le]; omega

/-- One loop operation: coherence is kept, the seed is kept, the position never moves down, and a draw is
    logged at the current position, which is then left strictly behind. -/
theorem step_loop (d : Dist) (op : Op) (hop : op.loopOp = true) (hc : Coherent d) : StepOK d (step d op) := by
  cases op with
  | init o s f => simp [Op.loopOp] at hop
  | reset k => simp [Op.loopOp] at hop
  | jump to delta force =>
      simp only [Op.loopOp, Bool.not_eq_eq_eq_not, Bool.not_true] at hop
      subst hop
      exact jumpTo_ok d _ hc
  | jumpDt ti force =>
      simp only [Op.loopOp, Bool.not_eq_eq_eq_not, Bool.not_true] at hop
      subst hop
      exact jumpTo_ok d _ hc
  | rvs size rs =>
      simp only [Op.loopOp, Bool.not_eq_eq_eq_not, Bool.not_true] at hop
      subst hop
      unfold StepOK Coherent at *
      simp only [step]
      by_cases h1 : d.initialized <;> by_cases hr : d.ready <;> by_cases hs : d.strict <;>
        by_cases h3 : size = 0 <;> by_cases h4 : d.auto <;>
        simp [h1, hr, hs, h3, h4, Res.start, Pos.le, Pos.lt, doJump, Gen.jumpDefaultDelta] <;> omega
  | setPars =>
      unfold StepOK Coherent at *
      simp [step, Res.start, Pos.le]; omega
  | direct size =>
      unfold StepOK Coherent at *
      simp only [step]
      by_cases h1 : d.initialized
      · by_cases h3 : size = 0
        · simp [h1, h3, Res.start, Pos.le]; omega
        · simp [h1, h3, Res.start, Pos.lt]; omega
      · simp [h1, Res.start, Pos.le]; omega

/-- Every log of loop operations is strictly increasing and starts at or after the current position. -/
theorem run_sorted (ops : List Op) : ∀ (d : Dist), (∀ op ∈ ops, op.loopOp = true) → Coherent d →
    (run d ops).2.Pairwise Pos.lt ∧ (∀ p ∈ (run d ops).2, Pos.le d.pos p) ∧ (run d ops).1.seed = d.seed := by
  induction ops with
  | nil => intro d _ _; simp [run]
  | cons op ops ih =>
      intro d hops hc
      have hop := hops op (List.mem_cons_self ..)
      have hrest : ∀ o ∈ ops, o.loopOp = true := fun o ho => hops o (List.mem_cons_of_mem _ ho)
      obtain ⟨hc', hseed, hnone, hsome⟩ := step_loop d op hop hc
      obtain ⟨ihs, ihle, ihseed⟩ := ih (step d op).1 hrest hc'
      simp only [run]
      cases hst : (step d op).2.start with
      | none =>
          simp only []
          refine ⟨ihs, fun p hp => Pos.le_trans (hnone hst) (ihle p hp), by rw [ihseed, hseed]⟩
      | some p =>
          simp only []
          obtain ⟨hpe, hlt⟩ := hsome p hst
          refine ⟨?_, ?_, by rw [ihseed, hseed]⟩
          · rw [List.pairwise_cons]
            refine ⟨fun q hq => ?_, ihs⟩
            rw [hpe]; exact Pos.lt_of_lt_of_le hlt (ihle q hq)
          · intro q hq
            rw [List.mem_cons] at hq
            rcases hq with rfl | hq
            · rw [hpe]; exact Pos.le_refl _
            · exact Pos.le_of_lt (Pos.lt_of_lt_of_le hlt (ihle q hq))

/-! ### Several distributions -/

/-- Relation between an earlier and a later entry of the global log. -/
def LogRel (a b : Nat × Pos) : Prop := a.1 = b.1 → Pos.lt a.2 b.2

theorem runMany_sorted (ops : List (Nat × Op)) : ∀ (ds : List Dist),
    (∀ o ∈ ops, o.2.loopOp = true) → (∀ d ∈ ds, Coherent d) →
    (runMany ds ops).2.Pairwise LogRel ∧
    (∀ e ∈ (runMany ds ops).2, ∃ d, ds[e.1]? = some d ∧ Pos.le d.pos e.2) ∧
    (runMany ds ops).1.map (·.seed) = ds.map (·.seed) := by
  induction ops with
  | nil => intro ds _ _; simp [runMany]
  | cons o ops ih =>
      intro ds hops hc
      obtain ⟨i, op⟩ := o
      have hop : op.loopOp = true := hops (i, op) (List.mem_cons_self ..)
      have hrest : ∀ o ∈ ops, o.2.loopOp = true := fun o ho => hops o (List.mem_cons_of_mem _ ho)
      simp only [runMany]
      cases hd : ds[i]? with
      | none => simpa using ih ds hrest hc
      | some d =>
          simp only []
          have hdm : d ∈ ds := List.mem_of_getElem? hd
          have hi : i < ds.length := by
            rcases List.getElem?_eq_some_iff.mp hd with ⟨h, _⟩; exact h
          obtain ⟨hc', hseed, hnone, hsome⟩ := step_loop d op hop (hc d hdm)
          have hcs : ∀ x ∈ ds.set i (step d op).1, Coherent x := by
            intro x hx
            rcases List.mem_or_eq_of_mem_set hx with h | h
            · exact hc x h
            · rw [h]; exact hc'
          obtain ⟨ihs, ihle, ihseed⟩ := ih (ds.set i (step d op).1) hrest hcs
          have hseeds : (ds.set i (step d op).1).map (·.seed) = ds.map (·.seed) := by
            rw [List.map_set, hseed]
            apply List.ext_getElem?
            intro n
            by_cases hn : i = n
            · subst hn
              have hget : ds[i] = d := by
                have := List.getElem?_eq_getElem hi
                rw [this] at hd; exact Option.some.inj hd
              simp [hi, hget]
            · simp [List.getElem?_set_ne hn]
          -- every later entry is at or after the (new) position of its dist
          have later : ∀ e ∈ (runMany (ds.set i (step d op).1) ops).2,
              (e.1 = i → Pos.le (step d op).1.pos e.2) ∧ (e.1 ≠ i → ∃ d', ds[e.1]? = some d' ∧ Pos.le d'.pos e.2) := by
            intro e he
            obtain ⟨d', hd', hle⟩ := ihle e he
            constructor
            · intro hei
              rw [hei, List.getElem?_set_self hi] at hd'
              cases hd'; exact hle
            · intro hei
              rw [List.getElem?_set_ne (Ne.symm hei)] at hd'
              exact ⟨d', hd', hle⟩
          cases hst : (step d op).2.start with
          | none =>
              simp only []
              refine ⟨ihs, ?_, by rw [ihseed, hseeds]⟩
              intro e he
              by_cases hei : e.1 = i
              · exact ⟨d, by rw [hei]; exact hd, Pos.le_trans (hnone hst) ((later e he).1 hei)⟩
              · exact (later e he).2 hei
          | some p =>
              simp only []
              obtain ⟨hpe, hlt⟩ := hsome p hst
              refine ⟨?_, ?_, by rw [ihseed, hseeds]⟩
              · rw [List.pairwise_cons]
                refine ⟨fun e he => ?_, ihs⟩
                intro hie
                simp only at hie
                rw [hpe]
                exact Pos.lt_of_lt_of_le hlt ((later e he).1 hie.symm)
              · intro e he
                rw [List.mem_cons] at he
                rcases he with rfl | he
                · exact ⟨d, hd, by rw [hpe]; exact Pos.le_refl _⟩
                · by_cases hei : e.1 = i
                  · exact ⟨d, by rw [hei]; exact hd,
                      Pos.le_of_lt (Pos.lt_of_lt_of_le hlt ((later e he).1 hei))⟩
                  · exact (later e he).2 hei

/-- a helper call of the shape "direct use, then plain jump" consists of loop operations -/
theorem helperCalls_jump_loopOps (sizes : List Nat) : ∀ op ∈ helperCalls .jump sizes, op.loopOp = true := by
  intro op hop
  simp only [helperCalls, Followup.ops, List.mem_flatMap, List.mem_cons, List.not_mem_nil, or_false] at hop
  obtain ⟨n, _, h | h⟩ := hop <;> subst h <;> rfl

end StarsimModel.Rng
