/-
More helper lemmas for C14: initial states, the `asis` invariant without removals, removed agents stay removed,
row view of `end_pairs` (edge lifetimes), static networks, RandomNet degrees.
-/
import StarsimModel.Lemmas.Network

namespace StarsimModel.Network

/-! ### initial state -/

theorem colLen_zero (flag : Bool) : colLen flag 0 = 0 := by cases flag <;> rfl

theorem empty_WF (m : Meta) : (Table.empty m).WF := by
  simp [Table.WF, Table.empty, colLen_zero]

theorem fresh_good (n : Nat) (f : Nat → Bool) (a : Nat → Rat) (k : Kind) (v : Variant) (part : Nat → Bool)
    (deb : Nat → Rat) : Good ⟨Pop.fresh n f a, { Net.new k v with participant := part, debut := deb }⟩ :=
  ⟨empty_WF _, rfl, List.nodup_range, fun u hu => by simpa [Pop.fresh] using hu,
   fun _ u hu => by simp [Net.new, Table.endpoints, Table.empty] at hu,
   fun _ => by simp [Net.new, Table.endpoints, Table.empty]⟩

theorem init_addPairs_good {n : Nat} {f : Nat → Bool} {a : Nat → Rat} {k : Kind} {v : Variant} {c : Choice} {net : Net}
    (h : ({ Net.new k v with participant := c.participant, debut := c.debut } : Net).addPairs (Pop.fresh n f a) c = .ok net) :
    Good ⟨Pop.fresh n f a, net⟩ ∧ net.kind = k ∧ net.variant = v := by
  have g1 := fresh_good n f a k v c.participant c.debut
  obtain ⟨g2, k2, v2⟩ := addPairs_good g1 h
  exact ⟨g2, k2, v2⟩

theorem init_good {n : Nat} {f : Nat → Bool} {a : Nat → Rat} {k : Kind} {v : Variant} {c : Choice} {w : World}
    (h : World.init n f a k v c = .ok w) : Good w ∧ w.net.kind = k ∧ w.net.variant = v := by
  unfold World.init at h
  dsimp only at h
  split at h
  · rename_i net hnet
    simp only [Except.ok.injEq] at h; subst h
    have g0 := fresh_good n f a k v (Net.new k v).participant (Net.new k v).debut
    unfold Net.init at hnet
    cases k <;> dsimp only [Net.new] at hnet
    case maternal => simp only [Except.ok.injEq] at hnet; subst hnet; exact ⟨g0, rfl, rfl⟩
    case static =>
      split at hnet
      · rename_i hp
        split at hnet
        · rename_i t hap
          simp only [Except.ok.injEq] at hnet; subst hnet
          obtain ⟨a', b', ha', hb', hp1, hp2, hkeys, hwf⟩ := Table.append_spec (n := c.pairs.length) hap
          simp only [Option.some.injEq] at ha' hb'
          subst ha' hb'
          refine ⟨⟨hwf (empty_WF _) ?_, hkeys, g0.nodup, g0.bound, ?_, fun hp => by simp [Kind.partnership] at hp⟩, rfl, rfl⟩
          · refine ⟨?_, ?_, ?_, ?_, ?_, ?_, ?_⟩ <;> simp [Table.empty, Kind.keys]
          · intro _ u hu
            simp only [List.all_eq_true, decide_eq_true_eq] at hp
            simp only [Table.endpoints, hp1, hp2, Table.empty, List.nil_append, List.mem_append, List.mem_map] at hu
            simp only [Pop.fresh, List.mem_range]
            rcases hu with ⟨ij, hij, rfl⟩ | ⟨ij, hij, rfl⟩
            · exact (hp ij hij).1
            · exact (hp ij hij).2
        · simp at hnet
      · simp at hnet
    case null =>
      split at hnet
      · rename_i t hap
        simp only [Except.ok.injEq] at hnet; subst hnet
        obtain ⟨a', b', ha', hb', hp1, hp2, hkeys, hwf⟩ := Table.append_spec (n := n) hap
        simp only [Option.some.injEq] at ha' hb'
        subst ha' hb'
        refine ⟨⟨hwf (empty_WF _) ?_, hkeys, g0.nodup, g0.bound, ?_, fun hp => by simp [Kind.partnership] at hp⟩, rfl, rfl⟩
        · refine ⟨?_, ?_, ?_, ?_, ?_, ?_, ?_⟩ <;> simp [Table.empty, Kind.keys, Pop.fresh]
        · intro _ u hu
          simp only [Table.endpoints, hp1, hp2, Table.empty, List.nil_append, List.mem_append, Pop.fresh, or_self] at hu
          exact hu
      · simp at hnet
    all_goals exact init_addPairs_good hnet
  · simp at h

/-! ### what `add_pairs` can add -/

theorem addPairs_endpoints {p : Pop} {n n' : Net} {c : Choice} (h : n.addPairs p c = .ok n') :
    n'.kind = n.kind ∧ n'.variant = n.variant ∧
    ∀ u ∈ n'.table.endpoints, u ∈ n.table.endpoints ∨ ∃ a b, n.newPairs p c = .ok (some (a, b)) ∧ u ∈ a ++ b := by
  unfold Net.addPairs at h
  split at h
  · simp at h
  · simp only [Except.ok.injEq] at h; subst h; exact ⟨rfl, rfl, fun u hu => Or.inl hu⟩
  · rename_i a b hnp
    split at h
    · simp only [Except.ok.injEq] at h; subst h
      exact ⟨rfl, rfl, fun u hu => Or.inr ⟨a, b, hnp, hu⟩⟩
    · split at h
      · rename_i t hap
        simp only [Except.ok.injEq] at h; subst h
        obtain ⟨a', b', ha', hb', hp1, hp2, _, _⟩ := Table.append_spec (n := 0) hap
        simp only [mkCols, Option.some.injEq] at ha' hb'
        subst ha' hb'
        refine ⟨rfl, rfl, fun u hu => ?_⟩
        simp only [Table.endpoints, hp1, hp2, List.mem_append] at hu ⊢
        rcases hu with (hu | hu) | (hu | hu)
        · exact Or.inl (Or.inl hu)
        · exact Or.inr ⟨a, b, hnp, Or.inl hu⟩
        · exact Or.inl (Or.inr hu)
        · exact Or.inr ⟨a, b, hnp, Or.inr hu⟩
      · simp at h

/-- `asis` ErdosRenyiNet / DiskNet: the new endpoints are array POSITIONS below the number of active agents -/
theorem newPairs_asis_lt {n : Net} {p : Pop} {c : Choice} {a b : List Nat}
    (hk : n.kind = .erdos ∨ n.kind = .disk) (hv : n.variant = .asis)
    (h : n.newPairs p c = .ok (some (a, b))) : ∀ u ∈ a ++ b, u < p.auids.length := by
  unfold Net.newPairs at h
  rcases hk with hk | hk <;> simp only [hk] at h <;> split at h <;>
    simp only [Except.ok.injEq, Option.some.injEq, Prod.mk.injEq, reduceCtorEq] at h
  · rename_i hp
    obtain ⟨rfl, rfl⟩ := h
    rw [pairsOK_iff] at hp
    have hle : (p.auids.filter (fun u => decide (0 < p.age u))).length ≤ p.auids.length := List.length_filter_le _ _
    intro u hu
    simp only [List.mem_append, List.mem_map, hv, resolve] at hu
    rcases hu with ⟨ij, hij, rfl⟩ | ⟨ij, hij, rfl⟩ <;> have := hp ij hij <;> omega
  · rename_i hp
    obtain ⟨rfl, rfl⟩ := h
    rw [pairsOK_iff] at hp
    intro u hu
    simp only [List.mem_append, List.mem_map, hv, resolve] at hu
    rcases hu with ⟨ij, hij, rfl⟩ | ⟨ij, hij, rfl⟩ <;> have := hp ij hij <;> omega

/-- The weaker invariant of the `asis` ErdosRenyiNet / DiskNet while nobody has been removed:
    `auids` is still `0 … nUids-1` and every endpoint is below `nUids`. -/
structure AsisOK (w : World) : Prop where
  kind : w.net.kind = .erdos ∨ w.net.kind = .disk
  variant : w.net.variant = .asis
  full : w.pop.auids = List.range w.pop.nUids
  lt : ∀ u ∈ w.net.table.endpoints, u < w.pop.nUids

theorem AsisOK.step {w w' : World} {op : Op} (g : AsisOK w) (hop : op.isRemoveDead = false)
    (h : w.step op = .ok w') : AsisOK w' := by
  cases op with
  | grow k f a =>
      simp only [World.step, Except.ok.injEq] at h; subst h
      refine ⟨g.kind, g.variant, ?_, fun u hu => by have := g.lt u hu; simp only [Pop.grow]; omega⟩
      simp only [Pop.grow, g.full]
      rw [List.range_add]
      congr 1
      apply List.map_congr_left; intro x _; omega
  | die uids =>
      simp only [World.step, Except.ok.injEq] at h; subst h
      exact ⟨g.kind, g.variant, g.full, g.lt⟩
  | removeDead => simp [Op.isRemoveDead] at hop
  | setAge a =>
      simp only [World.step, Except.ok.injEq] at h; subst h
      exact ⟨g.kind, g.variant, g.full, g.lt⟩
  | netStep dt ti c =>
      simp only [World.step] at h
      split at h
      · rename_i n hn
        simp only [Except.ok.injEq] at h; subst h
        have hlen : w.pop.auids.length = w.pop.nUids := by rw [g.full]; simp
        obtain ⟨pop, kind, variant, table, part, deb⟩ := w
        have gk := g.kind; have gv := g.variant; have gl := g.lt
        dsimp only at gk gv gl hlen hn ⊢
        unfold Net.step at hn
        rcases gk with rfl | rfl <;> dsimp only at hn
        · obtain ⟨k1, v1, he⟩ := addPairs_endpoints hn
          refine ⟨Or.inl k1, v1.trans gv, g.full, fun u hu => ?_⟩
          rcases he u hu with hu | ⟨a, b, hnp, hu⟩
          · exact gl u ((Table.mask_endpoints_sublist _ _).subset hu)
          · have := newPairs_asis_lt (Or.inl rfl) gv hnp u hu; dsimp only at this ⊢; omega
        · obtain ⟨k1, v1, he⟩ := addPairs_endpoints hn
          refine ⟨Or.inr k1, v1.trans gv, g.full, fun u hu => ?_⟩
          rcases he u hu with hu | ⟨a, b, hnp, hu⟩
          · exact gl u hu
          · have := newPairs_asis_lt (Or.inr rfl) gv hnp u hu; dsimp only at this ⊢; omega
      · simp at h
  | matAdd mothers unborn durs starts =>
      simp only [World.step] at h
      split at h
      · rename_i hc
        rcases g.kind with hk | hk <;> simp [hk] at hc
      · simp at h
  | matEnd ti =>
      simp only [World.step] at h
      split at h
      · rename_i hc
        rcases g.kind with hk | hk <;> simp [hk] at hc
      · simp at h

theorem AsisOK.run : ∀ (ops : List Op) {w w' : World}, AsisOK w → (∀ op ∈ ops, op.isRemoveDead = false) →
    w.run ops = .ok w' → AsisOK w'
  | [], w, w', g, _, h => by simp only [World.run, Except.ok.injEq] at h; subst h; exact g
  | op :: ops, w, w', g, hops, h => by
      simp only [World.run] at h
      split at h
      · rename_i w1 h1
        exact AsisOK.run ops (g.step (hops op (by simp)) h1) (fun o ho => hops o (by simp [ho])) h
      · simp at h

/-! ### removed agents stay removed -/

theorem step_auids {w w' : World} {op : Op} (h : w.step op = .ok w') (u : Nat) (hu : u < w.pop.nUids)
    (hn : u ∉ w.pop.auids) : u < w'.pop.nUids ∧ u ∉ w'.pop.auids := by
  cases op with
  | grow k f a =>
      simp only [World.step, Except.ok.injEq] at h; subst h
      simp only [Pop.grow, List.mem_append, List.mem_map, List.mem_range, not_or, not_exists, not_and]
      exact ⟨by omega, hn, fun i _ => by omega⟩
  | die uids => simp only [World.step, Except.ok.injEq] at h; subst h; exact ⟨hu, hn⟩
  | removeDead =>
      simp only [World.step, Except.ok.injEq] at h; subst h
      exact ⟨hu, fun hm => hn (List.mem_filter.mp hm).1⟩
  | setAge a => simp only [World.step, Except.ok.injEq] at h; subst h; exact ⟨hu, hn⟩
  | netStep dt ti c =>
      simp only [World.step] at h
      split at h
      · simp only [Except.ok.injEq] at h; subst h; exact ⟨hu, hn⟩
      · simp at h
  | matAdd mothers unborn durs starts =>
      simp only [World.step] at h
      split at h
      · split at h
        · simp only [Except.ok.injEq] at h; subst h; exact ⟨hu, hn⟩
        · simp at h
      · simp at h
  | matEnd ti =>
      simp only [World.step] at h
      split at h
      · simp only [Except.ok.injEq] at h; subst h; exact ⟨hu, hn⟩
      · simp at h

theorem run_auids : ∀ (ops : List Op) {w w' : World}, w.run ops = .ok w' → ∀ u, u < w.pop.nUids →
    u ∉ w.pop.auids → u < w'.pop.nUids ∧ u ∉ w'.pop.auids
  | [], w, w', h, u, hu, hn => by simp only [World.run, Except.ok.injEq] at h; subst h; exact ⟨hu, hn⟩
  | op :: ops, w, w', h, u, hu, hn => by
      simp only [World.run] at h
      split at h
      · rename_i w1 h1
        obtain ⟨hu1, hn1⟩ := step_auids h1 u hu hn
        exact run_auids ops h u hu1 hn1
      · simp at h

/-! ### RandomNet degrees -/

theorem count_randomSource (nOf : Nat → Nat) (x : Nat) : ∀ (born : List Nat), born.Nodup →
    (randomSource born nOf).count x = if x ∈ born then nOf x else 0
  | [], _ => by simp [randomSource]
  | u :: l, hnd => by
      have ih := count_randomSource nOf x l (List.nodup_cons.mp hnd).2
      have hul : u ∉ l := (List.nodup_cons.mp hnd).1
      simp only [randomSource, List.flatMap_cons, List.count_append, List.count_replicate] at ih ⊢
      rw [ih]
      by_cases hxu : u = x
      · subst hxu; simp [hul]
      · have : ¬ x = u := fun h => hxu h.symm
        simp [hxu, this]

/-! ### static networks -/

theorem maskFilter_zip {α β : Type} : ∀ (m : List Bool) (a : List α) (b : List β),
    maskFilter m (a.zip b) = (maskFilter m a).zip (maskFilter m b)
  | [], a, b => by simp [maskFilter_nil_left]
  | _ :: _, [], b => by simp [maskFilter_nil]
  | _ :: _, _ :: _, [] => by simp [maskFilter_nil]
  | true :: m, x :: xs, y :: ys => by simp [maskFilter, maskFilter_zip m xs ys]
  | false :: m, x :: xs, y :: ys => by simp [maskFilter, maskFilter_zip m xs ys]

theorem Table.mask_pairs_sublist (t : Table) (m : List Bool) :
    ((t.mask m).p1.zip (t.mask m).p2).Sublist (t.p1.zip t.p2) := by
  simp only [Table.mask, ← maskFilter_zip]
  exact maskFilter_sublist _ _

/-! ### row view of `end_pairs` -/

theorem endPairs_rows_aux (dt : Rat) (alive : Nat → Bool) : ∀ (p1 p2 : List Nat) (dur : List Rat),
    (maskFilter (mask3 (fun d a b => decide (0 < d) && alive a && alive b) (dur.map (· - dt)) p1 p2) p1).zip
      ((maskFilter (mask3 (fun d a b => decide (0 < d) && alive a && alive b) (dur.map (· - dt)) p1 p2) p2).zip
        (maskFilter (mask3 (fun d a b => decide (0 < d) && alive a && alive b) (dur.map (· - dt)) p1 p2) (dur.map (· - dt))))
    = (p1.zip (p2.zip dur)).filterMap (ageRow dt alive)
  | [], p2, dur => by simp [maskFilter_nil]
  | a :: p1, [], dur => by cases dur <;> simp [mask3, maskFilter, maskFilter_nil]
  | a :: p1, b :: p2, [] => by simp [mask3, maskFilter, maskFilter_nil]
  | a :: p1, b :: p2, d :: dur => by
      have ih := endPairs_rows_aux dt alive p1 p2 dur
      simp only [List.map_cons, mask3, List.zip_cons_cons, List.filterMap_cons, ageRow]
      by_cases hc : (decide (0 < d - dt) && alive a && alive b) = true
      · simp only [hc, maskFilter, List.zip_cons_cons, ↓reduceIte]; rw [ih]
      · have hc' : (decide (0 < d - dt) && alive a && alive b) = false := by simpa using hc
        simp only [hc', maskFilter, Bool.false_eq_true, ↓reduceIte]; rw [ih]

theorem Table.endPairs_rows (t : Table) (dt : Rat) (alive : Nat → Bool) :
    (t.endPairs dt alive).rows = t.rows.filterMap (ageRow dt alive) := by
  simp only [Table.endPairs, Table.rows, Table.mask]
  exact endPairs_rows_aux dt alive t.p1 t.p2 t.dur

/-- closed form of `k` successive `end_pairs` on a row whose endpoints stay alive -/
theorem ageRowN_alive (dt : Rat) (hdt : 0 < dt) (alive : Nat → Bool) (a b : Nat) (d : Rat)
    (ha : alive a = true) (hb : alive b = true) : ∀ k : Nat,
    ageRowN dt alive k (a, b, d) = if k = 0 ∨ (k : Rat) * dt < d then some (a, b, d - k * dt) else none
  | 0 => by simp [ageRowN]; grind
  | k + 1 => by
      rw [ageRowN, ageRowN_alive dt hdt alive a b d ha hb k]
      have hc : ((k + 1 : Nat) : Rat) = (k : Rat) + 1 := by push_cast; rfl
      rw [hc]
      have hmul : ((k : Rat) + 1) * dt = (k : Rat) * dt + dt := by grind
      by_cases h1 : ((k : Rat) + 1) * dt < d
      · have h0 : (k : Rat) * dt < d := by rw [hmul] at h1; grind
        have e : d - (k : Rat) * dt - dt = d - ((k : Rat) + 1) * dt := by rw [hmul]; grind
        have pos : 0 < d - (k : Rat) * dt - dt := by rw [hmul] at h1; grind
        have pos' : 0 < d - ((k : Rat) + 1) * dt := e ▸ pos
        simp [h0, h1, ageRow, ha, hb, pos', e]
      · by_cases h0 : k = 0 ∨ (k : Rat) * dt < d
        · have npos : ¬ 0 < d - (k : Rat) * dt - dt := by rw [hmul] at h1; grind
          simp [h0, h1, ageRow, npos]
        · simp [h0, h1]

/-! ### table-level lifetimes -/

/-- the rows present before a stretch of `k` network steps contribute exactly their `k`-times aged versions, in order,
    as a prefix of the table after the stretch -/
theorem runRowsL_split (dt : Rat) : ∀ (steps : List ((Nat → Bool) × List (Nat × Nat × Rat))) (r1 r2 : List (Nat × Nat × Rat)),
    runRowsL dt (r1 ++ r2) steps = r1.filterMap (ageRowL dt (steps.map (·.1))) ++ runRowsL dt r2 steps
  | [], r1, r2 => by simp [runRowsL, ageRowL]
  | (al, new) :: rest, r1, r2 => by
      simp only [runRowsL, List.filterMap_append, List.append_assoc, List.map_cons]
      rw [runRowsL_split dt rest, List.filterMap_filterMap]
      rfl

/-- closed form for a row whose endpoints are alive at every one of the `k` steps -/
theorem ageRowL_alive (dt : Rat) (hdt : 0 < dt) (a b : Nat) : ∀ (als : List (Nat → Bool)) (d : Rat),
    (∀ al ∈ als, al a = true ∧ al b = true) →
    ageRowL dt als (a, b, d) = if als.length = 0 ∨ (als.length : Rat) * dt < d then some (a, b, d - als.length * dt) else none
  | [], d, _ => by simp [ageRowL]; grind
  | al :: als, d, h => by
      have hal := h al (by simp)
      have ih := ageRowL_alive dt hdt a b als (d - dt) (fun x hx => h x (by simp [hx]))
      have hc : ((als.length + 1 : Nat) : Rat) = (als.length : Rat) + 1 := by push_cast; rfl
      have hk0 : (0 : Rat) ≤ (als.length : Rat) := by exact_mod_cast Nat.zero_le _
      simp only [ageRowL, ageRow, hal.1, hal.2, Bool.and_true, decide_eq_true_eq, List.length_cons, hc]
      have hnz : ¬ (als.length + 1 = 0) := by omega
      by_cases h1 : ((als.length : Rat) + 1) * dt < d
      · have pos : 0 < d - dt := by
          have : (als.length : Rat) * dt ≥ 0 := Rat.mul_nonneg hk0 (Rat.le_of_lt hdt)
          grind
        have h0 : als.length = 0 ∨ (als.length : Rat) * dt < d - dt := Or.inr (by grind)
        simp only [pos, ↓reduceIte, Option.bind_some, ih, h0, h1, hnz, false_or]
        congr 3; grind
      · simp only [h1, hnz, false_or, ↓reduceIte]
        by_cases pos : 0 < d - dt
        · have h0 : ¬ (als.length = 0 ∨ (als.length : Rat) * dt < d - dt) := by
            intro hh
            rcases hh with hh | hh
            · have : (als.length : Rat) = 0 := by exact_mod_cast hh
              apply h1; rw [this]; grind
            · apply h1; grind
          rw [if_pos pos, Option.bind_some, ih, if_neg h0]
        · simp [pos]

/-- rows of a table after appending well-shaped new columns -/
theorem Table.rows_append {t t' : Table} {a b : List Nat} {c : Choice} (hw : t.WF) (hd : t.keys.dur = true)
    (hab : a.length = b.length) (h : t.append (mkCols a b c) = .ok t') :
    t'.rows = t.rows ++ a.zip (b.zip ((List.range a.length).map c.durAt)) := by
  unfold Table.append at h
  split at h
  · rename_i a' b' be d ac st sp h1 h2 h3 h4 h5 h6 h7
    simp only [Except.ok.injEq] at h; subst h
    simp only [mkCols, Option.some.injEq, need, hd, ↓reduceIte] at h1 h2 h4
    subst h1 h2 h4
    obtain ⟨w2, w3, w4, _⟩ := hw
    simp only [hd, colLen, ↓reduceIte] at w4
    simp only [Table.rows]
    have e1 : t.p1.length = (t.p2.zip t.dur).length := by rw [List.length_zip]; omega
    have e2 : t.p2.length = t.dur.length := by omega
    rw [List.zip_append e2, List.zip_append e1]
  · simp at h

/-! ### the plain-number branch of RandomNet -/

theorem plainSource_asis_eq_spec {born counts : List Nat} (h : counts.length ≤ born.length) :
    plainSource .asis born counts = plainSource .spec born counts := by
  simp only [plainSource]
  rw [List.drop_eq_nil_of_le h]; simp

/-! ### mixing pools -/

theorem mem_insertSorted (x u : Nat) : ∀ l : List Nat, u ∈ insertSorted x l ↔ u = x ∨ u ∈ l
  | [] => by simp [insertSorted]
  | y :: ys => by
      simp only [insertSorted]
      split
      · simp
      · split
        · rename_i _ hxy; subst hxy; simp
        · simp only [List.mem_cons, mem_insertSorted x u ys]
          constructor
          · rintro (h | h | h) <;> simp [h]
          · rintro (h | h | h) <;> simp [h]

theorem mem_setdiff {l uids : List Nat} {u : Nat} : u ∈ setdiff l uids ↔ u ∈ l ∧ u ∉ uids := by
  unfold setdiff
  generalize hl : l.filter (fun u => !uids.contains u) = f
  have key : ∀ f : List Nat, u ∈ f.foldr insertSorted [] ↔ u ∈ f := by
    intro f
    induction f with
    | nil => simp
    | cons x xs ih => simp [List.foldr_cons, mem_insertSorted, ih]
  rw [key, ← hl]; simp

/-- every explicit group member is an active agent -/
def PoolOK (w : PoolWorld) : Prop := ∀ g ∈ w.pool.groups, ∀ u ∈ g, u ∈ w.pop.auids

theorem PoolWorld.step_ok {w : PoolWorld} (op : Op) (h : PoolOK w) : PoolOK (w.step op) := by
  cases op with
  | grow k f a =>
      intro g hg u hu
      simp only [PoolWorld.step, Pop.grow, List.mem_append]
      exact Or.inl (h g hg u hu)
  | die uids => exact h
  | removeDead =>
      intro g hg u hu
      simp only [PoolWorld.step, Pool.removeUids, List.mem_map] at hg
      obtain ⟨g0, hg0, rfl⟩ := hg
      obtain ⟨hm, hn⟩ := mem_setdiff.mp hu
      simp only [PoolWorld.step, Pop.dropDead, List.mem_filter]
      exact ⟨h g0 hg0 u hm, by simpa using hn⟩
  | setAge a => exact h
  | netStep dt ti c => exact h
  | matAdd m u d s => exact h
  | matEnd ti => exact h

theorem PoolWorld.run_ok : ∀ (ops : List Op) {w : PoolWorld}, PoolOK w → PoolOK (w.run ops)
  | [], _, h => h
  | op :: ops, w, h => by
      simp only [PoolWorld.run, List.foldl_cons]
      exact PoolWorld.run_ok ops (PoolWorld.step_ok op h)

/-! ### stated durations -/

/-- the endpoints a class draws do not depend on the durations -/
theorem newPairs_withDur (n : Net) (p : Pop) (c : Choice) (s : DurPar) : n.newPairs p (c.withDur s) = n.newPairs p c := by
  obtain ⟨kind, variant, table, participant, debut⟩ := n
  cases kind <;> rfl

/-- what `mkCols` writes into the `dur` column is the column the duration parameter states -/
theorem DurPar.map_durAt {s : DurPar} {n : Nat} {col : List Rat} (h : s.column n = some col) :
    (List.range n).map s.durAt = col := by
  cases s with
  | plain d =>
      simp only [DurPar.column, Option.some.injEq] at h; subst h
      have hf : (DurPar.plain d).durAt = fun _ => d := by funext i; rfl
      rw [hf, List.map_const', List.length_range]
  | drawn ds =>
      simp only [DurPar.column] at h
      split at h
      · rename_i hl
        simp only [Option.some.injEq] at h; subst h
        apply List.ext_getElem
        · simp [hl]
        · intro i h1 h2
          have hf : (DurPar.drawn ds).durAt i = ds.getD i 0 := rfl
          simp [hf, List.getD_eq_getElem?_getD, List.getElem?_eq_getElem h2]
      · simp at h

/-- the `dur` column after appending the columns `mkCols` builds -/
theorem Table.append_dur {t t' : Table} {a b : List Nat} {c : Choice} (hd : t.keys.dur = true)
    (h : t.append (mkCols a b c) = .ok t') : t'.dur = t.dur ++ (List.range a.length).map c.durAt := by
  unfold Table.append at h
  split at h
  · rename_i a' b' be d ac st sp h1 h2 h3 h4 h5 h6 h7
    simp only [Except.ok.injEq] at h; subst h
    simp only [mkCols, Option.some.injEq, need, hd, ↓reduceIte] at h1 h4
    subst h1 h4
    rfl
  · simp at h

/-- `add_pairs` with a stated duration parameter: the new rows carry exactly the stated durations -/
theorem addPairsStated_rows {n n' : Net} {p : Pop} {c : Choice} {s : DurPar} {a b : List Nat}
    (hw : n.table.WF) (hd : n.table.keys.dur = true) (hk : n.kind ≠ .disk)
    (hnp : n.newPairs p c = .ok (some (a, b))) (h : n.addPairsStated p c s = .ok n') :
    ∃ col, s.column a.length = some col ∧ n'.table.rows = n.table.rows ++ a.zip (b.zip col) ∧
      n'.table.dur = n.table.dur ++ col := by
  unfold Net.addPairsStated at h
  rw [hnp] at h
  dsimp only at h
  cases hcol : s.column a.length with
  | none => rw [hcol] at h; simp at h
  | some col =>
      rw [hcol] at h
      dsimp only at h
      refine ⟨col, rfl, ?_⟩
      unfold Net.addPairs at h
      rw [newPairs_withDur, hnp] at h
      simp only [hk, ↓reduceIte] at h
      split at h
      · rename_i t ht
        simp only [Except.ok.injEq] at h; subst h
        have hmap : (List.range a.length).map (c.withDur s).durAt = col := DurPar.map_durAt hcol
        refine ⟨?_, ?_⟩
        · rw [Table.rows_append hw hd (newPairs_length hnp) ht, hmap]
        · rw [Table.append_dur hd ht, hmap]
      · simp at h

theorem zipWith_add_const (ti : Rat) : ∀ (durs : List Rat),
    List.zipWith (· + ·) (durs.map (fun _ => ti)) durs = durs.map (fun d => ti + d)
  | [] => rfl
  | d :: ds => by simp [zipWith_add_const ti ds]

/-- `MaternalNet.add_pairs` without an explicit `start`: the new edges start at the network's `ti`, carry the durations
    they were given and end at `ti + dur` -/
theorem matAddPairsAt_cols {t t' : Table} {m u : List Nat} {durs : List Rat} {ti : Rat}
    (hd : t.keys.dur = true) (hse : t.keys.se = true) (h : t.matAddPairsAt m u durs none ti = .ok t') :
    t'.p1 = t.p1 ++ m ∧ t'.p2 = t.p2 ++ u ∧ t'.dur = t.dur ++ durs ∧ t'.start = t.start ++ durs.map (fun _ => ti) ∧
    t'.stop = t.stop ++ durs.map (fun d => ti + d) ∧ t'.beta = t.beta ++ List.replicate m.length 1 := by
  unfold Table.matAddPairsAt Table.matAddPairs Table.append at h
  simp only [Option.getD_none, need, hd, hse, ↓reduceIte] at h
  split at h
  · rename_i a' b' be d ac st sp h1 h2 h3 h4 h5 h6 h7
    simp only [Except.ok.injEq] at h; subst h
    simp only [Option.some.injEq] at h1 h2 h3 h4 h6 h7
    subst h1 h2 h3 h4 h6 h7
    refine ⟨rfl, rfl, rfl, rfl, ?_, rfl⟩
    simp only [zipWith_add_const]
  · simp at h

end StarsimModel.Network
