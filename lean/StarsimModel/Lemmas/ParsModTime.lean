/-
C17 (round 6) — lemmas about Model/ParsModTime.lean (the head of `Time.init`), for ANY name table, fallback and sim timeline.
-/
import StarsimModel.Model.ParsModTime
namespace StarsimModel.ParsModTime
open StarsimModel.ParsTime

/-- if the unit is normalised FIRST, two names of the same unit are indistinguishable for everything that follows -/
theorem timeInit_spellings (T : List (UVal × List UVal)) (fb : Rat) (s : ST) (rest : List InitStep) (n1 n2 : UVal) (dt : Option Rat)
    (h : lookup T n1 = lookup T n2) :
    timeInit T fb s (.normalizeUnit :: rest) ⟨n1, dt⟩ = timeInit T fb s (.normalizeUnit :: rest) ⟨n2, dt⟩ := by
  simp [timeInit, step, h]

/-- a value that names no unit never gets past the normalisation -/
theorem timeInit_unknown (T : List (UVal × List UVal)) (fb : Rat) (s : ST) (rest : List InitStep) (n : UVal) (dt : Option Rat)
    (h : lookup T n = none) :
    timeInit T fb s (.normalizeUnit :: rest) ⟨n, dt⟩ = .err .keyNotFound := by
  simp [timeInit, step, h]

/-- normalise, then inherit: a name of the SIM's unit (or no unit, when `None` spells `None`) gives the sim's unit and the supplied dt,
    else the sim's dt -/
theorem timeInit_same_unit (T : List (UVal × List UVal)) (fb : Rat) (s : ST) (n : UVal) (dt : Option Rat)
    (h : lookup T n = some s.unit) :
    timeInit T fb s [.normalizeUnit, .inheritFromSim] ⟨n, dt⟩ = .ok ⟨s.unit, some (dt.getD s.dt)⟩ := by
  cases hs : s.unit <;> simp [timeInit, step, h, hs, ifelse]

theorem timeInit_not_given (T : List (UVal × List UVal)) (fb : Rat) (s : ST) (dt : Option Rat)
    (h : lookup T none = some none) :
    timeInit T fb s [.normalizeUnit, .inheritFromSim] ⟨none, dt⟩ = .ok ⟨s.unit, some (dt.getD s.dt)⟩ := by
  cases hs : s.unit <;> simp [timeInit, step, h, hs, ifelse]

/-- a name of ANOTHER unit: that unit is in effect, with the supplied dt, else the fallback (never the sim's dt) -/
theorem timeInit_other_unit (T : List (UVal × List UVal)) (fb : Rat) (s : ST) (n : UVal) (c : String) (dt : Option Rat)
    (h : lookup T n = some (some c)) (hne : some c ≠ s.unit) :
    timeInit T fb s [.normalizeUnit, .inheritFromSim] ⟨n, dt⟩ = .ok ⟨some c, some (dt.getD fb)⟩ := by
  simp [timeInit, step, h, ifelse, hne]

end StarsimModel.ParsModTime
