/-
Helper lemmas for C08 (Model/Loop.lean).  Core Lean only.
-/
import StarsimModel.Model.Loop

namespace StarsimModel.Loop

/-! ### Membership in the cross product -/

theorem mem_block {T : Times} {f : Func} {e : Entry} :
    e ∈ block T f ↔ ∃ k, k < T.npts f.owner ∧ e = ⟨T.tv f.owner k, f.order, f.owner, f.clock, f.finish, k, f.row⟩ := by
  simp only [block, List.mem_map, List.mem_range]
  constructor
  · rintro ⟨k, hk, rfl⟩; exact ⟨k, hk, rfl⟩
  · rintro ⟨k, hk, rfl⟩; exact ⟨k, hk, rfl⟩

theorem mem_cross {T : Times} {fl : List Func} {e : Entry} :
    e ∈ cross T fl ↔ ∃ f ∈ fl, ∃ k, k < T.npts f.owner ∧
      e = ⟨T.tv f.owner k, f.order, f.owner, f.clock, f.finish, k, f.row⟩ := by
  simp only [cross, List.mem_flatMap, mem_block]

/-! ### Facts about ordered function lists -/

/-- For two members of a list that is pairwise `R`: equal, or related one way or the other. -/
theorem pairwise_trichotomy {α} {R : α → α → Prop} {l : List α} (h : l.Pairwise R) :
    ∀ x ∈ l, ∀ y ∈ l, x = y ∨ R x y ∨ R y x := by
  induction h with
  | nil => intro x hx; simp at hx
  | cons hR _ ih =>
      intro x hx y hy
      rcases List.mem_cons.1 hx with rfl | hx' <;> rcases List.mem_cons.1 hy with rfl | hy'
      · exact Or.inl rfl
      · exact Or.inr (Or.inl (hR _ hy'))
      · exact Or.inr (Or.inr (hR _ hx'))
      · exact ih x hx' y hy'

theorem order_inj {fl : List Func} {n : Nat} (hO : Ordered fl n) {f g : Func} (hf : f ∈ fl) (hg : g ∈ fl)
    (h : f.order = g.order) : f = g := by
  rcases pairwise_trichotomy hO.1 f hf g hg with h' | h' | h'
  · exact h'
  · omega
  · omega

/-- With `FinishLast`, the clock-incrementing function of an owner has the largest order among the owner's
    functions. -/
theorem finish_order_max {fl : List Func} {n : Nat} (hO : Ordered fl n) (hF : FinishLast fl) {f fm : Func}
    (hf : f ∈ fl) (hfm : fm ∈ fl) (how : f.clock = fm.clock) (hfin : fm.finish = true) : f.order ≤ fm.order := by
  have hb : fl.Pairwise (fun a b => a.order < b.order ∧ (a.clock = b.clock → a.finish = false)) := hO.1.and hF
  rcases pairwise_trichotomy hb f hf fm hfm with h | h | h
  · subst h; exact Nat.le_refl _
  · exact Nat.le_of_lt h.1
  · have := h.2 how.symm; simp [hfin] at this

/-! ### Keys are injective on the cross product of a separated configuration -/

theorem key_inj {T : Times} {fl : List Func} {n : Nat} (hS : Separated T fl n) (hO : Ordered fl n)
    (hM : T.StrictMono) {a b : Entry} (ha : a ∈ cross T fl) (hb : b ∈ cross T fl) (h : a.key = b.key) : a = b := by
  obtain ⟨f, hf, i, hi, rfl⟩ := mem_cross.1 ha
  obtain ⟨g, hg, j, hj, rfl⟩ := mem_cross.1 hb
  simp only [Entry.key] at h
  have hfo := hO.2 f hf
  have hgo := hO.2 g hg
  have htime : T.tv f.owner i = T.tv g.owner j := by
    rcases Int.lt_trichotomy (T.tv f.owner i) (T.tv g.owner j) with hlt | heq | hgt
    · have := hS f hf g hg i hi j hj hlt; omega
    · exact heq
    · have := hS g hg f hf j hj i hi hgt; omega
  have hord : f.order = g.order := by omega
  have hfg : f = g := order_inj hO hf hg hord
  subst hfg
  have hij : i = j := by
    rcases Nat.lt_trichotomy i j with hlt | heq | hgt
    · have := hM f.owner i j hlt hj; omega
    · exact heq
    · have := hM f.owner j i hgt hi; omega
  subst hij
  rfl

theorem cross_nodup {T : Times} {fl : List Func} {n : Nat} (hO : Ordered fl n) : (cross T fl).Nodup := by
  unfold cross List.Nodup
  rw [List.pairwise_flatMap]
  constructor
  · intro f _
    unfold block
    rw [List.pairwise_map]
    exact (List.nodup_range (n := T.npts f.owner)).imp (fun hne heq => hne (by injection heq))
  · refine hO.1.imp ?_
    intro f g hlt x hx y hy heq
    obtain ⟨_, _, rfl⟩ := mem_block.1 hx
    obtain ⟨_, _, rfl⟩ := mem_block.1 hy
    injection heq with _ ho
    omega

theorem plan_nodup {T : Times} {fl : List Func} {n : Nat} {p : List Entry} (hp : IsPlan T fl p)
    (hO : Ordered fl n) : p.Nodup :=
  (hp.1.nodup_iff).2 (cross_nodup hO)

/-- Under `Separated` a plan is *strictly* sorted by key. -/
theorem plan_strict {T : Times} {fl : List Func} {n : Nat} {p : List Entry} (hp : IsPlan T fl p)
    (hS : Separated T fl n) (hO : Ordered fl n) (hM : T.StrictMono) :
    p.Pairwise (fun a b => a.key < b.key) := by
  have hnd := plan_nodup hp hO
  refine (hp.2.and hnd).imp_of_mem ?_
  intro a b ha hb ⟨hle, hne⟩
  have hne' : a.key ≠ b.key := fun h => hne (key_inj hS hO hM (hp.1.subset ha) (hp.1.subset hb) h)
  omega

/-! ### The kernel-reducible insertion sort also builds a plan -/

theorem insertKey_perm (e : Entry) (l : List Entry) : (insertKey e l).Perm (e :: l) := by
  induction l with
  | nil => simp [insertKey]
  | cons x r ih =>
      simp only [insertKey]
      split
      · exact List.Perm.refl _
      · exact (List.Perm.cons x ih).trans (List.Perm.swap e x r)

theorem isort_perm (l : List Entry) : (isort l).Perm l := by
  induction l with
  | nil => exact List.Perm.refl _
  | cons e r ih => exact (insertKey_perm e (isort r)).trans (List.Perm.cons e ih)

theorem insertKey_sorted (e : Entry) (l : List Entry) (h : l.Pairwise (fun a b => a.key ≤ b.key)) :
    (insertKey e l).Pairwise (fun a b => a.key ≤ b.key) := by
  induction l with
  | nil => simp [insertKey]
  | cons x r ih =>
      rw [List.pairwise_cons] at h
      simp only [insertKey]
      split
      · rename_i hlt
        refine List.pairwise_cons.2 ⟨?_, List.pairwise_cons.2 h⟩
        intro y hy
        rcases List.mem_cons.1 hy with rfl | hy
        · omega
        · have := h.1 y hy; omega
      · rename_i hge
        refine List.pairwise_cons.2 ⟨?_, ih h.2⟩
        intro y hy
        rcases List.mem_cons.1 ((insertKey_perm e r).subset hy) with rfl | hy
        · omega
        · exact h.1 y hy

theorem isort_sorted (l : List Entry) : (isort l).Pairwise (fun a b => a.key ≤ b.key) := by
  induction l with
  | nil => simp [isort]
  | cons e r ih => exact insertKey_sorted e _ ih

/-! ### Counting in a strictly sorted list -/

theorem countP_prefix {p pre post : List Entry} {e : Entry}
    (hs : p.Pairwise (fun a b => a.key < b.key)) (h : p = pre ++ e :: post) (P : Entry → Bool) :
    pre.countP P = p.countP (fun x => P x && decide (x.key < e.key)) := by
  subst h
  rw [List.pairwise_append] at hs
  obtain ⟨_, h2, h3⟩ := hs
  rw [List.pairwise_cons] at h2
  rw [List.countP_append, List.countP_cons]
  have hpre : pre.countP P = pre.countP (fun x => P x && decide (x.key < e.key)) := by
    apply List.countP_congr
    intro x hx
    have := h3 x hx e List.mem_cons_self
    simp [this]
  have hpost : post.countP (fun x => P x && decide (x.key < e.key)) = 0 := by
    rw [List.countP_eq_zero]
    intro x hx
    have := h2.1 x hx
    simp only [Bool.and_eq_true, decide_eq_true_eq, not_and]
    intro _; omega
  rw [hpost, ← hpre]
  simp

theorem countP_lt_range (N k : Nat) : (List.range N).countP (fun j => decide (j < k)) = min k N := by
  induction N with
  | zero => simp
  | succ N ih =>
      rw [List.range_succ, List.countP_append, ih]
      by_cases h : N < k
      · simp [h]; omega
      · simp [h]; omega

theorem countP_true_range (N : Nat) : (List.range N).countP (fun _ => true) = N := by
  simp

/-! ### Execution -/

def isFinOf (m : Nat) (x : Entry) : Bool := x.finish && x.clock == m

theorem getClk_incr (c : Clocks) : ∀ (m m' : Nat),
    getClk (incr c m) m' = if m' = m then getClk c m' + 1 else getClk c m' := by
  induction c with
  | nil =>
      intro m
      induction m with
      | zero => intro m'; cases m' <;> simp [incr, getClk]
      | succ m ih =>
          intro m'
          cases m' with
          | zero => simp [incr, getClk]
          | succ m' =>
              have := ih m'
              simp only [getClk, incr, List.getD_cons_succ, Nat.add_right_cancel_iff] at this ⊢
              simpa using this
  | cons x r ih =>
      intro m m'
      cases m with
      | zero => cases m' <;> simp [incr, getClk]
      | succ m =>
          cases m' with
          | zero => simp [incr, getClk]
          | succ m' =>
              have := ih m m'
              simp only [getClk, incr, List.getD_cons_succ, Nat.add_right_cancel_iff] at this ⊢
              exact this

theorem getClk_bump (clk : Clocks) (e : Entry) (m : Nat) :
    getClk (bump clk e) m = getClk clk m + if isFinOf m e then 1 else 0 := by
  unfold bump isFinOf
  by_cases hf : e.finish = true
  · simp only [hf, if_true, getClk_incr, Bool.true_and, beq_iff_eq]
    by_cases h : m = e.clock
    · simp [h]
    · have h' : ¬ e.clock = m := fun x => h x.symm
      simp [h, h']
  · simp [hf]

theorem trace_mem {p : List Entry} : ∀ {clk : Clocks} {e : Entry} {c : Nat}, (e, c) ∈ trace clk p →
    ∃ pre post, p = pre ++ e :: post ∧ c = getClk clk e.clock + pre.countP (isFinOf e.clock) := by
  induction p with
  | nil => intro clk e c h; simp [trace] at h
  | cons e' r ih =>
      intro clk e c h
      simp only [trace, List.mem_cons] at h
      rcases h with h | h
      · injection h with h1 h2
        subst h1
        exact ⟨[], r, rfl, by simp [h2]⟩
      · obtain ⟨pre, post, hr, hc⟩ := ih h
        refine ⟨e' :: pre, post, by simp [hr], ?_⟩
        rw [hc, List.countP_cons, getClk_bump]
        omega

theorem trace_map_fst (p : List Entry) : ∀ clk, (trace clk p).map (·.1) = p := by
  induction p with
  | nil => intro clk; rfl
  | cons e r ih => intro clk; simp [trace, ih]

theorem finalClocks_eq (p : List Entry) : ∀ (clk : Clocks) (m : Nat),
    getClk (finalClocks clk p) m = getClk clk m + p.countP (isFinOf m) := by
  induction p with
  | nil => intro clk m; simp [finalClocks]
  | cons e r ih =>
      intro clk m
      simp only [finalClocks]
      rw [ih, List.countP_cons, getClk_bump]
      omega

/-! ### Counting the clock increments of one owner in the cross product -/

theorem countP_block_zero {T : Times} {f : Func} {P : Entry → Bool}
    (h : ∀ e ∈ block T f, P e = false) : (block T f).countP P = 0 := by
  rw [List.countP_eq_zero]; intro e he; simp [h e he]

theorem countP_cross_zero {T : Times} {fl : List Func} {P : Entry → Bool}
    (h : ∀ f ∈ fl, ∀ e ∈ block T f, P e = false) : (cross T fl).countP P = 0 := by
  rw [List.countP_eq_zero]
  intro e he
  obtain ⟨f, hf, he'⟩ := List.mem_flatMap.1 he
  simp [h f hf e he']

/-- The entries of owner `fm.owner` that increment its clock and satisfy `Q` are those of the block of the
    owner's unique `finish` function. -/
theorem countP_cross_finish {T : Times} {fl : List Func} (hF : FinishLast fl) {fm : Func} (hfm : fm ∈ fl)
    (hfin : fm.finish = true) (Q : Entry → Bool) :
    (cross T fl).countP (fun x => isFinOf fm.clock x && Q x) =
      (List.range (T.npts fm.owner)).countP
        (fun k => Q ⟨T.tv fm.owner k, fm.order, fm.owner, fm.clock, fm.finish, k, fm.row⟩) := by
  obtain ⟨pre, post, rfl⟩ := List.append_of_mem hfm
  unfold FinishLast at hF
  rw [List.pairwise_append] at hF
  obtain ⟨_, h2, h3⟩ := hF
  rw [List.pairwise_cons] at h2
  have hcross : cross T (pre ++ fm :: post) = cross T pre ++ (block T fm ++ cross T post) := by
    simp [cross, List.flatMap_append, List.flatMap_cons]
  rw [hcross, List.countP_append, List.countP_append]
  have hpre : (cross T pre).countP (fun x => isFinOf fm.clock x && Q x) = 0 := by
    apply countP_cross_zero
    intro f hf e he
    obtain ⟨k, _, rfl⟩ := mem_block.1 he
    simp only [isFinOf]
    by_cases ho : f.clock = fm.clock
    · have := h3 f hf fm List.mem_cons_self ho
      simp [this]
    · simp [ho]
  have hpost : (cross T post).countP (fun x => isFinOf fm.clock x && Q x) = 0 := by
    apply countP_cross_zero
    intro f hf e he
    obtain ⟨k, _, rfl⟩ := mem_block.1 he
    simp only [isFinOf]
    by_cases ho : f.clock = fm.clock
    · have := h2.1 f hf ho.symm
      simp [hfin] at this
    · simp [ho]
  rw [hpre, hpost]
  simp only [block, List.countP_map, Nat.zero_add, Nat.add_zero]
  apply List.countP_congr
  intro k _
  simp [isFinOf, hfin, Function.comp]

/-! ### The executable separation checks are sound -/

theorem mem_allTimes {T : Times} {owners : List Nat} {t : Int} :
    t ∈ allTimes T owners ↔ ∃ m ∈ owners, ∃ k, k < T.npts m ∧ t = T.tv m k := by
  simp only [allTimes, List.mem_flatMap, List.mem_map, List.mem_range]
  constructor
  · rintro ⟨m, hm, k, hk, rfl⟩; exact ⟨m, hm, k, hk, rfl⟩
  · rintro ⟨m, hm, k, hk, rfl⟩; exact ⟨m, hm, k, hk, rfl⟩

theorem gapsOK_pairwise (n : Nat) : ∀ (l : List Int), l.Pairwise (fun a b => a ≤ b) → gapsOK n l = true →
    l.Pairwise (fun a b => a < b → a + (n : Int) ≤ b)
  | [], _, _ => List.Pairwise.nil
  | [_], _, _ => by simp
  | a :: b :: r, hs, hg => by
      simp only [gapsOK, Bool.and_eq_true, Bool.or_eq_true, decide_eq_true_eq] at hg
      rw [List.pairwise_cons] at hs
      have ih := gapsOK_pairwise n (b :: r) hs.2 hg.2
      refine List.pairwise_cons.2 ⟨?_, ih⟩
      intro z hz hlt
      rcases List.mem_cons.1 hz with rfl | hz'
      · rcases hg.1 with h | h
        · omega
        · exact h
      · have hbz := (List.pairwise_cons.1 hs.2).1 z hz'
        rcases hg.1 with h | h
        · subst h
          exact (List.pairwise_cons.1 ih).1 z hz' hlt
        · omega

theorem separatedFast_sound {T : Times} {fl : List Func} {n : Nat} (h : separatedFast T fl n = true) :
    Separated T fl n := by
  unfold separatedFast at h
  have hsorted := List.pairwise_mergeSort (le := fun (a b : Int) => decide (a ≤ b))
    (fun a b c hab hbc => by simp only [decide_eq_true_eq] at *; omega)
    (fun a b => by simp only [Bool.or_eq_true, decide_eq_true_eq]; omega)
    (allTimes T (fl.map (·.owner)).eraseDups)
  have hsorted' : ((allTimes T (fl.map (·.owner)).eraseDups).mergeSort (fun a b => decide (a ≤ b))).Pairwise
      (fun a b => a ≤ b) := hsorted.imp (fun h => by simpa using h)
  have hgap := gapsOK_pairwise n _ hsorted' h
  intro f hf g hg i hi j hj hlt
  have hmem : ∀ (f : Func), f ∈ fl → ∀ i, i < T.npts f.owner → T.tv f.owner i ∈
      (allTimes T (fl.map (·.owner)).eraseDups).mergeSort (fun a b => decide (a ≤ b)) := by
    intro f hf i hi
    rw [(List.mergeSort_perm _ _).mem_iff, mem_allTimes]
    exact ⟨f.owner, List.mem_eraseDups.2 (List.mem_map.2 ⟨f, hf, rfl⟩), i, hi, rfl⟩
  rcases pairwise_trichotomy (hsorted'.and hgap) _ (hmem f hf i hi) _ (hmem g hg j hj) with h | h | h
  · omega
  · exact h.2 hlt
  · omega

theorem separatedB_sound {T : Times} {fl : List Func} {n : Nat} (h : separatedB T fl n = true) :
    Separated T fl n := by
  simp only [separatedB, List.all_eq_true, Bool.or_eq_true, Bool.not_eq_true', decide_eq_false_iff_not,
    decide_eq_true_eq] at h
  intro f hf g hg i hi j hj hlt
  have hm : ∀ (f : Func), f ∈ fl → ∀ i, i < T.npts f.owner →
      T.tv f.owner i ∈ allTimes T (fl.map (·.owner)).eraseDups := by
    intro f hf i hi
    rw [mem_allTimes]
    exact ⟨f.owner, List.mem_eraseDups.2 (List.mem_map.2 ⟨f, hf, rfl⟩), i, hi, rfl⟩
  rcases h _ (hm f hf i hi) _ (hm g hg j hj) with h' | h'
  · exact absurd hlt h'
  · exact h'

theorem strictMonoB_sound {T : Times} {owners : List Nat} (h : strictMonoB T owners = true) :
    ∀ m ∈ owners, ∀ i j, i < j → j < T.npts m → T.tv m i < T.tv m j := by
  simp only [strictMonoB, List.all_eq_true, List.mem_range, Bool.or_eq_true, beq_iff_eq, decide_eq_true_eq] at h
  intro m hm i j hij hj
  induction j with
  | zero => omega
  | succ j ih =>
      have hstep := h m hm (j + 1) hj
      rcases hstep with h0 | h1
      · omega
      · simp only [Nat.add_sub_cancel] at h1
        rcases Nat.lt_or_ge i j with hlt | hge
        · have := ih hlt (by omega); omega
        · have : i = j := by omega
          subst this; exact h1

/-! ### `collect`: facts that hold for every module set, given decidable facts about the table -/

theorem mem_numberFrom {raw : List RawFunc} : ∀ {i : Nat} {f : Func}, f ∈ numberFrom i raw →
    (∃ r ∈ raw, f.owner = r.owner ∧ f.clock = r.clock ∧ f.finish = r.finish ∧ f.row = r.row) ∧
    i ≤ f.order ∧ f.order < i + raw.length := by
  induction raw with
  | nil => intro i f h; simp [numberFrom] at h
  | cons r rs ih =>
      intro i f h
      simp only [numberFrom, List.mem_cons] at h
      rcases h with h | h
      · subst h; exact ⟨⟨r, List.mem_cons_self, rfl, rfl, rfl, rfl⟩, Nat.le_refl _, by simp⟩
      · obtain ⟨⟨r', hr', h1⟩, h2, h3⟩ := ih h
        exact ⟨⟨r', List.mem_cons_of_mem _ hr', h1⟩, by omega, by simp only [List.length_cons]; omega⟩

theorem numberFrom_length (raw : List RawFunc) : ∀ i, (numberFrom i raw).length = raw.length := by
  induction raw with
  | nil => intro i; rfl
  | cons r rs ih => intro i; simp [numberFrom, ih]

theorem numberFrom_ordered (raw : List RawFunc) : ∀ i, (numberFrom i raw).Pairwise (fun a b => a.order < b.order) := by
  induction raw with
  | nil => intro i; simp [numberFrom]
  | cons r rs ih =>
      intro i
      simp only [numberFrom, List.pairwise_cons]
      refine ⟨?_, ih (i + 1)⟩
      intro f hf
      have := (mem_numberFrom hf).2.1
      show i < f.order
      omega

theorem numberFrom_pairwise {R : Nat → Bool → Nat → Bool → Prop} (raw : List RawFunc) :
    raw.Pairwise (fun a b => R a.clock a.finish b.clock b.finish) →
    ∀ i, (numberFrom i raw).Pairwise (fun a b => R a.clock a.finish b.clock b.finish) := by
  induction raw with
  | nil => intro _ i; simp [numberFrom]
  | cons r rs ih =>
      intro h i
      rw [List.pairwise_cons] at h
      simp only [numberFrom, List.pairwise_cons]
      refine ⟨?_, ih h.2 (i + 1)⟩
      intro f hf
      obtain ⟨⟨r', hr', _, h1, h2, _⟩, _⟩ := mem_numberFrom hf
      rw [h1, h2]
      exact h.1 r' hr'

theorem numberFrom_lift (raw : List RawFunc) : ∀ (i : Nat) (r : RawFunc), r ∈ raw →
    ∃ g ∈ numberFrom i raw, g.owner = r.owner ∧ g.clock = r.clock ∧ g.finish = r.finish := by
  induction raw with
  | nil => intro i r h; simp at h
  | cons r' rs ih =>
      intro i r h
      rcases List.mem_cons.1 h with h | h
      · subst h; exact ⟨⟨r.owner, r.clock, r.finish, i, r.row⟩, by simp [numberFrom], rfl, rfl, rfl⟩
      · obtain ⟨g, hg, h1⟩ := ih (i + 1) r h
        exact ⟨g, by simp [numberFrom, hg], h1⟩

theorem collect_ordered (table : List Row) (mods : List Mod) :
    Ordered (collect table mods) (collect table mods).length := by
  refine ⟨numberFrom_ordered _ 0, ?_⟩
  intro f hf
  have := (mem_numberFrom hf).2.2
  unfold collect
  rw [numberFrom_length]
  omega

/-! #### owners -/

theorem mem_ofKind {mods : List Mod} {k : Kind} {o : Nat} :
    o ∈ ofKind mods k ↔ ∃ i, i < mods.length ∧ (mods.getD i dfltMod).kind = k ∧ o = i + 1 := by
  simp only [ofKind, List.mem_map, List.mem_filter, List.mem_range, beq_iff_eq]
  constructor
  · rintro ⟨i, ⟨h1, h2⟩, rfl⟩; exact ⟨i, h1, h2, rfl⟩
  · rintro ⟨i, h1, h2, rfl⟩; exact ⟨i, ⟨h1, h2⟩, rfl⟩

theorem ofKind_nodup (mods : List Mod) (k : Kind) : (ofKind mods k).Nodup := by
  unfold ofKind List.Nodup
  rw [List.pairwise_map]
  have : ((List.range mods.length).filter
      (fun i => (mods.getD i dfltMod).kind == k)).Pairwise (· ≠ ·) :=
    List.Pairwise.filter _ List.nodup_range
  exact this.imp (fun h h' => h (by omega))

theorem chain_nodup (mods : List Mod) : (chain mods).Nodup := by
  unfold chain List.Nodup
  rw [List.pairwise_flatMap]
  refine ⟨fun k _ => ofKind_nodup mods k, ?_⟩
  have hk : chainOrder.Pairwise (· ≠ ·) := by decide
  refine hk.imp ?_
  intro k1 k2 hne x hx y hy heq
  obtain ⟨i, _, hi, rfl⟩ := mem_ofKind.1 hx
  obtain ⟨j, _, hj, hij⟩ := mem_ofKind.1 hy
  have : i = j := by omega
  subst this
  exact hne (hi.symm.trans hj)

theorem ofKind_sub_chain (mods : List Mod) (k : Kind) : ∀ o ∈ ofKind mods k, o ∈ chain mods := by
  intro o ho
  unfold chain
  rw [List.mem_flatMap]
  exact ⟨k, by cases k <;> decide, ho⟩

theorem mem_chain {mods : List Mod} {o : Nat} (h : o ∈ chain mods) : 1 ≤ o ∧ o ≤ mods.length := by
  unfold chain at h
  obtain ⟨k, _, hk⟩ := List.mem_flatMap.1 h
  obtain ⟨i, hi, _, rfl⟩ := mem_ofKind.1 hk
  omega

theorem chain_pos {mods : List Mod} {o : Nat} (h : o ∈ chain mods) : 1 ≤ o := (mem_chain h).1

/-- Class of clock owners a container expression can denote: `some true` = the sim's clock (owner 0, also for
    `people.*`), `some false` = modules (owners ≥ 1), `none` = not understood (no functions). -/
def contIsSim (r : Row) : Option Bool :=
  match parseCont r.1, parseGuard r.2.2 with
  | some .sim, some _ => some true
  | some .people, some _ => some true
  | some .modules, some _ => some false
  | some (.kind _), some _ => some false
  | _, _ => none

theorem rowOwners_class {mods : List Mod} {r : Row} {o : Nat} (h : o ∈ rowOwners mods r) :
    (contIsSim r = some true ∧ o = 0) ∨ (contIsSim r = some false ∧ 1 ≤ o ∧ o ∈ chain mods) := by
  unfold rowOwners at h
  unfold contIsSim
  split at h
  · left; simp_all
  · left; simp_all
  · right
    rename_i g _ _
    have := (List.mem_filter.1 h).1
    exact ⟨by simp_all, chain_pos this, this⟩
  · right
    rename_i k g _ _
    have := ofKind_sub_chain mods k o (List.mem_filter.1 h).1
    exact ⟨by simp_all, chain_pos this, this⟩
  · simp at h

theorem rowOwners_nodup (mods : List Mod) (r : Row) : (rowOwners mods r).Nodup := by
  unfold rowOwners
  split
  · simp
  · simp
  · exact List.Pairwise.filter _ (chain_nodup mods)
  · exact List.Pairwise.filter _ (ofKind_nodup mods _)
  · simp

/-- Table-level condition (decidable): a row that increments clocks is followed only by rows whose clock owners are
    of the other class (so no function reading a clock comes after that clock's `finish_step`). -/
def tableFinishLast (L : List (Row × Nat)) : Prop :=
  L.Pairwise (fun a b => rowFinish a.1 = true →
    (contIsSim a.1 = some true ∧ contIsSim b.1 = some false) ∨
    (contIsSim a.1 = some false ∧ contIsSim b.1 = some true) ∨ contIsSim a.1 = none ∨ contIsSim b.1 = none)

instance (L : List (Row × Nat)) : Decidable (tableFinishLast L) := by
  unfold tableFinishLast; exact inferInstance

theorem collectRaw_finishLast {L : List (Row × Nat)} (hT : tableFinishLast L) (mods : List Mod) :
    (L.flatMap (fun ri => rowFuncs mods ri.1 ri.2)).Pairwise (fun a b => a.clock = b.clock → a.finish = false) := by
  rw [List.pairwise_flatMap]
  constructor
  · intro ri _
    unfold rowFuncs
    rw [List.pairwise_map]
    exact (rowOwners_nodup mods ri.1).imp (fun hne heq => absurd heq hne)
  · refine hT.imp ?_
    intro a b hab x hx y hy hxy
    simp only [rowFuncs, List.mem_map] at hx hy
    obtain ⟨ox, hox, rfl⟩ := hx
    obtain ⟨oy, hoy, rfl⟩ := hy
    simp only at hxy ⊢
    by_cases hf : rowFinish a.1 = true
    · exfalso
      have hcx := rowOwners_class hox
      have hcy := rowOwners_class hoy
      rcases hab hf with h | h | h | h
      · rcases hcx with hcx | hcx <;> rcases hcy with hcy | hcy <;> simp_all <;> omega
      · rcases hcx with hcx | hcx <;> rcases hcy with hcy | hcy <;> simp_all <;> omega
      · rcases hcx with hcx | hcx <;> simp_all
      · rcases hcy with hcy | hcy <;> simp_all
    · simpa using hf

theorem collect_finishLast {table : List Row} (hT : tableFinishLast table.zipIdx) (mods : List Mod) :
    FinishLast (collect table mods) :=
  numberFrom_pairwise (R := fun o f o' _ => o = o' → f = false) _ (collectRaw_finishLast hT mods) 0

theorem zipIdx_mem {α} (l : List α) (a : α) (h : a ∈ l) : ∃ i, (a, i) ∈ l.zipIdx := by
  obtain ⟨i, hi, hget⟩ := List.getElem_of_mem h
  exact ⟨i, by rw [List.mem_zipIdx_iff_getElem?]; simp [hget, hi]⟩

/-- Every function's clock has a clock-incrementing function, provided the table has the two unguarded
    `finish_step` rows. -/
theorem collect_everyOwnerFinishes {table : List Row}
    (hsim : ("sim", "finish_step", "") ∈ table) (hmod : ("sim.modules", "finish_step", "") ∈ table)
    (mods : List Mod) :
    ∀ f ∈ collect table mods, ∃ fm ∈ collect table mods, fm.clock = f.clock ∧ fm.finish = true := by
  have hfs : rowFinish ("sim", "finish_step", "") = true := by decide
  have hfm : rowFinish ("sim.modules", "finish_step", "") = true := by decide
  have hcs : parseCont "sim" = some .sim := by decide
  have hc : parseCont "sim.modules" = some .modules := by decide
  have hg : parseGuard "" = some false := by decide
  intro f hf
  obtain ⟨⟨r, hr, _, hck, _, _⟩, _⟩ := mem_numberFrom hf
  unfold collectRaw at hr
  obtain ⟨ri, hri, hr'⟩ := List.mem_flatMap.1 hr
  simp only [rowFuncs, List.mem_map] at hr'
  obtain ⟨o, hoo, rfl⟩ := hr'
  simp only at hck
  rcases rowOwners_class hoo with ⟨_, h0⟩ | ⟨_, _, hch⟩
  · obtain ⟨i, hi⟩ := zipIdx_mem _ _ hsim
    have : (⟨schedOwner mods ("sim", "finish_step", "") 0, 0, true, i⟩ : RawFunc) ∈ collectRaw table mods := by
      unfold collectRaw
      rw [List.mem_flatMap]
      refine ⟨_, hi, ?_⟩
      simp only [rowFuncs, List.mem_map]
      exact ⟨0, by simp [rowOwners, hcs, hg], by rw [hfs]⟩
    obtain ⟨g, hg', _, h1, h2⟩ := numberFrom_lift _ 0 _ this
    exact ⟨g, hg', by simp_all, by simp_all⟩
  · obtain ⟨i, hi⟩ := zipIdx_mem _ _ hmod
    have : (⟨schedOwner mods ("sim.modules", "finish_step", "") o, o, true, i⟩ : RawFunc) ∈ collectRaw table mods := by
      unfold collectRaw
      rw [List.mem_flatMap]
      refine ⟨_, hi, ?_⟩
      simp only [rowFuncs, List.mem_map]
      refine ⟨o, ?_, by rw [hfm]⟩
      simp only [rowOwners, hc, hg, List.mem_filter]
      exact ⟨hch, by simp⟩
    obtain ⟨g, hg', _, h1, h2⟩ := numberFrom_lift _ 0 _ this
    exact ⟨g, hg', by simp_all, by simp_all⟩

/-! #### names -/

theorem resolveIn_not_mem (l : List (Nat × Nat)) (name dflt : Nat) (h : ∀ on ∈ l, on.2 ≠ name) :
    resolveIn l name dflt = dflt := by
  unfold resolveIn
  induction l generalizing dflt with
  | nil => rfl
  | cons a r ih =>
      simp only [List.foldl_cons]
      have ha : a.2 ≠ name := h a List.mem_cons_self
      simp only [ha, if_false]
      exact ih dflt (fun on hon => h on (List.mem_cons_of_mem _ hon))

/-- If the only entry of the table with that name belongs to `o`, the lookup gives `o`. -/
theorem resolveIn_unique (l : List (Nat × Nat)) (name o : Nat) (hmem : (o, name) ∈ l)
    (huniq : ∀ on ∈ l, on.2 = name → on.1 = o) : ∀ dflt, resolveIn l name dflt = o := by
  unfold resolveIn
  induction l with
  | nil => simp at hmem
  | cons a r ih =>
      intro dflt
      simp only [List.foldl_cons]
      by_cases hr : (o, name) ∈ r
      · exact ih hr (fun on hon => huniq on (List.mem_cons_of_mem _ hon)) _
      · have ha : a = (o, name) := by
          rcases List.mem_cons.1 hmem with h | h
          · exact h.symm
          · exact absurd h hr
        subst ha
        simp only [if_true]
        have hnone : ∀ on ∈ r, on.2 ≠ name := by
          intro on hon hn
          have := huniq on (List.mem_cons_of_mem _ hon) hn
          have : on = (o, name) := by cases on; simp_all
          exact hr (this ▸ hon)
        exact resolveIn_not_mem r name o hnone

theorem mem_nameTable {mods : List Mod} {on : Nat × Nat} (h : on ∈ nameTable mods) :
    on.1 ∈ chain mods ∧ on.2 = (mods.getD (on.1 - 1) dfltMod).nameId := by
  simp only [nameTable, List.mem_map] at h
  obtain ⟨o, ho, rfl⟩ := h
  exact ⟨ho, rfl⟩

theorem getD_nameId_inj {mods : List Mod} (hN : NamesDistinct mods) {i j : Nat} (hi : i < mods.length)
    (hj : j < mods.length) (h : (mods.getD i dfltMod).nameId = (mods.getD j dfltMod).nameId) : i = j := by
  have hp := hN.1
  rw [List.pairwise_map] at hp
  rcases Nat.lt_trichotomy i j with hlt | heq | hgt
  · exfalso
    have := (List.pairwise_iff_getElem.1 hp) i j hi hj hlt
    simp only [List.getD_eq_getElem?_getD, List.getElem?_eq_getElem hi, List.getElem?_eq_getElem hj,
      Option.getD_some] at h
    exact this h
  · exact heq
  · exfalso
    have := (List.pairwise_iff_getElem.1 hp) j i hj hi hgt
    simp only [List.getD_eq_getElem?_getD, List.getElem?_eq_getElem hi, List.getElem?_eq_getElem hj,
      Option.getD_some] at h
    exact this h.symm

theorem getD_nameId_ge {mods : List Mod} (hN : NamesDistinct mods) {i : Nat} (hi : i < mods.length) :
    2 ≤ (mods.getD i dfltMod).nameId := by
  have : mods.getD i dfltMod ∈ mods := by
    simp only [List.getD_eq_getElem?_getD, List.getElem?_eq_getElem hi, Option.getD_some]
    exact List.getElem_mem hi
  exact hN.2 _ this

/-- With distinct module names (none of them `sim` / `people`) every function is scheduled on its own entry:
    `owner = clock` for the sim's and the modules' functions, `owner = people` (clock = sim) for `people.*`. -/
theorem schedOwner_distinct {mods : List Mod} (hN : NamesDistinct mods) {r : Row} {o : Nat}
    (ho : o ∈ rowOwners mods r) : schedOwner mods r o = o ∨ (schedOwner mods r o = mods.length + 1 ∧ o = 0) := by
  have hres : ∀ (name : Nat), name < 2 → ∀ d, resolveIn (nameTable mods) name d = d := by
    intro name hn d
    apply resolveIn_not_mem
    intro on hon heq
    obtain ⟨hc, hnm⟩ := mem_nameTable hon
    have hb := mem_chain hc
    have := getD_nameId_ge hN (i := on.1 - 1) (by omega)
    omega
  rcases rowOwners_class ho with ⟨hcls, h0⟩ | ⟨hcls, h1, hch⟩
  · subst h0
    unfold contIsSim at hcls
    unfold schedOwner
    split at hcls <;> simp_all
  · have hb := mem_chain hch
    left
    have : schedOwner mods r o = resolveIn (nameTable mods) (mods.getD (o - 1) dfltMod).nameId o := by
      unfold contIsSim at hcls
      unfold schedOwner
      split at hcls <;> simp_all
    rw [this]
    apply resolveIn_unique
    · simp only [nameTable, List.mem_map]; exact ⟨o, hch, rfl⟩
    · intro on hon heq
      obtain ⟨hc, hnm⟩ := mem_nameTable hon
      have hb' := mem_chain hc
      have := getD_nameId_inj hN (i := on.1 - 1) (j := o - 1) (by omega) (by omega) (by rw [← hnm, heq])
      omega

theorem collect_sched {table : List Row} {mods : List Mod} (hN : NamesDistinct mods) :
    ∀ f ∈ collect table mods, f.owner = f.clock ∨ (f.owner = mods.length + 1 ∧ f.clock = 0) := by
  intro f hf
  obtain ⟨⟨r, hr, ho, hck, _, _⟩, _⟩ := mem_numberFrom hf
  unfold collectRaw at hr
  obtain ⟨ri, _, hr'⟩ := List.mem_flatMap.1 hr
  simp only [rowFuncs, List.mem_map] at hr'
  obtain ⟨o, hoo, rfl⟩ := hr'
  simp only at ho hck
  rw [ho, hck]
  exact schedOwner_distinct hN hoo

/-- …hence `Aligned`, when the `people` entry holds the sim's time vector. -/
theorem collect_aligned {table : List Row} {mods : List Mod} (hN : NamesDistinct mods) (T : Times)
    (hP : T.npts (mods.length + 1) = T.npts 0 ∧ ∀ k, k < T.npts 0 → T.tv (mods.length + 1) k = T.tv 0 k) :
    Aligned T (collect table mods) := by
  intro f hf
  rcases collect_sched hN f hf with h | ⟨h1, h2⟩
  · rw [h]; exact ⟨rfl, fun _ _ => rfl⟩
  · rw [h1, h2]; exact ⟨hP.1, fun k hk => hP.2 k (hP.1 ▸ hk)⟩

theorem alignedB_sound {T : Times} {fl : List Func} (h : alignedB T fl = true) : Aligned T fl := by
  simp only [alignedB, List.all_eq_true, Bool.and_eq_true, beq_iff_eq, List.mem_range] at h
  intro f hf
  exact ⟨(h f hf).1, fun k hk => (h f hf).2 k hk⟩

end StarsimModel.Loop
