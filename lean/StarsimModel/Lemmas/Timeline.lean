/-
Lemmas about Model/Timeline.lean for C07: the exact grid (length, spacing, order, floor bounds), `round_tvec`
(round-half-even moves a value by at most half a unit and fixes whole multiples of `time_eps`), and `sc.daterange`
(chain property, closed form and length for whole-day steps, month stepping).
Field reasoning over `Rat` uses Mathlib's ordered-field instance and `ring` / `linarith` / `field_simp`.
-/
import StarsimModel.Model.Timeline
import StarsimModel.Lemmas.Calendar
import Mathlib.Algebra.Order.Field.Rat
import Mathlib.Tactic.Ring
import Mathlib.Tactic.Linarith
import Mathlib.Tactic.FieldSimp

namespace StarsimModel.Timeline
open StarsimModel StarsimModel.Calendar

/-! ### the exact grid -/

theorem grid_length (a dt : Rat) (n : Nat) : (grid a dt n).length = n := by simp [grid]

theorem grid_getElem (a dt : Rat) (n i : Nat) (h : i < (grid a dt n).length) :
    (grid a dt n)[i] = a + (i : Rat) * dt := by simp [grid]

theorem grid_pairwise (a dt : Rat) (n : Nat) (hdt : 0 < dt) : (grid a dt n).Pairwise (· < ·) := by
  rw [List.pairwise_iff_getElem]
  intro i j hi hj hij
  rw [grid_getElem, grid_getElem]
  have : (i : Rat) < (j : Rat) := by exact_mod_cast hij
  nlinarith

theorem floor_bounds (a b dt : Rat) (hdt : 0 < dt) :
    a + (((b - a) / dt).floor : Rat) * dt ≤ b ∧ b < a + (((b - a) / dt).floor : Rat) * dt + dt := by
  have h1 := Rat.floor_le ((b - a) / dt)
  have h2 := Rat.lt_floor_add_one ((b - a) / dt)
  rw [le_div_iff₀ hdt] at h1
  rw [div_lt_iff₀ hdt] at h2
  push_cast at h2
  constructor <;> linarith

theorem floor_nonneg (a b dt : Rat) (hdt : 0 < dt) (hab : a ≤ b) : 0 ≤ ((b - a) / dt).floor := by
  rw [Rat.le_floor_iff]
  have : 0 ≤ b - a := by linarith
  simpa using div_nonneg this hdt.le

/-! ### rounding -/

/-! rounding -/
theorem rheNat_one (n : Nat) : F64.rheNat n 1 = n := by
  simp [F64.rheNat, Nat.mod_one]

theorem rhe_intCast (k : Int) : F64.rhe (k : Rat) = k := by
  unfold F64.rhe
  simp only [Rat.num_intCast, Rat.den_intCast, rheNat_one]
  split <;> omega

theorem pow10_pos : (0 : Rat) < pow10 := by
  unfold pow10
  exact_mod_cast Nat.pos_of_ne_zero (by positivity)

/-- a value that is a whole number of `time_eps` is left unchanged by `round_tvec` -/
theorem round6_exact (x : Rat) (k : Int) (h : x * pow10 = (k : Rat)) : round6 x = x := by
  unfold round6
  rw [h, rhe_intCast]
  have := pow10_pos
  field_simp
  linarith

theorem rheNat_bound (n d : Nat) (hd : 0 < d) :
    2 * (F64.rheNat n d * d) ≤ 2 * n + d ∧ 2 * n ≤ 2 * (F64.rheNat n d * d) + d := by
  unfold F64.rheNat
  have h := Nat.div_add_mod n d
  have hr := Nat.mod_lt n hd
  simp only
  split
  · rw [Nat.mul_comm (n / d) d]; omega
  · split
    · rw [Nat.add_mul, Nat.mul_comm (n / d) d]; omega
    · split
      · rw [Nat.mul_comm (n / d) d]; omega
      · rw [Nat.add_mul, Nat.mul_comm (n / d) d]; omega

theorem close_of_bounds (R q n d : Rat) (hd : 0 < d) (hq : q * d = n)
    (c1 : 2 * (R * d) ≤ 2 * n + d) (c2 : 2 * n ≤ 2 * (R * d) + d) : |R - q| ≤ 1 / 2 := by
  rw [abs_le]
  constructor
  · by_contra hc
    have : 0 < (-(1 / 2) - (R - q)) * d := mul_pos (by linarith) hd
    nlinarith
  · by_contra hc
    have : 0 < ((R - q) - 1 / 2) * d := mul_pos (by linarith) hd
    nlinarith

/-- round-half-even moves a value by at most one half -/
theorem rhe_close (q : Rat) : |(F64.rhe q : Rat) - q| ≤ 1 / 2 := by
  have hd : (0 : Rat) < (q.den : Rat) := by exact_mod_cast q.den_pos
  have hq : q * (q.den : Rat) = (q.num : Rat) := Rat.mul_den_eq_num q
  unfold F64.rhe
  split
  · rename_i h
    obtain ⟨b1, b2⟩ := rheNat_bound q.num.toNat q.den q.den_pos
    have hn : ((q.num.toNat : Nat) : Rat) = (q.num : Rat) := by
      have : ((q.num.toNat : Nat) : Int) = q.num := Int.toNat_of_nonneg h
      exact_mod_cast this
    have c1 : (2 : Rat) * ((F64.rheNat q.num.toNat q.den : Rat) * q.den) ≤ 2 * q.num + q.den := by
      rw [← hn]; exact_mod_cast b1
    have c2 : (2 : Rat) * q.num ≤ 2 * ((F64.rheNat q.num.toNat q.den : Rat) * q.den) + q.den := by
      rw [← hn]; exact_mod_cast b2
    push_cast
    exact close_of_bounds _ q _ _ hd hq c1 c2
  · rename_i h
    obtain ⟨b1, b2⟩ := rheNat_bound (-q.num).toNat q.den q.den_pos
    have hn : (((-q.num).toNat : Nat) : Rat) = -(q.num : Rat) := by
      have : (((-q.num).toNat : Nat) : Int) = -q.num := Int.toNat_of_nonneg (by omega)
      exact_mod_cast this
    have c1 : (2 : Rat) * ((F64.rheNat (-q.num).toNat q.den : Rat) * q.den) ≤ 2 * (-(q.num : Rat)) + q.den := by
      rw [← hn]; exact_mod_cast b1
    have c2 : (2 : Rat) * (-(q.num : Rat)) ≤ 2 * ((F64.rheNat (-q.num).toNat q.den : Rat) * q.den) + q.den := by
      rw [← hn]; exact_mod_cast b2
    push_cast
    have := close_of_bounds (F64.rheNat (-q.num).toNat q.den : Rat) (-q) (-(q.num : Rat)) _ hd (by rw [neg_mul, hq]) c1 c2
    rw [abs_le] at this ⊢
    constructor <;> linarith [this.1, this.2]

/-! ### `sc.daterange` -/

theorem addDays_nat (t : Date) (k : Nat) : t.addDays (k : Int) = fromOrdinal (toOrdinal t + k) := by
  unfold Date.addDays
  congr 1

theorem toOrdinal_pos (t : Date) : 1 ≤ toOrdinal t ∨ t.d = 0 := by
  unfold toOrdinal; omega

theorem toOrdinal_pos_of_valid (t : Date) (h : t.valid = true) : 1 ≤ toOrdinal t := by
  rw [valid_iff] at h; unfold toOrdinal; omega

theorem addDays_valid (t : Date) (k : Nat) (h : t.valid = true) : (t.addDays (k : Int)).valid = true := by
  rw [addDays_nat]
  exact (toOrdinal_fromOrdinal _ (by have := toOrdinal_pos_of_valid t h; omega)).1

theorem toOrdinal_addDays (t : Date) (k : Nat) (h : t.valid = true) :
    toOrdinal (t.addDays (k : Int)) = toOrdinal t + k := by
  rw [addDays_nat]
  exact (toOrdinal_fromOrdinal _ (by have := toOrdinal_pos_of_valid t h; omega)).2

/-- every element after the first is the step applied to its predecessor; nothing lies after `stop` -/
theorem dateRange_step (step : Date → Date) (stop : Date) :
    ∀ (fuel : Nat) (cur : Date) (i : Nat) (h : i + 1 < (dateRange step stop fuel cur).length),
      (dateRange step stop fuel cur)[i + 1] = step ((dateRange step stop fuel cur)[i]'(by omega)) := by
  intro fuel
  induction fuel with
  | zero => intro cur i h; simp [dateRange] at h
  | succ f ih =>
      intro cur i h
      unfold dateRange at h ⊢
      split
      · rename_i hle
        simp only [hle, if_true, List.length_cons] at h
        cases i with
        | zero =>
            simp only [List.getElem_cons_succ, List.getElem_cons_zero]
            have hlen : 0 < (dateRange step stop f (step cur)).length := by omega
            revert hlen
            cases f with
            | zero => simp [dateRange]
            | succ f' =>
                unfold dateRange
                split
                · simp
                · simp
        | succ j =>
            simp only [List.getElem_cons_succ]
            exact ih (step cur) j (by omega)
      · rename_i hle
        simp [hle] at h

theorem dateRange_head (step : Date → Date) (stop : Date) (fuel : Nat) (cur : Date)
    (h : 0 < (dateRange step stop fuel cur).length) : (dateRange step stop fuel cur)[0] = cur := by
  cases fuel with
  | zero => simp [dateRange] at h
  | succ f =>
      unfold dateRange at h ⊢
      split
      · simp
      · rename_i hle; simp [hle] at h

theorem dateRange_le_stop (step : Date → Date) (stop : Date) :
    ∀ (fuel : Nat) (cur : Date), ∀ d ∈ dateRange step stop fuel cur, toOrdinal d ≤ toOrdinal stop := by
  intro fuel
  induction fuel with
  | zero => intro cur d hd; simp [dateRange] at hd
  | succ f ih =>
      intro cur d hd
      unfold dateRange at hd
      split at hd
      · rename_i hle
        rcases List.mem_cons.1 hd with rfl | hd
        · exact hle
        · exact ih _ d hd
      · simp at hd

/-- closed form for whole-day steps: point `i` is exactly `i·k` days after the start -/
theorem dateRange_days (k : Nat) (stop : Date) :
    ∀ (fuel : Nat) (cur : Date) (hv : cur.valid = true) (i : Nat)
      (h : i < (dateRange (fun d => d.addDays (k : Int)) stop fuel cur).length),
      (dateRange (fun d => d.addDays (k : Int)) stop fuel cur)[i] = fromOrdinal (toOrdinal cur + i * k) := by
  intro fuel
  induction fuel with
  | zero => intro cur _ i h; simp [dateRange] at h
  | succ f ih =>
      intro cur hv i h
      unfold dateRange at h ⊢
      split
      · rename_i hle
        cases i with
        | zero => simp [fromOrdinal_toOrdinal cur hv]
        | succ j =>
            simp only [hle, if_true, List.length_cons] at h
            simp only [List.getElem_cons_succ]
            rw [ih (cur.addDays (k : Int)) (addDays_valid cur k hv) j (by omega), toOrdinal_addDays cur k hv]
            congr 1
            rw [Nat.add_mul]; omega
      · rename_i hle; simp [hle] at h

/-- number of points of a whole-day-step range: `⌊(stop − start)/k⌋ + 1` -/
theorem dateRange_days_length (k : Nat) (hk : 1 ≤ k) (stop : Date) :
    ∀ (fuel : Nat) (cur : Date) (hv : cur.valid = true) (hf : toOrdinal stop + 1 - toOrdinal cur ≤ fuel),
      (dateRange (fun d => d.addDays (k : Int)) stop fuel cur).length =
        if toOrdinal cur ≤ toOrdinal stop then (toOrdinal stop - toOrdinal cur) / k + 1 else 0 := by
  intro fuel
  induction fuel with
  | zero =>
      intro cur _ hf
      have : ¬ toOrdinal cur ≤ toOrdinal stop := by omega
      simp [dateRange, this]
  | succ f ih =>
      intro cur hv hf
      unfold dateRange
      by_cases hle : toOrdinal cur ≤ toOrdinal stop
      · simp only [hle, if_true, List.length_cons]
        rw [ih (cur.addDays (k : Int)) (addDays_valid cur k hv) (by rw [toOrdinal_addDays cur k hv]; omega),
          toOrdinal_addDays cur k hv]
        by_cases h2 : toOrdinal cur + k ≤ toOrdinal stop
        · rw [if_pos h2]
          have : (toOrdinal stop - toOrdinal cur) / k = (toOrdinal stop - (toOrdinal cur + k)) / k + 1 := by
            rw [Nat.div_eq (toOrdinal stop - toOrdinal cur) k, if_pos ⟨by omega, by omega⟩]
            congr 2; omega
          omega
        · rw [if_neg h2]
          have : (toOrdinal stop - toOrdinal cur) / k = 0 := Nat.div_eq_of_lt (by omega)
          omega
      · simp [hle]

theorem monthIndex_addMonths (t : Date) (k : Nat) (hm1 : 1 ≤ t.m) (hm : t.m ≤ 12) :
    monthIndex (addMonths t k) = monthIndex t + k ∧
    (addMonths t k).d = min t.d (monthLen (addMonths t k).y (addMonths t k).m) ∧
    1 ≤ (addMonths t k).m ∧ (addMonths t k).m ≤ 12 := by
  unfold monthIndex addMonths
  simp only
  refine ⟨by omega, trivial, by omega, by omega⟩


/-! ### `Time.update` -/

theorem pick_idem {α} (f : Force) (hf : f ≠ .parent) (cur kw par : Option α) :
    pick f (pick f cur kw par none) kw par none = pick f cur kw par none := by
  cases f <;> cases cur <;> cases kw <;> cases par <;> simp_all [pick, ifelse]

end StarsimModel.Timeline
