/-
Helper lemmas for the C12 theorems about Model/Transmission.lean.

Part 1 ("spec lemmas") pins down what the functions regenerated from the Python source compute.  They are proved
by `ring` / `linarith`, so they survive a reordering of factors in the source but stop elaborating when a factor
is dropped, doubled or taken from the wrong agent.
-/
import StarsimModel.Model.Transmission
import Mathlib.Tactic.Ring
import Mathlib.Tactic.Linarith
import Mathlib.Algebra.Order.Field.Rat

namespace StarsimModel.Transmission

/-! ### Part 1: the regenerated arithmetic -/

theorem gen_effTrans (su i rs rt : Rat) : Gen.effTrans su i rs rt = i * rt := by
  unfold Gen.effTrans; ring

theorem gen_effSus (su i rs rt : Rat) : Gen.effSus su i rs rt = su * rs := by
  unfold Gen.effSus; ring

theorem gen_transmits (rt rs : Nat → Rat) (s t : Nat) (b r : Rat) :
    Gen.transmits rt rs s t b r = decide (r < rt s * rs t * b) := by
  unfold Gen.transmits
  apply decide_eq_decide.mpr
  constructor <;> intro h <;> linarith

theorem gen_netBetaPlain (eb β : Rat) : Gen.netBetaPlain eb β = eb * β := by
  unfold Gen.netBetaPlain; ring

theorem gen_netBetaSexual (eb β : Rat) (n : Nat) : Gen.netBetaSexual eb β n = eb * (1 - (1 - β) ^ n) := by
  unfold Gen.netBetaSexual; ring

theorem gen_poolTransTerm (i rt : Rat) : Gen.poolTransTerm i rt = i * rt := by
  unfold Gen.poolTransTerm; ring

theorem gen_poolAcq (c su rs : Rat) : Gen.poolAcq c su rs = c * su * rs := by
  unfold Gen.poolAcq; ring

theorem gen_poolP (b t a : Rat) : Gen.poolP b t a = b * t * a := by
  unfold Gen.poolP; ring

theorem gen_bernoulliAccept (r p : Rat) : Gen.bernoulliAccept r p = decide (r < p) := by
  unfold Gen.bernoulliAccept
  apply decide_eq_decide.mpr
  constructor <;> intro h <;> linarith


/-! ### Group selectors (`AgeGroup.__call__`) -/

theorem gen_ageGroupInLow (a low : Rat) : Gen.ageGroupInLow a low = decide (low ≤ a) := by
  unfold Gen.ageGroupInLow
  apply decide_eq_decide.mpr
  constructor <;> intro h <;> linarith

theorem gen_ageGroupInHigh (a high : Rat) : Gen.ageGroupInHigh a high = decide (a < high) := by
  unfold Gen.ageGroupInHigh
  apply decide_eq_decide.mpr
  constructor <;> intro h <;> linarith

/-- a group constructed with `do_cache=False` is recomputed on every call, whatever its cache holds -/
theorem gen_recompute_nocache (tc ti : Int) (un : Bool) : Gen.ageGroupRecompute false tc ti un = true := by
  cases un <;> simp [Gen.ageGroupRecompute]

/-- a cache taken on another step is never reused -/
theorem gen_recompute_stale (dc : Bool) {tc ti : Int} (un : Bool) (h : tc ≠ ti) :
    Gen.ageGroupRecompute dc tc ti un = true := by
  cases dc <;> cases un <;> simp [Gen.ageGroupRecompute, h]

theorem mem_members {low : Rat} {high : Option Rat} {p : People} {u : Nat} :
    u ∈ members low high p ↔ u ∈ p.auids ∧ low ≤ p.age u ∧ ∀ h, high = some h → p.age u < h := by
  unfold members inBand
  cases high with
  | none => simp [gen_ageGroupInLow]
  | some h => simp [gen_ageGroupInLow, gen_ageGroupInHigh]

theorem call_low (g : AgeGroup) (ti : Int) (p : People) : (g.call ti p).1.low = g.low := by
  unfold AgeGroup.call; split <;> rfl

theorem call_high (g : AgeGroup) (ti : Int) (p : People) : (g.call ti p).1.high = g.high := by
  unfold AgeGroup.call; split <;> rfl

theorem call_doCache (g : AgeGroup) (ti : Int) (p : People) : (g.call ti p).1.doCache = g.doCache := by
  unfold AgeGroup.call; split <;> rfl

/-- The cache invariant: never used yet (stamp below every step), or holding the membership of the stamped step. -/
def AgeGroup.Inv (P : Int → People) (g : AgeGroup) : Prop :=
  g.tiCache < 0 ∨ g.uids = some (members g.low g.high (P g.tiCache))

/-- What a group parameter must satisfy at step `ti` for `get_uids` to return the specified group. -/
def Group.Fresh (P : Int → People) (ti : Int) : Group → Prop
  | .age g => AgeGroup.Inv P g
  | .explicit l => ∀ u ∈ l, u ∈ (P ti).auids
  | _ => True

/-! ### Part 2: per-agent factors -/

theorem b2r_ne_zero {b : Bool} : b2r b ≠ 0 ↔ b = true := by
  cases b <;> simp [b2r]

theorem b2r_nonneg (b : Bool) : 0 ≤ b2r b := by
  cases b <;> simp [b2r]

theorem effTrans_eq (s : DState) (u : Nat) : effTrans s u = b2r (s.infectious u) * s.relTrans u := by
  simp [effTrans, gen_effTrans]

theorem effSus_eq (s : DState) (u : Nat) : effSus s u = b2r (s.susceptible u) * s.relSus u := by
  simp [effSus, gen_effSus]

theorem effTrans_ne_zero {s : DState} {u : Nat} (h : effTrans s u ≠ 0) :
    s.infectious u = true ∧ s.relTrans u ≠ 0 := by
  rw [effTrans_eq] at h
  exact ⟨b2r_ne_zero.mp (left_ne_zero_of_mul h), right_ne_zero_of_mul h⟩

theorem effSus_ne_zero {s : DState} {u : Nat} (h : effSus s u ≠ 0) :
    s.susceptible u = true ∧ s.relSus u ≠ 0 := by
  rw [effSus_eq] at h
  exact ⟨b2r_ne_zero.mp (left_ne_zero_of_mul h), right_ne_zero_of_mul h⟩

/-- The probability the code compares, for edge `e` in direction `d`. -/
def pEdge (s : DState) (k : NetKind) (β : Rat) (d : Dir) (e : Edge) : Rat :=
  (b2r (s.infectious (e.src d)) * s.relTrans (e.src d)) * (b2r (s.susceptible (e.trg d)) * s.relSus (e.trg d))
    * netBeta k e β d

theorem transmitsDir_eq (s : DState) (k : NetKind) (β : Rat) (d : Dir) (e : Edge) :
    transmitsDir s k β d e = decide (e.r d < pEdge s k β d e) := by
  unfold transmitsDir pEdge
  rw [gen_transmits, effTrans_eq, effSus_eq]

/-- What a transmitting edge implies, given only that its random number is not negative. -/
theorem transmitsDir_factors {s : DState} {k : NetKind} {β : Rat} {d : Dir} {e : Edge}
    (h : transmitsDir s k β d e = true) (hr : 0 ≤ e.r d) :
    s.infectious (e.src d) = true ∧ s.relTrans (e.src d) ≠ 0 ∧
    s.susceptible (e.trg d) = true ∧ s.relSus (e.trg d) ≠ 0 ∧ netBeta k e β d ≠ 0 := by
  rw [transmitsDir_eq, decide_eq_true_eq] at h
  have hp : pEdge s k β d e ≠ 0 := ne_of_gt (lt_of_le_of_lt hr h)
  unfold pEdge at hp
  have h1 := left_ne_zero_of_mul hp
  have h3 := right_ne_zero_of_mul hp
  have ha := left_ne_zero_of_mul h1
  have hb := right_ne_zero_of_mul h1
  exact ⟨b2r_ne_zero.mp (left_ne_zero_of_mul ha), right_ne_zero_of_mul ha,
         b2r_ne_zero.mp (left_ne_zero_of_mul hb), right_ne_zero_of_mul hb, h3⟩

/-! ### Part 3: membership in the concatenated event list -/

theorem mem_dirEvents {s : DState} {i : Nat} {n : Net} {d : Dir} {ev : Event} :
    ev ∈ dirEvents s i n d ↔
      n.b d ≠ 0 ∧ ∃ e ∈ n.edges, transmitsDir s n.kind (n.b d) d e = true ∧ ev = ⟨e.trg d, e.src d, i⟩ := by
  unfold dirEvents
  by_cases hb : n.b d = 0
  · simp [hb]
  · simp only [hb, ↓reduceIte, List.mem_map, List.mem_filter, ne_eq, not_false_eq_true, true_and]
    constructor
    · rintro ⟨e, ⟨he, ht⟩, rfl⟩; exact ⟨e, he, ht, rfl⟩
    · rintro ⟨e, he, ht, rfl⟩; exact ⟨e, ⟨he, ht⟩, rfl⟩

theorem mem_netEvents {s : DState} {i : Nat} {n : Net} {ev : Event} :
    ev ∈ netEvents s i n ↔ n.active = true ∧ ∃ d, ev ∈ dirEvents s i n d := by
  unfold netEvents
  by_cases ha : n.active = true
  · simp only [ha, ↓reduceIte, List.mem_append, true_and]
    constructor
    · rintro (h | h)
      · exact ⟨.fwd, h⟩
      · exact ⟨.bwd, h⟩
    · rintro ⟨d, h⟩
      cases d
      · exact Or.inl h
      · exact Or.inr h
  · simp [ha]

theorem mem_eventsFrom {s : DState} {ev : Event} : ∀ {nets : List Net} {i : Nat},
    ev ∈ eventsFrom s i nets ↔ ∃ j n, nets[j]? = some n ∧ ev ∈ netEvents s (i + j) n := by
  intro nets
  induction nets with
  | nil => intro i; simp [eventsFrom]
  | cons n ns ih =>
    intro i
    simp only [eventsFrom, List.mem_append, ih]
    constructor
    · rintro (h | ⟨j, m, hj, hm⟩)
      · exact ⟨0, n, by simp, by simpa using h⟩
      · refine ⟨j + 1, m, by simpa using hj, ?_⟩
        have : i + (j + 1) = i + 1 + j := by omega
        rw [this]; exact hm
    · rintro ⟨j, m, hj, hm⟩
      cases j with
      | zero =>
        simp only [List.getElem?_cons_zero, Option.some.injEq] at hj
        subst hj; left; simpa using hm
      | succ j =>
        right
        refine ⟨j, m, by simpa using hj, ?_⟩
        have : i + (j + 1) = i + 1 + j := by omega
        rw [← this]; exact hm

/-- An admissible transmission event: the shape every element of `allEvents` has. -/
def Witness (s : DState) (nets : List Net) (ev : Event) : Prop :=
  ∃ n, nets[ev.net]? = some n ∧ n.active = true ∧ ∃ d, n.b d ≠ 0 ∧ ∃ e ∈ n.edges,
    transmitsDir s n.kind (n.b d) d e = true ∧ e.src d = ev.source ∧ e.trg d = ev.target

theorem mem_allEvents {s : DState} {nets : List Net} {ev : Event} :
    ev ∈ allEvents s nets ↔ Witness s nets ev := by
  unfold allEvents Witness
  rw [mem_eventsFrom]
  constructor
  · rintro ⟨j, n, hj, hm⟩
    rw [mem_netEvents] at hm
    obtain ⟨ha, d, hd⟩ := hm
    rw [mem_dirEvents] at hd
    obtain ⟨hb, e, he, ht, rfl⟩ := hd
    exact ⟨n, by simpa using hj, ha, d, hb, e, he, ht, rfl, rfl⟩
  · rintro ⟨n, hj, ha, d, hb, e, he, ht, hs, htg⟩
    refine ⟨ev.net, n, hj, ?_⟩
    rw [mem_netEvents]
    refine ⟨ha, d, ?_⟩
    rw [mem_dirEvents]
    refine ⟨hb, e, he, ht, ?_⟩
    cases ev
    simp_all

/-! ### Part 4: `unique(return_index=True)` and the final order -/

theorem mem_keepFirst_iff (x : Event) : ∀ l : List Event,
    x ∈ keepFirst l ↔ l.find? (fun y => decide (y.target = x.target)) = some x := by
  intro l
  induction l with
  | nil => simp [keepFirst]
  | cons e es ih =>
    simp only [keepFirst, List.mem_cons, List.mem_filter, List.find?_cons]
    by_cases h : e.target = x.target
    · simp only [h, decide_true]
      constructor
      · rintro (rfl | ⟨_, h2⟩)
        · rfl
        · simp at h2
      · intro h2
        left; exact (Option.some.inj h2).symm
    · have h' : ¬ x.target = e.target := fun hh => h hh.symm
      simp only [h, decide_false, ih]
      constructor
      · rintro (rfl | ⟨h1, _⟩)
        · exact absurd rfl h
        · exact h1
      · intro h1
        right; exact ⟨h1, by simp [h']⟩

theorem keepFirst_subset {x : Event} {l : List Event} (h : x ∈ keepFirst l) : x ∈ l := by
  rw [mem_keepFirst_iff] at h
  exact List.mem_of_find?_eq_some h

theorem keepFirst_target_mem {l : List Event} {t : Nat} (h : ∃ x ∈ l, x.target = t) :
    ∃ x ∈ keepFirst l, x.target = t := by
  obtain ⟨x, hx, rfl⟩ := h
  have hsome : (l.find? (fun y => decide (y.target = x.target))).isSome := by
    rw [List.find?_isSome]; exact ⟨x, hx, by simp⟩
  obtain ⟨y, hy⟩ := Option.isSome_iff_exists.mp hsome
  have hyt : y.target = x.target := by simpa using List.find?_some hy
  refine ⟨y, ?_, hyt⟩
  rw [mem_keepFirst_iff, hyt]; exact hy

theorem keepFirst_pairwise : ∀ l : List Event, (keepFirst l).Pairwise (fun a b => a.target ≠ b.target) := by
  intro l
  induction l with
  | nil => simp [keepFirst]
  | cons e es ih =>
    simp only [keepFirst, List.pairwise_cons]
    refine ⟨?_, ih.filter _⟩
    intro x hx
    simp only [List.mem_filter, ne_eq, decide_not, Bool.not_eq_eq_eq_not, Bool.not_true, decide_eq_false_iff_not] at hx
    exact fun h => hx.2 h.symm

theorem mem_insertByTarget {e x : Event} : ∀ {l : List Event}, x ∈ insertByTarget e l ↔ x = e ∨ x ∈ l := by
  intro l
  induction l with
  | nil => simp [insertByTarget]
  | cons y ys ih =>
    simp only [insertByTarget]
    by_cases h : e.target ≤ y.target
    · simp [h]
    · simp only [h, ↓reduceIte, List.mem_cons, ih]
      tauto

theorem mem_sortByTarget {x : Event} : ∀ {l : List Event}, x ∈ sortByTarget l ↔ x ∈ l := by
  intro l
  induction l with
  | nil => simp [sortByTarget]
  | cons y ys ih => simp [sortByTarget, mem_insertByTarget, ih]

theorem insertByTarget_sorted {e : Event} : ∀ {l : List Event},
    l.Pairwise (fun a b => a.target < b.target) → (∀ x ∈ l, x.target ≠ e.target) →
    (insertByTarget e l).Pairwise (fun a b => a.target < b.target) := by
  intro l
  induction l with
  | nil => intro _ _; simp [insertByTarget]
  | cons y ys ih =>
    intro hs hne
    simp only [insertByTarget]
    have hy : y.target ≠ e.target := hne y (by simp)
    rw [List.pairwise_cons] at hs
    by_cases h : e.target ≤ y.target
    · simp only [h, ↓reduceIte, List.pairwise_cons]
      have hlt : e.target < y.target := by omega
      refine ⟨?_, hs.1, hs.2⟩
      intro x hx
      rcases List.mem_cons.mp hx with rfl | hx
      · exact hlt
      · exact Nat.lt_trans hlt (hs.1 x hx)
    · simp only [h, ↓reduceIte, List.pairwise_cons]
      refine ⟨?_, ih hs.2 (fun x hx => hne x (by simp [hx]))⟩
      intro x hx
      rcases mem_insertByTarget.mp hx with rfl | hx
      · omega
      · exact hs.1 x hx

theorem sortByTarget_sorted : ∀ {l : List Event}, l.Pairwise (fun a b => a.target ≠ b.target) →
    (sortByTarget l).Pairwise (fun a b => a.target < b.target) := by
  intro l
  induction l with
  | nil => intro _; simp [sortByTarget]
  | cons y ys ih =>
    intro h
    rw [List.pairwise_cons] at h
    simp only [sortByTarget]
    refine insertByTarget_sorted (ih h.2) ?_
    intro x hx
    exact fun hh => h.1 x (mem_sortByTarget.mp hx) hh.symm

theorem mem_infect {s : DState} {nets : List Net} {ev : Event} :
    ev ∈ infect s nets ↔ (allEvents s nets).find? (fun y => decide (y.target = ev.target)) = some ev := by
  unfold infect
  rw [mem_sortByTarget, mem_keepFirst_iff]

theorem mem_infect_allEvents {s : DState} {nets : List Net} {ev : Event} (h : ev ∈ infect s nets) :
    ev ∈ allEvents s nets :=
  List.mem_of_find?_eq_some (mem_infect.mp h)

theorem target_infect_iff {s : DState} {nets : List Net} {t : Nat} :
    (∃ ev ∈ infect s nets, ev.target = t) ↔ ∃ ev ∈ allEvents s nets, ev.target = t := by
  constructor
  · rintro ⟨ev, h, ht⟩; exact ⟨ev, mem_infect_allEvents h, ht⟩
  · intro h
    obtain ⟨x, hx, hxt⟩ := keepFirst_target_mem h
    exact ⟨x, by unfold infect; exact mem_sortByTarget.mpr hx, hxt⟩

/-! ### Part 5: monotonicity of `net_beta` and of the comparison -/

theorem netBeta_mono {k : NetKind} {e : Edge} {β β' : Rat} {d : Dir} (he : 0 ≤ e.beta) (_h0 : 0 ≤ β) (hle : β ≤ β')
    (h1 : k = .sexual → β' ≤ 1) : netBeta k e β d ≤ netBeta k e β' d := by
  cases k with
  | plain =>
    simp only [netBeta, gen_netBetaPlain]
    exact mul_le_mul_of_nonneg_left hle he
  | sexual =>
    simp only [netBeta, gen_netBetaSexual]
    have hb1 : β' ≤ 1 := h1 rfl
    have hp : (1 - β') ^ e.acts ≤ (1 - β) ^ e.acts :=
      pow_le_pow_left₀ (by linarith) (by linarith) _
    exact mul_le_mul_of_nonneg_left (by linarith) he
  | raw => simp [netBeta]

theorem transmitsDir_mono {s : DState} {k : NetKind} {β β' : Rat} {d : Dir} {e : Edge}
    (hrt : 0 ≤ s.relTrans (e.src d)) (hrs : 0 ≤ s.relSus (e.trg d))
    (hnb : netBeta k e β d ≤ netBeta k e β' d) (h : transmitsDir s k β d e = true) :
    transmitsDir s k β' d e = true := by
  rw [transmitsDir_eq, decide_eq_true_eq] at *
  refine lt_of_lt_of_le h ?_
  unfold pEdge
  exact mul_le_mul_of_nonneg_left hnb
    (mul_nonneg (mul_nonneg (b2r_nonneg _) hrt) (mul_nonneg (b2r_nonneg _) hrs))

/-! ### Part 6: mixing pools -/

theorem sumRat_ne_zero : ∀ {l : List Rat}, sumRat l ≠ 0 → ∃ x ∈ l, x ≠ 0 := by
  intro l
  induction l with
  | nil => simp [sumRat]
  | cons x xs ih =>
    intro h
    by_cases hx : x = 0
    · subst hx
      simp only [sumRat, zero_add] at h
      obtain ⟨y, hy, hy0⟩ := ih h
      exact ⟨y, by simp [hy], hy0⟩
    · exact ⟨x, by simp, hx⟩

theorem mean_ne_zero {l : List Rat} (h : mean l ≠ 0) : ∃ x ∈ l, x ≠ 0 := by
  unfold mean at h
  exact sumRat_ne_zero (fun h0 => h (by rw [h0]; simp))

end StarsimModel.Transmission
